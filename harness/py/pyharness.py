#!/usr/bin/env python3
"""Correspondence harness for the pure-Python BPlusTreeMap.

  pyharness.py gen <suite> --seed S --cases N --len L --out DIR [--corpus FILE]
  pyharness.py replay FILE --out DIR

Writes DIR/ops.txt (the line protocol fed to the Lean driver), DIR/impl.txt (what the real
code answered, one line per op line), DIR/oracle.txt (implementation-vs-oracle failures,
tagged [Cxx]) and DIR/stats.json (input distribution).  All randomness comes from one
splitmix64 state derived from --seed.
"""
import sys, os, json, importlib.util, functools

REPO = os.environ.get("BPT_REPO", "/repo")

def load_impl():
    path = os.path.join(REPO, "python", "bplustree", "bplus_tree.py")
    spec = importlib.util.spec_from_file_location("bpt_pure_python", path)
    mod = importlib.util.module_from_spec(spec)
    sys.modules["bpt_pure_python"] = mod
    spec.loader.exec_module(mod)
    return mod

IMPL = load_impl()
BPlusTreeMap = IMPL.BPlusTreeMap
InvalidCapacityError = getattr(IMPL, "InvalidCapacityError", ValueError)

# ---------------------------------------------------------------- PRNG
class Rng:
    def __init__(self, seed):
        self.s = seed & 0xFFFFFFFFFFFFFFFF
    def next(self):
        self.s = (self.s + 0x9E3779B97F4A7C15) & 0xFFFFFFFFFFFFFFFF
        z = self.s
        z = ((z ^ (z >> 30)) * 0xBF58476D1CE4E5B9) & 0xFFFFFFFFFFFFFFFF
        z = ((z ^ (z >> 27)) * 0x94D049BB133111EB) & 0xFFFFFFFFFFFFFFFF
        return z ^ (z >> 31)
    def below(self, n):
        return self.next() % n if n > 0 else 0
    def chance(self, pct):
        return self.below(100) < pct
    def pick(self, xs):
        return xs[self.below(len(xs))]

# ---------------------------------------------------------------- key flavours
@functools.total_ordering
class CKey:
    """user-defined totally ordered key"""
    __slots__ = ("v",)
    def __init__(self, v): self.v = v
    def __eq__(self, o): return isinstance(o, CKey) and self.v == o.v
    def __lt__(self, o): return self.v < o.v
    def __hash__(self): return hash(("CKey", self.v))
    def __repr__(self): return f"CKey({self.v})"

OFF = 10**7
FLAVOURS = {
    "int":   (lambda k: k,                      lambda x: x),
    "str":   (lambda k: "%09d" % (k + OFF),      lambda x: int(x) - OFF),
    "tuple": (lambda k: ((k + OFF) // 7, (k + OFF) % 7), lambda x: x[0] * 7 + x[1] - OFF),
    "float": (lambda k: k * 0.5,                lambda x: int(x * 2)),
    "custom": (lambda k: CKey(k),               lambda x: x.v),
}

class EqVal:
    """a value object that compares equal to every other EqVal (and hashes alike) while carrying its own number:
    a store that is skipped because the new value `==` the old one, or any other confusion of equality with identity,
    shows as the old number where the new one is expected"""
    __slots__ = ("n",)
    def __init__(self, n): self.n = n
    def __eq__(self, o): return isinstance(o, EqVal)
    def __hash__(self): return 7
    def __repr__(self): return f"EqVal({self.n})"
VALMODE = ["plain"]
def norm(x):
    """oracle comparisons look at the numbers the EqVals carry, not at their (always true) equality"""
    if isinstance(x, EqVal): return ("ev", x.n)
    if isinstance(x, (list, tuple)): return type(x)(norm(y) for y in x)
    if isinstance(x, dict): return {k: norm(v) for k, v in x.items()}
    return x
def fv(v): return "N" if v is None else (str(v.n) if isinstance(v, EqVal) else str(v))
def pv(s):
    if s == "N": return None
    return EqVal(int(s)) if VALMODE[0] == "eq" else int(s)
def fkv(k, v): return f"{k}:{fv(v)}"
def flist(xs): return "[" + ",".join(xs) + "]"
def parse_pairs(s):
    if s == "-": return []
    out = []
    for kv in s.split(","):
        a, b = kv.split(":")
        out.append((int(a), pv(b)))
    return out
def popt(s): return None if s == "_" else int(s)

# ---------------------------------------------------------------- independent structural walk
def struct_check(t, dec):
    """C09 invariants, checked without using any code of the package"""
    errs = []
    cap = t.capacity
    mink = (cap - 1) // 2
    leaves = []
    depths = set()
    def walk(node, lo, hi, depth, is_root):
        ks = [dec(k) for k in node.keys]
        for a, b in zip(ks, ks[1:]):
            if not a < b: errs.append("keys-not-ascending")
        for k in ks:
            if lo is not None and k < lo: errs.append("key-below-bound")
            if hi is not None and k >= hi: errs.append("key-above-bound")
        if len(ks) > cap: errs.append("over-capacity")
        if not is_root and len(ks) < mink: errs.append("underfull")
        if node.is_leaf():
            if len(node.keys) != len(node.values): errs.append("keys-values-length")
            depths.add(depth)
            leaves.append(node)
        else:
            if len(node.children) != len(ks) + 1:
                errs.append("children-count")
                return
            if is_root and len(node.children) < 2: errs.append("root-one-child")
            for i, c in enumerate(node.children):
                clo = lo if i == 0 else ks[i - 1]
                chi = hi if i == len(ks) else ks[i]
                walk(c, clo, chi, depth + 1, False)
    walk(t.root, None, None, 0, True)
    if len(depths) > 1: errs.append("leaves-at-different-depths")
    # chain from the map's first leaf visits exactly the leaves in order
    chain = []
    cur = t.leaves
    seen = set()
    while cur is not None and id(cur) not in seen and len(chain) <= len(leaves) + 1:
        seen.add(id(cur)); chain.append(cur); cur = cur.next
    if len(chain) != len(leaves) or any(a is not b for a, b in zip(chain, leaves)):
        errs.append("chain-differs-from-leaves")
    return sorted(set(errs))

def dump(t, dec):
    leaves = []
    def coll(n):
        if n.is_leaf(): leaves.append(n)
        else:
            for c in n.children: coll(c)
    coll(t.root)
    pos = {id(l): i for i, l in enumerate(leaves)}
    def p(n):
        if n is None: return "_"
        return str(pos[id(n)]) if id(n) in pos else "?"
    def height(n):
        h = 0
        while not n.is_leaf():
            n = n.children[0]; h += 1
        return h
    def rec(n):
        if n.is_leaf():
            return "(L%s %s:%s >%s)" % (p(n), flist([str(dec(k)) for k in n.keys]), flist([fv(v) for v in n.values]), p(n.next))
        return "(B %s %s)" % (flist([str(dec(k)) for k in n.keys]), " ".join(rec(c) for c in n.children))
    return "cap=%d h=%d head=%s cache=%s %s" % (t.capacity, height(t.root), p(t.leaves), p(t._rightmost_leaf_cache), rec(t.root))

# ---------------------------------------------------------------- executor
class Exec:
    def __init__(self, out):
        self.out = out
        os.makedirs(out, exist_ok=True)
        self.ops = open(os.path.join(out, "ops.txt"), "w")
        self.impl = open(os.path.join(out, "impl.txt"), "w")
        self.oracle = open(os.path.join(out, "oracle.txt"), "w")
        self.stats = {"cases": 0, "ops": 0, "by_op": {}, "caps": {}, "flavours": {}, "max_height": 0, "max_leaves": 0,
                      "none_values": 0, "keyerrors": 0, "height_drops": 0, "height_grows": 0, "leaf_merges_or_collapses": 0,
                      "oracle_failures": 0, "raises": 0, "max_entries": 0}
        self.case = None
        self.reset()
    def reset(self):
        self.t = None; self.d = None; self.dead = False
        self.enc, self.dec = FLAVOURS["int"]
        VALMODE[0] = "plain"
        self.last_h = 0; self.last_leaves = 1
    def fail(self, tag, msg):
        self.stats["oracle_failures"] += 1
        self.oracle.write(f"[{tag}] case {self.case} op {self.opno}: {msg}\n"); self.oracle.flush()
    def emit(self, line, ans):
        self.ops.write(line + "\n"); self.impl.write(ans + "\n")
        self.ops.flush(); self.impl.flush()
    def after_mutation(self):
        t, d = self.t, self.d
        self.nmut = getattr(self, "nmut", 0) + 1
        if len(d) > 400 and self.nmut % 500 != 0:
            return                      # large trees: full walk only now and then (keeps the deep suite linear)
        errs = struct_check(t, self.dec)
        if errs: self.fail("C09", "invariants violated: " + ",".join(errs))
        try:
            got = [(self.dec(k), v) for k, v in t.items()]
        except Exception as e:
            self.fail("C08", f"items() raised {type(e).__name__}"); return
        want = sorted(d.items())
        if norm(got) != norm(want): self.fail("C08", f"items()={got[:8]}.. expected {want[:8]}..")
        try:
            n = len(t)
            if n != len(d): self.fail("C07", f"len={n} expected {len(d)}")
        except Exception as e:
            self.fail("C07", f"len raised {type(e).__name__}")
        # shape statistics
        h = 0; n = t.root
        while not n.is_leaf(): n = n.children[0]; h += 1
        if h < self.last_h: self.stats["height_drops"] += 1
        if h > self.last_h: self.stats["height_grows"] += 1
        self.last_h = h
        self.stats["max_height"] = max(self.stats["max_height"], h)
        lc = 0; cur = t.leaves
        while cur is not None and lc < 10**6: lc += 1; cur = cur.next
        if lc < self.last_leaves: self.stats["leaf_merges_or_collapses"] += 1
        self.last_leaves = lc
        self.stats["max_leaves"] = max(self.stats["max_leaves"], lc)
        self.stats["max_entries"] = max(self.stats["max_entries"], len(d))
    def run_line(self, line):
        ws = line.split()
        if not ws: return
        if ws[0] == "case":
            self.case = int(ws[1]); self.opno = 0; self.reset()
            self.stats["cases"] += 1
            self.emit(line, "case " + " ".join(ws[1:])); return
        if ws[0] == "flavour":            # key representation: a `cfg` line, which the model answers with `ok`
            ws = ["cfg", "flavour", ws[1]]; line = " ".join(ws)
        if ws[0] == "cfg":
            if len(ws) == 3 and ws[1] == "flavour":
                self.enc, self.dec = FLAVOURS[ws[2]]
                self.stats["flavours"][ws[2]] = self.stats["flavours"].get(ws[2], 0) + 1
            if len(ws) == 3 and ws[1] == "values":      # value representation: plain ints, or always-equal objects
                VALMODE[0] = ws[2]
                self.stats["flavours"]["values-" + ws[2]] = self.stats["flavours"].get("values-" + ws[2], 0) + 1
            self.emit(line, "ok"); return
        assert ws[0] == "P", line
        self.opno += 1
        self.stats["ops"] += 1
        op = ws[1]
        self.stats["by_op"][op] = self.stats["by_op"].get(op, 0) + 1
        if self.dead:
            self.emit(line, "dead"); return
        try:
            ans = self.do(op, ws[2:])
        except RecursionError:
            self.fail("C07", f"{op}: RecursionError"); ans = "raise"; self.dead = True
        except KeyError as e:
            raise
        except Exception as e:
            self.fail("C07", f"{op}: unexpected {type(e).__name__}: {e}"); ans = "raise"; self.dead = True
        if ans == "raise": self.stats["raises"] += 1
        if ans == "keyerror": self.stats["keyerrors"] += 1
        self.emit(line, ans)
    def cmp(self, tag, what, got, want):
        if norm(got) != norm(want): self.fail(tag, f"{what}: got {got!r} expected {want!r}")
    def do(self, op, a):
        enc, dec = self.enc, self.dec
        if op == "new":
            cap = int(a[0])
            self.stats["caps"][str(cap)] = self.stats["caps"].get(str(cap), 0) + 1
            try:
                self.t = BPlusTreeMap(capacity=cap); self.d = {}
                if cap < 4: self.fail("C07", f"capacity {cap} accepted")
                self.last_h = 0; self.last_leaves = 1
                return "ok"
            except InvalidCapacityError:
                if cap >= 4: self.fail("C07", f"capacity {cap} rejected")
                self.t = None; self.d = None
                return "err capacity"
        if op == "fromsorted":
            cap = int(a[0]); items = parse_pairs(a[1])
            self.stats["caps"][str(cap)] = self.stats["caps"].get(str(cap), 0) + 1
            try:
                self.t = BPlusTreeMap.from_sorted_items([(enc(k), v) for k, v in items], capacity=cap)
            except InvalidCapacityError:
                if cap >= 4: self.fail("C09", f"capacity {cap} rejected")
                self.t = None; self.d = None
                return "err capacity"
            if cap < 4: self.fail("C09", f"capacity {cap} accepted")
            self.d = {}
            inc = BPlusTreeMap(capacity=cap)
            for k, v in items:
                self.d[k] = v; inc[enc(k)] = v
            self.cmp("C09", "from_sorted_items contents vs incremental build", [(dec(k), v) for k, v in self.t.items()], [(dec(k), v) for k, v in inc.items()])
            self.cmp("C09", "from_sorted_items shape vs incremental build", dump(self.t, dec).split(" ", 4)[4], dump(inc, dec).split(" ", 4)[4])
            self.last_h = 0; self.last_leaves = 1
            self.after_mutation()
            return "ok"
        t, d = self.t, self.d
        if t is None: return "no-map"
        if op == "set":
            k, v = int(a[0]), pv(a[1])
            if v is None: self.stats["none_values"] += 1
            t[enc(k)] = v; d[k] = v
            self.after_mutation(); return "ok"
        if op == "del":
            k = int(a[0])
            try:
                del t[enc(k)]; got = "ok"
            except KeyError: got = "keyerror"
            try:
                del d[k]; want = "ok"
            except KeyError: want = "keyerror"
            self.cmp("C07", f"del {k}", got, want)
            self.after_mutation(); return got
        if op == "get":
            k, dflt = int(a[0]), pv(a[1])
            got = t.get(enc(k), dflt); self.cmp("C07", f"get({k},{dflt})", got, d.get(k, dflt)); return fv(got)
        if op == "getitem":
            k = int(a[0])
            try: got = fv(t[enc(k)])
            except KeyError: got = "keyerror"
            try: want = fv(d[k])
            except KeyError: want = "keyerror"
            self.cmp("C07", f"[{k}]", got, want); return got
        if op == "in":
            k = int(a[0]); got = enc(k) in t; self.cmp("C07", f"{k} in", got, k in d); return "true" if got else "false"
        if op == "len":
            got = len(t); self.cmp("C07", "len", got, len(d)); return str(got)
        if op == "bool":
            got = bool(t); self.cmp("C07", "bool", got, bool(d)); return "true" if got else "false"
        if op == "clear":
            t.clear(); d.clear(); self.last_h = 0; self.last_leaves = 1; self.after_mutation(); return "ok"
        if op == "pop":
            k = int(a[0]); args = [pv(a[1])] if len(a) > 1 else []
            try: got = fv(t.pop(enc(k), *args))
            except KeyError: got = "keyerror"
            try: want = fv(d.pop(k, *args))
            except KeyError: want = "keyerror"
            self.cmp("C07", f"pop({k})", got, want); self.after_mutation(); return got
        if op == "popitem":
            try:
                k, v = t.popitem(); got = fkv(dec(k), v)
            except KeyError: got = "keyerror"
            if d:
                mk = min(d); want = fkv(mk, d.pop(mk))
            else: want = "keyerror"
            self.cmp("C07", "popitem", got, want); self.after_mutation(); return got
        if op == "setdefault":
            k, dflt = int(a[0]), pv(a[1])
            got = t.setdefault(enc(k), dflt); self.cmp("C07", f"setdefault({k})", got, d.setdefault(k, dflt))
            self.after_mutation(); return fv(got)
        if op == "update":
            items = parse_pairs(a[0])
            ks = [k for k, _ in items]
            sorted_distinct = all(a < b for a, b in zip(ks, ks[1:]))
            # a mapping argument that is itself a tree is iterated in key order: only usable when the line is in that order
            mode = 2 if (sorted_distinct and self.opno % 2 == 0) else self.opno % 2
            if mode == 0: t.update({enc(k): v for k, v in items})
            elif mode == 1: t.update([(enc(k), v) for k, v in items])
            else:
                other = BPlusTreeMap(capacity=4)
                for k, v in items: other[enc(k)] = v
                t.update(other)
            if mode == 1:
                for k, v in items: d[k] = v
            else:
                d.update(dict(items))
            self.after_mutation(); return "ok"
        if op == "copy":
            c = t.copy()
            self.cmp("C07", "copy contents", [(dec(k), v) for k, v in c.items()], sorted(d.items()))
            if c.capacity != t.capacity: self.fail("C07", "copy capacity differs")
            # independence: mutate the original, the copy must not change, and vice versa
            before = dump(c, dec)
            probe = enc(987654)
            t[probe] = 1; del t[probe]
            if d:
                mk = min(d); old = d[mk]; t[enc(mk)] = 424242
                if dict((dec(k), v) for k, v in c.items()).get(mk) != old: self.fail("C07", "copy shares state with the original")
                t[enc(mk)] = old
            if dump(c, dec) != before: self.fail("C07", "copy changed when the original was mutated")
            self.t = c
            self.last_h = 0; self.last_leaves = 1
            self.after_mutation(); return "ok"
        if op in ("items", "keys", "values", "range"):
            lo, hi = popt(a[0]), popt(a[1])
            elo = None if lo is None else enc(lo); ehi = None if hi is None else enc(hi)
            want = [(k, v) for k, v in sorted(d.items()) if (lo is None or lo <= k) and (hi is None or k < hi)]
            if op == "keys":
                got = [dec(k) for k in t.keys(elo, ehi)]; self.cmp("C08", f"keys({lo},{hi})", got, [k for k, _ in want]); return flist([str(k) for k in got])
            if op == "values":
                got = list(t.values(elo, ehi)); self.cmp("C08", f"values({lo},{hi})", got, [v for _, v in want]); return flist([fv(v) for v in got])
            it = t.items(elo, ehi) if op == "items" else t.range(elo, ehi)
            got = [(dec(k), v) for k, v in it]; self.cmp("C08", f"{op}({lo},{hi})", got, want)
            return flist([fkv(k, v) for k, v in got])
        if op == "leafcount": return str(t.leaf_count())
        if op == "nodecount": return str(t._count_total_nodes())
        if op == "dump": return dump(t, dec)
        raise ValueError("bad op " + op)
    def close(self):
        for f in (self.ops, self.impl, self.oracle): f.close()
        with open(os.path.join(self.out, "stats.json"), "w") as f: json.dump(self.stats, f, indent=1, sort_keys=True)

# ---------------------------------------------------------------- generators
def rand_val(r):
    return "N" if r.chance(8) else str(r.below(1000))

def gen_case_ops(r, n, ex, kind):
    """yield op lines; `shadow` is a dict mirror used only to pick present/absent keys"""
    caps = [4, 4, 4, 5, 5, 6, 6, 7, 8, 9, 16, 4 + r.below(30)]
    cap = r.pick(caps)
    flav = r.pick(["int", "int", "str", "tuple", "float", "custom"])
    yield f"flavour {flav}"
    if r.chance(20): yield "cfg values eq"
    if r.chance(6):
        bad = r.below(4)
        yield f"P new {bad}"
        yield "P len"
    shadow = {}
    universe = r.pick([6, 12, 12, 24, 40, 80, 200]) if kind != "range" else r.pick([12, 24, 60])
    lo = -universe // 3
    def key(present=None):
        if present and shadow: return r.pick(sorted(shadow))
        return lo + r.below(universe)
    if kind == "range" or r.chance(25):
        m = r.below(3 * cap + 8)
        ks = sorted(lo + r.below(universe) for _ in range(m))
        if not r.chance(30): ks = sorted(set(ks))          # mostly distinct, sometimes with repeats
        items = [(k, rand_val(r)) for k in ks]
        yield f"P fromsorted {cap} " + (",".join(f"{k}:{v}" for k, v in items) if items else "-")
        for k, v in items: shadow[k] = v
        yield "P dump"
    else:
        yield f"P new {cap}"
    phase_grow = True
    i = 0
    while i < n:
        i += 1
        if r.chance(4): phase_grow = not phase_grow
        x = r.below(100)
        mut = True
        if kind == "range" and x < 60:
            a = r.pick(["_", str(key()), str(key(True)), str(lo - 5), str(lo + universe + 5)])
            b = r.pick(["_", str(key()), str(key(True)), str(lo - 5), str(lo + universe + 5)])
            yield f"P {r.pick(['items', 'items', 'keys', 'values', 'range'])} {a} {b}"
            mut = False
        elif x < (45 if phase_grow else 15):
            k = key(r.chance(20)); v = rand_val(r); shadow[k] = v
            yield f"P set {k} {v}"
        elif x < (60 if phase_grow else 55):
            k = key(r.chance(85)); shadow.pop(k, None)
            yield f"P del {k}"
        elif x < 66:
            k = key(r.chance(60))
            # a default that IS the stored value (identity / None sentinels) now and then
            dv = shadow[k] if (k in shadow and r.chance(30)) else rand_val(r)
            yield f"P get {k} {dv}"; mut = False
        elif x < 70:
            yield f"P getitem {key(r.chance(60))}"; mut = False
        elif x < 73:
            yield f"P in {key(r.chance(50))}"; mut = False
        elif x < 76:
            yield f"P {r.pick(['len', 'bool', 'leafcount', 'nodecount'])}"; mut = False
        elif x < 80:
            k = key(r.chance(60))
            if r.chance(50): yield f"P pop {k}"
            else:
                dv = shadow[k] if (k in shadow and r.chance(35)) else rand_val(r)
                yield f"P pop {k} {dv}"
                yield f"P in {k}"
            shadow.pop(k, None)
        elif x < 84:
            yield "P popitem"
            if shadow: shadow.pop(min(shadow))
        elif x < 87:
            k = key(r.chance(50)); v = shadow[k] if (k in shadow and r.chance(20)) else rand_val(r); shadow.setdefault(k, v)
            yield f"P setdefault {k} {v}"
        elif x < 90:
            m = r.below(6)
            items = [(key(), rand_val(r)) for _ in range(m)]
            if r.chance(40): items = sorted(dict(items).items())
            for k, v in items: shadow[k] = v
            yield "P update " + (",".join(f"{k}:{v}" for k, v in items) if items else "-")
        elif x < 92:
            yield "P copy"
        elif x < 93:
            yield "P clear"; shadow.clear()
        else:
            a = r.pick(["_", str(key()), str(key(True))]); b = r.pick(["_", str(key()), str(key(True))])
            yield f"P {r.pick(['items', 'keys', 'values', 'range'])} {a} {b}"; mut = False
        if mut and (n <= 80 or r.chance(15)):
            yield "P dump"
    yield "P dump"
    yield "P len"
    yield "P items _ _"

def gen_reuse(r, n):
    """state carried across reuse of one tree object: (A) bulk load, drain to empty through individual deletions,
    refill through update() with larger keys; (B) copy(), move the copy's rightmost leaf (append until it splits,
    or delete at the right end until it merges), update() the copy from another tree with larger keys.
    update lines are emitted twice: the harness passes a dict / list / tree argument depending on the parity of
    the call number, and the second, idempotent call takes the other kind."""
    cap = r.pick([4, 5, 5, 6, 7, 8, 9])
    yield f"flavour {r.pick(['int', 'int', 'str', 'custom'])}"
    m = cap * r.pick([2, 3, 5]) + r.below(cap)
    base = [(2 * i, i % 9 + 1) for i in range(m)]
    def pairs(items): return ",".join(f"{k}:{v}" for k, v in items) if items else "-"
    if r.chance(50):
        yield f"P fromsorted {cap} " + pairs(base)
    else:
        yield f"P new {cap}"
        yield "P update " + pairs(base)
        yield "P update " + pairs(base)
    yield "P dump"
    top = 2 * m
    for round_ in range(2 + r.below(3)):
        if r.chance(50):
            # (A) drain completely, one entry at a time
            keys = [k for k, _ in base]
            order = r.below(4)
            if order == 1: keys.reverse()
            elif order == 2: keys = keys[::2] + keys[1::2]
            for k in keys:
                yield f"P {r.pick(['del', 'del', 'pop'])} {k}" if order != 3 else "P popitem"
            yield "P len"
            yield "P dump"
            base = [(top + 2 * i, i % 7 + 1) for i in range(cap * 2 + r.below(2 * cap))]
            top += 2 * len(base)
            yield "P update " + pairs(base)
            yield "P update " + pairs(base)
        else:
            # (B) copy, move the right edge of the copy, update it from a tree
            yield "P copy"
            if r.chance(60):
                extra = [(top + 2 * i, 3) for i in range(cap + 1 + r.below(cap))]
                top += 2 * len(extra)
                for k, v in extra: yield f"P set {k} {v}"
                base = base + extra
            else:
                cut = min(len(base) - 1, cap + r.below(cap))
                for k, _ in reversed(base[len(base) - cut:]): yield f"P del {k}"
                base = base[:len(base) - cut]
            yield "P dump"
            more = [(top + 2 * i, 5) for i in range(2 + r.below(2 * cap))]
            top += 2 * len(more)
            yield "P update " + pairs(more)
            yield "P update " + pairs(more)
            base = base + more
        yield "P dump"
        yield "P len"
        yield "P items _ _"
        for k, _ in base[-(cap + 2):]:
            yield f"P in {k}"
            yield f"P getitem {k}"
        yield f"P keys {base[0][0]} {base[-1][0] + 1}" if base else "P keys _ _"
    if r.chance(40):
        # (C) clear(), then a refill far beyond any node size a constructor default could give (128), a drain of
        # the small keys and popitem(): whatever clear() rebuilt must behave like a fresh tree of THIS capacity
        yield "P clear"
        yield "P dump"
        big = 131 + r.below(150)
        for i in range(big): yield f"P set {top + 2 * i} {i % 6 + 1}"
        yield "P dump"
        yield "P len"
        drain = big // 2 + 2 + r.below(8)
        for i in range(drain): yield f"P del {top + 2 * i}"
        for _ in range(3): yield "P popitem"
        yield "P dump"
        yield "P len"
        yield "P items _ _"

def gen_local(r, n):
    """sparse ascending fill (every leaf at its post-split size), then episodes that fill the gap below a
    pivot (the leaf left of it becomes full) and delete upwards from the pivot (its leaf underflows while the
    right neighbour is minimal): exercises borrow-left / borrow-right / guarded merges at leaf and branch level"""
    cap = r.pick([4, 5, 5, 6, 6, 7, 8, 9, 11])
    yield f"flavour {r.pick(['int', 'int', 'float', 'str', 'custom'])}"
    m = r.pick([20, 30, 60, 120])
    # the key range straddles zero in most cases: 0 / 0.0 / False-like keys must be usable as separators
    # (and as the key a branch rotation moves up) like any other key
    # (now and then exactly so that 0 sits on the split point of the first root split)
    off = (10 * r.pick([(cap + 1) // 2, cap // 2, r.below(m), r.below(m)])) if r.chance(70) else 0
    if r.chance(50):
        yield f"P fromsorted {cap} " + ",".join(f"{10 * i - off}:{i}" for i in range(m))
    else:
        yield f"P new {cap}"
        for i in range(m): yield f"P set {10 * i - off} {i}"
    yield "P dump"
    live = set(10 * i - off for i in range(m))
    ops = 0
    while ops < n and live:
        pivot = r.pick(sorted(live))
        mode = r.below(4)
        if mode == 0:       # fill below the pivot, then delete upwards from it
            for j in range(1, 1 + r.below(cap + 1)):
                k = pivot - j
                if k not in live and k >= -off:
                    live.add(k); ops += 1; yield f"P set {k} {j}"
            up = [k for k in sorted(live) if k >= pivot][: 1 + r.below(cap)]
            for k in up:
                live.discard(k); ops += 1; yield f"P del {k}"; yield "P dump"
        elif mode == 1:     # fill above the pivot, then delete downwards from it
            for j in range(1, 1 + r.below(cap + 1)):
                k = pivot + j
                if k not in live:
                    live.add(k); ops += 1; yield f"P set {k} {j}"
            down = [k for k in sorted(live, reverse=True) if k <= pivot][: 1 + r.below(cap)]
            for k in down:
                live.discard(k); ops += 1; yield f"P del {k}"; yield "P dump"
        elif mode == 2:     # delete a run
            run = [k for k in sorted(live) if k >= pivot][: 1 + r.below(2 * cap)]
            for k in run:
                live.discard(k); ops += 1; yield f"P del {k}"
            yield "P dump"
        else:               # point queries and a scan around the pivot
            yield f"P get {pivot} N"; yield f"P in {pivot + 1}"; yield f"P items {pivot - 15} {pivot + 25}"; ops += 3
    yield "P dump"
    yield "P len"
    yield "P items _ _"

def gen_deep(r, n):
    """thousands of leaves: len / bool / popitem / iteration at scale"""
    cap = r.pick([4, 4, 5, 16])
    yield "flavour int"
    m = 2500 * cap // 2 if cap <= 5 else 12000
    if r.chance(50):
        yield f"P fromsorted {cap} " + ",".join(f"{k}:{k % 7}" for k in range(m))
    else:
        yield f"P new {cap}"
        step = r.pick([1, 7919])
        for i in range(m):
            yield f"P set {(i * step) % m} {i % 5}"
    yield "P leafcount"
    yield "P len"
    yield "P bool"
    yield "P popitem"
    yield f"P items {m // 2} {m // 2 + 20}"
    for i in range(min(n, m)):
        yield f"P del {(i * 31) % m}"
    yield "P len"
    yield "P dump"

def gen_exhaustive(cap, universe, depth):
    """every set/del history of the given depth over a small key universe"""
    alphabet = [f"P set {k} {k}" for k in range(universe)] + [f"P del {k}" for k in range(universe)]
    def rec(prefix, d):
        if d == 0:
            yield prefix; return
        for a in alphabet:
            yield from rec(prefix + [a], d - 1)
    yield from rec([], depth)

def main():
    args = sys.argv[1:]
    mode = args[0]
    def opt(name, default=None):
        return args[args.index(name) + 1] if name in args else default
    out = opt("--out", "out")
    ex = Exec(out)
    caseno = 0
    if mode == "replay":
        for line in open(args[1]):
            ex.run_line(line.rstrip("\n"))
        ex.close(); return
    suite = args[1]
    seed = int(opt("--seed", "1")); cases = int(opt("--cases", "50")); n = int(opt("--len", "60"))
    corpus = opt("--corpus")
    if corpus and os.path.exists(corpus):
        for line in open(corpus):
            line = line.rstrip("\n")
            if line.startswith("case"):
                caseno += 1; line = f"case {caseno}"
            ex.run_line(line)
    r = Rng(seed * 0x1000193 + hash(suite) % 1 )
    if suite == "py-exh":
        # prefix: a fixed tree with several leaves, then every history of length `n` over 3 keys
        for cap in (4, 5, 6):
            base = [f"P set {k} {k}" for k in range(0, 2 * cap + 2)]
            for hist in gen_exhaustive(cap, 3, min(n, 5)):
                caseno += 1
                ex.run_line(f"case {caseno}"); ex.run_line("flavour int"); ex.run_line(f"P new {cap}")
                for l in base: ex.run_line(l)
                for l in hist:
                    # shift the keys into the middle of the tree
                    w = l.split(); w[2] = str(int(w[2]) + cap - 1); ex.run_line(" ".join(w))
                    ex.run_line("P dump")
                if caseno >= cases: break
            if caseno >= cases: break
        # second family: a three-level tree whose key range straddles zero (ascending fill: every branch at its
        # minimum except the last), then every sequence of `depth` deletions over the keys around zero —
        # the histories in which branches underflow, borrow from a branch sibling or merge
        import itertools
        depth = min(n + 1, 5)
        for cap, lo_k, hi_k in ((4, -14, 12), (5, -22, 16), (6, -30, 24)):
            window = list(range(-6, 2)) if cap == 4 else list(range(-8, 2))
            for hist in itertools.product(window, repeat=depth):
                if len(set(hist)) < depth: continue
                if caseno >= cases: break
                caseno += 1
                ex.run_line(f"case {caseno}"); ex.run_line(f"flavour {('int', 'float')[caseno % 2]}"); ex.run_line(f"P new {cap}")
                for k in range(lo_k, hi_k): ex.run_line(f"P set {k} {k % 5 + 1}")
                ex.run_line("P dump")
                for k in hist:
                    ex.run_line(f"P del {k}"); ex.run_line("P dump")
                for k in range(-3, 3): ex.run_line(f"P in {k}")
                ex.run_line("P items _ _")
            if caseno >= cases: break
        ex.close(); return
    if suite == "py-exh4":
        # a FOUR-level tree (ascending even keys: every node at its minimum except the right spine), then every
        # sequence of `depth` distinct deletions over a window in the middle: branches whose children are branches
        # underflow, borrow from a branch sibling (left or right) or merge; after the deletions every lookup and a
        # set of bounded scans with present and absent endpoints
        import itertools
        depth = min(max(n, 2), 4)
        for cap, count in ((4, 30), (5, 64)):
            keys = [2 * i for i in range(count)]
            mid = len(keys) // 2
            for start in (mid - 6, mid + 2):
                window = keys[start:start + 7]
                for hist in itertools.permutations(window, depth):
                    if caseno >= cases: break
                    caseno += 1
                    ex.run_line(f"case {caseno}"); ex.run_line("flavour int"); ex.run_line(f"P new {cap}")
                    for k in keys: ex.run_line(f"P set {k} {k % 5 + 1}")
                    ex.run_line("P dump")
                    for k in hist:
                        ex.run_line(f"P del {k}"); ex.run_line("P dump")
                    lo_w, hi_w = window[0] - 6, window[-1] + 6
                    for k in range(lo_w, hi_w, 3):
                        ex.run_line(f"P in {k}")
                        ex.run_line(f"P items {k} _")
                    ex.run_line(f"P keys {lo_w} {hi_w}")
                    ex.run_line("P items _ _")
        ex.close(); return
    for _ in range(cases):
        caseno += 1
        ex.run_line(f"case {caseno}")
        if suite == "py-ops":
            x = r.below(100)
            g = gen_local(r, n) if x < 30 else (gen_reuse(r, n) if x < 42 else gen_case_ops(r, n, ex, "ops"))
        elif suite == "py-range": g = gen_reuse(r, n) if r.chance(8) else gen_case_ops(r, n, ex, "range")
        elif suite == "py-deep": g = gen_deep(r, n)
        else: raise SystemExit("unknown suite " + suite)
        for line in g: ex.run_line(line)
    ex.close()

if __name__ == "__main__":
    main()
