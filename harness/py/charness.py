#!/usr/bin/env python3
"""Correspondence harness for the C extension bplustree_c (built from /repo's sources).

  charness.py build                      -> compiles build/cext/{plain,asan}/bplustree_c*.so and the scratch package
  charness.py gen <suite> --seed S --cases N --len L --out DIR [--corpus FILE]
  charness.py replay FILE --out DIR [--quiet]

Writes DIR/ops.txt (line protocol for the Lean driver, prefix `C`), DIR/impl.txt (what the real
extension answered), DIR/oracle.txt (implementation-vs-oracle failures tagged [C12] / [C13]) and
DIR/stats.json.  Oracles: a dict driven by the same calls (C12); for every tracked key / value object
sys.getrefcount minus its baseline must equal the number of tree slots holding it according to
_verif_dump(), and zero after the tree is destroyed (C13).  The same op file is replayed under
AddressSanitizer by the caller (tools/suites.py).
"""
import sys, os, json, gc, subprocess, hashlib, shutil, importlib.util, functools, sysconfig, weakref

ROOT = os.path.normpath(os.path.join(os.path.dirname(os.path.abspath(__file__)), "..", ".."))
REPO = os.environ.get("BPT_REPO", "/repo")
CEXT = os.path.join(ROOT, "build", "cext")
SRC = os.path.join(REPO, "python", "bplustree_c_src")
SUFFIX = sysconfig.get_config_var("EXT_SUFFIX") or ".so"

def build():
    inc = sysconfig.get_paths()["include"]
    srcs = sorted(os.path.join(SRC, f) for f in os.listdir(SRC) if f.endswith(".c"))
    for variant, flags in (("plain", ["-O1", "-g"]), ("asan", ["-O1", "-g", "-fsanitize=address", "-fno-omit-frame-pointer"])):
        d = os.path.join(CEXT, variant)
        os.makedirs(d, exist_ok=True)
        out = os.path.join(d, "bplustree_c" + SUFFIX)
        cmd = ["gcc", "-shared", "-fPIC", "-DKENTBECK_BPLUSTREE3_VERIF", "-I" + inc, "-I" + SRC] + flags + srcs + ["-o", out]
        p = subprocess.run(cmd, stdout=subprocess.PIPE, stderr=subprocess.STDOUT, text=True)
        if p.returncode != 0:
            print(p.stdout); print("charness: build failed (%s)" % variant); return 1
        # the package wrapper layered on the extension: the real __init__.py + bplus_tree.py next to the built module
        pkg = os.path.join(d, "pkg", "bplustree")
        shutil.rmtree(os.path.join(d, "pkg"), ignore_errors=True)
        os.makedirs(pkg)
        for f in ("__init__.py", "bplus_tree.py"):
            shutil.copy(os.path.join(REPO, "python", "bplustree", f), os.path.join(pkg, f))
        shutil.copy(out, os.path.join(pkg, "bplustree_c" + SUFFIX))
    print("charness: built plain + asan"); return 0

def load(variant):
    d = os.path.join(CEXT, variant)
    sys.path.insert(0, os.path.join(d, "pkg"))
    import bplustree                       # the package: wrapper over the extension
    if bplustree.get_implementation() != "C extension":
        raise SystemExit("package did not pick up the C extension")
    ext = bplustree.bplustree_c
    return ext, bplustree

# ---------------------------------------------------------------- PRNG
class Rng:
    def __init__(self, seed): self.s = seed & 0xFFFFFFFFFFFFFFFF
    def next(self):
        self.s = (self.s + 0x9E3779B97F4A7C15) & 0xFFFFFFFFFFFFFFFF
        z = self.s
        z = ((z ^ (z >> 30)) * 0xBF58476D1CE4E5B9) & 0xFFFFFFFFFFFFFFFF
        z = ((z ^ (z >> 27)) * 0x94D049BB133111EB) & 0xFFFFFFFFFFFFFFFF
        return z ^ (z >> 31)
    def below(self, n): return self.next() % n if n > 0 else 0
    def chance(self, pct): return self.below(100) < pct
    def pick(self, xs): return xs[self.below(len(xs))]

@functools.total_ordering
class CKey:
    __slots__ = ("v", "__weakref__")
    def __init__(self, v): self.v = v
    def __eq__(self, o): return isinstance(o, CKey) and self.v == o.v
    def __lt__(self, o): return self.v < o.v if isinstance(o, CKey) else NotImplemented
    def __hash__(self): return hash(("CKey", self.v))
    def __repr__(self): return "CKey(%d)" % self.v

class Unorderable:
    """a key object that cannot be compared with any stored key: every search raises TypeError at its first comparison"""
    __slots__ = ("serial", "__weakref__")
    def __init__(self, serial): self.serial = serial
    def __repr__(self): return "Unorderable(%d)" % self.serial

class Val:
    __slots__ = ("serial", "owner", "__weakref__")
    def __init__(self, serial): self.serial = serial; self.owner = None
    def __repr__(self): return "Val(%d)" % self.serial

CYC = 800000            # value serials from here on: objects that refer back to the tree (a reference cycle through a slot)

class RevInt(int):
    """an int SUBCLASS with its own (reversed) total order: must go through rich comparison, not the exact-int fast path"""
    def __lt__(self, o): return int(self) > int(o) if isinstance(o, int) else NotImplemented
    def __gt__(self, o): return int(self) < int(o) if isinstance(o, int) else NotImplemented
    def __le__(self, o): return int(self) >= int(o) if isinstance(o, int) else NotImplemented
    def __ge__(self, o): return int(self) <= int(o) if isinstance(o, int) else NotImplemented
    def __eq__(self, o): return isinstance(o, int) and int(self) == int(o)
    def __ne__(self, o): return not self.__eq__(o)
    def __hash__(self): return hash(("RevInt", int(self)))
    def __repr__(self): return "RevInt(%d)" % int(self)

class CIStr(str):
    """a str SUBCLASS ordered case-insensitively: must go through rich comparison, not the exact-str fast path"""
    def __lt__(self, o): return str(self).lower() < str(o).lower() if isinstance(o, str) else NotImplemented
    def __gt__(self, o): return str(self).lower() > str(o).lower() if isinstance(o, str) else NotImplemented
    def __le__(self, o): return str(self).lower() <= str(o).lower() if isinstance(o, str) else NotImplemented
    def __ge__(self, o): return str(self).lower() >= str(o).lower() if isinstance(o, str) else NotImplemented
    def __eq__(self, o): return isinstance(o, str) and str(self).lower() == str(o).lower()
    def __ne__(self, o): return not self.__eq__(o)
    def __hash__(self): return hash(("CIStr", str(self).lower()))
    def __repr__(self): return "CIStr(%r)" % str(self)

def _ci(o):
    # digits written as letters a..j; odd keys in upper case, so code-point order differs from the key's own order
    s = "".join("abcdefghij"[int(d)] for d in "%015d" % (o + OFF))
    return CIStr(s.upper() if o % 2 else s)

OFF = 10 ** 12          # far beyond the small-int cache: every key object is a fresh int / str
MAKE = {
    "int": lambda o: o + OFF + 0,
    "str": lambda o: "%015d" % (o + OFF),
    "custom": lambda o: CKey(o),
    "bigint": lambda o: (o + OFF) * (2 ** 70),       # beyond C long: the int fast path falls through to rich compare
    "mixint": lambda o: (o + OFF + 0) if o < 0 else (2 ** 63 + o),   # some keys fit a C long, some do not
    "ustr": lambda o: "\u043a\u043b\u044e\u0447%015d" % (o + OFF),   # exact str outside Latin-1 (2-byte kind), long common prefix
    "astr": lambda o: "\U0001d400%015d" % (o + OFF),               # exact str with an astral character (4-byte kind)
    "tuple": lambda o: (o + OFF, "t"),                # composite keys (rich comparison; KeyError(tuple) is a special case of the exception machinery)
    "subint": lambda o: RevInt(OFF - o),              # int subclass, reversed order: model order o <-> raw value OFF - o
    "substr": _ci,                                    # str subclass, case-insensitive order
}
def ord_of(flav, k):
    if flav == "int": return k - OFF
    if flav == "str": return int(k) - OFF
    if flav == "custom": return k.v
    if flav == "mixint": return (k - 2 ** 63) if k >= 2 ** 63 else (k - OFF)
    if flav == "ustr": return int(k[4:]) - OFF
    if flav == "astr": return int(k[1:]) - OFF
    if flav == "tuple": return k[0] - OFF
    if flav == "subint": return OFF - int(k)
    if flav == "substr": return int("".join(str("abcdefghij".index(c)) for c in str(k).lower())) - OFF
    return k // (2 ** 70) - OFF

def collect_leaves(n, out):
    if n[0] == "L": out.append(n)
    else:
        for c in n[2]: collect_leaves(c, out)

def count_slots(n, counts, kser):
    if n[0] == "L":
        for k in n[2]: counts[("k", kser(k))] = counts.get(("k", kser(k)), 0) + 1
        for v in n[3]:
            if v is not None: counts[("v", v.serial)] = counts.get(("v", v.serial), 0) + 1
    else:
        for k in n[1]: counts[("k", kser(k))] = counts.get(("k", kser(k)), 0) + 1
        for c in n[2]: count_slots(c, counts, kser)

class Exec:
    def __init__(self, out, ext, pkg):
        self.out = out; self.ext = ext; self.pkg = pkg
        os.makedirs(out, exist_ok=True)
        self.ops = open(os.path.join(out, "ops.txt"), "w")
        self.impl = open(os.path.join(out, "impl.txt"), "w")
        self.oracle = open(os.path.join(out, "oracle.txt"), "w")
        self.stats = {"cases": 0, "ops": 0, "by_op": {}, "caps": {}, "flavours": {}, "modes": {}, "max_height": 0, "max_leaves": 0,
                      "empty_leaves_seen": 0, "runtimeerrors": 0, "keyerrors": 0, "oracle_failures": 0, "refcount_audits": 0,
                      "objects_tracked": 0, "destroys": 0, "max_entries": 0}
        class Sub(ext.BPlusTree):
            pass
        self.Sub = Sub
        self.case = None
        self.reset()
    def reset(self):
        self.t = None; self.d = None; self.dead = False
        self.flav = "int"; self.mode = "type"
        self.keys = {}      # serial -> key object
        self.vals = {}      # serial -> Val
        self.cyc = {}       # serial -> weakref of a value object that points back at the tree; the harness keeps no strong reference
        self.base = {}      # id-free baseline refcounts: ("k", serial) / ("v", serial) -> count
        self.iters = {}
        self.opno = 0
        self.epoch = 0      # successful mutations so far (the oracle's own notion of 'modified', independent of the tree's stamp)
    def fail(self, tag, msg):
        self.stats["oracle_failures"] += 1
        self.oracle.write("[%s] case=%s op %d: %s\n" % (tag, self.case, self.opno, msg)); self.oracle.flush()
    def emit(self, line, ans):
        self.ops.write(line + "\n"); self.impl.write(ans + "\n"); self.ops.flush(); self.impl.flush()
    # ---- tracked objects
    def key(self, tok):
        o, _, ser = tok.partition("#")
        o = int(o); ser = int(ser or 0)
        if ser not in self.keys:
            k = MAKE[self.flav](o)
            self.keys[ser] = k
            self.base[("k", ser)] = sys.getrefcount(k) - 2      # minus the local variable `k` and the call argument
            self.stats["objects_tracked"] += 1
        return self.keys[ser]
    def val(self, tok):
        ser = int(tok)
        if ser == 0: return None
        if ser >= CYC:
            v = self.cyc[ser]() if ser in self.cyc else None
            if v is None:
                v = Val(ser); v.owner = self.t
                self.cyc[ser] = weakref.ref(v)
                self.stats["cyclic_values"] = self.stats.get("cyclic_values", 0) + 1
            return v
        if ser not in self.vals:
            v = Val(ser)
            self.vals[ser] = v
            self.base[("v", ser)] = sys.getrefcount(v) - 2
            self.stats["objects_tracked"] += 1
        return self.vals[ser]
    def kser(self, k):
        for ser, o in self.keys.items():
            if o is k: return ser
        return -1
    def vser(self, v): return 0 if v is None else v.serial
    def same(self, got, want):
        """got: list of (key obj, value obj); want: list of (kser, vser)"""
        return len(got) == len(want) and all(g[0] is self.keys.get(w[0]) and self.vser(g[1]) == w[1] and (g[1] is None or g[1] is (self.cyc[w[1]]() if w[1] >= CYC and w[1] in self.cyc else self.vals.get(w[1]))) for g, w in zip(got, want))
    def fmtk(self, k): return "%d#%d" % (ord_of(self.flav, k), self.kser(k))
    def fmtv(self, v): return "0" if v is None else str(v.serial)
    # ---- structure
    def dump_struct(self):
        cap, size, mod, tree = self.t._verif_dump()
        leaves = []
        collect_leaves(tree, leaves)        # module-level: a nested recursive closure would keep `leaves` alive in a cycle
        pos = {l[1]: i for i, l in enumerate(leaves)}
        return cap, size, mod, tree, leaves, pos
    def dump(self):
        cap, size, mod, tree, leaves, pos = self.dump_struct()
        def p(a): return "_" if a is None else str(pos.get(a, "?"))
        def height(n):
            h = 0
            while n[0] == "B": n = n[2][0]; h += 1
            return h
        def rec(n):
            if n[0] == "L":
                return "(L%s [%s]:[%s] >%s)" % (p(n[1]), ",".join(self.fmtk(k) for k in n[2]), ",".join(self.fmtv(v) for v in n[3]), p(n[4]))
            return "(B [%s] %s)" % (",".join(self.fmtk(k) for k in n[1]), " ".join(rec(c) for c in n[2]))
        h = height(tree)
        self.stats["max_height"] = max(self.stats["max_height"], h)
        self.stats["max_leaves"] = max(self.stats["max_leaves"], len(leaves))
        self.stats["empty_leaves_seen"] += sum(1 for l in leaves if not l[2])
        return "cap=%d size=%d mod=%d h=%d %s" % (cap, size, mod, h, rec(tree))
    def slot_counts(self):
        cap, size, mod, tree, leaves, pos = self.dump_struct()
        counts = {}
        count_slots(tree, counts, self.kser)
        del tree, leaves
        return counts
    def audit(self, destroyed=False):
        """C13: refcount of every tracked object = baseline + number of slots holding it"""
        self.stats["refcount_audits"] += 1
        counts = {} if destroyed else self.slot_counts()
        bad = []
        for ser in list(self.keys):
            got = sys.getrefcount(self.keys[ser]) - 1 - self.base[("k", ser)]
            want = counts.get(("k", ser), 0)
            if got != want: bad.append("key#%d refs %+d expected %+d" % (ser, got, want))
        for ser in list(self.vals):
            got = sys.getrefcount(self.vals[ser]) - 1 - self.base[("v", ser)]
            want = counts.get(("v", ser), 0)
            if got != want: bad.append("val#%d refs %+d expected %+d" % (ser, got, want))
        if bad:
            self.fail("C13", ("after destroy: " if destroyed else "") + "reference counts off: " + "; ".join(bad[:6]) + (" (+%d more)" % (len(bad) - 6) if len(bad) > 6 else ""))
        return counts
    def refs_line(self):
        counts = self.slot_counts()
        items = sorted(counts.items(), key=lambda kv: (0 if kv[0][0] == "k" else 1, kv[0][1]))
        return " ".join("%s%d:%d" % (k[0], k[1], n) for k, n in items)
    def struct_check(self):
        """C12 side conditions visible in the dump: sorted, bounded, size = entries, chain = leaves in order"""
        cap, size, mod, tree, leaves, pos = self.dump_struct()
        errs = []
        n_entries = 0
        def walk(n, lo, hi):
            nonlocal n_entries
            ks = [ord_of(self.flav, k) for k in (n[2] if n[0] == "L" else n[1])]
            if any(not a < b for a, b in zip(ks, ks[1:])): errs.append("keys-not-ascending")
            if any((lo is not None and k < lo) or (hi is not None and k >= hi) for k in ks): errs.append("key-outside-bounds")
            if len(ks) > cap: errs.append("over-capacity")
            if n[0] == "L":
                n_entries += len(ks)
                if len(n[2]) != len(n[3]): errs.append("keys-values-length")
            else:
                if len(n[2]) != len(ks) + 1: errs.append("children-count"); return
                for i, c in enumerate(n[2]):
                    walk(c, lo if i == 0 else ks[i - 1], hi if i == len(ks) else ks[i])
        walk(tree, None, None)
        if n_entries != size: errs.append("size-field-%d-entries-%d" % (size, n_entries))
        for a, b in zip(leaves, leaves[1:]):
            if a[4] != b[1]: errs.append("chain-broken")
        if leaves and leaves[-1][4] is not None: errs.append("chain-not-terminated")
        if errs: self.fail("C12", "structure: " + ",".join(sorted(set(errs))))
    # ---- execution
    def run_line(self, line):
        ws = line.split()
        if not ws: return
        if ws[0] == "case":
            self.finish_case()
            self.case = ws[1]; self.reset(); self.stats["cases"] += 1
            self.emit(line, "case " + " ".join(ws[1:])); return
        if ws[0] == "cfg":
            if len(ws) == 3 and ws[1] == "flavour":
                self.flav = ws[2]; self.stats["flavours"][ws[2]] = self.stats["flavours"].get(ws[2], 0) + 1
            if len(ws) == 3 and ws[1] == "mode":
                self.mode = ws[2]; self.stats["modes"][ws[2]] = self.stats["modes"].get(ws[2], 0) + 1
            self.emit(line, "ok"); return
        assert ws[0] == "C", line
        self.opno += 1; self.stats["ops"] += 1
        op = ws[1]
        self.stats["by_op"][op] = self.stats["by_op"].get(op, 0) + 1
        if self.dead: self.emit(line, "dead"); return
        try:
            self.need_after = False
            ans = self.do(op, ws[2:])
            if self.need_after: self.after()      # here, not inside do(): its locals still held references
        except (KeyError, RuntimeError):
            raise
        except Exception as e:
            self.fail("C12", "%s: unexpected %s: %s" % (op, type(e).__name__, e)); ans = "raise"; self.dead = True
        self.emit(line, ans)
    def finish_case(self):
        if self.t is not None:
            self.destroy()
    def destroy(self):
        self.iters.clear()
        self.t = None
        gc.collect()
        self.stats["destroys"] += 1
        self.audit(destroyed=True)
        # a value that pointed back at the tree formed a reference cycle through a slot: with the caller's references
        # gone, the collector must have found it through tp_traverse and reclaimed tree and value
        alive = sorted(ser for ser, wr in self.cyc.items() if wr() is not None)
        if alive:
            self.fail("C13", "after destroy: %d value object(s) in a reference cycle with the tree were never reclaimed (serials %s)" % (len(alive), alive[:5]))
        self.cyc.clear()
    def gc_types(self, ni, na, via_value):
        base = {"type": self.ext.BPlusTree, "subclass": self.Sub, "wrapper": self.pkg.BPlusTreeMap}[self.mode]
        gc.collect()
        class Local(base):
            marker = 1
            def hello(self): return "hi"
        a1 = Local if na >= 2 else None
        a2 = Local if na >= 3 else None
        class Obj:
            def __init__(self, n): self.n = n
            def __lt__(self, o): return self.n < o.n
            def __eq__(self, o): return self.n == o.n
            __hash__ = None
        refs = []
        for _ in range(ni):
            s = Local(capacity=4)
            for k in range(30):
                key, val = Obj(k), Obj(-k)
                refs.append(weakref.ref(key)); refs.append(weakref.ref(val))
                s[key] = val
            key = val = None
            if via_value: s[Obj(1000)] = s
            else: s.me = s
            s = None
        gc.collect()
        bad = []
        alive = sum(1 for r in refs if r() is not None)
        if alive: bad.append("%d key/value objects survive the collection of their trees" % alive)
        mro = Local.__mro__
        if mro is None or mro[0] is not Local or base not in mro:
            bad.append("the subclass was torn down while still referenced: __mro__ = %r" % (mro,))
        if getattr(Local, "marker", None) != 1 or "hello" not in Local.__dict__:
            bad.append("the subclass lost its attributes")
        if not bad:
            try:
                s = Local(capacity=4); s[1] = "one"
                if s.hello() != "hi" or list(s.keys()) != [1] or s[1] != "one": bad.append("a new instance of the subclass misbehaves")
                s = None
            except Exception as e: bad.append("a new instance of the subclass raises %s" % type(e).__name__)
        a1 = a2 = None
        return bad
    def make(self, cap):
        cls = {"type": self.ext.BPlusTree, "subclass": self.Sub, "wrapper": self.pkg.BPlusTreeMap}[self.mode]
        return cls(capacity=cap)
    def do(self, op, a):
        if op == "new":
            cap = int(a[0])
            self.stats["caps"][str(cap)] = self.stats["caps"].get(str(cap), 0) + 1
            if self.t is not None: self.destroy()
            try:
                self.t = self.make(cap); self.d = {}
            except (ValueError, OverflowError) as e:
                self.t = None; self.d = None
                if 4 <= cap <= 65535: self.fail("C12", "capacity %d rejected" % cap)
                return "err capacity"
            if cap < 4: self.fail("C12", "capacity %d accepted" % cap)
            got = self.t._verif_dump()[0]
            if got != cap: self.fail("C13", "capacity %d silently stored as %d" % (cap, got))
            return "ok"
        t, d = self.t, self.d
        if t is None: return "no-map"
        if op == "set":
            k = self.key(a[0]); v = self.val(a[1]); o = ord_of(self.flav, k)
            t[k] = v
            self.epoch += 1
            if o in d: d[o] = (d[o][0], self.vser(v))
            else: d[o] = (self.kser(k), self.vser(v))
            del k, v
            self.need_after = True; return "ok"
        if op == "deepcheck":
            # oracle-only: a SEPARATE tall tree (ascending inserts leave every node half full), checked against
            # what a dict would answer; the model is not asked (the driver answers `ok`)
            cap, n = int(a[0]), int(a[1])
            big = self.make(cap)
            for i in range(n): big[2 * i] = i
            bad = []
            if len(big) != n: bad.append("len %d expected %d" % (len(big), n))
            probes = [0, 2, 2 * (n // 2), 2 * (n - 1), 2 * (n // 3), 2 * (n - 2)]
            for k in probes:
                if k not in big: bad.append("present key %d reported absent" % k)
                try:
                    if big[k] != k // 2: bad.append("[%d] -> %r" % (k, big[k]))
                except Exception as e: bad.append("[%d] raised %s" % (k, type(e).__name__))
            for k in (1, 2 * n + 1, -5):
                if k in big: bad.append("absent key %d reported present" % k)
                try: big[k]; bad.append("[%d] on an absent key returned" % k)
                except KeyError: pass
                except Exception as e: bad.append("[%d] on an absent key raised %s" % (k, type(e).__name__))
            try:
                del big[2 * (n // 2)]
                if 2 * (n // 2) in big: bad.append("deleted key still present")
            except Exception as e: bad.append("del raised %s" % type(e).__name__)
            it = iter(big); first = [next(it) for _ in range(5)]
            if first != [0, 2, 4, 6, 8]: bad.append("iteration starts %r" % first)
            it = None; big = None
            gc.collect()
            if bad:
                self.fail("C12", "deepcheck capacity %d, %d ascending keys: %s" % (cap, n, "; ".join(bad[:5])))
            return "ok"
        if op == "gctypes":
            # oracle-only: a subclass defined INSIDE a function (referenced by `na` local names the collector cannot
            # see, and by its instances), `ni` instances each in a reference cycle (through the instance dict, or
            # through a stored value), dropped and collected: every object that went through the trees is released,
            # and the class itself is still the class that was defined
            bad = self.gc_types(int(a[0]), int(a[1]), a[2] == "1")
            if bad: self.fail("C13", "gctypes %s: %s" % (" ".join(a), "; ".join(bad[:4])))
            return "ok"
        if op == "repeatset":
            k = self.key(a[0]); v = self.val(a[1]); o = ord_of(self.flav, k); n = int(a[2])
            for _ in range(n): t[k] = v
            self.epoch += n
            if o in d: d[o] = (d[o][0], self.vser(v))
            else: d[o] = (self.kser(k), self.vser(v))
            del k, v
            self.need_after = True; return "ok"
        if op in ("badset", "badget", "baddel", "badin"):
            # a key whose comparison raises: the call must raise TypeError, change nothing and keep no reference
            ser = int(a[0])
            if ser not in self.keys:
                bk = Unorderable(ser)
                self.keys[ser] = bk
                self.base[("k", ser)] = sys.getrefcount(bk) - 2
                del bk
            v = self.val(a[1]) if op == "badset" else None
            mod_before = t._verif_dump()[2]
            try:
                if op == "badset": t[self.keys[ser]] = v
                elif op == "badget": t[self.keys[ser]]
                elif op == "baddel": del t[self.keys[ser]]
                else: got_in = self.keys[ser] in t
                got = "no-compare" if op != "badin" else ("true" if got_in else "false")
            except TypeError:
                got = "typeerror"
            except KeyError:
                got = "keyerror"
            if got == "typeerror" and t._verif_dump()[2] != mod_before:
                self.fail("C12", "%s: a call that raised TypeError changed the modification stamp" % op)
            if got == "no-compare" and op == "badset":
                self.dead = True      # the tree now holds an incomparable key: nothing after this is defined
            v = None
            self.need_after = True; return got
        if op == "del":
            k = self.key(a[0]); o = ord_of(self.flav, k)
            try: del t[k]; got = "ok"
            except KeyError: got = "keyerror"
            want = "ok" if o in d else "keyerror"
            if o in d: self.epoch += 1
            d.pop(o, None)
            if got != want: self.fail("C12", "del %s: %s expected %s" % (a[0], got, want))
            k = None
            self.need_after = True; return got
        if op == "get":
            k = self.key(a[0]); o = ord_of(self.flav, k)
            try: got = self.fmtv(t[k])
            except KeyError: got = "keyerror"
            want = str(d[o][1]) if o in d else "keyerror"
            if got != want: self.fail("C12", "[%s]: %s expected %s" % (a[0], got, want))
            return got
        if op == "in":
            k = self.key(a[0]); o = ord_of(self.flav, k)
            got = k in t
            if got != (o in d): self.fail("C12", "%s in: %s" % (a[0], got))
            return "true" if got else "false"
        if op == "len":
            got = len(t)
            if got != len(d): self.fail("C12", "len %d expected %d" % (got, len(d)))
            return str(got)
        if op in ("items", "keys", "values"):
            want = [d[o] for o in sorted(d)]
            if op == "items":
                got = list(t.items())
                if not self.same(got, want):
                    self.fail("C12", "items() differ from sorted dict (%d vs %d entries)" % (len(got), len(want)))
                return "[" + ",".join("%s=%s" % (self.fmtk(k), self.fmtv(v)) for k, v in got) + "]"
            if op == "keys":
                got = list(t.keys()) if self.opno % 2 else list(iter(t))
                if len(got) != len(want) or any(g is not self.keys.get(w[0]) for g, w in zip(got, want)): self.fail("C12", "keys() differ from sorted dict")
                return "[" + ",".join(self.fmtk(k) for k in got) + "]"
            if self.mode != "wrapper":
                got = [v for _, v in t.items()]
            else:
                got = list(t.values())
            if len(got) != len(want) or any(self.vser(g) != w[1] for g, w in zip(got, want)): self.fail("C12", "values() differ from sorted dict")
            return "[" + ",".join(self.fmtv(v) for v in got) + "]"
        if op == "iter":
            if a[0] == "new":
                self.iters[a[1]] = (t.items() if a[2] == "items" else (t.keys() if self.opno % 2 else iter(t)), a[2], self.epoch, False)
                return "ok"
            if a[1] not in self.iters: return "no-iter"
            it, kind, stamp, done = self.iters[a[1]]
            modified = self.epoch != stamp
            try:
                x = next(it)
                got = ("%s=%s" % (self.fmtk(x[0]), self.fmtv(x[1]))) if kind == "items" else self.fmtk(x)
                if modified: self.fail("C12", "iterator advanced after the tree was modified (returned %s)" % got)
            except StopIteration:
                got = "stop"; self.iters[a[1]] = (it, kind, stamp, True)
                if modified and not done: self.fail("C12", "iterator reported exhaustion instead of RuntimeError after a modification")
            except RuntimeError:
                got = "runtimeerror"; self.stats["runtimeerrors"] += 1
                if not modified: self.fail("C12", "RuntimeError from an iterator over an unmodified tree")
            return got
        if op == "dump": return self.dump()
        if op == "refs": return self.refs_line()
        if op == "gcrefs":
            # what tp_traverse reports, observed through gc.get_referents: every tracked key / value object with the
            # number of times `visit` was called on it (the model prints gcTraverse in the same form).  Anything else
            # the object reports must be something a subclass instance owns by itself: its type (heap types only)
            # and its instance dict, once each — never the static C type, never anything twice
            refs = gc.get_referents(t)
            counts = {}; other = []
            for o in refs:
                if o is None: continue
                ser = self.kser(o)
                if ser >= 0: key = ("k", ser)
                elif isinstance(o, Val): key = ("v", o.serial)
                else: other.append(o); continue
                counts[key] = counts.get(key, 0) + 1
            ty = type(t); heap = ty is not self.ext.BPlusTree
            n_ty = sum(1 for o in other if o is ty)
            rest = [o for o in other if o is not ty]
            idict = getattr(t, "__dict__", None)
            n_dict = sum(1 for o in rest if o is idict)
            rest = [o for o in rest if o is not idict]
            if idict:      # an instance dict that is not materialised is reported value by value (CPython >= 3.11)
                rest = [o for o in rest if not any(o is a for a in idict.values())]
            bad = []
            if n_ty > (1 if heap else 0): bad.append("the type object is reported %d time(s), owned %d" % (n_ty, 1 if heap else 0))
            if n_dict > 1: bad.append("the instance dict is reported %d times" % n_dict)
            if rest: bad.append("%d object(s) reported that the tree does not own: %s" % (len(rest), ", ".join(type(o).__name__ for o in rest[:4])))
            want = self.slot_counts()
            if counts != want:
                diff = sorted(set(counts) ^ set(want)) + sorted(k for k in set(counts) & set(want) if counts[k] != want[k])
                bad.append("reported references differ from the slots the tree holds at %s" % diff[:6])
            if bad: self.fail("C13", "tp_traverse: " + "; ".join(bad))
            refs = other = rest = None
            items = sorted(counts.items(), key=lambda kv: (0 if kv[0][0] == "k" else 1, kv[0][1]))
            return " ".join("%s%d:%d" % (k[0], k[1], n) for k, n in items)
        # ---- wrapper methods (only meaningful in wrapper mode; in the other modes the same compositions are
        #      performed here through the mapping protocol, which is what the wrapper does)
        w = self.mode == "wrapper"
        if op == "wget":
            k = self.key(a[0]); dv = self.val(a[1]); o = ord_of(self.flav, k)
            if w: got = t.get(k, dv)
            else:
                try: got = t[k]
                except KeyError: got = dv
            want = d[o][1] if o in d else self.vser(dv)
            if self.vser(got) != want: self.fail("C12", "get(%s, default): wrong object" % a[0])
            return self.fmtv(got)
        if op == "wpop":
            k = self.key(a[0]); o = ord_of(self.flav, k); args = [self.val(a[1])] if len(a) > 1 else []
            try:
                if w: got = t.pop(k, *args)
                else:
                    try:
                        got = t[k]; del t[k]
                    except KeyError:
                        if args: got = args[0]
                        else: raise
                gots = self.fmtv(got)
            except KeyError: gots = "keyerror"
            if o in d: want = str(d.pop(o)[1]); self.epoch += 1
            elif args: want = self.fmtv(args[0])
            else: want = "keyerror"
            if gots != want: self.fail("C12", "pop(%s): %s expected %s" % (a[0], gots, want))
            got = None; args = None
            self.need_after = True; return gots
        if op == "wpopitem":
            try:
                if w: k, v = t.popitem()
                else:
                    it = iter(t.items())
                    try: k, v = next(it)
                    except StopIteration: raise KeyError("empty")
                    del it
                    del t[k]
                gots = "%s=%s" % (self.fmtk(k), self.fmtv(v)); got = (k, v)
            except KeyError: gots = "keyerror"; got = None
            if d:
                mo = min(d); want = d.pop(mo); self.epoch += 1
                if got is None or not self.same([got], [want]): self.fail("C12", "popitem: expected the smallest entry")
            elif got is not None: self.fail("C12", "popitem on an empty map returned an entry")
            got = None; k = None; v = None
            self.need_after = True; return gots
        if op == "wsetdefault":
            k = self.key(a[0]); dv = self.val(a[1]); o = ord_of(self.flav, k)
            if w: got = t.setdefault(k, dv)
            else:
                try: got = t[k]
                except KeyError: t[k] = dv; got = dv
            if o in d: want = d[o][1]
            else: d[o] = (self.kser(k), self.vser(dv)); want = self.vser(dv); self.epoch += 1
            if self.vser(got) != want: self.fail("C12", "setdefault(%s): wrong object" % a[0])
            r = self.fmtv(got); got = None; k = None; dv = None
            self.need_after = True; return r
        if op == "wupdate":
            pairs = [] if a[0] == "-" else [(self.key(kv.split("=")[0]), self.val(kv.split("=")[1])) for kv in a[0].split(",")]
            if w: t.update(pairs)
            else:
                for k, v in pairs: t[k] = v
            for k, v in pairs:
                o = ord_of(self.flav, k)
                self.epoch += 1
                if o in d: d[o] = (d[o][0], self.vser(v))
                else: d[o] = (self.kser(k), self.vser(v))
            pairs = None; k = None; v = None
            self.need_after = True; return "ok"
        if op == "wcopy":
            if w: c = t.copy()
            else:
                c = self.make(8)
                for k, v in t.items(): c[k] = v
            if not self.same(list(c.items()), [d[o] for o in sorted(d)]): self.fail("C12", "copy contents differ")
            # independence: mutating the original must not change the copy
            before = [(id(k), id(v)) for k, v in c.items()]
            if d:
                mo = min(d); k0 = self.keys[d[mo][0]]; t[k0] = None; t[k0] = (self.cyc[d[mo][1]]() if d[mo][1] >= CYC and d[mo][1] in self.cyc else self.vals.get(d[mo][1])); k0 = None
            if [(id(k), id(v)) for k, v in c.items()] != before: self.fail("C12", "copy changed when the original was mutated")
            self.iters.clear()
            for wr in self.cyc.values():      # the back-references follow the map the case continues with
                cv = wr()
                if cv is not None: cv.owner = c
                cv = None
            self.t = c; t = None; c = None; k = None; v = None
            gc.collect()
            self.need_after = True; return "ok"
        if op == "wclear":
            if w: t.clear()
            else:
                while len(t) > 0:
                    for k in t.keys():
                        del t[k]; break
            if d: self.epoch += 1
            d.clear(); self.need_after = True; return "ok"
        raise ValueError("bad op " + op)
    def after(self):
        self.nmut = getattr(self, "nmut", 0) + 1
        if len(self.d) > 300 and self.nmut % 200: return
        self.stats["max_entries"] = max(self.stats["max_entries"], len(self.d))
        self.struct_check()
        self.audit()
        got = [(k, v) for k, v in self.t.items()]
        want = [self.d[o] for o in sorted(self.d)]
        if not self.same(got, want):
            self.fail("C12", "contents differ from dict after a mutation (%d vs %d entries)" % (len(got), len(want)))
        got = None
        if len(self.t) != len(self.d): self.fail("C12", "len %d expected %d" % (len(self.t), len(self.d)))
    def close(self):
        self.finish_case()
        for f in (self.ops, self.impl, self.oracle): f.close()
        with open(os.path.join(self.out, "stats.json"), "w") as f: json.dump(self.stats, f, indent=1, sort_keys=True)

# ---------------------------------------------------------------- generators
def gen_case(r, n, kind):
    mode = r.pick(["type", "subclass", "wrapper", "wrapper"])
    flav = r.pick(["int", "int", "str", "custom", "bigint", "mixint", "subint", "substr", "ustr", "astr", "tuple"])
    yield "cfg mode " + mode
    yield "cfg flavour " + flav
    caps = [4, 4, 4, 5, 5, 6, 7, 8, 9, 16, 33, 64, 128, 4 + r.below(40)]
    cap = r.pick(caps)
    if r.chance(5):
        yield "C new %d" % r.pick([0, 1, 2, 3])
        yield "C len"
    yield "C new %d" % cap
    universe = r.pick([6, 12, 24, 40, 100, 300])
    lo = -universe // 3
    serial = [0]
    shadow = {}
    def newkey(o):
        serial[0] += 1; return "%d#%d" % (o, serial[0])
    def key(present=False):
        o = r.pick(sorted(shadow)) if present and shadow else lo + r.below(universe)
        return o, newkey(o)
    vser = [0]
    def val(o=None):
        if o is not None and shadow.get(o) not in (None, 1) and r.chance(20): return str(shadow[o])   # the object already stored under this key
        if r.chance(5): return "0"
        if r.chance(4): return str(800000 + r.below(5000))      # an object that refers back to the tree
        vser[0] += 1; return str(vser[0])
    grow = True
    iters = []
    for i in range(n):
        if r.chance(5): grow = not grow
        x = r.below(100)
        mut = True
        if x < (45 if grow else 12):
            o, k = key(r.chance(35)); v = val(o); shadow[o] = int(v) if v != "0" else 1
            yield "C set %s %s" % (k, v)
        elif x < (58 if grow else 55):
            o, k = key(r.chance(85)); shadow.pop(o, None)
            yield "C del %s" % k
            if r.chance(30): yield "C " + r.pick(["items", "keys"])      # iteration right after a deletion (possibly over an emptied leaf)
        elif x < 64:
            yield "C get %s" % key(r.chance(60))[1]; mut = False
        elif x < 67:
            yield "C in %s" % key(r.chance(50))[1]; mut = False
        elif x < 69:
            yield "C len"; mut = False
            if shadow and r.chance(25):
                # searches with a key that cannot be compared (only while the tree holds something to compare with)
                badser = 900000 + r.below(50)
                yield "C %s %d %s" % (r.pick(["badset", "badset", "badget", "baddel", "badin"]), badser, val())
        elif x < 73:
            yield "C " + r.pick(["items", "keys", "values"]); mut = False
        elif x < 80:
            if iters and r.chance(60):
                yield "C iter next " + r.pick(iters)
            else:
                nm = "i%d" % (len(iters) if len(iters) < 4 else r.below(4))
                if nm not in iters: iters.append(nm)
                yield "C iter new %s %s" % (nm, r.pick(["keys", "items"]))
            mut = False
        elif x < 83:
            yield "C wget %s %s" % (key(r.chance(60))[1], val()); mut = False
        elif x < 87:
            o, k = key(r.chance(60)); shadow.pop(o, None)
            yield ("C wpop %s" % k) if r.chance(50) else ("C wpop %s %s" % (k, val()))
        elif x < 90:
            if shadow: shadow.pop(min(shadow))
            yield "C wpopitem"
        elif x < 93:
            o, k = key(r.chance(50)); v = val(o); shadow.setdefault(o, int(v) if v != "0" else 1)
            yield "C wsetdefault %s %s" % (k, v)
        elif x < 96:
            m = r.below(6); ps = []
            for _ in range(m):
                o, k = key(r.chance(30)); v = val(o); shadow[o] = int(v) if v != "0" else 1; ps.append("%s=%s" % (k, v))
            yield "C wupdate " + (",".join(ps) if ps else "-")
        elif x < 98:
            yield "C wcopy"; iters = []
        elif x < 99:
            yield "C wclear"; shadow.clear()
        else:
            yield "C refs"; mut = False
        if mut and (n <= 100 or r.chance(20)):
            yield "C dump"
            if r.chance(30): yield "C refs"
            if r.chance(20): yield "C gcrefs"
        if mut and iters and r.chance(35):
            yield "C iter next " + r.pick(iters)          # a stale iterator must fail fast right after the mutation
        if mut and r.chance(20):
            nm = "i%d" % (len(iters) if len(iters) < 4 else r.below(4))
            if nm not in iters: iters.append(nm)
            yield "C iter new %s %s" % (nm, r.pick(["keys", "items"]))      # a fresh iterator just before the next mutation
            if r.chance(4) and shadow:
                # drive the modification stamp through 2^16 (and a little beyond) while the iterator is held
                o = r.pick(sorted(shadow)); v = val(o); shadow[o] = int(v) if v != "0" else 1
                yield "C repeatset %s %s %d" % (newkey(o), v, r.pick([65536, 65536, 65535, 65537, 131072]))
                yield "C iter next " + nm
    for nm in iters[:3]:
        yield "C iter next " + nm
    if r.chance(6): yield "C gctypes %d %d %d" % (r.below(4), 1 + r.below(3), r.below(2))
    yield "C dump"
    yield "C refs"
    yield "C items"
    yield "C len"

def gen_caps():
    for c in [0, 3, 4, 5, 255, 256, 32767, 32768, 65534, 65535, 65536, 65537, 65540, 131072, 2 ** 31 - 1]:
        yield "C new %d" % c
        yield "C set 1#1 1"
        yield "C set 2#2 2"
        yield "C set 0#3 3"
        yield "C len"
        yield "C items"

def gen_exhaustive(universe, depth):
    alphabet = ["set %d" % k for k in range(universe)] + ["del %d" % k for k in range(universe)]
    def rec(prefix, d):
        if d == 0: yield prefix; return
        for a in alphabet: yield from rec(prefix + [a], d - 1)
    yield from rec([], depth)

def main():
    args = sys.argv[1:]
    mode = args[0]
    if mode == "build":
        sys.exit(build())
    def opt(name, default=None): return args[args.index(name) + 1] if name in args else default
    out = opt("--out", "out")
    variant = opt("--variant", "plain")
    ext, pkg = load(variant)
    ex = Exec(out, ext, pkg)
    if mode == "replay":
        for line in open(args[1]): ex.run_line(line.rstrip("\n"))
        ex.close(); return
    suite = args[1]
    seed = int(opt("--seed", "1")); cases = int(opt("--cases", "50")); n = int(opt("--len", "60"))
    caseno = 0
    corpus = opt("--corpus")
    if corpus and os.path.exists(corpus):
        for line in open(corpus):
            line = line.rstrip("\n")
            if line.startswith("case"):
                caseno += 1; line = "case %d" % caseno
            ex.run_line(line)
    r = Rng(seed * 0x1000193 + 7)
    if suite == "c-caps":
        caseno += 1; ex.run_line("case %d" % caseno)
        for m in ("type", "subclass", "wrapper"):
            ex.run_line("cfg mode " + m)
            for l in gen_caps(): ex.run_line(l)
            ex.run_line("C new 4")
            for ni in range(4):
                for na in (1, 2, 3):
                    for via in (0, 1): ex.run_line("C gctypes %d %d %d" % (ni, na, via))
        ex.close(); return
    if suite == "c-exh":
        caseno += 1
        ex.run_line("case %d" % caseno); ex.run_line("cfg mode type"); ex.run_line("cfg flavour int"); ex.run_line("C new 4")
        ex.run_line("C deepcheck 4 %d" % (260000 if n <= 3 else 800000))
        ex.run_line("C deepcheck 5 %d" % (320000 if n <= 3 else 800000))
        done = 0
        for cap in (4, 5):
            base = list(range(0, 2 * cap + 2))
            for hist in gen_exhaustive(3, min(n, 5)):
                caseno += 1; done += 1
                ex.run_line("case %d" % caseno); ex.run_line("cfg mode " + ("type", "subclass", "wrapper")[done % 3]); ex.run_line("cfg flavour int")
                ex.run_line("C new %d" % cap)
                ser = 0
                for k in base:
                    ser += 1; ex.run_line("C set %d#%d %d" % (k, ser, ser))
                for l in hist:
                    w = l.split(); ser += 1; kk = int(w[1]) + cap - 1
                    ex.run_line(("C set %d#%d %d" % (kk, ser, ser)) if w[0] == "set" else ("C del %d#%d" % (kk, ser)))
                    ex.run_line("C dump")
                    ex.run_line("C " + ("items", "keys")[ser % 2])      # printed, so that the model's iteration is compared too
                ex.run_line("C refs")
                ex.run_line("C gcrefs")
                if done >= cases: break
            if done >= cases: break
        ex.close(); return
    for _ in range(cases):
        caseno += 1
        ex.run_line("case %d" % caseno)
        for line in gen_case(r, n, suite): ex.run_line(line)
    ex.close()

if __name__ == "__main__":
    main()
