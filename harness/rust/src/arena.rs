//! CompactArena machine: executes `A ...` lines on the real `CompactArena`
//! next to a `HashMap<NodeId, item>` reference (the oracle for C16).

use crate::rng::Rng;
use crate::{fmt_list, fmt_opt, Machine};
use bplustree::{CompactArena, NULL_NODE};
use std::collections::HashMap;
use std::panic::{catch_unwind, AssertUnwindSafe};

pub trait ArenaItem: Default + Clone + 'static {
    fn mk(v: u64) -> Self;
    fn val(&self) -> u64;
    /// arm "the next `Self::default()` panics"; false when the item type has no such fuse
    fn arm_default_fuse() -> bool {
        false
    }
}
thread_local! {
    static DEFAULT_FUSE: std::cell::Cell<bool> = const { std::cell::Cell::new(false) };
}
impl ArenaItem for u64 {
    fn mk(v: u64) -> Self {
        v
    }
    fn val(&self) -> u64 {
        *self
    }
}
/// heap-owning item
#[derive(Clone)]
pub struct HeapItem(Box<u64>, String);
impl Default for HeapItem {
    fn default() -> Self {
        if DEFAULT_FUSE.with(|c| c.replace(false)) {
            panic!("VERIF-FAULT: injected panic in HeapItem::default");
        }
        HeapItem(Box::new(0), String::new())
    }
}
impl ArenaItem for HeapItem {
    fn mk(v: u64) -> Self {
        HeapItem(Box::new(v), format!("item-{}", v))
    }
    fn val(&self) -> u64 {
        *self.0
    }
    fn arm_default_fuse() -> bool {
        DEFAULT_FUSE.with(|c| c.set(true));
        true
    }
}

pub struct ArenaMachine<T: ArenaItem> {
    arena: CompactArena<T>,
    live: HashMap<u32, u64>,
    dead: bool,
    fails: Vec<String>,
}

impl<T: ArenaItem> ArenaMachine<T> {
    pub fn new() -> Self {
        ArenaMachine {
            arena: CompactArena::new(),
            live: HashMap::new(),
            dead: false,
            fails: Vec::new(),
        }
    }
    fn fail(&mut self, msg: String) {
        self.fails.push(msg);
    }
    fn slots(&self) -> usize {
        self.arena.verif_raw().0.len()
    }
    fn check_counts(&mut self) {
        let n = self.live.len();
        let slots = self.slots();
        let st = self.arena.stats();
        if self.arena.len() != n
            || self.arena.allocated_count() != n
            || self.arena.is_empty() != (n == 0)
            || st.allocated_count != n
        {
            self.fail(format!(
                "counters: live handles={} but len={} allocated_count={} is_empty={} stats.allocated={}",
                n,
                self.arena.len(),
                self.arena.allocated_count(),
                self.arena.is_empty(),
                st.allocated_count
            ));
        }
        if self.arena.free_count() != slots - n.min(slots) || st.free_count != self.arena.free_count() {
            self.fail(format!(
                "counters: slots={} live={} but free_count={} stats.free={}",
                slots,
                n,
                self.arena.free_count(),
                st.free_count
            ));
        }
    }
    fn parse_id(s: &str) -> Option<u32> {
        s.parse::<u64>().ok().and_then(|v| u32::try_from(v).ok())
    }
    fn exec_inner(&mut self, ws: &[&str]) -> String {
        match ws {
            ["new"] => {
                self.arena = CompactArena::new();
                self.live.clear();
                "ok".into()
            }
            ["alloc", x] => {
                let Some(x) = x.parse::<u64>().ok() else { return "bad-op".into() };
                let id = self.arena.allocate(T::mk(x));
                if id == NULL_NODE {
                    self.fail("allocate returned the null handle".into());
                }
                if self.live.contains_key(&id) {
                    self.fail(format!("allocate returned handle {} which is still live", id));
                }
                self.live.insert(id, x);
                format!("id {}", id)
            }
            ["dealloc", id] | ["deallocd", id] => {
                let Some(id) = Self::parse_id(id) else { return "bad-op".into() };
                let before = self.slots();
                let r = if ws[0] == "dealloc" {
                    self.arena.deallocate(id)
                } else {
                    self.arena.deallocate_with_default(id)
                };
                let exp = self.live.remove(&id);
                let got = r.as_ref().map(|t| t.val());
                if got != exp {
                    self.fail(format!("{} {}: returned {:?}, reference {:?}", ws[0], id, got, exp));
                }
                if self.slots() != before {
                    self.fail(format!("{} {} changed the slot total", ws[0], id));
                }
                fmt_opt(got)
            }
            ["faultd", id] => {
                // deallocate_with_default interrupted by a panic of `T::default()` (caught here, as a caller could):
                // whatever is left must be a well-formed arena in which the handle is either still live or
                // released exactly once.  (The code as it stands clears the mask bit and pushes the index before
                // it takes the item, so the handle is released and the item stays in the slot: the effect of
                // deallocate_no_return, which is what the model executes for this line.)
                let Some(id) = Self::parse_id(id) else { return "bad-op".into() };
                let was_live = self.live.contains_key(&id);
                let faulted = if T::arm_default_fuse() {
                    let r = catch_unwind(AssertUnwindSafe(|| self.arena.deallocate_with_default(id)));
                    DEFAULT_FUSE.with(|c| c.set(false));
                    r.is_err()
                } else {
                    self.arena.deallocate_no_return(id);
                    was_live
                };
                if faulted != was_live {
                    self.fail(format!("faultd {}: default() ran {} although the handle was {}", id, if faulted { "" } else { "not" }, if was_live { "live" } else { "not live" }));
                }
                self.live.remove(&id);
                let still = self.arena.contains(id) || self.arena.get(id).is_some();
                if still {
                    self.fail(format!("faultd {}: after the interrupted release the handle still answers", id));
                }
                let problems: Vec<String> = {
                    let (_, mask, free) = self.arena.verif_raw();
                    let mut out = Vec::new();
                    let mut seen = std::collections::HashSet::new();
                    for &i in free.iter() {
                        if mask.get(i).copied().unwrap_or(true) || !seen.insert(i) {
                            out.push(format!("faultd {}: free list entry {} is live, out of range or listed twice", id, i));
                        }
                    }
                    if (0..mask.len()).any(|i| !mask[i] && !seen.contains(&i)) {
                        out.push(format!("faultd {}: an unallocated slot is missing from the free list", id));
                    }
                    out
                };
                for p in problems {
                    self.fail(p);
                }
                self.check_counts();
                if was_live { "fault".into() } else { "none".into() }
            }
            ["deallocn", id] => {
                let Some(id) = Self::parse_id(id) else { return "bad-op".into() };
                let r = self.arena.deallocate_no_return(id);
                let exp = self.live.remove(&id).is_some();
                if r != exp {
                    self.fail(format!("deallocate_no_return {}: returned {}, reference {}", id, r, exp));
                }
                format!("{}", r)
            }
            ["get", id] => {
                let Some(id) = Self::parse_id(id) else { return "bad-op".into() };
                let got = self.arena.get(id).map(|t| t.val());
                let exp = self.live.get(&id).copied();
                if got != exp {
                    self.fail(format!("get {}: returned {:?}, reference {:?}", id, got, exp));
                }
                fmt_opt(got)
            }
            ["getmut", id, x] => {
                let (Some(id), Some(x)) = (Self::parse_id(id), x.parse::<u64>().ok()) else {
                    return "bad-op".into();
                };
                let exp = self.live.get(&id).copied();
                let got = match self.arena.get_mut(id) {
                    Some(slot) => {
                        let old = slot.val();
                        *slot = T::mk(x);
                        Some(old)
                    }
                    None => None,
                };
                if got != exp {
                    self.fail(format!("get_mut {}: returned {:?}, reference {:?}", id, got, exp));
                }
                if exp.is_some() {
                    self.live.insert(id, x);
                }
                fmt_opt(got)
            }
            ["contains", id] => {
                let Some(id) = Self::parse_id(id) else { return "bad-op".into() };
                let got = self.arena.contains(id);
                if got != self.live.contains_key(&id) {
                    self.fail(format!("contains {}: returned {}, reference {}", id, got, !got));
                }
                format!("{}", got)
            }
            ["counts"] => {
                self.check_counts();
                let st = self.arena.stats();
                format!(
                    "len={} alloc={} empty={} free={} stats={},{}",
                    self.arena.len(),
                    self.arena.allocated_count(),
                    self.arena.is_empty(),
                    self.arena.free_count(),
                    st.allocated_count,
                    st.free_count
                )
            }
            ["clear"] => {
                self.arena.clear();
                let old: Vec<u32> = self.live.keys().copied().collect();
                self.live.clear();
                for id in old {
                    if self.arena.get(id).is_some() || self.arena.contains(id) {
                        self.fail(format!("handle {} still answers after clear()", id));
                    }
                }
                self.check_counts();
                "ok".into()
            }
            ["compact"] => {
                let mut old: Vec<(u32, u64)> = self.live.iter().map(|(a, b)| (*a, *b)).collect();
                old.sort();
                self.arena.compact();
                self.live.clear();
                for (rank, (_, v)) in old.iter().enumerate() {
                    self.live.insert(rank as u32, *v);
                }
                // "keeps exactly the live items": multiset of stored items
                let mut now: Vec<u64> = (0..self.slots() as u32)
                    .filter_map(|i| self.arena.get(i).map(|t| t.val()))
                    .collect();
                let mut exp: Vec<u64> = old.iter().map(|p| p.1).collect();
                now.sort();
                exp.sort();
                if now != exp {
                    self.fail(format!("compact: live items {:?}, reference {:?}", now, exp));
                }
                self.check_counts();
                "ok".into()
            }
            ["raw"] => {
                let (st, mask, free) = self.arena.verif_raw();
                let st: Vec<u64> = st.iter().map(|t| t.val()).collect();
                let mask: Vec<u8> = mask.iter().map(|b| *b as u8).collect();
                let free: Vec<usize> = free.iter().rev().copied().collect();
                format!("storage={} mask={} free={}", fmt_list(&st), fmt_list(&mask), fmt_list(&free))
            }
            _ => "bad-op".into(),
        }
    }
}

impl<T: ArenaItem> Machine for ArenaMachine<T> {
    fn exec(&mut self, ws: &[&str]) -> String {
        if self.dead {
            return "dead".into();
        }
        match catch_unwind(AssertUnwindSafe(|| self.exec_inner(ws))) {
            Ok(s) => s,
            Err(_) => {
                self.dead = true;
                self.fail(format!("panic in `A {}`", ws.join(" ")));
                "panic".into()
            }
        }
    }
    fn take_failures(&mut self) -> Vec<String> {
        std::mem::take(&mut self.fails)
    }
}

/// history generator: emits lines while executing them (so it can aim at live handles)
pub fn gen_case(rng: &mut Rng, len: usize, exec: &mut dyn FnMut(String) -> String) {
    let mut issued: Vec<u32> = Vec::new(); // every handle ever returned (live or not)
    let mut next_val = 1u64;
    // adversarial phases: fill, release in a chosen order, refill
    let phase_len = 4 + rng.below(24) as usize;
    for step in 0..len {
        let r = rng.below(100);
        let pick_id = |rng: &mut Rng, issued: &Vec<u32>| -> u64 {
            match rng.below(10) {
                0 => NULL_NODE as u64,
                1 => rng.below(40),
                2 => 1_000_000 + rng.below(1000),
                _ => rng.pick(issued).map(|v| *v as u64).unwrap_or(0),
            }
        };
        let in_fill = (step / phase_len) % 3 != 1;
        let line = if (in_fill && r < 45) || (!in_fill && r < 12) {
            next_val += 1;
            format!("A alloc {}", next_val)
        } else if (in_fill && r < 60) || (!in_fill && r < 62) {
            let id = pick_id(rng, &issued);
            let v = ["dealloc", "deallocd", "deallocn", "dealloc", "deallocd", "deallocn", "faultd"][rng.below(7) as usize];
            format!("A {} {}", v, id)
        } else if r < 72 {
            format!("A get {}", pick_id(rng, &issued))
        } else if r < 78 {
            next_val += 1;
            format!("A getmut {} {}", pick_id(rng, &issued), next_val)
        } else if r < 84 {
            format!("A contains {}", pick_id(rng, &issued))
        } else if r < 91 {
            "A counts".to_string()
        } else if r < 97 {
            "A raw".to_string()
        } else if r < 98 {
            "A clear".to_string()
        } else if r < 99 {
            "A compact".to_string()
        } else {
            "A counts".to_string()
        };
        let follow: Option<&str> = if line == "A compact" && rng.chance(45) {
            Some("A clear")
        } else if line == "A clear" && rng.chance(30) {
            Some("A compact")
        } else {
            None
        };
        let out = exec(line);
        if let Some(f) = follow {
            // pairs of whole-arena calls back to back (no allocation in between), then what the arena reports
            exec(f.to_string());
            exec("A counts".to_string());
            exec("A raw".to_string());
            for _ in 0..3 {
                let id = pick_id(rng, &issued);
                exec(format!("A get {}", id));
            }
        }
        if let Some(id) = out.strip_prefix("id ") {
            if let Ok(id) = id.parse::<u32>() {
                if !issued.contains(&id) {
                    issued.push(id);
                }
            }
        }
    }
    exec("A raw".to_string());
    exec("A counts".to_string());
}
