//! Instance-counting key and value types.  Keys compare by `ord` only; `serial`
//! identifies the key *object* (a clone carries its original's serial), so
//! "insert keeps the key object stored first" is observable.

use std::cell::Cell;
use std::cmp::Ordering;

thread_local! {
    pub static LIVE_KEYS: Cell<i64> = const { Cell::new(0) };
    pub static LIVE_VALS: Cell<i64> = const { Cell::new(0) };
    pub static KEY_CLONES: Cell<u64> = const { Cell::new(0) };
    pub static VAL_CLONES: Cell<u64> = const { Cell::new(0) };
    pub static HEAP_MODE: Cell<bool> = const { Cell::new(false) };
    /// fault injection: the n-th `Key::clone` / `Key::cmp` from now on panics (0 = disarmed)
    pub static CLONE_FUSE: Cell<u64> = const { Cell::new(0) };
    pub static CMP_FUSE: Cell<u64> = const { Cell::new(0) };
    pub static KDROP_FUSE: Cell<u64> = const { Cell::new(0) };
    pub static VDROP_FUSE: Cell<u64> = const { Cell::new(0) };
}
pub fn arm_kdrop_fuse(n: u64) {
    KDROP_FUSE.with(|c| c.set(n));
}
pub fn arm_vdrop_fuse(n: u64) {
    VDROP_FUSE.with(|c| c.set(n));
}

pub fn arm_clone_fuse(n: u64) {
    CLONE_FUSE.with(|c| c.set(n));
}
pub fn arm_cmp_fuse(n: u64) {
    CMP_FUSE.with(|c| c.set(n));
}
pub fn disarm_fuses() {
    CLONE_FUSE.with(|c| c.set(0));
    CMP_FUSE.with(|c| c.set(0));
    KDROP_FUSE.with(|c| c.set(0));
    VDROP_FUSE.with(|c| c.set(0));
}
fn burn(fuse: &'static std::thread::LocalKey<Cell<u64>>, what: &str) {
    let fire = fuse.with(|c| {
        let n = c.get();
        if n == 0 {
            false
        } else {
            c.set(n - 1);
            n == 1
        }
    });
    if fire {
        panic!("VERIF-FAULT: injected panic in Key::{}", what);
    }
}

pub fn live_keys() -> i64 {
    LIVE_KEYS.with(|c| c.get())
}
pub fn live_vals() -> i64 {
    LIVE_VALS.with(|c| c.get())
}
pub fn val_clones() -> u64 {
    VAL_CLONES.with(|c| c.get())
}
pub fn set_heap_mode(on: bool) {
    HEAP_MODE.with(|c| c.set(on));
}

#[derive(Debug)]
pub struct Key {
    pub ord: i64,
    pub serial: u64,
    _heap: Option<Box<String>>,
}

impl Key {
    pub fn new(ord: i64, serial: u64) -> Key {
        LIVE_KEYS.with(|c| c.set(c.get() + 1));
        let heap = if HEAP_MODE.with(|c| c.get()) { Some(Box::new(format!("key-{}-{}", ord, serial))) } else { None };
        Key { ord, serial, _heap: heap }
    }
}
impl Clone for Key {
    fn clone(&self) -> Key {
        burn(&CLONE_FUSE, "clone");
        KEY_CLONES.with(|c| c.set(c.get() + 1));
        Key::new(self.ord, self.serial)
    }
}
impl Drop for Key {
    fn drop(&mut self) {
        LIVE_KEYS.with(|c| c.set(c.get() - 1));
        if !std::thread::panicking() {
            burn(&KDROP_FUSE, "drop");
        }
    }
}
impl PartialEq for Key {
    fn eq(&self, o: &Key) -> bool {
        self.ord == o.ord
    }
}
impl Eq for Key {}
impl PartialOrd for Key {
    fn partial_cmp(&self, o: &Key) -> Option<Ordering> {
        Some(self.cmp(o))
    }
}
impl Ord for Key {
    fn cmp(&self, o: &Key) -> Ordering {
        burn(&CMP_FUSE, "cmp");
        self.ord.cmp(&o.ord)
    }
}

#[derive(Debug)]
pub struct Val {
    pub v: u64,
    _heap: Option<Box<String>>,
}
impl Val {
    pub fn new(v: u64) -> Val {
        LIVE_VALS.with(|c| c.set(c.get() + 1));
        let heap = if HEAP_MODE.with(|c| c.get()) { Some(Box::new(format!("val-{}", v))) } else { None };
        Val { v, _heap: heap }
    }
}
impl Clone for Val {
    fn clone(&self) -> Val {
        VAL_CLONES.with(|c| c.set(c.get() + 1));
        Val::new(self.v)
    }
}
impl Drop for Val {
    fn drop(&mut self) {
        LIVE_VALS.with(|c| c.set(c.get() - 1));
        if !std::thread::panicking() {
            VDROP_FUSE.with(|c| {
                let n = c.get();
                if n > 0 {
                    c.set(n - 1);
                    if n == 1 {
                        panic!("VERIF-FAULT: injected panic in Val::drop");
                    }
                }
            });
        }
    }
}
