//! xorshift64* — every random choice of the harness derives from one state.
pub struct Rng(pub u64);

impl Rng {
    pub fn new(seed: u64) -> Self {
        let mut s = seed ^ 0x9E37_79B9_7F4A_7C15;
        if s == 0 {
            s = 0x1234_5678_9ABC_DEF1;
        }
        let mut r = Rng(s);
        for _ in 0..4 {
            r.next();
        }
        r
    }
    pub fn next(&mut self) -> u64 {
        let mut x = self.0;
        x ^= x >> 12;
        x ^= x << 25;
        x ^= x >> 27;
        self.0 = x;
        x.wrapping_mul(0x2545_F491_4F6C_DD1D)
    }
    pub fn below(&mut self, n: u64) -> u64 {
        if n == 0 {
            0
        } else {
            self.next() % n
        }
    }
    pub fn range(&mut self, lo: i64, hi: i64) -> i64 {
        lo + self.below((hi - lo + 1) as u64) as i64
    }
    pub fn chance(&mut self, pct: u64) -> bool {
        self.below(100) < pct
    }
    pub fn pick<'a, T>(&mut self, v: &'a [T]) -> Option<&'a T> {
        if v.is_empty() {
            None
        } else {
            Some(&v[self.below(v.len() as u64) as usize])
        }
    }
}
