//! History generators for the Rust map suites.  Every choice derives from the one Rng.

use crate::rng::Rng;
use std::collections::BTreeSet;

const CAPS: [usize; 14] = [4, 4, 4, 5, 5, 6, 7, 8, 9, 16, 17, 33, 64, 128];

pub struct Gen<'a> {
    pub rng: &'a mut Rng,
    pub exec: &'a mut dyn FnMut(String) -> String,
    pub present: BTreeSet<i64>,
    pub removed: Vec<i64>,
    pub serial: u64,
    pub val: u64,
    pub cap: usize,
    pub universe: i64,
    pub base: i64,
}

impl<'a> Gen<'a> {
    pub fn new(rng: &'a mut Rng, exec: &'a mut dyn FnMut(String) -> String) -> Self {
        Gen { rng, exec, present: BTreeSet::new(), removed: Vec::new(), serial: 0, val: 100, cap: 4, universe: 32, base: 0 }
    }
    fn run(&mut self, line: String) -> String {
        (self.exec)(line)
    }
    pub fn start(&mut self, small: bool) {
        self.cap = if small { CAPS[self.rng.below(6) as usize] } else { CAPS[self.rng.below(CAPS.len() as u64) as usize] };
        let mult = [3, 6, 12, 40][self.rng.below(4) as usize] as i64;
        self.universe = (self.cap as i64) * mult + self.rng.range(0, 7);
        self.base = match self.rng.below(8) {
            0 => -self.universe / 2,
            1 => i64::MAX - self.universe - 1,
            2 => i64::MIN + 1,
            _ => 0,
        };
        self.present.clear();
        self.removed.clear();
        let c = self.cap;
        if self.rng.chance(30) {
            self.run(format!("R empty {}", c));
        } else {
            self.run(format!("R new {}", c));
        }
    }
    pub fn some_key(&mut self) -> i64 {
        match self.rng.below(20) {
            0 => i64::MIN,
            1 => i64::MAX,
            _ => self.base + self.rng.range(0, self.universe),
        }
    }
    pub fn present_key(&mut self) -> Option<i64> {
        if self.present.is_empty() {
            return None;
        }
        let n = self.rng.below(self.present.len() as u64) as usize;
        self.present.iter().nth(n).copied()
    }
    pub fn insert(&mut self, k: i64) {
        self.serial += 1;
        self.val += 1;
        let (s, v) = (self.serial, self.val);
        self.run(format!("R insert {}#{} {}", k, s, v));
        self.present.insert(k);
    }
    pub fn remove(&mut self, k: i64) {
        self.run(format!("R remove {}", k));
        if self.present.remove(&k) {
            self.removed.push(k);
            if self.removed.len() > 64 {
                self.removed.remove(0);
            }
            // a key that has just been removed may survive as a stale separator: probe it
            if self.rng.chance(30) {
                match self.rng.below(4) {
                    0 => {
                        self.val += 1;
                        let v = self.val;
                        self.run(format!("R getmut {} {}", k, v));
                    }
                    1 => {
                        self.run(format!("R get {}", k));
                    }
                    2 => {
                        self.run(format!("R contains {}", k));
                    }
                    _ => {
                        self.run(format!("R remove {}", k));
                    }
                }
            }
        }
    }
    /// a key for a lookup: present, formerly present (possibly a stale separator), or arbitrary
    pub fn probe_key(&mut self) -> i64 {
        match self.rng.below(10) {
            0..=4 => self.present_key().unwrap_or(1),
            5..=7 => {
                if self.removed.is_empty() {
                    self.some_key()
                } else {
                    self.removed[self.rng.below(self.removed.len() as u64) as usize]
                }
            }
            _ => self.some_key(),
        }
    }
    /// a burst of mutations with one of several key patterns
    pub fn mutate(&mut self, steps: usize, grow_bias: u64, dump_every: usize) {
        let pattern = self.rng.below(6);
        let mut cursor = self.base + self.rng.range(0, self.universe);
        for i in 0..steps {
            let grow = self.rng.chance(grow_bias);
            if grow {
                let k = match pattern {
                    0 => {
                        cursor = cursor.saturating_add(1);
                        cursor
                    }
                    1 => {
                        cursor = cursor.saturating_sub(1);
                        cursor
                    }
                    2 => cursor.saturating_add(self.rng.range(-3, 3)),
                    _ => self.some_key(),
                };
                self.insert(k);
            } else {
                let k = if self.rng.chance(85) { self.present_key().unwrap_or(0) } else { self.some_key() };
                match pattern {
                    0 => {
                        // remove from the low end
                        let k = self.present.iter().next().copied().unwrap_or(k);
                        self.remove(k);
                    }
                    1 => {
                        let k = self.present.iter().next_back().copied().unwrap_or(k);
                        self.remove(k);
                    }
                    _ => self.remove(k),
                }
            }
            if dump_every > 0 && i % dump_every == 0 {
                self.run("R dump".into());
            }
        }
    }
    pub fn lookups(&mut self, n: usize) {
        for _ in 0..n {
            let k = self.probe_key();
            match self.rng.below(7) {
                0 => self.run(format!("R get {}", k)),
                1 => self.run(format!("R contains {}", k)),
                2 => {
                    self.val += 1;
                    let v = self.val;
                    self.run(format!("R getmut {} {}", k, v))
                }
                3 => self.run(format!("R getdef {} 7", k)),
                4 => self.run("R len".into()),
                5 => self.run("R isempty".into()),
                _ => self.run(format!("R get {}", k)),
            };
        }
    }
    /// an endpoint aimed at boundaries: present keys, gaps next to them, below min, above max
    pub fn endpoint(&mut self) -> i64 {
        let lo = self.present.iter().next().copied().unwrap_or(self.base);
        let hi = self.present.iter().next_back().copied().unwrap_or(self.base);
        match self.rng.below(10) {
            0 => lo.saturating_sub(1 + self.rng.below(3) as i64),
            1 => hi.saturating_add(1 + self.rng.below(3) as i64),
            2 | 3 | 4 => self.present_key().unwrap_or(lo),
            5 => self.present_key().unwrap_or(lo).saturating_add(1),
            6 => self.present_key().unwrap_or(lo).saturating_sub(1),
            7 => i64::MIN + self.rng.below(2) as i64,
            8 => i64::MAX - self.rng.below(2) as i64,
            _ => self.some_key(),
        }
    }
    pub fn bound(&mut self) -> String {
        let k = self.endpoint();
        match self.rng.below(5) {
            0 => "u".to_string(),
            1 | 2 => format!("i{}", k),
            _ => format!("e{}", k),
        }
    }
}

/// C01 / C04 / C06 / C11: mutation-heavy histories, dump after every call on small trees
pub fn gen_ops(rng: &mut Rng, len: usize, exec: &mut dyn FnMut(String) -> String, case: usize) {
    let mut g = Gen::new(rng, exec);
    g.start(case % 3 != 0);
    if case % 7 == 3 {
        (g.exec)("cfg kv heap".into());
    }
    let big = g.cap > 16;
    let dump_every = if big { 16 } else { 1 };
    let mut done = 0;
    while done < len {
        let phase = g.rng.below(6);
        let steps = 8 + g.rng.below((len / 3).max(8) as u64) as usize;
        match phase {
            0 | 1 => g.mutate(steps, 85, dump_every),
            2 => g.mutate(steps, 15, dump_every),
            3 => g.mutate(steps, 50, dump_every),
            4 => g.lookups(steps / 2 + 1),
            _ => {
                if g.rng.chance(10) {
                    (g.exec)("R clear".into());
                    g.present.clear();
                    (g.exec)("R dump".into());
                } else {
                    // drain completely in a chosen order (forces every merge / collapse path)
                    let mut keys: Vec<i64> = g.present.iter().copied().collect();
                    match g.rng.below(3) {
                        0 => {}
                        1 => keys.reverse(),
                        _ => {
                            for i in (1..keys.len()).rev() {
                                let j = g.rng.below(i as u64 + 1) as usize;
                                keys.swap(i, j);
                            }
                        }
                    }
                    let n = keys.len().min(steps * 2);
                    for k in keys.into_iter().take(n) {
                        g.remove(k);
                        if dump_every == 1 {
                            (g.exec)("R dump".into());
                        }
                    }
                }
            }
        }
        done += steps;
    }
    (g.exec)("R dump".into());
    (g.exec)("R counts".into());
    (g.exec)("R check".into());
    (g.exec)("R items".into());
    (g.exec)("R drop".into());
}

/// C02: states, then every iterator kind, partial consumption, exhausted iterators, interleavings
pub fn gen_iter(rng: &mut Rng, len: usize, exec: &mut dyn FnMut(String) -> String, case: usize) {
    let mut g = Gen::new(rng, exec);
    g.start(case % 4 != 0);
    let rounds = 3 + g.rng.below(4) as usize;
    for r in 0..rounds {
        let bias = if r % 2 == 0 { 85 } else { 30 };
        g.mutate(len / rounds + 1, bias, 0);
        (g.exec)("R dump".into());
        for op in ["items", "itemsfast", "keys", "values", "slice", "first", "last"] {
            (g.exec)(format!("R {}", op));
        }
        let n = g.present.len();
        for _ in 0..3 {
            let take = g.rng.below(n as u64 + 2) as usize;
            (g.exec)(format!("R partial {} 3", take));
            (g.exec)(format!("R partialfast {} 3", take));
        }
        (g.exec)(format!("R partial {} 3", n));
        let steps = (n + 3).min(40) * 2;
        let sched: Vec<String> = (0..steps).map(|_| g.rng.below(2).to_string()).collect();
        (g.exec)(format!("R interleave {}", sched.join(" ")));
    }
    (g.exec)("R drop".into());
}

/// C03: states, then boundary-targeted range queries of all 9 bound-kind combinations
pub fn gen_range(rng: &mut Rng, len: usize, exec: &mut dyn FnMut(String) -> String, case: usize) {
    let mut g = Gen::new(rng, exec);
    g.start(case % 4 != 0);
    let rounds = 2 + g.rng.below(3) as usize;
    for r in 0..rounds {
        let bias = if r % 2 == 0 { 80 } else { 35 };
        g.mutate(len / rounds + 1, bias, 0);
        (g.exec)("R dump".into());
        for _ in 0..40 {
            let (lo, hi) = (g.bound(), g.bound());
            (g.exec)(format!("R range {} {}", lo, hi));
        }
        for _ in 0..10 {
            let lo = if g.rng.chance(20) { "-".to_string() } else { g.endpoint().to_string() };
            let hi = if g.rng.chance(20) { "-".to_string() } else { g.endpoint().to_string() };
            (g.exec)(format!("R itemsrange {} {}", lo, hi));
        }
        for _ in 0..10 {
            let s = g.endpoint();
            let e = g.bound();
            (g.exec)(format!("R itemsfrom {} {}", s, e));
        }
        for _ in 0..4 {
            let (lo, hi) = (g.bound(), g.bound());
            let n = g.rng.below(8) + 1;
            (g.exec)(format!("R partialrange {} {} {}", lo, hi, n));
        }
    }
    (g.exec)("R drop".into());
}

/// C10: constructors over 0..=4096 (case 0), then histories mixing checked and basic calls
pub fn gen_api(rng: &mut Rng, len: usize, exec: &mut dyn FnMut(String) -> String, case: usize) {
    if case == 0 {
        for c in 0..=4096usize {
            exec(format!("R new {}", c));
            exec(format!("R empty {}", c));
        }
        exec("R default".into());
        exec("R validateop".into());
        exec("R dump".into());
        exec("R drop".into());
        return;
    }
    let mut g = Gen::new(rng, exec);
    g.start(case % 3 != 0);
    for i in 0..len {
        let k = if g.rng.chance(55) { g.present_key().unwrap_or(3) } else { g.some_key() };
        match g.rng.below(14) {
            0 | 1 | 2 => {
                g.serial += 1;
                g.val += 1;
                let (s, v) = (g.serial, g.val);
                (g.exec)(format!("R tryinsert {}#{} {}", k, s, v));
                g.present.insert(k);
            }
            3 => {
                (g.exec)(format!("R tryremove {}", k));
                g.present.remove(&k);
            }
            4 => {
                (g.exec)(format!("R removeitem {}", k));
                g.present.remove(&k);
            }
            5 => {
                (g.exec)(format!("R tryget {}", k));
            }
            6 => {
                (g.exec)(format!("R getitem {}", k));
            }
            7 => {
                let n = g.rng.below(6) as usize;
                let mut ks = Vec::new();
                for _ in 0..n {
                    let k = if g.rng.chance(80) { g.present_key().unwrap_or(3) } else { g.some_key() };
                    ks.push(k.to_string());
                }
                (g.exec)(format!("R getmany {}", ks.join(" ")).trim_end().to_string());
            }
            8 => {
                let n = g.rng.below(6) as usize;
                let mut items = Vec::new();
                for _ in 0..n {
                    let k = if g.rng.chance(40) { g.present_key().unwrap_or(3) } else { g.some_key() };
                    g.serial += 1;
                    g.val += 1;
                    items.push(format!("{}#{}:{}", k, g.serial, g.val));
                    g.present.insert(k);
                }
                (g.exec)(format!("R batchinsert {}", items.join(" ")).trim_end().to_string());
            }
            9 => {
                (g.exec)("R validateop".into());
            }
            10 | 11 => g.insert(k),
            12 => g.remove(k),
            _ => {
                (g.exec)(format!("R get {}", k));
            }
        }
        if i % 8 == 0 {
            (g.exec)("R dump".into());
        }
    }
    (g.exec)("R dump".into());
    (g.exec)("R check".into());
    (g.exec)("R drop".into());
}
