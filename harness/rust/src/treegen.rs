//! History generators for the Rust map suites.  Every choice derives from the one Rng.

use crate::rng::Rng;
use std::collections::BTreeSet;

const CAPS: [usize; 14] = [4, 4, 4, 5, 5, 6, 7, 8, 9, 16, 17, 33, 64, 128];

pub struct Gen<'a> {
    pub rng: &'a mut Rng,
    pub exec: &'a mut dyn FnMut(String) -> String,
    pub present: BTreeSet<i64>,
    pub removed: Vec<i64>,
    pub serial: u64,
    pub val: u64,
    pub cap: usize,
    pub universe: i64,
    pub base: i64,
}

impl<'a> Gen<'a> {
    pub fn new(rng: &'a mut Rng, exec: &'a mut dyn FnMut(String) -> String) -> Self {
        Gen { rng, exec, present: BTreeSet::new(), removed: Vec::new(), serial: 0, val: 100, cap: 4, universe: 32, base: 0 }
    }
    fn run(&mut self, line: String) -> String {
        (self.exec)(line)
    }
    pub fn start(&mut self, small: bool) {
        self.cap = if small { CAPS[self.rng.below(6) as usize] } else { CAPS[self.rng.below(CAPS.len() as u64) as usize] };
        let mult = [3, 6, 12, 40][self.rng.below(4) as usize] as i64;
        self.universe = (self.cap as i64) * mult + self.rng.range(0, 7);
        self.base = match self.rng.below(8) {
            0 => -self.universe / 2,
            1 => i64::MAX - self.universe - 1,
            2 => i64::MIN + 1,
            _ => 0,
        };
        self.present.clear();
        self.removed.clear();
        let c = self.cap;
        if self.rng.chance(30) {
            self.run(format!("R empty {}", c));
        } else {
            self.run(format!("R new {}", c));
        }
    }
    pub fn some_key(&mut self) -> i64 {
        match self.rng.below(20) {
            0 => i64::MIN,
            1 => i64::MAX,
            _ => self.base + self.rng.range(0, self.universe),
        }
    }
    pub fn present_key(&mut self) -> Option<i64> {
        if self.present.is_empty() {
            return None;
        }
        let n = self.rng.below(self.present.len() as u64) as usize;
        self.present.iter().nth(n).copied()
    }
    pub fn insert(&mut self, k: i64) {
        self.serial += 1;
        self.val += 1;
        let (s, v) = (self.serial, self.val);
        self.run(format!("R insert {}#{} {}", k, s, v));
        self.present.insert(k);
    }
    pub fn remove(&mut self, k: i64) {
        self.run(format!("R remove {}", k));
        if self.present.remove(&k) {
            self.removed.push(k);
            if self.removed.len() > 64 {
                self.removed.remove(0);
            }
            // a key that has just been removed may survive as a stale separator: probe it
            if self.rng.chance(30) {
                match self.rng.below(4) {
                    0 => {
                        self.val += 1;
                        let v = self.val;
                        self.run(format!("R getmut {} {}", k, v));
                    }
                    1 => {
                        self.run(format!("R get {}", k));
                    }
                    2 => {
                        self.run(format!("R contains {}", k));
                    }
                    _ => {
                        self.run(format!("R remove {}", k));
                    }
                }
            }
        }
    }
    /// a key for a lookup: present, formerly present (possibly a stale separator), or arbitrary
    pub fn probe_key(&mut self) -> i64 {
        match self.rng.below(10) {
            0..=4 => self.present_key().unwrap_or(1),
            5..=7 => {
                if self.removed.is_empty() {
                    self.some_key()
                } else {
                    self.removed[self.rng.below(self.removed.len() as u64) as usize]
                }
            }
            _ => self.some_key(),
        }
    }
    /// wide branches: capacity >= 16 with enough leaves under one branch that it holds more than 16 separators, every
    /// stored key (so every separator value) sent through each kind of call, then a drain from one end
    pub fn wide(&mut self, case: usize) {
        let g = self;
        // wide branches: capacity > 16 with enough leaves under one branch that it holds more than 16 separators,
        // then every stored key (so every separator value) goes through each kind of call
        (g.exec)("R drop".into());
        g.cap = [16, 16, 17, 18, 20, 33][g.rng.below(6) as usize];
        g.universe = (g.cap as i64) * 60;
        g.base = 0;
        g.present.clear();
        g.removed.clear();
        let c = g.cap;
        (g.exec)(format!("R new {}", c));
        let n = g.cap * (19 + g.rng.below(8) as usize);
        let ascending = g.rng.chance(50);
        for i in 0..n {
            let k = if ascending { (i as i64) * 2 } else { g.base + g.rng.range(0, g.universe) };
            g.insert(k);
        }
        (g.exec)("R dump".into());
        let keys: Vec<i64> = g.present.iter().copied().collect();
        for (i, k) in keys.iter().enumerate() {
            match (i + case) % 5 {
                0 => {
                    (g.exec)(format!("R get {}", k));
                }
                1 => {
                    (g.exec)(format!("R contains {}", k));
                }
                2 => {
                    g.val += 1;
                    let v = g.val;
                    (g.exec)(format!("R getmut {} {}", k, v));
                }
                3 => g.insert(*k),
                _ => {
                    g.remove(*k);
                    (g.exec)(format!("R get {}", k));
                }
            }
        }
        (g.exec)("R dump".into());
        (g.exec)("R len".into());
        // drain most of it from one end (leaf merges, then branch borrows and branch MERGES at this capacity),
        // looking at the arenas on the way
        let keys: Vec<i64> = g.present.iter().copied().collect();
        let from_top = g.rng.chance(50);
        let n = keys.len() * 4 / 5;
        for i in 0..n {
            let k = if from_top { keys[keys.len() - 1 - i] } else { keys[i] };
            g.remove(k);
            if i % 16 == 15 {
                (g.exec)("R dump".into());
                (g.exec)("R counts".into());
            }
        }
        (g.exec)("R dump".into());
        (g.exec)("R check".into());
    }
    /// very wide NODES: a capacity in the hundreds, so that half a leaf is bigger than a page of memory and a handful of
    /// leaves hold more than a thousand entries; growth, overwrites, a drain, the arenas on the way
    pub fn fat(&mut self, case: usize) {
        let g = self;
        (g.exec)("R drop".into());
        g.cap = [210, 256, 300, 513, 601][g.rng.below(5) as usize];
        g.universe = (g.cap as i64) * 8;
        g.base = 0;
        g.present.clear();
        g.removed.clear();
        let c = g.cap;
        (g.exec)(format!("R new {}", c));
        let n = g.cap * 2 + g.cap / 2 + g.rng.below(g.cap as u64) as usize;
        let pattern = (case / 7) % 3;
        for i in 0..n {
            let k = match pattern {
                0 => (i as i64) * 2,
                1 => (n - i) as i64 * 2,
                _ => g.base + g.rng.range(0, g.universe),
            };
            g.insert(k);
            if i % 64 == 63 {
                (g.exec)("R counts".into());
            }
        }
        (g.exec)("R dump".into());
        (g.exec)("R items".into());
        (g.exec)("R check".into());
        let keys: Vec<i64> = g.present.iter().copied().collect();
        for (i, k) in keys.iter().enumerate() {
            match i % 7 {
                0 => {
                    (g.exec)(format!("R get {}", k));
                }
                1 => g.insert(*k),
                2 | 3 => g.remove(*k),
                _ => {}
            }
        }
        (g.exec)("R dump".into());
        let keys: Vec<i64> = g.present.iter().copied().collect();
        let from_top = g.rng.chance(50);
        for i in 0..(keys.len() * 3 / 4) {
            let k = if from_top { keys[keys.len() - 1 - i] } else { keys[i] };
            g.remove(k);
            if i % 64 == 63 {
                (g.exec)("R counts".into());
            }
        }
        (g.exec)("R dump".into());
        (g.exec)("R check".into());
    }
    /// a burst of mutations with one of several key patterns
    pub fn mutate(&mut self, steps: usize, grow_bias: u64, dump_every: usize) {
        let pattern = self.rng.below(6);
        let mut cursor = self.base + self.rng.range(0, self.universe);
        for i in 0..steps {
            let grow = self.rng.chance(grow_bias);
            if grow {
                let k = match pattern {
                    0 => {
                        cursor = cursor.saturating_add(1);
                        cursor
                    }
                    1 => {
                        cursor = cursor.saturating_sub(1);
                        cursor
                    }
                    2 => cursor.saturating_add(self.rng.range(-3, 3)),
                    _ => self.some_key(),
                };
                self.insert(k);
            } else {
                let k = if self.rng.chance(85) { self.present_key().unwrap_or(0) } else { self.some_key() };
                match pattern {
                    0 => {
                        // remove from the low end
                        let k = self.present.iter().next().copied().unwrap_or(k);
                        self.remove(k);
                    }
                    1 => {
                        let k = self.present.iter().next_back().copied().unwrap_or(k);
                        self.remove(k);
                    }
                    _ => self.remove(k),
                }
            }
            if dump_every > 0 && i % dump_every == 0 {
                self.run("R dump".into());
            }
        }
    }
    pub fn lookups(&mut self, n: usize) {
        for _ in 0..n {
            let k = self.probe_key();
            match self.rng.below(7) {
                0 => self.run(format!("R get {}", k)),
                1 => self.run(format!("R contains {}", k)),
                2 => {
                    self.val += 1;
                    let v = self.val;
                    self.run(format!("R getmut {} {}", k, v))
                }
                3 => self.run(format!("R getdef {} 7", k)),
                4 => self.run("R len".into()),
                5 => self.run("R isempty".into()),
                _ => self.run(format!("R get {}", k)),
            };
        }
    }
    /// an endpoint aimed at boundaries: present keys, gaps next to them, below min, above max
    pub fn endpoint(&mut self) -> i64 {
        let lo = self.present.iter().next().copied().unwrap_or(self.base);
        let hi = self.present.iter().next_back().copied().unwrap_or(self.base);
        match self.rng.below(10) {
            0 => lo.saturating_sub(1 + self.rng.below(3) as i64),
            1 => hi.saturating_add(1 + self.rng.below(3) as i64),
            2 | 3 | 4 => self.present_key().unwrap_or(lo),
            5 => self.present_key().unwrap_or(lo).saturating_add(1),
            6 => self.present_key().unwrap_or(lo).saturating_sub(1),
            7 => i64::MIN + self.rng.below(2) as i64,
            8 => i64::MAX - self.rng.below(2) as i64,
            _ => self.some_key(),
        }
    }
    pub fn bound(&mut self) -> String {
        let k = self.endpoint();
        match self.rng.below(5) {
            0 => "u".to_string(),
            1 | 2 => format!("i{}", k),
            _ => format!("e{}", k),
        }
    }
}

/// C01 / C04 / C06 / C11: mutation-heavy histories, dump after every call on small trees
pub fn gen_ops(rng: &mut Rng, len: usize, exec: &mut dyn FnMut(String) -> String, case: usize) {
    let mut g = Gen::new(rng, exec);
    g.start(case % 3 != 0);
    if case % 7 == 3 {
        (g.exec)("cfg kv heap".into());
    }
    let big = g.cap > 16;
    let dump_every = if big { 16 } else { 1 };
    let mut done = 0;
    if g.rng.chance(12) {
        // calls that are no-ops: clear() on a fresh map, twice in a row, removals from an empty map
        (g.exec)("R clear".into());
        (g.exec)("R dump".into());
        (g.exec)("R clear".into());
        let k = g.some_key();
        (g.exec)(format!("R remove {}", k));
        (g.exec)("R len".into());
        (g.exec)("R items".into());
        (g.exec)("R counts".into());
        (g.exec)("R dump".into());
    }
    if case % 11 == 5 {
        g.wide(case);
        done = len / 2;
    }
    if case % 37 == 7 {
        g.fat(case);
        done = len / 2;
    }
    while done < len {
        let phase = g.rng.below(6);
        let steps = 8 + g.rng.below((len / 3).max(8) as u64) as usize;
        match phase {
            0 | 1 => g.mutate(steps, 85, dump_every),
            2 => g.mutate(steps, 15, dump_every),
            3 => g.mutate(steps, 50, dump_every),
            4 => g.lookups(steps / 2 + 1),
            _ => {
                if g.rng.chance(14) {
                    // clear() in the middle of a history (often with freed slots outstanding), then a refill that
                    // outgrows everything the arenas held before: the second life of the map must be as good as the first
                    let before = g.present.len();
                    (g.exec)("R clear".into());
                    g.present.clear();
                    (g.exec)("R dump".into());
                    let want = before + before / 2 + 2 * g.cap + 4;
                    let mut tries = 0;
                    while g.present.len() < want && tries < 6 * want {
                        tries += 1;
                        let k = g.some_key();
                        g.insert(k);
                        if dump_every == 1 {
                            (g.exec)("R dump".into());
                        }
                    }
                    (g.exec)("R dump".into());
                    (g.exec)("R len".into());
                    for _ in 0..6 {
                        let k = g.probe_key();
                        (g.exec)(format!("R get {}", k));
                    }
                } else {
                    // drain completely in a chosen order (forces every merge / collapse path)
                    let mut keys: Vec<i64> = g.present.iter().copied().collect();
                    match g.rng.below(3) {
                        0 => {}
                        1 => keys.reverse(),
                        _ => {
                            for i in (1..keys.len()).rev() {
                                let j = g.rng.below(i as u64 + 1) as usize;
                                keys.swap(i, j);
                            }
                        }
                    }
                    let n = keys.len().min(steps * 2);
                    for k in keys.into_iter().take(n) {
                        g.remove(k);
                        if dump_every == 1 {
                            (g.exec)("R dump".into());
                        }
                    }
                }
            }
        }
        done += steps;
    }
    (g.exec)("R dump".into());
    (g.exec)("R counts".into());
    (g.exec)("R check".into());
    (g.exec)("R items".into());
    (g.exec)("R drop".into());
}

/// C02: states, then every iterator kind, partial consumption, exhausted iterators, interleavings
pub fn gen_iter(rng: &mut Rng, len: usize, exec: &mut dyn FnMut(String) -> String, case: usize) {
    let mut g = Gen::new(rng, exec);
    g.start(case % 4 != 0);
    if case % 11 == 5 {
        g.wide(case);
        for op in ["items", "itemsfast", "keys", "values", "first", "last"] {
            (g.exec)(format!("R {}", op));
        }
    }
    let rounds = 3 + g.rng.below(4) as usize;
    for r in 0..rounds {
        let bias = if r % 2 == 0 { 85 } else { 30 };
        if r > 0 && g.rng.chance(30) {
            (g.exec)("R clear".into());
            g.present.clear();
            g.removed.clear();
            g.mutate(len / rounds + 1, 85, 0);
        }
        g.mutate(len / rounds + 1, bias, 0);
        (g.exec)("R dump".into());
        for op in ["items", "itemsfast", "keys", "values", "slice", "first", "last"] {
            (g.exec)(format!("R {}", op));
        }
        let n = g.present.len();
        for _ in 0..3 {
            let take = g.rng.below(n as u64 + 2) as usize;
            (g.exec)(format!("R partial {} 3", take));
            (g.exec)(format!("R partialfast {} 3", take));
        }
        (g.exec)(format!("R partial {} 3", n));
        let steps = (n + 3).min(40) * 2;
        let sched: Vec<String> = (0..steps).map(|_| g.rng.below(2).to_string()).collect();
        (g.exec)(format!("R interleave {}", sched.join(" ")));
    }
    (g.exec)("R drop".into());
}

/// the two public positioned constructors, called directly with positions inside, at the end of, past the end of
/// live leaves, and with leaf ids that are free or were never issued
fn positioned_calls(g: &mut Gen, d: &DumpInfo, prefix: &str, n: usize) {
    let live: Vec<u32> = (0..d.leaves.len() as u32).filter(|i| d.leaves[*i as usize].live).collect();
    for _ in 0..n {
        let leaf: u32 = match g.rng.below(10) {
            0 => d.leaves.len() as u32 + g.rng.below(3) as u32,
            1 => 4_000_000,
            2 => (0..d.leaves.len() as u32).find(|i| !d.leaves[*i as usize].live).unwrap_or(77),
            _ => {
                if live.is_empty() {
                    0
                } else {
                    live[g.rng.below(live.len() as u64) as usize]
                }
            }
        };
        let klen = d.leaves.get(leaf as usize).map(|l| l.keys.len()).unwrap_or(0);
        let idx = match g.rng.below(6) {
            0 => 0,
            1 => klen.saturating_sub(1),
            2 | 3 => klen,
            4 => klen + 1,
            _ => 97,
        };
        let e = g.bound();
        if g.rng.chance(25) {
            // a half-consumed items() / items_fast() iterator pointed at this leaf through its public field
            let n = g.rng.below(12);
            let extra = 1 + g.rng.below(4);
            (g.exec)(format!("{} {} {} {} {}", prefix, if g.rng.chance(50) { "retarget" } else { "retargetfast" }, n, leaf, extra));
        } else if g.rng.chance(65) {
            let skip = g.rng.below(2);
            (g.exec)(format!("{} rangefrom {} {} {} {}", prefix, leaf, idx, skip, e));
        } else {
            (g.exec)(format!("{} iterfrom {} {} 0 {}", prefix, leaf, idx, e));
        }
    }
}

/// C03: states, then boundary-targeted range queries of all 9 bound-kind combinations
pub fn gen_range(rng: &mut Rng, len: usize, exec: &mut dyn FnMut(String) -> String, case: usize) {
    let mut g = Gen::new(rng, exec);
    g.start(case % 4 != 0);
    if case % 11 == 5 {
        g.wide(case);
    }
    let rounds = 2 + g.rng.below(3) as usize;
    for r in 0..rounds {
        let bias = if r % 2 == 0 { 80 } else { 35 };
        if r > 0 && g.rng.chance(35) {
            // a map that has been through clear() and is refilled: the second life of the arenas
            (g.exec)("R clear".into());
            g.present.clear();
            g.removed.clear();
            g.mutate(len / rounds + 1, 85, 0);
        }
        g.mutate(len / rounds + 1, bias, 0);
        let dtxt = (g.exec)("R dump".into());
        let dinfo = parse_dump(&dtxt);
        positioned_calls(&mut g, &dinfo, "R", 8);
        for _ in 0..40 {
            let (lo, hi) = (g.bound(), g.bound());
            (g.exec)(format!("R range {} {}", lo, hi));
        }
        for _ in 0..10 {
            let lo = if g.rng.chance(20) { "-".to_string() } else { g.endpoint().to_string() };
            let hi = if g.rng.chance(20) { "-".to_string() } else { g.endpoint().to_string() };
            (g.exec)(format!("R itemsrange {} {}", lo, hi));
        }
        for _ in 0..10 {
            let s = g.endpoint();
            let e = g.bound();
            (g.exec)(format!("R itemsfrom {} {}", s, e));
        }
        for _ in 0..4 {
            let (lo, hi) = (g.bound(), g.bound());
            let n = g.rng.below(8) + 1;
            (g.exec)(format!("R partialrange {} {} {}", lo, hi, n));
        }
    }
    (g.exec)("R drop".into());
}

/// C10: constructors over 0..=4096 (case 0), then histories mixing checked and basic calls
pub fn gen_api(rng: &mut Rng, len: usize, exec: &mut dyn FnMut(String) -> String, case: usize) {
    if case == 0 {
        for c in 0..=4096usize {
            exec(format!("R new {}", c));
            exec(format!("R empty {}", c));
        }
        exec("R default".into());
        exec("R validateop".into());
        exec("R dump".into());
        exec("R drop".into());
        return;
    }
    let mut g = Gen::new(rng, exec);
    g.start(case % 3 != 0);
    if case % 11 == 5 {
        // the checked calls on a map with wide branches, every stored key (every separator value) in turn
        (g.exec)("R drop".into());
        g.cap = [17, 20, 33][g.rng.below(3) as usize];
        g.universe = (g.cap as i64) * 60;
        g.base = 0;
        g.present.clear();
        g.removed.clear();
        let c = g.cap;
        (g.exec)(format!("R new {}", c));
        let n = g.cap * (19 + g.rng.below(6) as usize);
        for i in 0..n {
            g.insert((i as i64) * 2);
        }
        let keys: Vec<i64> = g.present.iter().copied().collect();
        for (i, k) in keys.iter().enumerate() {
            match (i + case) % 4 {
                0 => {
                    g.serial += 1;
                    g.val += 1;
                    let (s, v) = (g.serial, g.val);
                    (g.exec)(format!("R tryinsert {}#{} {}", k, s, v));
                }
                1 => {
                    (g.exec)(format!("R tryremove {}", k));
                    g.present.remove(k);
                }
                2 => {
                    (g.exec)(format!("R removeitem {}", k));
                    g.present.remove(k);
                }
                _ => {
                    (g.exec)(format!("R tryget {}", k));
                }
            }
        }
        (g.exec)("R validateop".into());
        (g.exec)("R dump".into());
    }
    for i in 0..len {
        let k = if g.rng.chance(55) { g.present_key().unwrap_or(3) } else { g.some_key() };
        match g.rng.below(14) {
            0 | 1 | 2 => {
                g.serial += 1;
                g.val += 1;
                let (s, v) = (g.serial, g.val);
                (g.exec)(format!("R tryinsert {}#{} {}", k, s, v));
                g.present.insert(k);
            }
            3 => {
                (g.exec)(format!("R tryremove {}", k));
                g.present.remove(&k);
            }
            4 => {
                (g.exec)(format!("R removeitem {}", k));
                g.present.remove(&k);
            }
            5 => {
                (g.exec)(format!("R tryget {}", k));
            }
            6 => {
                (g.exec)(format!("R getitem {}", k));
            }
            7 => {
                // mostly short requests; now and then a long one (far longer than the map, with many repeats)
                let n = if g.rng.chance(12) { 30 + g.rng.below(120) as usize } else { g.rng.below(6) as usize };
                let mut ks = Vec::new();
                for _ in 0..n {
                    let k = if g.rng.chance(80) { g.present_key().unwrap_or(3) } else { g.some_key() };
                    ks.push(k.to_string());
                }
                (g.exec)(format!("R getmany {}", ks.join(" ")).trim_end().to_string());
            }
            8 => {
                // mostly short batches; now and then a long one in which keys repeat (order of application matters)
                let n = if g.rng.chance(15) { 33 + g.rng.below(150) as usize } else { g.rng.below(6) as usize };
                let mut items = Vec::new();
                for _ in 0..n {
                    let k = if g.rng.chance(40) { g.present_key().unwrap_or(3) } else { g.some_key() };
                    g.serial += 1;
                    g.val += 1;
                    items.push(format!("{}#{}:{}", k, g.serial, g.val));
                    g.present.insert(k);
                }
                (g.exec)(format!("R batchinsert {}", items.join(" ")).trim_end().to_string());
            }
            9 => {
                (g.exec)("R validateop".into());
            }
            10 | 11 => g.insert(k),
            12 => g.remove(k),
            _ => {
                (g.exec)(format!("R get {}", k));
            }
        }
        if i % 8 == 0 {
            (g.exec)("R dump".into());
        }
    }
    (g.exec)("R dump".into());
    (g.exec)("R check".into());
    (g.exec)("R drop".into());
}

// ---------------------------------------------------------------------------
// damage (C14) and helper-misuse (C15) generators
// ---------------------------------------------------------------------------

#[derive(Clone, Debug)]
pub struct LeafInfo {
    pub live: bool,
    pub keys: Vec<(i64, u64)>,
    pub vals: Vec<u64>,
    pub next: u32,
}
#[derive(Clone, Debug)]
pub struct BranchInfo {
    pub live: bool,
    pub keys: Vec<(i64, u64)>,
    pub children: Vec<(bool, u32)>,
}
#[derive(Clone, Debug, Default)]
pub struct DumpInfo {
    pub root: (bool, u32),
    pub cap: usize,
    pub leaves: Vec<LeafInfo>,
    pub branches: Vec<BranchInfo>,
}

fn parse_list(s: &str) -> Vec<String> {
    let inner = s.trim_start_matches('[').trim_end_matches(']');
    if inner.is_empty() {
        Vec::new()
    } else {
        inner.split(',').map(|x| x.to_string()).collect()
    }
}
fn parse_key(s: &str) -> (i64, u64) {
    let mut it = s.split('#');
    let a = it.next().unwrap_or("0").parse().unwrap_or(0);
    let b = it.next().unwrap_or("0").parse().unwrap_or(0);
    (a, b)
}
fn parse_nref(s: &str) -> (bool, u32) {
    (s.starts_with('L'), s[1..].parse().unwrap_or(0))
}

/// parse the canonical dump line the harness itself prints
pub fn parse_dump(s: &str) -> DumpInfo {
    let mut d = DumpInfo::default();
    for tok in s.split(' ') {
        if let Some(r) = tok.strip_prefix("root=") {
            d.root = parse_nref(r);
        } else if let Some(c) = tok.strip_prefix("cap=") {
            if d.cap == 0 {
                d.cap = c.parse().unwrap_or(0);
            }
        }
    }
    // node slots: `L3:[cap=4 k=[..] v=[..] n=1]` / `B0:free[cap=16 k=[] c=[]]`
    let mut rest = s;
    loop {
        let pos = match (rest.find(":["), rest.find(":free[")) {
            (Some(a), Some(b)) => a.min(b),
            (Some(a), None) => a,
            (None, Some(b)) => b,
            (None, None) => break,
        };
        // find the slot name before pos
        let head = &rest[..pos];
        let name_start = head.rfind(' ').map(|i| i + 1).unwrap_or(0);
        let name = &head[name_start..];
        let free = rest[pos..].starts_with(":free[");
        let body_start = pos + if free { 6 } else { 2 };
        // body ends at the matching "]" that closes the slot: after the last field
        let body_end = {
            let mut depth = 1;
            let mut idx = body_start;
            for (i, ch) in rest[body_start..].char_indices() {
                if ch == '[' {
                    depth += 1;
                } else if ch == ']' {
                    depth -= 1;
                    if depth == 0 {
                        idx = body_start + i;
                        break;
                    }
                }
            }
            idx
        };
        let body = &rest[body_start..body_end];
        let mut keys = Vec::new();
        let mut vals = Vec::new();
        let mut children = Vec::new();
        let mut next = u32::MAX;
        for f in body.split(' ') {
            if let Some(k) = f.strip_prefix("k=") {
                keys = parse_list(k).iter().map(|x| parse_key(x)).collect();
            } else if let Some(v) = f.strip_prefix("v=") {
                vals = parse_list(v).iter().map(|x| x.parse().unwrap_or(0)).collect();
            } else if let Some(c) = f.strip_prefix("c=") {
                children = parse_list(c).iter().map(|x| parse_nref(x)).collect();
            } else if let Some(n) = f.strip_prefix("n=") {
                next = n.parse().unwrap_or(u32::MAX);
            }
        }
        if name.starts_with('L') {
            d.leaves.push(LeafInfo { live: !free, keys, vals, next });
        } else if name.starts_with('B') {
            d.branches.push(BranchInfo { live: !free, keys, children });
        }
        rest = &rest[body_end..];
    }
    d
}

fn fkeys(ks: &[(i64, u64)]) -> String {
    if ks.is_empty() {
        "-".to_string()
    } else {
        ks.iter().map(|k| format!("{}#{}", k.0, k.1)).collect::<Vec<_>>().join(",")
    }
}
fn fvals(vs: &[u64]) -> String {
    if vs.is_empty() {
        "-".to_string()
    } else {
        vs.iter().map(|v| v.to_string()).collect::<Vec<_>>().join(",")
    }
}
fn frefs(cs: &[(bool, u32)]) -> String {
    if cs.is_empty() {
        "-".to_string()
    } else {
        cs.iter().map(|c| format!("{}{}", if c.0 { "L" } else { "B" }, c.1)).collect::<Vec<_>>().join(",")
    }
}

/// leaves in chain order starting at the leftmost leaf of the tree
fn chain_order(d: &DumpInfo) -> Vec<u32> {
    let mut cur = d.root;
    let mut guard = 64;
    while !cur.0 && guard > 0 {
        guard -= 1;
        match d.branches.get(cur.1 as usize) {
            Some(b) if !b.children.is_empty() => cur = b.children[0],
            _ => return Vec::new(),
        }
    }
    let mut out = Vec::new();
    let mut id = cur.1;
    let mut guard = d.leaves.len() + 2;
    while id != u32::MAX && guard > 0 {
        guard -= 1;
        out.push(id);
        match d.leaves.get(id as usize) {
            Some(l) if l.live => id = l.next,
            _ => break,
        }
    }
    out
}

const DAMAGE_KINDS: [&str; 14] = [
    "unsorted", "duplicate", "count-mismatch", "over-capacity", "underfull", "empty-node", "out-of-interval", "arity",
    "dangling-child", "chain-skip", "chain-truncate", "chain-misorder", "chain-dangling", "orphan",
];

/// C14: one valid state, one precise kind of damage, then every validator
pub fn gen_damage(rng: &mut Rng, len: usize, exec: &mut dyn FnMut(String) -> String, case: usize) {
    let mut g = Gen::new(rng, exec);
    g.start(case % 4 != 0);
    if g.cap > 33 {
        g.cap = 33;
        (g.exec)("R drop".into());
        (g.exec)("R new 33".into());
    }
    let grow = g.cap * (3 + g.rng.below(10) as usize) + len / 8;
    g.mutate(grow, 88, 0);
    if g.rng.chance(40) {
        g.mutate(grow / 3, 25, 0);
    }
    if g.rng.chance(30) {
        // the damaged map is one that has been through clear() and was refilled
        (g.exec)("R clear".into());
        g.present.clear();
        g.removed.clear();
        g.mutate(grow, 90, 0);
    }
    (g.exec)("R check".into());
    let d = parse_dump(&(g.exec)("R dump".into()));
    let kind = DAMAGE_KINDS[(case + g.rng.below(3) as usize) % DAMAGE_KINDS.len()];
    let chain = chain_order(&d);
    let root_leaf = d.root.0;
    let live_leaves: Vec<u32> = (0..d.leaves.len() as u32).filter(|i| d.leaves[*i as usize].live).collect();
    let nonroot_leaves: Vec<u32> = live_leaves.iter().copied().filter(|i| !(root_leaf && *i == d.root.1)).collect();
    let live_branches: Vec<u32> = (0..d.branches.len() as u32).filter(|i| d.branches[*i as usize].live).collect();
    let unalloc_leaf = (d.leaves.len() as u32) + 3 + g.rng.below(50) as u32;
    let mut applied = false;
    let pick = |g: &mut Gen, v: &Vec<u32>| -> Option<u32> {
        if v.is_empty() {
            None
        } else {
            Some(v[g.rng.below(v.len() as u64) as usize])
        }
    };
    (g.exec)("X toraw".into());
    match kind {
        "unsorted" | "duplicate" => {
            let on_branch = g.rng.chance(30);
            if on_branch {
                let cands: Vec<u32> = live_branches.iter().copied().filter(|i| d.branches[*i as usize].keys.len() >= 2).collect();
                if let Some(id) = pick(&mut g, &cands) {
                    let mut ks = d.branches[id as usize].keys.clone();
                    let i = g.rng.below(ks.len() as u64 - 1) as usize;
                    if kind == "unsorted" {
                        ks.swap(i, i + 1);
                    } else {
                        ks[i + 1] = ks[i];
                    }
                    (g.exec)(format!("X branch-keys {} {}", id, fkeys(&ks)));
                    applied = true;
                }
            }
            if !applied {
                let cands: Vec<u32> = live_leaves.iter().copied().filter(|i| d.leaves[*i as usize].keys.len() >= 2).collect();
                if let Some(id) = pick(&mut g, &cands) {
                    let mut ks = d.leaves[id as usize].keys.clone();
                    let i = g.rng.below(ks.len() as u64 - 1) as usize;
                    if kind == "unsorted" {
                        ks.swap(i, i + 1);
                    } else {
                        ks[i + 1] = ks[i];
                    }
                    (g.exec)(format!("X leaf-keys {} {}", id, fkeys(&ks)));
                    applied = true;
                }
            }
        }
        "count-mismatch" => {
            if let Some(id) = pick(&mut g, &live_leaves) {
                let mut vs = d.leaves[id as usize].vals.clone();
                if g.rng.chance(50) || vs.is_empty() {
                    vs.push(999_999);
                } else {
                    vs.pop();
                }
                (g.exec)(format!("X leaf-vals {} {}", id, fvals(&vs)));
                applied = true;
            }
        }
        "over-capacity" => {
            if let Some(id) = pick(&mut g, &live_leaves) {
                let l = &d.leaves[id as usize];
                let mut ks = l.keys.clone();
                let mut vs = l.vals.clone();
                let mut last = ks.last().map(|k| k.0).unwrap_or(0);
                while ks.len() <= d.cap {
                    last = last.saturating_add(1);
                    ks.push((last, 900_000 + ks.len() as u64));
                    vs.push(900_000 + vs.len() as u64);
                }
                (g.exec)(format!("X leaf-keys {} {}", id, fkeys(&ks)));
                (g.exec)(format!("X leaf-vals {} {}", id, fvals(&vs)));
                applied = true;
            }
        }
        "underfull" | "empty-node" => {
            let target = if kind == "empty-node" { 0 } else { (d.cap / 2).saturating_sub(1) };
            let nonroot_branches: Vec<u32> = live_branches.iter().copied().filter(|i| !(!root_leaf && *i == d.root.1)).collect();
            if g.rng.chance(30) && !nonroot_branches.is_empty() {
                let id = pick(&mut g, &nonroot_branches).unwrap();
                let b = &d.branches[id as usize];
                let ks: Vec<(i64, u64)> = b.keys.iter().take(target).copied().collect();
                let cs: Vec<(bool, u32)> = b.children.iter().take(target + 1).copied().collect();
                (g.exec)(format!("X branch-keys {} {}", id, fkeys(&ks)));
                (g.exec)(format!("X branch-children {} {}", id, frefs(&cs)));
                applied = true;
            } else if let Some(id) = pick(&mut g, &nonroot_leaves) {
                let l = &d.leaves[id as usize];
                let ks: Vec<(i64, u64)> = l.keys.iter().take(target).copied().collect();
                let vs: Vec<u64> = l.vals.iter().take(target).copied().collect();
                (g.exec)(format!("X leaf-keys {} {}", id, fkeys(&ks)));
                (g.exec)(format!("X leaf-vals {} {}", id, fvals(&vs)));
                applied = true;
            }
        }
        "out-of-interval" => {
            // every leaf with the interval its ancestors' separators allow (bounds are inherited at the first / last child)
            fn walk(d: &DumpInfo, n: (bool, u32), lo: Option<i64>, hi: Option<i64>, out: &mut Vec<(u32, Option<i64>, Option<i64>)>, depth: usize) {
                if depth > 40 {
                    return;
                }
                if n.0 {
                    out.push((n.1, lo, hi));
                } else if let Some(b) = d.branches.get(n.1 as usize) {
                    for (i, c) in b.children.iter().enumerate() {
                        let clo = if i == 0 { lo } else { b.keys.get(i - 1).map(|k| k.0) };
                        let chi = if i >= b.keys.len() { hi } else { b.keys.get(i).map(|k| k.0) };
                        walk(d, *c, clo, chi, out, depth + 1);
                    }
                }
            }
            let mut iv = Vec::new();
            walk(&d, d.root, None, None, &mut iv, 0);
            let cands: Vec<(u32, Option<i64>, Option<i64>)> = iv.into_iter().filter(|(id, lo, hi)| {
                (lo.is_some() || hi.is_some()) && d.leaves.get(*id as usize).map(|l| !l.keys.is_empty()).unwrap_or(false)
            }).collect();
            if !cands.is_empty() {
                let (cid, lo, hi) = cands[g.rng.below(cands.len() as u64) as usize];
                let mut ks = d.leaves[cid as usize].keys.clone();
                let use_hi = match (lo, hi) {
                    (Some(_), Some(_)) => g.rng.chance(50),
                    (None, Some(_)) => true,
                    _ => false,
                };
                if use_hi {
                    let n = ks.len();
                    ks[n - 1].0 = hi.unwrap();
                    applied = true;
                } else if let Some(l) = lo {
                    if l > i64::MIN {
                        ks[0].0 = l - 1;
                        applied = true;
                    }
                }
                if applied {
                    (g.exec)(format!("X leaf-keys {} {}", cid, fkeys(&ks)));
                }
            }
        }
        "arity" => {
            if let Some(id) = pick(&mut g, &live_branches) {
                let mut cs = d.branches[id as usize].children.clone();
                let variant = g.rng.below(4);
                if variant >= 2 && !d.root.0 && d.branches.get(d.root.1 as usize).map_or(false, |b| b.live) {
                    // the key array of the ROOT branch is off by one, two or three while staying sorted and inside
                    // every interval (surplus keys lie above the largest stored key), so that the arity is the only
                    // thing wrong: keys == children, keys == children + 1, keys == children + 2, or too few keys
                    let rid = d.root.1;
                    let mut ks = d.branches[rid as usize].keys.clone();
                    let top = d.leaves.iter().filter(|l| l.live).filter_map(|l| l.keys.last().map(|k| k.0)).max().unwrap_or(0);
                    let n = 1 + g.rng.below(3) as i64;
                    if variant == 2 {
                        for j in 0..n {
                            ks.push((top.saturating_add(10 * (j + 1)), 9001 + j as u64));
                        }
                    } else {
                        for _ in 0..n.min(2) {
                            if ks.len() > 1 {
                                ks.pop();
                            }
                        }
                    }
                    if ks.len() != d.branches[rid as usize].keys.len() {
                        (g.exec)(format!("X branch-keys {} {}", rid, fkeys(&ks)));
                        applied = true;
                    }
                } else {
                    applied = true;
                    if variant % 2 == 0 && cs.len() > 1 {
                        cs.pop();
                        if g.rng.chance(40) && cs.len() > 1 {
                            cs.pop();
                        }
                    } else {
                        let extra = *cs.last().unwrap_or(&(true, 0));
                        cs.push(extra);
                    }
                    (g.exec)(format!("X branch-children {} {}", id, frefs(&cs)));
                }
            }
        }
        "dangling-child" => {
            if let Some(id) = pick(&mut g, &live_branches) {
                let mut cs = d.branches[id as usize].children.clone();
                if !cs.is_empty() {
                    let i = g.rng.below(cs.len() as u64) as usize;
                    cs[i].1 = if cs[i].0 { unalloc_leaf } else { d.branches.len() as u32 + 7 };
                    (g.exec)(format!("X branch-children {} {}", id, frefs(&cs)));
                    applied = true;
                }
            }
        }
        "chain-skip" => {
            if chain.len() >= 3 {
                let i = g.rng.below(chain.len() as u64 - 2) as usize;
                let target = d.leaves[chain[i + 1] as usize].next;
                (g.exec)(format!("X leaf-next {} {}", chain[i], target));
                applied = true;
            }
        }
        "chain-truncate" => {
            if chain.len() >= 2 {
                let i = g.rng.below(chain.len() as u64 - 1) as usize;
                (g.exec)(format!("X leaf-next {} {}", chain[i], u32::MAX));
                applied = true;
            }
        }
        "chain-misorder" => {
            if chain.len() >= 3 {
                let i = g.rng.below(chain.len() as u64 - 2) as usize;
                let (a, b, c) = (chain[i], chain[i + 1], chain[i + 2]);
                let after = d.leaves[c as usize].next;
                (g.exec)(format!("X leaf-next {} {}", a, c));
                (g.exec)(format!("X leaf-next {} {}", c, b));
                (g.exec)(format!("X leaf-next {} {}", b, after));
                applied = true;
            }
        }
        "chain-dangling" => {
            if let Some(last) = chain.last() {
                let free_slot = (0..d.leaves.len() as u32).find(|i| !d.leaves[*i as usize].live);
                let target = match (free_slot, g.rng.chance(50)) {
                    (Some(f), true) => f,
                    _ => unalloc_leaf,
                };
                (g.exec)(format!("X leaf-next {} {}", last, target));
                applied = true;
            }
        }
        _ => {
            (g.exec)(format!("X alloc-leaf {}", d.cap));
            applied = true;
        }
    }
    if applied {
        (g.exec)(format!("X note {}", kind));
    }
    let verdict = (g.exec)("R check".into());
    (g.exec)("R validateop".into());
    if !applied || verdict.contains("detailed=ok") {
        // nothing was damaged, or the validators (wrongly) accept the damage: mutating such a map
        // through try_insert could loop forever on a broken chain — the oracle has already spoken
        (g.exec)("R drop".into());
        return;
    }
    let k = g.some_key();
    (g.exec)(format!("R tryinsert {}#777 777", k));
    // ... and with a key that IS stored (an overwrite needs no structural change, but it is still a mutation of a
    // map the validators reject), and one that is not
    let k1 = g.present_key().unwrap_or(0);
    (g.exec)(format!("R tryinsert {}#778 778", k1));
    let k3 = g.some_key();
    (g.exec)(format!("R tryremove {}", k3));
    let k2 = g.present_key().unwrap_or(0);
    (g.exec)(format!("R tryremove {}", k2));
    (g.exec)("R dump".into());
    (g.exec)("R drop".into());
}

/// C15: a valid state, then safe public helper calls that leave it inconsistent, then every reader
pub fn gen_helpers(rng: &mut Rng, len: usize, exec: &mut dyn FnMut(String) -> String, _case: usize) {
    let mut g = Gen::new(rng, exec);
    g.start(true);
    let grow = g.cap * (2 + g.rng.below(8) as usize) + len / 10;
    g.mutate(grow, 85, 0);
    let mut d = parse_dump(&(g.exec)("R dump".into()));
    (g.exec)("X toraw".into());
    let steps = 1 + g.rng.below(5) as usize;
    for _ in 0..steps {
        let chain = chain_order(&d);
        let live_leaves: Vec<u32> = (0..d.leaves.len() as u32).filter(|i| d.leaves[*i as usize].live).collect();
        if live_leaves.is_empty() {
            break;
        }
        let id = live_leaves[g.rng.below(live_leaves.len() as u64) as usize];
        let l = d.leaves[id as usize].clone();
        match g.rng.below(11) {
            0 => {
                // a key without a value (kept ascending inside the node so searches stay defined)
                // (strictly ascending: binary search on duplicate keys is unspecified and is not compared)
                if l.keys.last().map(|k| k.0 < i64::MAX).unwrap_or(true) {
                    let k = l.keys.last().map(|k| k.0 + 1).unwrap_or(0);
                    (g.exec)(format!("X push-key {} {}#555", id, k));
                }
            }
            1 => {
                (g.exec)(format!("X push-value {} 555", id));
            }
            2 => {
                (g.exec)(format!("X take-values {}", id));
            }
            3 => {
                (g.exec)(format!("X take-keys {}", id));
            }
            4 => {
                (g.exec)(format!("X pop {}", id));
            }
            5 => {
                let i = g.rng.below(l.keys.len() as u64 + 1);
                // remove_at panics (safely) when the value vector is shorter; only call it where it cannot
                if (i as usize) < l.vals.len() || (i as usize) >= l.keys.len() {
                    (g.exec)(format!("X remove-at {} {}", id, i));
                }
            }
            6 | 7 => {
                // next pointer: NULL, a freed slot, out of range, or further down the chain (never backwards: no cycles)
                let pos = chain.iter().position(|x| *x == id);
                let free_slot = (0..d.leaves.len() as u32).find(|i| !d.leaves[*i as usize].live);
                let target = match g.rng.below(4) {
                    0 => u32::MAX,
                    1 => free_slot.unwrap_or(d.leaves.len() as u32 + 9),
                    2 => d.leaves.len() as u32 + g.rng.below(1000) as u32,
                    _ => match pos {
                        Some(p) if p + 2 < chain.len() => chain[p + 2],
                        _ => 12345,
                    },
                };
                (g.exec)(format!("X leaf-next {} {}", id, target));
            }
            8 => {
                (g.exec)(format!("X dealloc-leaf {}", id));
            }
            9 => {
                (g.exec)(format!("X alloc-leaf {}", d.cap));
            }
            _ => {
                let live_branches: Vec<u32> = (0..d.branches.len() as u32).filter(|i| d.branches[*i as usize].live).collect();
                if !live_branches.is_empty() {
                    let b = live_branches[g.rng.below(live_branches.len() as u64) as usize];
                    (g.exec)(format!("X dealloc-branch {}", b));
                }
            }
        }
        d = parse_dump(&(g.exec)("R dump".into()));
    }
    for op in ["items", "itemsfast", "keys", "values", "first", "last", "len", "counts", "check", "validateop"] {
        (g.exec)(format!("R {}", op));
    }
    for _ in 0..6 {
        let (lo, hi) = (g.bound(), g.bound());
        (g.exec)(format!("R range {} {}", lo, hi));
        let k = g.probe_key();
        (g.exec)(format!("R get {}", k));
    }
    (g.exec)("R partial 5 3".into());
    (g.exec)("R partialfast 5 3".into());
    positioned_calls(&mut g, &d, "R", 6);
    (g.exec)("R drop".into());
}

/// C05 under faults: grow a multi-level map with ordinary (model-compared) calls, then alternate
/// "arm a fuse in the key type's clone / cmp; call a mutator" with every kind of reader on whatever
/// state the interrupted mutator left behind.  `F` lines are executed by the implementation only.
pub fn gen_faults(rng: &mut Rng, len: usize, exec: &mut dyn FnMut(String) -> String, _case: usize) {
    let mut g = Gen::new(rng, exec);
    g.start(true);
    let grow = g.cap * (3 + g.rng.below(10) as usize) + len / 8;
    g.mutate(grow, 80, 0);
    (g.exec)("R dump".into());
    let rounds = 3 + g.rng.below(8) as usize;
    // the key the previous fault round worked on: a second fault next to it hits the same leaf / branch
    // (e.g. two interrupted borrows in a row empty a leaf that stays linked)
    let mut focus: Option<i64> = None;
    for _ in 0..rounds {
        // a removal that borrows / merges clones one separator (leaf level) or one to two (branch level);
        // an insert that splits clones one per split level.  cmp runs ~log2(cap) times per level.
        if g.rng.chance(15) {
            // a destructor of the key / value type panics while `clear()` (or a removal) is dropping entries
            let n = 1 + g.rng.below(6);
            (g.exec)(format!("F arm-{} {}", if g.rng.chance(50) { "kdrop" } else { "vdrop" }, n));
            if g.rng.chance(70) {
                (g.exec)("F clear".into());
                g.present.clear();
            }
        } else if g.rng.chance(70) {
            let span = if g.rng.chance(70) { 1 } else { 3 };
            let n = 1 + g.rng.below(span);
            (g.exec)(format!("F arm-clone {}", n));
        } else {
            let n = 1 + g.rng.below(12);
            (g.exec)(format!("F arm-cmp {}", n));
        }
        // several mutators in a row: the fuse stays armed until one of them burns it
        let tries = 1 + g.rng.below(6) as usize;
        for _ in 0..tries {
            if g.rng.chance(65) {
                let k = match focus {
                    Some(f) if g.rng.chance(70) => {
                        // nearest stored keys around the focus
                        let below = g.present.range(..=f).next_back().copied();
                        let above = g.present.range(f..).next().copied();
                        match (below, above) {
                            (Some(a), Some(b)) => if g.rng.chance(50) { a } else { b },
                            (Some(a), None) => a,
                            (None, Some(b)) => b,
                            (None, None) => 0,
                        }
                    }
                    _ => g.present_key().unwrap_or(0),
                };
                (g.exec)(format!("F remove {}", k));
                g.present.remove(&k);
                focus = Some(k);
            } else {
                let k = match focus {
                    Some(f) if g.rng.chance(50) => f.saturating_add(g.rng.range(0, 5) - 2),
                    _ => g.some_key(),
                };
                g.serial += 1;
                g.val += 1;
                let (s, v) = (g.serial, g.val);
                (g.exec)(format!("F insert {}#{} {}", k, s, v));
                g.present.insert(k);
                focus = Some(k);
            }
        }
        // every reader on the state that is left
        for _ in 0..(3 + g.rng.below(5)) {
            let line = match g.rng.below(14) {
                0 => "F items".to_string(),
                1 => "F itemsfast".to_string(),
                2 => "F keys".to_string(),
                3 => "F values".to_string(),
                4 => "F first".to_string(),
                5 => "F last".to_string(),
                6 => "F check".to_string(),
                7 => "F slice".to_string(),
                8 => format!("F partial {} 2", g.rng.below(40)),
                9 => format!("F partialfast {} 2", g.rng.below(40)),
                10 => {
                    let (a, b) = (g.some_key(), g.some_key());
                    let kinds = ["i", "e"];
                    format!("F range {}{} {}{}", kinds[g.rng.below(2) as usize], a, kinds[g.rng.below(2) as usize], b)
                }
                11 => format!("F get {}", g.probe_key()),
                12 => format!("F rangefrom {} {} {} u", g.rng.below(12), g.rng.below(6), g.rng.below(2)),
                _ => "F validateop".to_string(),
            };
            (g.exec)(line);
        }
    }
    (g.exec)("F drop".into());
}

/// Exhaustive small scope: case number -> (capacity 4..=7, base shape, one history of `depth` calls over an
/// alphabet of insert/remove on 4 keys straddling a leaf boundary in the middle of a multi-level tree).
/// With `cases >= 4 * 4 * 8^depth` every such history is executed; dump after every call.
pub fn gen_exh(_rng: &mut Rng, depth: usize, exec: &mut dyn FnMut(String) -> String, case: usize) {
    let cap = 4 + case % 4;
    let shape = (case / 4) % 4;
    let mut h = case / 16;
    let depth = depth.clamp(1, 6);
    exec(format!("R new {}", cap));
    let mut serial = 0u64;
    let mut ins = |exec: &mut dyn FnMut(String) -> String, k: i64| {
        serial += 1;
        exec(format!("R insert {}#{} {}", k, serial, 1000 + serial));
    };
    // base: even keys (odd keys are the gaps new inserts go into)
    let n: i64 = match shape {
        0 => 2 * cap as i64 + 2,         // two or three leaves under one branch
        1 => 5 * cap as i64 + 3,         // height 3 at capacity 4 and 5
        2 => 3 * cap as i64 + 1,
        _ => 7 * cap as i64 + 2,
    };
    match shape {
        2 => {
            for k in (0..n).rev() {
                ins(exec, 2 * k);
            }
        }
        _ => {
            for k in 0..n {
                ins(exec, 2 * k);
            }
        }
    }
    if shape == 3 {
        // thin the tree out so that many leaves sit at their minimum
        for k in 0..n {
            if k % 3 == 1 {
                exec(format!("R remove {}", 2 * k));
            }
        }
    }
    exec("R dump".into());
    // four keys around the middle: two stored (even), two gaps (odd)
    let mid = (n / 2) * 2;
    let keys = [mid - 1, mid, mid + 1, mid + 2];
    for _ in 0..depth {
        let a = h % 8;
        h /= 8;
        let k = keys[a % 4];
        if a < 4 {
            ins(exec, k);
        } else {
            exec(format!("R remove {}", k));
        }
        exec("R dump".into());
    }
    exec("R items".into());
    exec("R itemsfast".into());
    exec("R check".into());
    exec("R counts".into());
}


/// Deep trees (oracle-only lines, prefix `O`): capacity 4..6 grown by ascending inserts until the height the case asks
/// for (capacity 4: 80 000 keys reach 11 levels), then lookups, range queries of every bound kind, iterator prefixes,
/// removals and validators, all against BTreeMap and the structural oracles.
pub fn gen_deep(rng: &mut Rng, len: usize, exec: &mut dyn FnMut(String) -> String, case: usize) {
    if case % 4 == 1 {
        // the other extreme: a node capacity beyond 2^16, leaves holding more than 65 535 entries
        let cap = 65_536 + 4_464 * (1 + rng.below(3) as usize);
        let n = (cap as i64) * 2 + rng.range(0, 5000);
        exec(format!("O new {}", cap));
        // first a single leaf holding more than 65 535 entries (just below the capacity), then past the first splits
        let first = cap as i64 - 1 - rng.range(0, 400);
        for i in 0..first {
            exec(format!("O insert {}#{} {}", 2 * i, i + 1, i + 1));
        }
        // positions past 65 535 INSIDE one leaf: every kind of range start, plain and fast item prefixes
        for _ in 0..6 {
            let a = 65_536 + rng.range(0, first - 65_536 - 20);
            exec(format!("O range i{} e{}", 2 * a, 2 * a + 12));
            exec(format!("O range e{} i{}", 2 * a, 2 * a + 8));
            exec(format!("O range i{} i{}", 2 * a + 1, 2 * a + 9));
            exec(format!("O itemsrange {} {}", 2 * a, 2 * a + 8));
            exec(format!("O itemsfrom {} i{}", 2 * a, 2 * a + 6));
            exec(format!("O partialrange i{} u 3", 2 * a));
            exec(format!("O get {}", 2 * a));
        }
        exec(format!("O range i{} u", 2 * 65_535));
        exec(format!("O range i{} u", 2 * 65_536));
        exec(format!("O partial {} 2", 65_535));
        for op in ["len", "first", "last", "itemsfast", "items", "keys", "values", "fullcheck"] {
            exec(format!("O {}", op));
        }
        exec(format!("O partialfast {} 2", first - 3));
        for i in first..n {
            exec(format!("O insert {}#{} {}", 2 * i, i + 1, i + 1));
        }
        for op in ["len", "first", "last", "itemsfast", "items", "keys", "values", "fullcheck"] {
            exec(format!("O {}", op));
        }
        exec(format!("O partialfast {} 2", cap + 7));
        exec(format!("O partial {} 2", cap + 7));
        for i in 0..(cap as i64 / 2) {
            exec(format!("O remove {}", 2 * (2 * i)));
        }
        for op in ["len", "itemsfast", "items", "fullcheck"] {
            exec(format!("O {}", op));
        }
        exec(format!("O range i{} e{}", 2 * (n / 2), 2 * (n / 2) + 40));
        exec("O drop".into());
        return;
    }
    let cap = [4usize, 4, 5, 6][case % 4];
    let n: i64 = (len as i64).max(1000) * if cap == 4 { 1 } else { 2 };
    exec(format!("O new {}", cap));
    let mut serial = 0u64;
    for i in 0..n {
        serial += 1;
        if i % 4096 == 4095 {
            // on the way up: the validators and the checked calls at every size (a tall sparse tree at each height)
            exec("O validateop".into());
            exec("O check".into());
            exec(format!("O tryinsert {}#{} {}", 2 * i, serial, serial));
            exec(format!("O tryget {}", 2 * i));
        } else {
            exec(format!("O insert {}#{} {}", 2 * i, serial, serial));
        }
    }
    exec("O fullcheck".into());
    exec("O validateop".into());
    exec("O check".into());
    let kinds = ["i", "e"];
    for r in 0..120 {
        let a = 2 * rng.range(0, n) + if rng.chance(30) { 1 } else { 0 };
        let w = rng.range(0, 12);
        let line = match r % 12 {
            0 => format!("O range i{} e{}", a, a + w),
            1 => format!("O range i{} i{}", a, a),
            2 => format!("O range e{} i{}", a, a + w),
            3 => format!("O itemsrange {} {}", a, a + w),
            4 => format!("O get {}", a),
            5 => format!("O contains {}", a),
            6 => format!("O getmut {} {}", a, 7_000_000 + r),
            7 => format!("O range {}{} u", kinds[rng.below(2) as usize], 2 * n - 2 * rng.range(0, 6)),
            8 => format!("O range u {}{}", kinds[rng.below(2) as usize], 2 * rng.range(0, 6)),
            9 => format!("O itemsfrom {} i{}", a, a + w),
            10 => format!("O partial {} 1", rng.below(9)),
            _ => format!("O partialrange i{} u {}", a, 1 + rng.below(5)),
        };
        exec(line);
    }
    exec("O first".into());
    exec("O last".into());
    exec("O len".into());
    // shrink from both ends and the middle, then look again
    for i in 0..(n / 3) {
        let k = match i % 3 {
            0 => 2 * i,
            1 => 2 * (n - 1 - i),
            _ => 2 * (n / 2 + i / 3),
        };
        exec(format!("O remove {}", k));
    }
    exec("O fullcheck".into());
    for _ in 0..40 {
        let a = 2 * rng.range(0, n);
        exec(format!("O range i{} e{}", a, a + 2 * rng.range(0, 8)));
        exec(format!("O get {}", a));
    }
    exec("O len".into());
    // regrow while thousands of freed slots are pending (long-lived arenas: allocation counters in the hundreds of
    // thousands, free lists that must be consumed before the arena grows), then shrink and regrow once more
    for round in 0..2 {
        for i in 0..(n / 6) {
            serial += 1;
            exec(format!("O insert {}#{} {}", 2 * (n / 4 + i) + 1 + 2 * round as i64 * 0, serial, serial));
        }
        exec("O fullcheck".into());
        exec("O counts".into());
        for i in 0..(n / 8) {
            exec(format!("O remove {}", 2 * (n / 4 + i) + 1));
        }
        exec("O fullcheck".into());
    }
    exec("O len".into());
    // drain from the FRONT all the way to the end (the first leaf absorbs its right neighbours one after the other, so
    // slots are released in ascending order and the highest slot of the arena goes last), then grow again by more
    // than half: every released slot has to be handed out again exactly once
    for i in 0..n {
        exec(format!("O remove {}", 2 * i));
        if i % 65_536 == 65_535 {
            exec("O counts".into());
        }
    }
    exec("O fullcheck".into());
    exec("O counts".into());
    exec("O len".into());
    for i in 0..(n * 2 / 3) {
        serial += 1;
        exec(format!("O insert {}#{} {}", 2 * i, serial, serial));
    }
    exec("O fullcheck".into());
    exec("O counts".into());
    exec("O items".into());
    exec("O len".into());
    exec("O drop".into());
}
