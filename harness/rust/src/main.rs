//! Correspondence / oracle harness for the Rust side of KentBeck/BPlusTree3.
//!
//! `bpt-harness gen <suite> --seed S --cases N --len L --out DIR`
//!     generates histories for <suite>, executing every line on the real code
//!     while generating; writes DIR/ops.txt (one op per line), DIR/impl.txt (one
//!     output line per op), DIR/oracle.txt (property-oracle failures) and
//!     DIR/stats.json.
//! `bpt-harness replay FILE [--out DIR]`
//!     executes the lines of FILE; outputs on stdout (or DIR/impl.txt),
//!     oracle failures on stderr (or DIR/oracle.txt).

mod arena;
mod kv;
mod rng;
mod tree;
mod treegen;

use rng::Rng;
use std::collections::BTreeMap;
use std::fmt::Display;
use std::io::{BufRead, Write};

pub trait Machine {
    fn exec(&mut self, ws: &[&str]) -> String;
    fn take_failures(&mut self) -> Vec<String>;
}

pub fn fmt_list<T: Display>(v: &[T]) -> String {
    let parts: Vec<String> = v.iter().map(|x| x.to_string()).collect();
    format!("[{}]", parts.join(","))
}
pub fn fmt_opt<T: Display>(v: Option<T>) -> String {
    match v {
        Some(x) => format!("some {}", x),
        None => "none".to_string(),
    }
}

struct Harness {
    arena_heap: bool,
    arena: Box<dyn Machine>,
    tree: tree::TreeMachine,
    events: BTreeMap<String, u64>,
    case: String,
    lineno: usize,
    failures: Vec<String>,
    op_hist: BTreeMap<String, u64>,
}

impl Harness {
    fn new() -> Self {
        Harness {
            arena_heap: false,
            arena: Box::new(arena::ArenaMachine::<u64>::new()),
            tree: tree::TreeMachine::new(),
            events: BTreeMap::new(),
            case: "0".into(),
            lineno: 0,
            failures: Vec::new(),
            op_hist: BTreeMap::new(),
        }
    }
    fn reset(&mut self) {
        // drop the previous map inside catch_unwind-free context; merge its event counters
        let old = std::mem::replace(&mut self.tree, tree::TreeMachine::new());
        for (k, v) in &old.events {
            *self.events.entry(k.clone()).or_insert(0) += v;
        }
        drop(old);
        kv::set_heap_mode(false);
        kv::disarm_fuses();
        self.arena = if self.arena_heap {
            Box::new(arena::ArenaMachine::<arena::HeapItem>::new())
        } else {
            Box::new(arena::ArenaMachine::<u64>::new())
        };
    }
    fn exec_line(&mut self, line: &str) -> String {
        self.lineno += 1;
        let ws: Vec<&str> = line.split_whitespace().collect();
        if ws.is_empty() {
            return String::new();
        }
        let key = if ws.len() > 1 && ws[0].len() == 1 {
            format!("{} {}", ws[0], ws[1])
        } else {
            ws[0].to_string()
        };
        *self.op_hist.entry(key).or_insert(0) += 1;
        match ws[0] {
            "case" => {
                self.case = ws[1..].join(" ");
                self.reset();
                format!("case {}", self.case)
            }
            "cfg" => {
                match &ws[1..] {
                    ["arena-item", "heap"] => self.arena_heap = true,
                    ["arena-item", "plain"] => self.arena_heap = false,
                    ["kv", "heap"] => kv::set_heap_mode(true),
                    ["kv", "plain"] => kv::set_heap_mode(false),
                    _ => {}
                }
                "ok".into()
            }
            "A" => {
                let out = self.arena.exec(&ws[1..]);
                for f in self.arena.take_failures() {
                    self.failures.push(format!("case={} line={} op=`{}` {}", self.case, self.lineno, line, f));
                }
                out
            }
            "X" => {
                let out = self.tree.exec_x(&ws[1..]);
                for f in self.tree.take_failures() {
                    self.failures.push(format!("case={} line={} op=`{}` {}", self.case, self.lineno, line, f));
                }
                out
            }
            "O" => {
                let out = self.tree.exec_o(&ws[1..]);
                for f in self.tree.take_failures() {
                    self.failures.push(format!("case={} line={} op=`{}` {}", self.case, self.lineno, line, f));
                }
                out
            }
            "F" => {
                let out = self.tree.exec_f(&ws[1..]);
                for f in self.tree.take_failures() {
                    self.failures.push(format!("case={} line={} op=`{}` {}", self.case, self.lineno, line, f));
                }
                out
            }
            "R" => {
                let out = self.tree.exec(&ws[1..]);
                for f in self.tree.take_failures() {
                    self.failures.push(format!("case={} line={} op=`{}` {}", self.case, self.lineno, line, f));
                }
                out
            }
            _ => "bad-op".into(),
        }
    }
}

fn arg_val(args: &[String], name: &str) -> Option<String> {
    args.iter().position(|a| a == name).and_then(|i| args.get(i + 1).cloned())
}

fn main() {
    // the real code's panics are caught per op; keep stderr quiet
    std::panic::set_hook(Box::new(|_| {}));
    let args: Vec<String> = std::env::args().collect();
    if args.len() < 2 {
        eprintln!("usage: bpt-harness gen|replay ...");
        std::process::exit(2);
    }
    match args[1].as_str() {
        "gen" => {
            let suite = args[2].clone();
            let seed: u64 = arg_val(&args, "--seed").and_then(|s| s.parse().ok()).unwrap_or(1);
            let cases: usize = arg_val(&args, "--cases").and_then(|s| s.parse().ok()).unwrap_or(10);
            let len: usize = arg_val(&args, "--len").and_then(|s| s.parse().ok()).unwrap_or(100);
            let out = arg_val(&args, "--out").expect("--out DIR");
            std::fs::create_dir_all(&out).unwrap();
            let mut ops = std::io::BufWriter::new(std::fs::File::create(format!("{}/ops.txt", out)).unwrap());
            let mut imp = std::io::BufWriter::new(std::fs::File::create(format!("{}/impl.txt", out)).unwrap());
            let mut h = Harness::new();
            let mut rng = Rng::new(seed);
            // oracle failures are written (and flushed) as they occur: a run that is killed or hangs
            // later still leaves the failing history on disk
            let mut orc = std::fs::File::create(format!("{}/oracle.txt", out)).unwrap();
            let mut reported = 0usize;
            {
                let mut exec = |line: String| -> String {
                    writeln!(ops, "{}", line).unwrap();
                    ops.flush().unwrap();
                    let o = h.exec_line(&line);
                    writeln!(imp, "{}", o).unwrap();
                    imp.flush().unwrap();
                    while reported < h.failures.len() {
                        writeln!(orc, "{}", h.failures[reported]).unwrap();
                        reported += 1;
                    }
                    o
                };
                if let Some(cp) = arg_val(&args, "--corpus") {
                    if let Ok(text) = std::fs::read_to_string(&cp) {
                        for l in text.lines() {
                            exec(l.to_string());
                        }
                    }
                }
                for c in 0..cases {
                    match suite.as_str() {
                        "arena" => {
                            exec(format!("cfg arena-item {}", if c % 3 == 2 { "heap" } else { "plain" }));
                            exec(format!("case {}", c));
                            let l = if c % 5 == 0 { len * 3 } else { len };
                            arena::gen_case(&mut rng, l, &mut exec);
                        }
                        "tree-ops" | "tree-iter" | "tree-range" | "tree-api" | "tree-damage" | "tree-helpers" | "tree-faults" | "tree-exh" | "tree-deep" => {
                            exec(format!("case {}", c));
                            let l = if c % 9 == 0 { len * 4 } else { len };
                            match suite.as_str() {
                                "tree-ops" => treegen::gen_ops(&mut rng, l, &mut exec, c),
                                "tree-iter" => treegen::gen_iter(&mut rng, l, &mut exec, c),
                                "tree-range" => treegen::gen_range(&mut rng, l, &mut exec, c),
                                "tree-damage" => treegen::gen_damage(&mut rng, l, &mut exec, c),
                                "tree-helpers" => treegen::gen_helpers(&mut rng, l, &mut exec, c),
                                "tree-faults" => treegen::gen_faults(&mut rng, l, &mut exec, c),
                                "tree-exh" => treegen::gen_exh(&mut rng, len, &mut exec, c),
                                "tree-deep" => treegen::gen_deep(&mut rng, len, &mut exec, c),
                                _ => treegen::gen_api(&mut rng, l, &mut exec, c),
                            }
                        }
                        other => {
                            eprintln!("unknown suite {}", other);
                            std::process::exit(2);
                        }
                    }
                }
            }
            ops.flush().unwrap();
            imp.flush().unwrap();
            h.reset();
            let evs: Vec<String> = h.events.iter().map(|(k, v)| format!("\"{}\": {}", k, v)).collect();
            std::fs::write(format!("{}/events.json", out), format!("{{{}}}\n", evs.join(", "))).unwrap();
            let hist: Vec<String> = h.op_hist.iter().map(|(k, v)| format!("\"{}\": {}", k, v)).collect();
            std::fs::write(
                format!("{}/stats.json", out),
                format!(
                    "{{\"suite\": \"{}\", \"seed\": {}, \"cases\": {}, \"lines\": {}, \"oracle_failures\": {}, \"ops\": {{{}}}}}\n",
                    suite,
                    seed,
                    cases,
                    h.lineno,
                    h.failures.len(),
                    hist.join(", ")
                ),
            )
            .unwrap();
        }
        "replay" => {
            let file = args[2].clone();
            let out = arg_val(&args, "--out");
            let f = std::io::BufReader::new(std::fs::File::open(&file).expect("open replay file"));
            let mut h = Harness::new();
            let mut outs: Vec<String> = Vec::new();
            for line in f.lines() {
                let line = line.unwrap();
                outs.push(h.exec_line(&line));
            }
            match out {
                Some(dir) => {
                    std::fs::create_dir_all(&dir).unwrap();
                    std::fs::write(format!("{}/impl.txt", dir), outs.join("\n") + "\n").unwrap();
                    std::fs::write(format!("{}/oracle.txt", dir), h.failures.join("\n") + if h.failures.is_empty() { "" } else { "\n" }).unwrap();
                }
                None => {
                    let so = std::io::stdout();
                    let mut so = so.lock();
                    for o in outs {
                        writeln!(so, "{}", o).unwrap();
                    }
                    for f in &h.failures {
                        eprintln!("ORACLE-FAIL {}", f);
                    }
                }
            }
        }
        _ => {
            eprintln!("usage: bpt-harness gen|replay ...");
            std::process::exit(2);
        }
    }
}
