//! BPlusTreeMap machine: executes `R ...` lines on the real map next to
//! independent oracles (tagged with the property they decide):
//!   C01 results vs std BTreeMap            C02 iteration vs BTreeMap order
//!   C03 ranges vs RangeBounds::contains    C04 independent structural checker
//!   C05/C15 VERIF-HOOK assertions          C06 arena bookkeeping vs reachable nodes
//!   C10 checked API vs basic API           C11 instance counters
//!   C14 validators must reject damage

use crate::kv::{self, Key, Val};
use crate::{fmt_list, fmt_opt, Machine};
use bplustree::{BPlusTreeError, BPlusTreeMap, ItemIterator, LeafNode, NodeRef, RangeIterator, NULL_NODE};
use std::collections::BTreeMap;
use std::marker::PhantomData;
use std::ops::Bound;
use std::panic::{catch_unwind, AssertUnwindSafe};

type Map = BPlusTreeMap<Key, Val>;

pub struct Snap {
    pub cap: usize,
    pub root: (bool, u32),
    pub leaves: Vec<(bool, usize, Vec<(i64, u64)>, Vec<u64>, u32)>,
    pub lfree: Vec<usize>,
    pub branches: Vec<(bool, usize, Vec<(i64, u64)>, Vec<(bool, u32)>)>,
    pub bfree: Vec<usize>,
}

pub fn snapshot(map: &Map) -> Snap {
    let root = map.verif_root();
    let (ls, lm, lf) = map.verif_leaf_arena().verif_raw();
    let (bs, bm, bf) = map.verif_branch_arena().verif_raw();
    Snap {
        cap: map.verif_capacity(),
        root: (root.is_leaf(), root.id()),
        leaves: ls
            .iter()
            .zip(lm.iter())
            .map(|(l, m)| {
                let (cap, ks, vs, next) = l.verif_fields();
                (*m, cap, ks.iter().map(|k| (k.ord, k.serial)).collect(), vs.iter().map(|v| v.v).collect(), next)
            })
            .collect(),
        lfree: lf.iter().rev().copied().collect(),
        branches: bs
            .iter()
            .zip(bm.iter())
            .map(|(b, m)| {
                let (cap, ks, cs) = b.verif_fields();
                (*m, cap, ks.iter().map(|k| (k.ord, k.serial)).collect(), cs.iter().map(|c| (c.is_leaf(), c.id())).collect())
            })
            .collect(),
        bfree: bf.iter().rev().copied().collect(),
    }
}

fn fk(k: &(i64, u64)) -> String {
    format!("{}#{}", k.0, k.1)
}
fn fref(r: &(bool, u32)) -> String {
    format!("{}{}", if r.0 { "L" } else { "B" }, r.1)
}

pub fn dump(s: &Snap) -> String {
    let ls: Vec<String> = s
        .leaves
        .iter()
        .enumerate()
        .map(|(i, l)| {
            format!(
                "L{}:{}[cap={} k={} v={} n={}]",
                i,
                if l.0 { "" } else { "free" },
                l.1,
                fmt_list(&l.2.iter().map(fk).collect::<Vec<_>>()),
                fmt_list(&l.3),
                l.4
            )
        })
        .collect();
    let bs: Vec<String> = s
        .branches
        .iter()
        .enumerate()
        .map(|(i, b)| {
            format!(
                "B{}:{}[cap={} k={} c={}]",
                i,
                if b.0 { "" } else { "free" },
                b.1,
                fmt_list(&b.2.iter().map(fk).collect::<Vec<_>>()),
                fmt_list(&b.3.iter().map(fref).collect::<Vec<_>>())
            )
        })
        .collect();
    format!(
        "root={} cap={} LA len={} free={} {} BA len={} free={} {}",
        fref(&s.root),
        s.cap,
        s.leaves.len(),
        fmt_list(&s.lfree),
        ls.join(" "),
        s.branches.len(),
        fmt_list(&s.bfree),
        bs.join(" ")
    )
}

/// Independent structural checker (C04): does not call the crate's min_keys()/validators.
/// Returns (violations, leaves in tree order, #branches, #separator keys).
pub fn struct_check(s: &Snap) -> (Vec<String>, Vec<u32>, usize, usize) {
    let mut bad = Vec::new();
    let mut leaves_in_order: Vec<u32> = Vec::new();
    let mut nbranches = 0usize;
    let mut nseps = 0usize;
    let mut leaf_depths: Vec<usize> = Vec::new();
    let minocc = s.cap / 2;
    // explicit stack: (node, depth, lo, hi, is_root)
    fn walk(
        s: &Snap,
        node: (bool, u32),
        depth: usize,
        lo: Option<i64>,
        hi: Option<i64>,
        is_root: bool,
        minocc: usize,
        bad: &mut Vec<String>,
        leaves: &mut Vec<u32>,
        depths: &mut Vec<usize>,
        nbranches: &mut usize,
        nseps: &mut usize,
        budget: &mut usize,
    ) {
        if *budget == 0 {
            bad.push("structure walk does not terminate (cycle among branches)".into());
            return;
        }
        *budget -= 1;
        let (is_leaf, id) = node;
        let check_keys = |ks: &Vec<(i64, u64)>, what: String, bad: &mut Vec<String>| {
            for w in ks.windows(2) {
                if w[0].0 >= w[1].0 {
                    bad.push(format!("{} keys not strictly ascending: {} then {}", what, w[0].0, w[1].0));
                }
            }
            for k in ks {
                if let Some(l) = lo {
                    if k.0 < l {
                        bad.push(format!("{} key {} below the separator {} on its left", what, k.0, l));
                    }
                }
                if let Some(h) = hi {
                    if k.0 >= h {
                        bad.push(format!("{} key {} not below the separator {} on its right", what, k.0, h));
                    }
                }
            }
        };
        if is_leaf {
            match s.leaves.get(id as usize) {
                Some(l) if l.0 => {
                    check_keys(&l.2, format!("leaf {}", id), bad);
                    if l.2.len() != l.3.len() {
                        bad.push(format!("leaf {} has {} keys but {} values", id, l.2.len(), l.3.len()));
                    }
                    if l.2.len() > s.cap {
                        bad.push(format!("leaf {} holds {} keys > capacity {}", id, l.2.len(), s.cap));
                    }
                    if !is_root && l.2.len() < minocc {
                        bad.push(format!("non-root leaf {} holds {} keys < floor(capacity/2) = {}", id, l.2.len(), minocc));
                    }
                    leaves.push(id);
                    depths.push(depth);
                }
                _ => bad.push(format!("reachable leaf {} is not an allocated slot", id)),
            }
        } else {
            match s.branches.get(id as usize) {
                Some(b) if b.0 => {
                    *nbranches += 1;
                    *nseps += b.2.len();
                    check_keys(&b.2, format!("branch {}", id), bad);
                    if b.3.len() != b.2.len() + 1 {
                        bad.push(format!("branch {} has {} keys and {} children", id, b.2.len(), b.3.len()));
                    }
                    if b.2.len() > s.cap {
                        bad.push(format!("branch {} holds {} keys > capacity {}", id, b.2.len(), s.cap));
                    }
                    if !is_root && b.2.len() < minocc {
                        bad.push(format!("non-root branch {} holds {} keys < floor(capacity/2) = {}", id, b.2.len(), minocc));
                    }
                    if is_root && b.3.len() < 2 {
                        bad.push(format!("branch root {} has {} children (< 2)", id, b.3.len()));
                    }
                    let kinds: Vec<bool> = b.3.iter().map(|c| c.0).collect();
                    if kinds.iter().any(|k| *k != kinds[0]) {
                        bad.push(format!("branch {} mixes leaf and branch children", id));
                    }
                    for (i, c) in b.3.iter().enumerate() {
                        let clo = if i == 0 { lo } else { b.2.get(i - 1).map(|k| k.0) };
                        let chi = if i >= b.2.len() { hi } else { b.2.get(i).map(|k| k.0) };
                        walk(s, *c, depth + 1, clo, chi, false, minocc, bad, leaves, depths, nbranches, nseps, budget);
                    }
                }
                _ => bad.push(format!("reachable branch {} is not an allocated slot", id)),
            }
        }
    }
    let mut budget = 4 * (s.leaves.len() + s.branches.len()) + 16;
    walk(s, s.root, 0, None, None, true, minocc, &mut bad, &mut leaves_in_order, &mut leaf_depths, &mut nbranches, &mut nseps, &mut budget);
    if leaf_depths.iter().any(|d| *d != leaf_depths[0]) {
        bad.push(format!("leaves at different depths: {:?}", leaf_depths));
    }
    // the chain from the leftmost leaf visits exactly the leaves, in order, then ends
    let mut chain = Vec::new();
    let mut cur = leaves_in_order.first().copied();
    let mut guard = s.leaves.len() + 2;
    while let Some(id) = cur {
        if guard == 0 {
            bad.push("leaf chain does not end (cycle)".into());
            break;
        }
        guard -= 1;
        chain.push(id);
        cur = match s.leaves.get(id as usize) {
            Some(l) if l.0 => {
                if l.4 == NULL_NODE {
                    None
                } else {
                    Some(l.4)
                }
            }
            _ => {
                bad.push(format!("leaf chain reaches {} which is not an allocated leaf", id));
                None
            }
        };
    }
    if chain != leaves_in_order {
        bad.push(format!("leaf chain {:?} differs from the leaves in tree order {:?}", chain, leaves_in_order));
    }
    (bad, leaves_in_order, nbranches, nseps)
}

pub struct TreeMachine {
    map: Option<Map>,
    reference: BTreeMap<i64, (u64, u64)>,
    dead: bool,
    fails: Vec<String>,
    max_live_leaves: usize,
    max_live_branches: usize,
    damaged: bool,
    sparse_checks: bool,
    mutations: u64,
    damage_kind: Option<String>,
    /// raw-state operations applied since the last `toraw` (a `note` without one marks nothing)
    raw_applied: usize,
    pub events: BTreeMap<String, u64>,
}

fn pk(s: &str) -> Option<(i64, u64)> {
    let mut it = s.split('#');
    let a = it.next()?.parse::<i64>().ok()?;
    let b = match it.next() {
        Some(x) => x.parse::<u64>().ok()?,
        None => 0,
    };
    Some((a, b))
}
fn pbound(s: &str) -> Option<Bound<i64>> {
    if s == "u" {
        Some(Bound::Unbounded)
    } else if let Some(r) = s.strip_prefix('i') {
        r.parse().ok().map(Bound::Included)
    } else if let Some(r) = s.strip_prefix('e') {
        r.parse().ok().map(Bound::Excluded)
    } else {
        None
    }
}
fn kb(b: &Bound<i64>) -> Bound<Key> {
    match b {
        Bound::Included(k) => Bound::Included(Key::new(*k, 0)),
        Bound::Excluded(k) => Bound::Excluded(Key::new(*k, 0)),
        Bound::Unbounded => Bound::Unbounded,
    }
}
fn in_bounds(k: i64, lo: &Bound<i64>, hi: &Bound<i64>) -> bool {
    (match lo {
        Bound::Included(l) => k >= *l,
        Bound::Excluded(l) => k > *l,
        Bound::Unbounded => true,
    }) && (match hi {
        Bound::Included(h) => k <= *h,
        Bound::Excluded(h) => k < *h,
        Bound::Unbounded => true,
    })
}
fn fkv(k: &Key, v: &Val) -> String {
    format!("{}#{}={}", k.ord, k.serial, v.v)
}
fn err_kind(e: &BPlusTreeError) -> &'static str {
    match e {
        BPlusTreeError::KeyNotFound => "KeyNotFound",
        BPlusTreeError::InvalidCapacity(_) => "InvalidCapacity",
        BPlusTreeError::DataIntegrityError(_) => "DataIntegrity",
        BPlusTreeError::ArenaError(_) => "Arena",
        BPlusTreeError::NodeError(_) => "Node",
        BPlusTreeError::CorruptedTree(_) => "CorruptedTree",
        BPlusTreeError::InvalidState(_) => "InvalidState",
        BPlusTreeError::AllocationError(_) => "Allocation",
    }
}
fn detailed_kind(r: &Result<(), String>) -> &'static str {
    match r {
        Ok(()) => "ok",
        Err(m) if m.contains("Tree invariants violated") => "err-node",
        Err(m) if m.contains("unsorted keys") => "err-iter-unsorted",
        Err(m) if m.contains("keys but tree has") => "err-iter-count",
        Err(m) if m.contains("Leaf consistency check") => "err-leaf-count",
        Err(m) if m.contains("Branch consistency check") => "err-branch-count",
        Err(m) if m.contains("Linked list") => "err-linked-list",
        Err(_) => "err-other",
    }
}

impl TreeMachine {
    pub fn new() -> Self {
        TreeMachine {
            map: None,
            reference: BTreeMap::new(),
            dead: false,
            fails: Vec::new(),
            max_live_leaves: 0,
            max_live_branches: 0,
            damaged: false,
            sparse_checks: false,
            mutations: 0,
            damage_kind: None,
            raw_applied: 0,
            events: BTreeMap::new(),
        }
    }
    fn fail(&mut self, tag: &str, msg: String) {
        // (a message may quote a whole iteration of a 10^5-entry map)
        let msg = if msg.len() > 3000 { format!("{} … [{} more bytes]", &msg[..msg.char_indices().take_while(|(i, _)| *i < 3000).last().map(|(i, c)| i + c.len_utf8()).unwrap_or(0)], msg.len() - 3000) } else { msg };
        self.fails.push(format!("[{}] {}", tag, msg));
    }
    fn ev(&mut self, name: &str) {
        *self.events.entry(name.to_string()).or_insert(0) += 1;
    }

    /// C04 / C06 / C11 oracles, after a mutation of a map that has only seen the map-level API
    fn post_mutation(&mut self, before: Option<(usize, usize, usize)>) {
        if self.damaged {
            return;
        }
        if self.sparse_checks {
            // oracle-only (deep tree) mode: the whole-structure oracles run every 65536th mutation and on `check`
            self.mutations += 1;
            if self.mutations % 65536 != 0 {
                return;
            }
        }
        let Some(map) = self.map.as_ref() else { return };
        let s = snapshot(map);
        let (bad, leaves, nbranches, nseps) = struct_check(&s);
        let len = map.len();
        let ci = map.check_invariants();
        let cd = map.check_invariants_detailed();
        let counts = (
            map.leaf_count(),
            map.count_nodes_in_tree(),
            map.leaf_sizes(),
            map.is_leaf_root(),
            map.allocated_leaf_count(),
            map.free_leaf_count(),
            map.allocated_branch_count(),
            map.free_branch_count(),
            map.leaf_arena_stats(),
            map.branch_arena_stats(),
        );
        let mut msgs: Vec<(&str, String)> = Vec::new();
        for b in bad {
            msgs.push(("C04", b));
        }
        if !ci {
            msgs.push(("C04", "check_invariants() rejects a state reached through the map-level API".into()));
        }
        if let Err(e) = &cd {
            msgs.push(("C04", format!("validate()/check_invariants_detailed() rejects a reachable state: {}", e)));
        }
        // C06
        let live_l = s.leaves.iter().filter(|l| l.0).count();
        let live_b = s.branches.iter().filter(|b| b.0).count();
        if live_l != leaves.len() {
            msgs.push(("C06", format!("{} allocated leaf slots but {} leaves reachable from the root", live_l, leaves.len())));
        }
        if live_b != nbranches {
            msgs.push(("C06", format!("{} allocated branch slots but {} branches reachable from the root", live_b, nbranches)));
        }
        let check_free = |name: &str, n: usize, mask: Vec<bool>, free: &Vec<usize>, msgs: &mut Vec<(&str, String)>| {
            let mut sorted = free.clone();
            sorted.sort();
            let expect: Vec<usize> = (0..n).filter(|i| !mask[*i]).collect();
            if sorted != expect {
                msgs.push(("C06", format!("{} free list {:?} does not name every unallocated slot exactly once (unallocated: {:?})", name, free, expect)));
            }
        };
        check_free("leaf", s.leaves.len(), s.leaves.iter().map(|l| l.0).collect(), &s.lfree, &mut msgs);
        check_free("branch", s.branches.len(), s.branches.iter().map(|b| b.0).collect(), &s.bfree, &mut msgs);
        let sizes: Vec<usize> = leaves.iter().map(|id| s.leaves[*id as usize].2.len()).collect();
        if counts.0 != leaves.len()
            || counts.1 != (leaves.len(), nbranches)
            || counts.2 != sizes
            || counts.3 != s.root.0
            || counts.4 != live_l
            || counts.5 != s.leaves.len() - live_l
            || counts.6 != live_b
            || counts.7 != s.branches.len() - live_b
            || counts.8.allocated_count != live_l
            || counts.8.free_count != s.leaves.len() - live_l
            || counts.9.allocated_count != live_b
            || counts.9.free_count != s.branches.len() - live_b
        {
            msgs.push(("C06", format!(
                "introspection disagrees with the structure: leaf_count={} count_nodes={:?} leaf_sizes={:?} is_leaf_root={} allocated/free leaves={}/{} branches={}/{} stats leaves={}/{} branches={}/{}; structure has {} leaves {:?}, {} branches, slots {}/{}",
                counts.0, counts.1, counts.2, counts.3, counts.4, counts.5, counts.6, counts.7,
                counts.8.allocated_count, counts.8.free_count, counts.9.allocated_count, counts.9.free_count,
                leaves.len(), sizes, nbranches, s.leaves.len(), s.branches.len())));
        }
        self.max_live_leaves = self.max_live_leaves.max(live_l);
        self.max_live_branches = self.max_live_branches.max(live_b);
        if s.leaves.len() > self.max_live_leaves || s.branches.len() > self.max_live_branches {
            msgs.push(("C06", format!(
                "slot totals {}/{} exceed the largest number of simultaneously live nodes {}/{} (freed slots not reused)",
                s.leaves.len(), s.branches.len(), self.max_live_leaves, self.max_live_branches)));
        }
        // C11
        let lv = kv::live_vals();
        let lk = kv::live_keys();
        if lv != len as i64 {
            msgs.push(("C11", format!("{} live value objects but len() = {}", lv, len)));
        }
        if lk < len as i64 || lk > (len + nseps) as i64 {
            msgs.push(("C11", format!("{} live key objects, expected between len() = {} and len() + separators = {}", lk, len, len + nseps)));
        }
        if kv::val_clones() != 0 {
            msgs.push(("C11", format!("a value was cloned ({} clones so far)", kv::val_clones())));
        }
        if len != self.reference.len() {
            msgs.push(("C01", format!("len() = {} but the reference map holds {} keys", len, self.reference.len())));
        }
        // structural events (coverage of the generator, printed into the evidence)
        if let Some((bl, bb, _)) = before {
            if live_l > bl {
                self.ev("leaf-split");
            }
            if live_l < bl {
                self.ev("leaf-merge");
            }
            if live_b > bb + 1 {
                self.ev("branch-split+root-grow");
            } else if live_b > bb {
                self.ev("branch-count-up");
            }
            if live_b + 1 < bb {
                self.ev("multi-level-collapse");
            } else if live_b < bb {
                self.ev("branch-count-down");
            }
        }
        for (t, m) in msgs {
            self.fail(t, m);
        }
    }

    fn live_counts(&self) -> Option<(usize, usize, usize)> {
        self.map.as_ref().map(|m| (m.allocated_leaf_count(), m.allocated_branch_count(), m.len()))
    }

    fn ref_items(&self) -> Vec<String> {
        self.reference.iter().map(|(k, (s, v))| format!("{}#{}={}", k, s, v)).collect()
    }

    fn exec_inner(&mut self, ws: &[&str]) -> String {
        match ws {
            ["new", c] | ["empty", c] => {
                let Ok(c) = c.parse::<usize>() else { return "bad-op".into() };
                self.map = None; // drop the previous map first (C11: everything it held is released)
                if kv::live_keys() != 0 || kv::live_vals() != 0 {
                    let (a, b) = (kv::live_keys(), kv::live_vals());
                    self.fail("C11", format!("after dropping the map {} keys and {} values are still live", a, b));
                }
                self.reference.clear();
                self.damaged = false;
                self.raw_applied = 0;
                let r = if ws[0] == "new" { Map::new(c) } else { Map::empty(c) };
                match r {
                    Ok(m) => {
                        if c < 4 {
                            self.fail("C10", format!("{}({}) accepted a capacity below 4", ws[0], c));
                        }
                        if !m.is_empty() || m.len() != 0 {
                            self.fail("C10", format!("{}({}) is not empty", ws[0], c));
                        }
                        self.map = Some(m);
                        self.max_live_leaves = 1;
                        self.max_live_branches = 0;
                        self.post_mutation(None);
                        "ok".into()
                    }
                    Err(e) => {
                        if c >= 4 {
                            self.fail("C10", format!("{}({}) rejected an acceptable capacity: {}", ws[0], c, e));
                        }
                        if !matches!(e, BPlusTreeError::InvalidCapacity(_)) {
                            self.fail("C10", format!("{}({}) failed with {} instead of InvalidCapacity", ws[0], c, err_kind(&e)));
                        }
                        format!("err {}", err_kind(&e))
                    }
                }
            }
            ["default"] => {
                self.map = None;
                self.reference.clear();
                self.damaged = false;
                self.raw_applied = 0;
                let m: Map = Default::default();
                let ok2 = Map::with_default_capacity().is_ok();
                if !ok2 {
                    self.fail("C10", "with_default_capacity() failed".into());
                }
                self.map = Some(m);
                self.max_live_leaves = 1;
                self.max_live_branches = 0;
                self.post_mutation(None);
                "ok".into()
            }
            ["drop"] => {
                self.map = None;
                if kv::live_keys() != 0 || kv::live_vals() != 0 {
                    let (a, b) = (kv::live_keys(), kv::live_vals());
                    self.fail("C11", format!("after dropping the map {} keys and {} values are still live", a, b));
                }
                self.reference.clear();
                "ok".into()
            }
            _ => {
                if self.map.is_none() {
                    return "bad-op".into();
                }
                self.exec_on_map(ws)
            }
        }
    }

    fn exec_on_map(&mut self, ws: &[&str]) -> String {
        // (len() walks every leaf: in the oracle-only deep-tree mode it is not taken before every call)
        let before = if self.sparse_checks { None } else { self.live_counts() };
        match ws {
            ["insert", k, v] => {
                let (Some((ko, ks)), Ok(v)) = (pk(k), v.parse::<u64>()) else { return "bad-op".into() };
                let got = self.map.as_mut().unwrap().insert(Key::new(ko, ks), Val::new(v)).map(|x| x.v);
                if !self.damaged {
                    let exp = match self.reference.get_mut(&ko) {
                        Some(e) => {
                            let old = e.1;
                            e.1 = v;
                            Some(old)
                        }
                        None => {
                            self.reference.insert(ko, (ks, v));
                            None
                        }
                    };
                    if got != exp {
                        self.fail("C01", format!("insert({}) returned {:?}, BTreeMap returns {:?}", ko, got, exp));
                    }
                    self.post_mutation(before);
                }
                fmt_opt(got)
            }
            ["remove", k] => {
                let Some((ko, _)) = pk(k) else { return "bad-op".into() };
                let key = Key::new(ko, 0);
                let got = self.map.as_mut().unwrap().remove(&key).map(|x| x.v);
                drop(key);
                if !self.damaged {
                    let exp = self.reference.remove(&ko).map(|e| e.1);
                    if got != exp {
                        self.fail("C01", format!("remove({}) returned {:?}, BTreeMap returns {:?}", ko, got, exp));
                    }
                    self.post_mutation(before);
                }
                fmt_opt(got)
            }
            ["getmut", k, v] => {
                let (Some((ko, _)), Ok(v)) = (pk(k), v.parse::<u64>()) else { return "bad-op".into() };
                let key = Key::new(ko, 0);
                let got = match self.map.as_mut().unwrap().get_mut(&key) {
                    Some(slot) => {
                        let old = slot.v;
                        slot.v = v;
                        Some(old)
                    }
                    None => None,
                };
                drop(key);
                if !self.damaged {
                    let exp = match self.reference.get_mut(&ko) {
                        Some(e) => {
                            let old = e.1;
                            e.1 = v;
                            Some(old)
                        }
                        None => None,
                    };
                    if got != exp {
                        self.fail("C01", format!("get_mut({}) saw {:?}, BTreeMap {:?}", ko, got, exp));
                    }
                    self.post_mutation(before);
                }
                fmt_opt(got)
            }
            ["clear"] => {
                self.map.as_mut().unwrap().clear();
                self.reference.clear();
                self.damaged = false;
                self.raw_applied = 0;
                self.max_live_leaves = 1;
                self.max_live_branches = 0;
                self.post_mutation(None);
                let m = self.map.as_ref().unwrap();
                if m.allocated_leaf_count() != 1 || m.allocated_branch_count() != 0 || m.len() != 0 || m.free_leaf_count() != 0 {
                    self.fail("C06", "clear() did not leave exactly one empty leaf".into());
                }
                "ok".into()
            }
            ["get", k] | ["contains", k] => {
                let Some((ko, _)) = pk(k) else { return "bad-op".into() };
                let key = Key::new(ko, 0);
                let m = self.map.as_ref().unwrap();
                let got = m.get(&key).map(|x| x.v);
                let c = m.contains_key(&key);
                drop(key);
                if !self.damaged {
                    let exp = self.reference.get(&ko).map(|e| e.1);
                    if got != exp || c != exp.is_some() {
                        self.fail("C01", format!("get({}) = {:?} / contains_key = {}, BTreeMap has {:?}", ko, got, c, exp));
                    }
                }
                if ws[0] == "get" {
                    fmt_opt(got)
                } else {
                    format!("{}", c)
                }
            }
            ["getdef", k, d] => {
                let (Some((ko, _)), Ok(d)) = (pk(k), d.parse::<u64>()) else { return "bad-op".into() };
                let key = Key::new(ko, 0);
                let dv = Val::new(d);
                let got = self.map.as_ref().unwrap().get_or_default(&key, &dv).v;
                drop(dv);
                drop(key);
                if !self.damaged {
                    let exp = self.reference.get(&ko).map(|e| e.1).unwrap_or(d);
                    if got != exp {
                        self.fail("C01", format!("get_or_default({}, {}) = {}, expected {}", ko, d, got, exp));
                    }
                }
                format!("{}", got)
            }
            ["len"] => {
                let n = self.map.as_ref().unwrap().len();
                if !self.damaged && n != self.reference.len() {
                    self.fail("C01", format!("len() = {}, BTreeMap has {}", n, self.reference.len()));
                }
                format!("{}", n)
            }
            ["isempty"] => {
                let e = self.map.as_ref().unwrap().is_empty();
                if !self.damaged && e != self.reference.is_empty() {
                    self.fail("C01", format!("is_empty() = {}", e));
                }
                format!("{}", e)
            }
            ["items"] | ["slice"] | ["itemsfast"] => {
                let m = self.map.as_ref().unwrap();
                let got: Vec<String> = match ws[0] {
                    "items" => m.items().map(|(k, v)| fkv(k, v)).collect(),
                    "slice" => m.slice().into_iter().map(|(k, v)| fkv(k, v)).collect(),
                    _ => m.items_fast().map(|(k, v)| fkv(k, v)).collect(),
                };
                if !self.damaged && got != self.ref_items() {
                    let exp = self.ref_items();
                    self.fail("C02", format!("{}() yields {:?}, expected {:?}", ws[0], got, exp));
                }
                fmt_list(&got)
            }
            ["keys"] => {
                let got: Vec<String> = self.map.as_ref().unwrap().keys().map(|k| format!("{}#{}", k.ord, k.serial)).collect();
                if !self.damaged {
                    let exp: Vec<String> = self.reference.iter().map(|(k, (s, _))| format!("{}#{}", k, s)).collect();
                    if got != exp {
                        self.fail("C02", format!("keys() yields {:?}, expected {:?}", got, exp));
                    }
                }
                fmt_list(&got)
            }
            ["values"] => {
                let got: Vec<u64> = self.map.as_ref().unwrap().values().map(|v| v.v).collect();
                if !self.damaged {
                    let exp: Vec<u64> = self.reference.values().map(|e| e.1).collect();
                    if got != exp {
                        self.fail("C02", format!("values() yields {:?}, expected {:?}", got, exp));
                    }
                }
                fmt_list(&got)
            }
            ["first"] | ["last"] => {
                let m = self.map.as_ref().unwrap();
                let got = if ws[0] == "first" { m.first() } else { m.last() }.map(|(k, v)| fkv(k, v));
                if !self.damaged {
                    let e = if ws[0] == "first" { self.reference.iter().next() } else { self.reference.iter().next_back() };
                    let exp = e.map(|(k, (s, v))| format!("{}#{}={}", k, s, v));
                    if got != exp {
                        self.fail("C02", format!("{}() = {:?}, expected {:?}", ws[0], got, exp));
                    }
                }
                fmt_opt(got)
            }
            ["range", lo, hi] => {
                let (Some(lo), Some(hi)) = (pbound(lo), pbound(hi)) else { return "bad-op".into() };
                let bounds = (kb(&lo), kb(&hi));
                let got: Vec<String> = self.map.as_ref().unwrap().range(bounds).map(|(k, v)| fkv(k, v)).collect();
                if !self.damaged {
                    let exp: Vec<String> = self
                        .reference
                        .iter()
                        .filter(|(k, _)| in_bounds(**k, &lo, &hi))
                        .map(|(k, (s, v))| format!("{}#{}={}", k, s, v))
                        .collect();
                    if got != exp {
                        self.fail("C03", format!("range({:?}, {:?}) yields {:?}, expected {:?}", lo, hi, got, exp));
                    }
                }
                fmt_list(&got)
            }
            ["itemsrange", lo, hi] => {
                let plo = if *lo == "-" { None } else { lo.parse::<i64>().ok() };
                let phi = if *hi == "-" { None } else { hi.parse::<i64>().ok() };
                let klo = plo.map(|k| Key::new(k, 0));
                let khi = phi.map(|k| Key::new(k, 0));
                let got: Vec<String> = self.map.as_ref().unwrap().items_range(klo.as_ref(), khi.as_ref()).map(|(k, v)| fkv(k, v)).collect();
                if !self.damaged {
                    let exp: Vec<String> = self
                        .reference
                        .iter()
                        .filter(|(k, _)| plo.map_or(true, |l| **k >= l) && phi.map_or(true, |h| **k < h))
                        .map(|(k, (s, v))| format!("{}#{}={}", k, s, v))
                        .collect();
                    if got != exp {
                        self.fail("C03", format!("items_range({:?}, {:?}) yields {:?}, expected {:?}", plo, phi, got, exp));
                    }
                }
                fmt_list(&got)
            }
            ["rangefrom", leaf, idx, skip, e] | ["iterfrom", leaf, idx, skip, e] => {
                // the public positioned constructors, called directly with an arbitrary (leaf id, index):
                // RangeIterator::new_with_skip_owned / ItemIterator::new_from_position_with_bounds
                let (Ok(leaf), Ok(idx), Some(eb)) = (leaf.parse::<u32>(), idx.parse::<usize>(), pbound(e)) else { return "bad-op".into() };
                let m = self.map.as_ref().unwrap();
                let got: Vec<String> = if ws[0] == "rangefrom" {
                    let end_info = match &eb {
                        Bound::Included(k) => Some((Key::new(*k, 0), true)),
                        Bound::Excluded(k) => Some((Key::new(*k, 0), false)),
                        Bound::Unbounded => None,
                    };
                    RangeIterator::new_with_skip_owned(m, Some((leaf, idx)), *skip == "1", end_info).map(|(k, v)| fkv(k, v)).collect()
                } else {
                    let ekey = match &eb {
                        Bound::Included(k) | Bound::Excluded(k) => Some(Key::new(*k, 0)),
                        Bound::Unbounded => None,
                    };
                    let b: Bound<&Key> = match (&eb, ekey.as_ref()) {
                        (Bound::Included(_), Some(k)) => Bound::Included(k),
                        (Bound::Excluded(_), Some(k)) => Bound::Excluded(k),
                        _ => Bound::Unbounded,
                    };
                    ItemIterator::new_from_position_with_bounds(m, leaf, idx, b).map(|(k, v)| fkv(k, v)).collect()
                };
                fmt_list(&got)
            }
            ["itemsfrom", start, e] => {
                let (Some((so, _)), Some(eb)) = (pk(start), pbound(e)) else { return "bad-op".into() };
                let m = self.map.as_ref().unwrap();
                let skey = Key::new(so, 0);
                let (info, _, _) = m.resolve_range_bounds((Bound::Included(&skey), Bound::Unbounded));
                let ekey = match &eb {
                    Bound::Included(k) | Bound::Excluded(k) => Some(Key::new(*k, 0)),
                    Bound::Unbounded => None,
                };
                let got: Vec<String> = match info {
                    None => Vec::new(),
                    Some((leaf, idx)) => {
                        let b: Bound<&Key> = match (&eb, ekey.as_ref()) {
                            (Bound::Included(_), Some(k)) => Bound::Included(k),
                            (Bound::Excluded(_), Some(k)) => Bound::Excluded(k),
                            _ => Bound::Unbounded,
                        };
                        ItemIterator::new_from_position_with_bounds(m, leaf, idx, b).map(|(k, v)| fkv(k, v)).collect()
                    }
                };
                if !self.damaged {
                    let lo = Bound::Included(so);
                    let exp: Vec<String> = self
                        .reference
                        .iter()
                        .filter(|(k, _)| in_bounds(**k, &lo, &eb))
                        .map(|(k, (s, v))| format!("{}#{}={}", k, s, v))
                        .collect();
                    if got != exp {
                        self.fail("C03", format!("iterator from position of {} with end bound {:?} yields {:?}, expected {:?}", so, eb, got, exp));
                    }
                }
                fmt_list(&got)
            }
            ["partial", n, extra] | ["partialfast", n, extra] => {
                let (Ok(n), Ok(extra)) = (n.parse::<usize>(), extra.parse::<usize>()) else { return "bad-op".into() };
                let m = self.map.as_ref().unwrap();
                let mut out: Vec<Option<String>> = Vec::new();
                if ws[0] == "partial" {
                    let mut it = m.items();
                    for _ in 0..n + extra {
                        out.push(it.next().map(|(k, v)| fkv(k, v)));
                    }
                } else {
                    let mut it = m.items_fast();
                    for _ in 0..n + extra {
                        out.push(it.next().map(|(k, v)| fkv(k, v)));
                    }
                }
                if !self.damaged {
                    let exp: Vec<Option<String>> = {
                        let items = self.ref_items();
                        (0..n + extra).map(|i| items.get(i).cloned()).collect()
                    };
                    if out != exp {
                        self.fail("C02", format!("{} consumption: next() sequence {:?}, expected {:?}", ws[0], out, exp));
                    }
                }
                out.into_iter().map(fmt_opt).collect::<Vec<_>>().join(" ")
            }
            ["retarget", n, leaf, extra] | ["retargetfast", n, leaf, extra] => {
                // `current_leaf_ref` of ItemIterator / FastItemIterator is a public field: safe code can point a
                // half-consumed iterator at any other leaf (or at none) and keep calling next()
                let (Ok(n), Ok(leaf), Ok(extra)) = (n.parse::<usize>(), leaf.parse::<u32>(), extra.parse::<usize>()) else { return "bad-op".into() };
                let m = self.map.as_ref().unwrap();
                let mut out: Vec<Option<String>> = Vec::new();
                if ws[0] == "retarget" {
                    let mut it = m.items();
                    for _ in 0..n {
                        out.push(it.next().map(|(k, v)| fkv(k, v)));
                    }
                    it.current_leaf_ref = m.get_leaf(leaf);
                    for _ in 0..extra {
                        out.push(it.next().map(|(k, v)| fkv(k, v)));
                    }
                } else {
                    let mut it = m.items_fast();
                    for _ in 0..n {
                        out.push(it.next().map(|(k, v)| fkv(k, v)));
                    }
                    it.current_leaf_ref = m.get_leaf(leaf);
                    for _ in 0..extra {
                        out.push(it.next().map(|(k, v)| fkv(k, v)));
                    }
                }
                out.into_iter().map(fmt_opt).collect::<Vec<_>>().join(" ")
            }
            ["partialrange", lo, hi, n] => {
                let (Some(lo), Some(hi), Ok(n)) = (pbound(lo), pbound(hi), n.parse::<usize>()) else { return "bad-op".into() };
                let m = self.map.as_ref().unwrap();
                let mut it = m.range((kb(&lo), kb(&hi)));
                let mut out: Vec<Option<String>> = Vec::new();
                for _ in 0..n {
                    out.push(it.next().map(|(k, v)| fkv(k, v)));
                }
                if !self.damaged {
                    let items: Vec<String> = self
                        .reference
                        .iter()
                        .filter(|(k, _)| in_bounds(**k, &lo, &hi))
                        .map(|(k, (s, v))| format!("{}#{}={}", k, s, v))
                        .collect();
                    let exp: Vec<Option<String>> = (0..n).map(|i| items.get(i).cloned()).collect();
                    if out != exp {
                        self.fail("C03", format!("range({:?},{:?}) next() sequence {:?}, expected {:?}", lo, hi, out, exp));
                    }
                }
                out.into_iter().map(fmt_opt).collect::<Vec<_>>().join(" ")
            }
            ["interleave", sched @ ..] => {
                let m = self.map.as_ref().unwrap();
                let mut a = m.items();
                let mut b = m.items();
                let items = self.ref_items();
                let (mut ia, mut ib) = (0usize, 0usize);
                let mut out = Vec::new();
                let mut bad = None;
                for s in sched {
                    if *s == "0" {
                        let g = a.next().map(|(k, v)| fkv(k, v));
                        if g != items.get(ia).cloned() {
                            bad = Some(format!("iterator a step {} gave {:?}", ia, g));
                        }
                        ia += 1;
                        out.push(format!("a:{}", fmt_opt(g)));
                    } else {
                        let g = b.next().map(|(k, v)| fkv(k, v));
                        if g != items.get(ib).cloned() {
                            bad = Some(format!("iterator b step {} gave {:?}", ib, g));
                        }
                        ib += 1;
                        out.push(format!("b:{}", fmt_opt(g)));
                    }
                }
                if let (Some(b), false) = (bad, self.damaged) {
                    self.fail("C02", format!("interleaved iterators influence each other: {}", b));
                }
                out.join(" ")
            }
            ["counts"] => {
                let m = self.map.as_ref().unwrap();
                let n = m.count_nodes_in_tree();
                format!(
                    "leaf_count={} nodes={},{} leaf_sizes={} leaf_root={} alloc_leaves={} free_leaves={} alloc_branches={} free_branches={} first_leaf={}",
                    m.leaf_count(),
                    n.0,
                    n.1,
                    fmt_list(&m.leaf_sizes()),
                    m.is_leaf_root(),
                    m.allocated_leaf_count(),
                    m.free_leaf_count(),
                    m.allocated_branch_count(),
                    m.free_branch_count(),
                    fmt_opt(m.get_first_leaf_id())
                )
            }
            ["fullcheck"] => {
                // every whole-structure oracle now (used by the oracle-only deep-tree mode, where they run sparsely)
                let save = self.sparse_checks;
                self.sparse_checks = false;
                self.post_mutation(None);
                self.sparse_checks = save;
                "ok".into()
            }
            ["check"] => {
                let m = self.map.as_ref().unwrap();
                let ci = m.check_invariants();
                let cd = m.check_invariants_detailed();
                let v = m.validate();
                let vo = m.validate_for_operation("verif");
                if cd.is_ok() != v.is_ok() {
                    self.fail("C14", "validate() and check_invariants_detailed() disagree".into());
                }
                if !self.damaged && (!ci || cd.is_err() || vo.is_err()) {
                    self.fail("C14", format!(
                        "a validator rejects a map built through the map-level API only: check_invariants()={} detailed={} validate_for_operation={}",
                        ci, detailed_kind(&cd), if vo.is_ok() { "ok" } else { "err" }));
                    if vo.is_err() {
                        self.fail("C10", "validate_for_operation failed on a map built through the map-level API".into());
                    }
                }
                if let Some(kind) = self.damage_kind.clone() {
                    self.ev(&format!("damage:{}", kind));
                    let node_level = matches!(kind.as_str(), "unsorted" | "duplicate" | "count-mismatch" | "over-capacity" | "underfull" | "empty-node" | "out-of-interval" | "arity" | "dangling-child");
                    if node_level && ci {
                        self.fail("C14", format!("check_invariants() accepts a map damaged by `{}`", kind));
                    }
                    if cd.is_ok() || vo.is_ok() {
                        self.fail("C14", format!("check_invariants_detailed()/validate()/validate_for_operation() accept a map damaged by `{}`", kind));
                    }
                }
                format!("invariants={} detailed={}", ci, detailed_kind(&cd))
            }
            ["validateop"] => {
                let r = self.map.as_ref().unwrap().validate_for_operation("verif");
                if !self.damaged {
                    if let Err(e) = &r {
                        self.fail("C10", format!("validate_for_operation failed on a map built through the map-level API: {}", e));
                    }
                }
                match r {
                    Ok(()) => "ok".into(),
                    Err(e) => format!("err {}", err_kind(&e)),
                }
            }
            ["tryget", k] | ["getitem", k] => {
                let Some((ko, _)) = pk(k) else { return "bad-op".into() };
                let key = Key::new(ko, 0);
                let m = self.map.as_ref().unwrap();
                let r = if ws[0] == "tryget" { m.try_get(&key) } else { m.get_item(&key) }.map(|v| v.v);
                let basic = m.get(&key).map(|v| v.v);
                drop(key);
                let out = match &r {
                    Ok(v) => format!("ok {}", v),
                    Err(e) => format!("err {}", err_kind(e)),
                };
                let agrees = match (&r, basic) {
                    (Ok(a), Some(b)) => *a == b,
                    (Err(BPlusTreeError::KeyNotFound), None) => true,
                    _ => false,
                };
                if !agrees {
                    self.fail("C10", format!("{}({}) = {}, but get() = {:?}", ws[0], ko, out, basic));
                }
                out
            }
            ["getmany", ks @ ..] => {
                let keys: Vec<Key> = ks.iter().filter_map(|k| pk(k)).map(|(o, _)| Key::new(o, 0)).collect();
                let m = self.map.as_ref().unwrap();
                let r = m.get_many(&keys).map(|vs| vs.into_iter().map(|v| v.v).collect::<Vec<u64>>());
                let basic: Vec<Option<u64>> = keys.iter().map(|k| m.get(k).map(|v| v.v)).collect();
                drop(keys);
                let out = match &r {
                    Ok(vs) => format!("ok {}", fmt_list(vs)),
                    Err(e) => format!("err {}", err_kind(e)),
                };
                let agrees = match &r {
                    Ok(vs) => basic.iter().all(|b| b.is_some()) && *vs == basic.iter().map(|b| b.unwrap()).collect::<Vec<_>>(),
                    Err(BPlusTreeError::KeyNotFound) => basic.iter().any(|b| b.is_none()),
                    Err(_) => false,
                };
                if !agrees {
                    self.fail("C10", format!("get_many = {}, but get() per key = {:?}", out, basic));
                }
                out
            }
            ["removeitem", k] | ["tryremove", k] => {
                let Some((ko, _)) = pk(k) else { return "bad-op".into() };
                let key = Key::new(ko, 0);
                let before_items = if self.damaged { Some(dump(&snapshot(self.map.as_ref().unwrap()))) } else { None };
                let rejected_before = self.damaged && ws[0] == "tryremove" && self.map.as_ref().unwrap().check_invariants_detailed().is_err();
                let m = self.map.as_mut().unwrap();
                let r = if ws[0] == "removeitem" { m.remove_item(&key) } else { m.try_remove(&key) }.map(|v| v.v);
                drop(key);
                if rejected_before && !matches!(r, Err(BPlusTreeError::DataIntegrityError(_))) {
                    self.fail("C14", format!("try_remove({}) on a map the validators reject did not refuse with a data-integrity error", ko));
                }
                let out = match &r {
                    Ok(v) => format!("ok {}", v),
                    Err(e) => format!("err {}", err_kind(e)),
                };
                if !self.damaged {
                    let exp = self.reference.remove(&ko).map(|e| e.1);
                    let agrees = match (&r, exp) {
                        (Ok(a), Some(b)) => *a == b,
                        (Err(BPlusTreeError::KeyNotFound), None) => true,
                        _ => false,
                    };
                    if !agrees {
                        self.fail("C10", format!("{}({}) = {}, basic remove gives {:?}", ws[0], ko, out, exp));
                    }
                    self.post_mutation(before);
                } else if let (Some(b), Err(BPlusTreeError::DataIntegrityError(_))) = (before_items, &r) {
                    if dump(&snapshot(self.map.as_ref().unwrap())) != b {
                        self.fail("C14", format!("{} refused with a data-integrity error but changed the map", ws[0]));
                    }
                }
                out
            }
            ["tryinsert", k, v] => {
                let (Some((ko, ks)), Ok(v)) = (pk(k), v.parse::<u64>()) else { return "bad-op".into() };
                let before_items = if self.damaged { Some(dump(&snapshot(self.map.as_ref().unwrap()))) } else { None };
                let rejected_before = self.damaged && self.map.as_ref().unwrap().check_invariants_detailed().is_err();
                let r = self.map.as_mut().unwrap().try_insert(Key::new(ko, ks), Val::new(v)).map(|o| o.map(|x| x.v));
                if rejected_before && !matches!(r, Err(BPlusTreeError::DataIntegrityError(_))) {
                    self.fail("C14", format!("try_insert({}) on a map the validators reject did not refuse with a data-integrity error", ko));
                }
                let out = match &r {
                    Ok(o) => format!("ok {}", fmt_opt(*o)),
                    Err(e) => format!("err {}", err_kind(e)),
                };
                if !self.damaged {
                    let exp = match self.reference.get_mut(&ko) {
                        Some(e) => {
                            let old = e.1;
                            e.1 = v;
                            Some(old)
                        }
                        None => {
                            self.reference.insert(ko, (ks, v));
                            None
                        }
                    };
                    if r != Ok(exp) {
                        self.fail("C10", format!("try_insert({}) = {}, basic insert gives {:?}", ko, out, exp));
                    }
                    self.post_mutation(before);
                } else if let (Some(b), Err(BPlusTreeError::DataIntegrityError(_))) = (before_items, &r) {
                    if dump(&snapshot(self.map.as_ref().unwrap())) != b {
                        self.fail("C14", "try_insert refused with a data-integrity error but changed the map".into());
                    }
                }
                out
            }
            ["batchinsert", kvs @ ..] => {
                let mut items: Vec<(Key, Val)> = Vec::new();
                let mut plain: Vec<(i64, u64, u64)> = Vec::new();
                for w in kvs {
                    let mut it = w.split(':');
                    if let (Some(a), Some(b)) = (it.next(), it.next()) {
                        if let (Some((ko, ks)), Ok(v)) = (pk(a), b.parse::<u64>()) {
                            items.push((Key::new(ko, ks), Val::new(v)));
                            plain.push((ko, ks, v));
                        }
                    }
                }
                let r = self.map.as_mut().unwrap().batch_insert(items).map(|v| v.into_iter().map(|o| o.map(|x| x.v)).collect::<Vec<_>>());
                let out = match &r {
                    Ok(vs) => format!("ok {}", fmt_list(&vs.iter().map(|o| fmt_opt(*o)).collect::<Vec<_>>())),
                    Err(e) => format!("err {}", err_kind(e)),
                };
                if !self.damaged {
                    let mut exp = Vec::new();
                    for (ko, ks, v) in plain {
                        exp.push(match self.reference.get_mut(&ko) {
                            Some(e) => {
                                let old = e.1;
                                e.1 = v;
                                Some(old)
                            }
                            None => {
                                self.reference.insert(ko, (ks, v));
                                None
                            }
                        });
                    }
                    if r != Ok(exp.clone()) {
                        self.fail("C10", format!("batch_insert = {}, the same inserts one by one give {:?}", out, exp));
                    }
                    self.post_mutation(before);
                }
                out
            }
            ["dump"] => dump(&snapshot(self.map.as_ref().unwrap())),
            _ => "bad-op".into(),
        }
    }
}

fn parse_keys(s: &str) -> Option<Vec<Key>> {
    if s == "-" {
        return Some(Vec::new());
    }
    s.split(',').map(|w| pk(w).map(|(o, sr)| Key::new(o, sr))).collect()
}
fn parse_nats(s: &str) -> Option<Vec<u64>> {
    if s == "-" {
        return Some(Vec::new());
    }
    s.split(',').map(|w| w.parse::<u64>().ok()).collect()
}
fn parse_ref(s: &str) -> Option<NodeRef<Key, Val>> {
    let id = s[1..].parse::<u32>().ok()?;
    match &s[..1] {
        "L" => Some(NodeRef::Leaf(id, PhantomData)),
        "B" => Some(NodeRef::Branch(id, PhantomData)),
        _ => None,
    }
}

impl TreeMachine {
    /// fault mode (C05): map-level calls made while the key type's `clone` / `cmp` may panic (caught at the call
    /// boundary, as a caller with `catch_unwind` would), and every later map-level call on the possibly torn map.
    /// Only one thing is judged here: no unchecked access outside its precondition.  Results are not compared
    /// (the model has no notion of an operation interrupted half-way), so every answer is `ok`.
    pub fn exec_f(&mut self, ws: &[&str]) -> String {
        match ws {
            ["arm-clone", n] => {
                crate::kv::arm_clone_fuse(n.parse().unwrap_or(0));
                return "ok".into();
            }
            ["arm-cmp", n] => {
                crate::kv::arm_cmp_fuse(n.parse().unwrap_or(0));
                return "ok".into();
            }
            ["arm-kdrop", n] => {
                crate::kv::arm_kdrop_fuse(n.parse().unwrap_or(0));
                return "ok".into();
            }
            ["arm-vdrop", n] => {
                crate::kv::arm_vdrop_fuse(n.parse().unwrap_or(0));
                return "ok".into();
            }
            _ => {}
        }
        if self.map.is_none() {
            return "ok".into();
        }
        let keep = self.fails.len();
        let r = catch_unwind(AssertUnwindSafe(|| self.exec_on_map(ws)));
        crate::kv::disarm_fuses();
        // content oracles do not apply to a map an injected fault may have torn
        self.fails.truncate(keep);
        self.damaged = true;
        if let Err(p) = r {
            let msg = p.downcast_ref::<String>().cloned().or_else(|| p.downcast_ref::<&str>().map(|s| s.to_string())).unwrap_or_default();
            if msg.contains("VERIF-HOOK") {
                self.fail("C05", format!("unchecked access outside its precondition in `F {}` (after an injected panic in the key type's clone/cmp): {}", ws.join(" "), msg));
            } else if msg.contains("VERIF-FAULT") {
                self.ev("fault-injected");
            } else {
                self.ev("fault-safe-panic");
            }
        }
        "ok".into()
    }

    /// oracle-only mode (deep trees): the call runs with every oracle of the `R` machine, but its answer is not
    /// printed (the model is not asked: a tree of 10^5 entries is beyond what the list-based model executes in
    /// seconds); whole-structure oracles run sparsely
    pub fn exec_o(&mut self, ws: &[&str]) -> String {
        self.sparse_checks = true;
        let _ = self.exec(ws);
        "ok".into()
    }

    /// raw-state operations: damage injection through the cfg-guarded hooks (C14) and
    /// the crate's safe public node/arena helpers (C15)
    pub fn exec_x(&mut self, ws: &[&str]) -> String {
        if self.dead {
            return "dead".into();
        }
        if self.map.is_none() {
            return "bad-op".into();
        }
        match catch_unwind(AssertUnwindSafe(|| self.exec_x_inner(ws))) {
            Ok(s) => {
                if !matches!(ws.first().copied(), Some("toraw") | Some("note")) && s != "bad-op" && s != "false" {
                    self.raw_applied += 1;
                }
                s
            }
            Err(p) => {
                self.dead = true;
                let msg = p.downcast_ref::<String>().cloned().or_else(|| p.downcast_ref::<&str>().map(|s| s.to_string())).unwrap_or_default();
                if msg.contains("VERIF-HOOK") {
                    self.fail("C15", format!("unchecked access outside its precondition in `X {}`: {}", ws.join(" "), msg));
                    return "ub".into();
                }
                if let Some(m) = self.map.take() {
                    std::mem::forget(m);
                }
                "panic".into()
            }
        }
    }
    fn exec_x_inner(&mut self, ws: &[&str]) -> String {
        let map = self.map.as_mut().unwrap();
        match ws {
            ["toraw"] => {
                self.damaged = true;
                self.damage_kind = None;
                self.raw_applied = 0;
                "ok".into()
            }
            ["note", kind, ..] => {
                if self.raw_applied > 0 {
                    self.damage_kind = Some(kind.to_string());
                }
                "ok".into()
            }
            ["leaf-keys", id, ks] => {
                let (Ok(id), Some(ks)) = (id.parse::<u32>(), parse_keys(ks)) else { return "bad-op".into() };
                self.damaged = true;
                match map.get_leaf_mut(id) {
                    Some(l) => {
                        *l.verif_fields_mut().1 = ks;
                        "true".into()
                    }
                    None => "false".into(),
                }
            }
            ["leaf-vals", id, vs] => {
                let (Ok(id), Some(vs)) = (id.parse::<u32>(), parse_nats(vs)) else { return "bad-op".into() };
                self.damaged = true;
                match map.get_leaf_mut(id) {
                    Some(l) => {
                        *l.verif_fields_mut().2 = vs.into_iter().map(Val::new).collect();
                        "true".into()
                    }
                    None => "false".into(),
                }
            }
            ["leaf-next", id, n] => {
                let (Ok(id), Ok(n)) = (id.parse::<u32>(), n.parse::<u32>()) else { return "bad-op".into() };
                self.damaged = true;
                format!("{}", map.set_leaf_next(id, n))
            }
            ["branch-keys", id, ks] => {
                let (Ok(id), Some(ks)) = (id.parse::<u32>(), parse_keys(ks)) else { return "bad-op".into() };
                self.damaged = true;
                match map.get_branch_mut(id) {
                    Some(b) => {
                        *b.verif_fields_mut().1 = ks;
                        "true".into()
                    }
                    None => "false".into(),
                }
            }
            ["branch-children", id, cs] => {
                let Ok(id) = id.parse::<u32>() else { return "bad-op".into() };
                let refs: Option<Vec<NodeRef<Key, Val>>> = if *cs == "-" { Some(Vec::new()) } else { cs.split(',').map(parse_ref).collect() };
                let Some(refs) = refs else { return "bad-op".into() };
                self.damaged = true;
                match map.get_branch_mut(id) {
                    Some(b) => {
                        *b.verif_fields_mut().2 = refs;
                        "true".into()
                    }
                    None => "false".into(),
                }
            }
            ["set-root", r] => {
                let Some(r) = parse_ref(r) else { return "bad-op".into() };
                self.damaged = true;
                map.verif_set_root(r);
                "ok".into()
            }
            ["alloc-leaf", c] => {
                let Ok(c) = c.parse::<usize>() else { return "bad-op".into() };
                self.damaged = true;
                format!("id {}", map.allocate_leaf(LeafNode::new(c)))
            }
            ["dealloc-leaf", id] => {
                let Ok(id) = id.parse::<u32>() else { return "bad-op".into() };
                self.damaged = true;
                match map.deallocate_leaf(id) {
                    Some(l) => format!("some {}", l.keys_len()),
                    None => "none".into(),
                }
            }
            ["dealloc-branch", id] => {
                let Ok(id) = id.parse::<u32>() else { return "bad-op".into() };
                self.damaged = true;
                match map.deallocate_branch(id) {
                    Some(b) => format!("some {}", b.len()),
                    None => "none".into(),
                }
            }
            ["push-key", id, k] => {
                let (Ok(id), Some((o, sr))) = (id.parse::<u32>(), pk(k)) else { return "bad-op".into() };
                self.damaged = true;
                match map.get_leaf_mut(id) {
                    Some(l) => {
                        l.push_key(Key::new(o, sr));
                        "true".into()
                    }
                    None => "false".into(),
                }
            }
            ["push-value", id, v] => {
                let (Ok(id), Ok(v)) = (id.parse::<u32>(), v.parse::<u64>()) else { return "bad-op".into() };
                self.damaged = true;
                match map.get_leaf_mut(id) {
                    Some(l) => {
                        l.push_value(Val::new(v));
                        "true".into()
                    }
                    None => "false".into(),
                }
            }
            ["take-keys", id] | ["take-values", id] | ["pop", id] => {
                let Ok(id) = id.parse::<u32>() else { return "bad-op".into() };
                self.damaged = true;
                match map.get_leaf_mut(id) {
                    Some(l) => {
                        match ws[0] {
                            "take-keys" => drop(l.take_keys()),
                            "take-values" => drop(l.take_values()),
                            _ => drop(l.pop()),
                        }
                        "true".into()
                    }
                    None => "false".into(),
                }
            }
            ["remove-at", id, i] => {
                let (Ok(id), Ok(i)) = (id.parse::<u32>(), i.parse::<usize>()) else { return "bad-op".into() };
                self.damaged = true;
                match map.get_leaf_mut(id) {
                    Some(l) => {
                        drop(l.remove_at(i));
                        "true".into()
                    }
                    None => "false".into(),
                }
            }
            _ => "bad-op".into(),
        }
    }
}

/// the property whose clause an operation exercises (as an extra `[Cxx]` tag on a panic / hook report)
fn op_owner(op: &str) -> &'static str {
    match op {
        "items" | "itemsfast" | "keys" | "values" | "slice" | "first" | "last" | "partial" | "partialfast" | "interleave" => "[C02] ",
        "range" | "itemsrange" | "itemsfrom" | "partialrange" => "[C03] ",
        "tryget" | "getitem" | "getmany" | "tryinsert" | "tryremove" | "removeitem" | "batchinsert" | "validateop" | "new" | "empty" | "default" => "[C10] ",
        "check" => "[C04] ",
        _ => "",
    }
}

impl Machine for TreeMachine {
    fn exec(&mut self, ws: &[&str]) -> String {
        if self.dead {
            return "dead".into();
        }
        match catch_unwind(AssertUnwindSafe(|| self.exec_inner(ws))) {
            Ok(s) => s,
            Err(p) => {
                self.dead = true;
                let msg = p
                    .downcast_ref::<String>()
                    .cloned()
                    .or_else(|| p.downcast_ref::<&str>().map(|s| s.to_string()))
                    .unwrap_or_default();
                // on a map that has only seen the map-level API the call also fails the property that owns it
                // (an iterator that panics does not "yield exactly the current entries")
                let owner = if self.damaged { "" } else { op_owner(ws.first().copied().unwrap_or("")) };
                if msg.contains("VERIF-HOOK") {
                    let tag = if self.damaged { "C15" } else { "C05" };
                    self.fail(tag, format!("{}unchecked access outside its precondition in `R {}`: {}", owner, ws.join(" "), msg));
                    return "ub".into();
                }
                let tag = if self.damaged { "C15" } else { "C01" };
                self.fail(tag, format!("{}panic in `R {}`: {}", owner, ws.join(" "), msg));
                // the map may be in a torn state: leak it rather than run its destructor
                if let Some(m) = self.map.take() {
                    std::mem::forget(m);
                }
                "panic".into()
            }
        }
    }
    fn take_failures(&mut self) -> Vec<String> {
        std::mem::take(&mut self.fails)
    }
}

// keep otherwise-unused imports referenced for later suites
#[allow(dead_code)]
fn _unused(_: LeafNode<Key, Val>, _: NodeRef<Key, Val>, _: PhantomData<u8>) {}
