import BPT.C.Api
import BPT.C.Errors
import BPT.C.Gc
import Driver.Util
/- C-extension part of the driver.  Keys are `ord#serial`, values are object serials. -/
namespace Driver
open BPT BPT.C

abbrev CK := Int × Nat
abbrev CV := Nat

def cfmtKey (k : CK) : String := s!"{k.1}#{k.2}"
def cfmtKV (p : CK × CV) : String := s!"{cfmtKey p.1}={p.2}"
def cparseKey (s : String) : Option CK :=
  match s.splitOn "#" with
  | [a, b] => match a.toInt?, b.toNat? with
    | some a, some b => some (a, b)
    | _, _ => none
  | [a] => a.toInt?.map (fun a => (a, 0))
  | _ => none
def cparsePairs (s : String) : Option (List (CK × CV)) :=
  if s == "-" then some [] else
  (s.splitOn ",").mapM fun kv =>
    match kv.splitOn "=" with
    | [a, b] => match cparseKey a, b.toNat? with
      | some a, some b => some (a, b)
      | _, _ => none
    | _ => none

structure CSt where
  cfg : C.Cfg := {}
  st : Option (CState CK CV) := none
  iters : List (String × C.Iter) := []
  dead : Bool := false

def cposOf (ls : List (Leaf CK CV)) (id : Nat) : String :=
  if id = C.noneId then "_" else
  match ls.findIdx? (fun l => l.id == id) with
  | some i => toString i
  | none => "?"

def cdumpTree (ls : List (Leaf CK CV)) : (h : Nat) → Tree CK CV h → String
  | 0, (l : Leaf CK CV) => s!"(L{cposOf ls l.id} {fmtList cfmtKey l.keys}:{fmtList toString l.vals} >{cposOf ls l.next})"
  | h+1, (b : Branch CK (Tree CK CV h)) =>
    s!"(B {fmtList cfmtKey b.keys} " ++ " ".intercalate (b.children.map (cdumpTree ls h)) ++ ")"

def cdump (s : CState CK CV) : String :=
  let ls := Tree.leaves s.height s.root
  s!"cap={s.cap} size={s.size} mod={s.modc} h={s.height} " ++ cdumpTree ls s.height s.root

def cfmtRes {α : Type} (f : α → String) : Res α → String
  | .ok a => f a
  | .panic => "raise"
  | .diverge => "diverge"
  | .ub => "ub"

def objLt : Obj CK CV → Obj CK CV → Bool
  | .key a, .key b => a.2 < b.2 || (a.2 == b.2 && a.1 < b.1)
  | .key _, .val _ => true
  | .val _, .key _ => false
  | .val a, .val b => a < b
def fmtObj : Obj CK CV → String
  | .key k => s!"k{k.2}"
  | .val v => s!"v{v}"

/-- multiset of slot occupancy: `k<serial>:n v<serial>:n …`, sorted (value serial 0 = None, not tracked) -/
def fmtRefs (objs : List (Obj CK CV)) : String :=
  let objs := objs.filter (fun o => match o with | .val 0 => false | _ => true)
  let sorted := objs.mergeSort (fun a b => objLt a b || a == b)
  let rec go : List (Obj CK CV) → List (Obj CK CV × Nat) → List (Obj CK CV × Nat)
    | [], acc => acc.reverse
    | o :: rest, (p, n) :: acc => if p == o then go rest ((p, n+1) :: acc) else go rest ((o, 1) :: (p, n) :: acc)
    | o :: rest, [] => go rest [(o, 1)]
  " ".intercalate ((go sorted []).map fun p => s!"{fmtObj p.1}:{p.2}")

def fmtIterOut : IterOut CK CV → String
  | .runtimeError => "runtimeerror"
  | .stop => "stop"
  | .key k => cfmtKey k
  | .item k v => cfmtKV (k, v)

def cStep (p : CSt) (ws : List String) : CSt × String :=
  if p.dead then (p, "dead") else
  let die (out : String) : CSt × String := ({ p with dead := true }, out)
  let fin {α : Type} (r : Res α) (f : α → CSt × String) : CSt × String :=
    match r with
    | .ok a => f a
    | .panic => die "raise"
    | .diverge => die "diverge"
    | .ub => die "ub"
  match ws, p.st with
  | ["cfg", a, b], _ => ({ p with cfg := { legacyRefs := a == "1", legacyNarrow := b == "1" } }, "ok")
  | ["new", c], _ =>
    (match c.toNat? with
     | some c => (match (C.new p.cfg c : Option (CState CK CV)) with
        | some s => ({ p with st := some s, iters := [] }, "ok")
        | none => ({ p with st := none, iters := [] }, "err capacity"))
     | none => (p, "bad-op"))
  | _, none => (p, "no-map")
  | ["set", k, v], some s =>
    (match cparseKey k, v.toNat? with
     | some k, some v => fin (C.setitem p.cfg s k v) fun r => ({ p with st := some r.1 }, "ok")
     | _, _ => (p, "bad-op"))
  | ["gctypes", _, _, _], some _ => (p, "ok")   -- oracle-only line (function-local subclasses, instances in cycles, collected)
  | ["deepcheck", _, _], some _ => (p, "ok")     -- oracle-only line (a separate tall tree checked against dict by the harness)
  | ["repeatset", k, v, n], some s =>
    -- the same assignment `n` times in a row (drives the modification stamp far without a long op file)
    (match cparseKey k, v.toNat?, n.toNat? with
     | some k, some v, some n =>
       let rec go : Nat → CState CK CV → Res (CState CK CV)
         | 0, st => .ok st
         | m+1, st => (C.setitem p.cfg st k v).bind fun r => go m r.1
       fin (go n s) fun s' => ({ p with st := some s' }, "ok")
     | _, _, _ => (p, "bad-op"))
  | ["del", k], some s =>
    (match cparseKey k with
     | some k => fin (C.delitem s k) fun r =>
        (match r with
         | some (s', _) => ({ p with st := some s' }, "ok")
         | none => (p, "keyerror"))
     | none => (p, "bad-op"))
  | ["get", k], some s =>
    (match cparseKey k with
     | some k => fin (C.getitem s k) fun r => (p, match r.1 with | some v => toString v | none => "keyerror")
     | none => (p, "bad-op"))
  | ["in", k], some s =>
    (match cparseKey k with
     | some k => fin (C.contains s k) fun r => (p, fmtBool r.1)
     | none => (p, "bad-op"))
  | ["len"], some s => (p, toString (C.len s))
  | ["items"], some s => fin (C.items s) fun its => (p, fmtList cfmtKV its)
  | ["keys"], some s => fin (C.items s) fun its => (p, fmtList cfmtKey (its.map (·.1)))
  | ["values"], some s => fin (C.items s) fun its => (p, fmtList toString (its.map (·.2)))
  | ["iter", "new", name, kind], some s =>
    ({ p with iters := (name, C.iterNew s (kind == "items")) :: p.iters.filter (·.1 != name) }, "ok")
  | ["iter", "next", name], some s =>
    (match p.iters.find? (·.1 == name) with
     | none => (p, "no-iter")
     | some (_, it) => fin (C.iterNext s it) fun r =>
        ({ p with iters := (name, r.1) :: p.iters.filter (·.1 != name) }, fmtIterOut r.2))
  | ["wget", k, d], some s =>
    (match cparseKey k, d.toNat? with
     | some k, some d => fin (C.wget s k d) fun v => (p, toString v)
     | _, _ => (p, "bad-op"))
  | "wpop" :: k :: rest, some s =>
    (match cparseKey k, (match rest with | [] => some none | [d] => d.toNat?.map some | _ => none) with
     | some k, some d => fin (C.wpop s k d) fun r =>
        ({ p with st := some r.1 }, match r.2 with | some v => toString v | none => "keyerror")
     | _, _ => (p, "bad-op"))
  | ["wpopitem"], some s =>
    fin (C.wpopitem s) fun r => ({ p with st := some r.1 }, match r.2 with | some kv => cfmtKV kv | none => "keyerror")
  | ["wsetdefault", k, d], some s =>
    (match cparseKey k, d.toNat? with
     | some k, some d => fin (C.wsetdefault p.cfg s k d) fun r => ({ p with st := some r.1 }, toString r.2)
     | _, _ => (p, "bad-op"))
  | ["wupdate", items], some s =>
    (match cparsePairs items with
     | some items => fin (C.wupdate p.cfg s items) fun s' => ({ p with st := some s' }, "ok")
     | none => (p, "bad-op"))
  | ["wcopy"], some s => fin (C.wcopy p.cfg s) fun s' => ({ p with st := some s', iters := [] }, "ok")
  | ["wclear"], some s => fin (C.wclear (s.size + 1) s) fun s' => ({ p with st := some s' }, "ok")
  | ["dump"], some s => (p, cdump s)
  | ["refs"], some s => (p, fmtRefs (C.slots s))
  | ["gcrefs"], some s => (p, fmtRefs (C.gcTraverse s))      -- what `tp_traverse` reports (`gc.get_referents`)
  | [op, _, _], some s =>
    if op == "badin" then (p, "false")      -- `sq_contains` clears every error of the lookup and answers 0
    else if op == "badset" || op == "badget" || op == "baddel" then
      (match C.raisingCall s with
       | some (s', _) => ({ p with st := some s' }, "typeerror")
       | none => if op == "badset" then ({ p with dead := true }, "no-compare") else (p, "no-compare"))
    else (p, "bad-op")
  | _, _ => (p, "bad-op")

end Driver
