import Driver.ArenaDrv
import Driver.RustDrv
import Driver.RawOps
import Driver.PyDrv
import Driver.CDrv
/-
  Line-protocol driver.  stdin: one operation per line, first word selects the
  machine (`A` arena, `R` Rust map, `P` Python map, `C` C extension);
  `case <n>` starts a new case (all machines reset).  stdout: one line per input
  line.  After a `panic`/`diverge` every further op of that machine in the case
  answers `dead`.
-/
namespace Driver
open BPT

structure St where
  arenaLimit : Nat := nullId
  arena : Option AState := some Arena.empty
  rust : RSt := {}
  py : PSt := {}
  c : CSt := {}

def step (st : St) (line : String) : St × String :=
  match words line with
  | [] => (st, "")
  | "case" :: rest => ({ st with arena := some Arena.empty, rust := {}, py := {}, c := {} }, "case " ++ " ".intercalate rest)
  | ["cfg", "arena-limit", n] =>
    match n.toNat? with
    | some n => ({ st with arenaLimit := n }, "ok")
    | none => (st, "bad-op")
  | "cfg" :: _ => (st, "ok")
  | "O" :: _ => (st, "ok")      -- oracle-only lines (deep trees): executed by the implementation against BTreeMap and the structural oracles
  | "F" :: _ => (st, "ok")      -- fault-mode lines: executed by the implementation only (C05 oracle), never compared
  | "P" :: ws => let r := pyStep st.py ws; ({ st with py := r.1 }, r.2)
  | "C" :: ws => let r := cStep st.c ws; ({ st with c := r.1 }, r.2)
  | "R" :: ws => let r := rustStep st.rust ws; ({ st with rust := r.1 }, r.2)
  | "X" :: ws =>
    if st.rust.dead then (st, "dead") else
    match ws with
    | ["toraw"] =>
      (match st.rust.view? with
       | some m => ({ st with rust := { st.rust with raw := some m } }, "ok")
       | none => (st, "bad-op"))
    | "note" :: _ => (st, "ok")
    | _ =>
      match st.rust.raw with
      | none => (st, "bad-op")
      | some m =>
        match rawStep m ws with
        | some (some m', out) => ({ st with rust := { st.rust with raw := some m' } }, out)
        | some (none, out) => ({ st with rust := { st.rust with dead := true } }, out)
        | none => (st, "bad-op")
  | "A" :: ws =>
    match st.arena with
    | none => (st, "dead")
    | some a => let r := arenaStep st.arenaLimit a ws; ({ st with arena := r.1 }, r.2)
  | _ => (st, "bad-op")

partial def loop (h : IO.FS.Stream) (out : IO.FS.Stream) (st : St) : IO Unit := do
  let line ← h.getLine
  if line.isEmpty then return ()
  let (st', o) := step st line
  out.putStrLn o
  loop h out st'

end Driver

def main : IO Unit := do
  let stdin ← IO.getStdin
  let stdout ← IO.getStdout
  Driver.loop stdin stdout {}
