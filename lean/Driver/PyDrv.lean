import BPT.Py.Api
import Driver.Util
/- Pure-Python-map part of the driver.  Keys are integers, values are integers or `N` (None). -/
namespace Driver
open BPT BPT.Py

abbrev PK := Int
abbrev PV := Option Int

def fmtPV : PV → String
  | none => "N"
  | some v => toString v
def parsePV (s : String) : Option PV := if s == "N" then some none else s.toInt?.map some
def parsePOptKey (s : String) : Option (Option PK) := if s == "_" then some none else s.toInt?.map some
def fmtPKV (p : PK × PV) : String := s!"{p.1}:{fmtPV p.2}"

def parsePairs (s : String) : Option (List (PK × PV)) :=
  if s == "-" then some [] else
  (s.splitOn ",").mapM fun kv =>
    match kv.splitOn ":" with
    | [a, b] => match a.toInt?, parsePV b with
      | some a, some b => some (a, b)
      | _, _ => none
    | _ => none

structure PSt where
  cfg : Py.Cfg := {}
  st : Option (PState PK PV) := none
  dead : Bool := false

def posOf (ls : List (Leaf PK PV)) (id : Nat) : String :=
  if id = Py.noneId then "_" else
  match ls.findIdx? (fun l => l.id == id) with
  | some i => toString i
  | none => "?"

def dumpTree (ls : List (Leaf PK PV)) : (h : Nat) → Tree PK PV h → String
  | 0, (l : Leaf PK PV) => s!"(L{posOf ls l.id} {fmtList toString l.keys}:{fmtList fmtPV l.vals} >{posOf ls l.next})"
  | h+1, (b : Branch PK (Tree PK PV h)) =>
    s!"(B {fmtList toString b.keys} " ++ " ".intercalate (b.children.map (dumpTree ls h)) ++ ")"

def dumpP (s : PState PK PV) : String :=
  let ls := Tree.leaves s.height s.root
  s!"cap={s.cap} h={s.height} head={posOf ls s.head} cache={match s.cache with | some c => posOf ls c | none => "_"} " ++ dumpTree ls s.height s.root

def fmtResP {α : Type} (f : α → String) : Res α → String
  | .ok a => f a
  | .panic => "raise"
  | .diverge => "diverge"
  | .ub => "ub"

def isNonePV (v : PV) : Bool := v.isNone

def countNodes : (h : Nat) → Tree PK PV h → Nat
  | 0, _ => 1
  | h+1, (b : Branch PK (Tree PK PV h)) => 1 + (b.children.map (countNodes h)).sum

def pyStep (p : PSt) (ws : List String) : PSt × String :=
  if p.dead then (p, "dead") else
  let die (out : String) : PSt × String := ({ p with dead := true }, out)
  match ws, p.st with
  | ["cfg", a, b], _ => ({ p with cfg := { getChecksPresence := a == "1", emptyShortcutLeafOnly := b == "1" } }, "ok")
  | ["new", c], _ =>
    (match c.toNat? with
     | some c => (match (Py.new c : Option (PState PK PV)) with
        | some s => ({ p with st := some s }, "ok")
        | none => ({ p with st := none }, "err capacity"))
     | none => (p, "bad-op"))
  | ["fromsorted", c, items], _ =>
    (match c.toNat?, parsePairs items with
     | some c, some items =>
       (match (Py.fromSorted c items : Option (Option (PState PK PV))) with
        | none => ({ p with st := none }, "err capacity")
        | some (some s') => ({ p with st := some s' }, "ok")
        | some none => die "raise")
     | _, _ => (p, "bad-op"))
  | _, none => (p, "no-map")
  | ["set", k, v], some s =>
    (match k.toInt?, parsePV v with
     | some k, some v => (match setitem s k v with
        | some s' => ({ p with st := some s' }, "ok")
        | none => die "raise")
     | _, _ => (p, "bad-op"))
  | ["del", k], some s =>
    (match k.toInt? with
     | some k => (match delitem p.cfg s k with
        | some (s', true) => ({ p with st := some s' }, "ok")
        | some (s', false) => ({ p with st := some s' }, "keyerror")
        | none => die "raise")
     | none => (p, "bad-op"))
  | ["get", k, d], some s =>
    (match k.toInt?, parsePV d with
     | some k, some d => (match Py.get p.cfg isNonePV s k d with
        | some v => (p, fmtPV v)
        | none => die "raise")
     | _, _ => (p, "bad-op"))
  | ["getitem", k], some s =>
    (match k.toInt? with
     | some k => (match Py.getitem s k with
        | some (some v) => (p, fmtPV v)
        | some none => (p, "keyerror")
        | none => die "raise")
     | none => (p, "bad-op"))
  | ["in", k], some s =>
    (match k.toInt? with
     | some k => (match Py.contains s k with
        | some r => (p, fmtBool r)
        | none => die "raise")
     | none => (p, "bad-op"))
  | ["len"], some s => (match len s with | .ok n => (p, toString n) | r => die (fmtResP toString r))
  | ["bool"], some s => (match len s with | .ok n => (p, fmtBool (n > 0)) | r => die (fmtResP toString r))
  | ["clear"], some s => ({ p with st := some (Py.clear s) }, "ok")
  | "pop" :: k :: rest, some s =>
    (match k.toInt?, (match rest with | [] => some none | [d] => (parsePV d).map some | _ => none) with
     | some k, some d =>
       (match Py.pop p.cfg s k d with
        | none => die "raise"
        | some (s', some v) => ({ p with st := some s' }, fmtPV v)
        | some (s', none) => ({ p with st := some s' }, "keyerror"))
     | _, _ => (p, "bad-op"))
  | ["popitem"], some s =>
    (match Py.popitem p.cfg s with
     | .ok (s', some kv) => ({ p with st := some s' }, fmtPKV kv)
     | .ok (s', none) => ({ p with st := some s' }, "keyerror")
     | r => die (fmtResP (fun _ => "") r))
  | ["setdefault", k, d], some s =>
    (match k.toInt?, parsePV d with
     | some k, some d =>
       (match Py.setdefault s k d with
        | none => die "raise"
        | some (s', v) => ({ p with st := some s' }, fmtPV v))
     | _, _ => (p, "bad-op"))
  | ["update", items], some s =>
    (match parsePairs items with
     | some items =>
       (match Py.update s items with
        | some s' => ({ p with st := some s' }, "ok")
        | none => die "raise")
     | none => (p, "bad-op"))
  | ["copy"], some s =>
    (match Py.copy s with
     | .ok s' => ({ p with st := some s' }, "ok")
     | r => die (fmtResP (fun _ => "") r))
  | [op, a, b], some s =>
    if op == "items" ∨ op == "keys" ∨ op == "values" ∨ op == "range" then
      (match parsePOptKey a, parsePOptKey b with
       | some a, some b =>
         (match items s a b with
          | .ok its =>
            (p, if op == "keys" then fmtList toString (its.map (·.1))
                else if op == "values" then fmtList fmtPV (its.map (·.2))
                else fmtList fmtPKV its)
          | r => die (fmtResP (fun _ => "") r))
       | _, _ => (p, "bad-op"))
    else (p, "bad-op")
  | ["leafcount"], some s => (match chain s with | .ok c => (p, toString c.length) | r => die (fmtResP (fun _ => "") r))
  | ["nodecount"], some s => (p, toString (countNodes s.height s.root))
  | ["dump"], some s => (p, dumpP s)
  | _, _ => (p, "bad-op")

end Driver
