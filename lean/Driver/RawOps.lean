import Driver.RustDrv
/- Raw-state operations (`X ...`): damage injection (C14) and the public node/arena helper API (C15). -/
namespace Driver
open BPT BPT.Rust BPT.Rust.RawMap

def parseKeys (s : String) : Option (List RK) :=
  if s == "-" then some [] else (s.splitOn ",").mapM parseKey
def parseNats (s : String) : Option (List Nat) :=
  if s == "-" then some [] else (s.splitOn ",").mapM String.toNat?
def parseRef (s : String) : Option NodeRef :=
  if s.startsWith "L" then (s.drop 1).toString.toNat?.map .leaf
  else if s.startsWith "B" then (s.drop 1).toString.toNat?.map .branch
  else none
def parseRefs (s : String) : Option (List NodeRef) :=
  if s == "-" then some [] else (s.splitOn ",").mapM parseRef

def modLeaf (m : RawMap RK RV) (id : Nat) (f : RLeaf RK RV → RLeaf RK RV) : RawMap RK RV × Bool :=
  ({ m with leaves := m.leaves.modify id f }, (m.leaves.get id).isSome)
def modBranch (m : RawMap RK RV) (id : Nat) (f : RBranch RK → RBranch RK) : RawMap RK RV × Bool :=
  ({ m with branches := m.branches.modify id f }, (m.branches.get id).isSome)

def rawStep (m : RawMap RK RV) (ws : List String) : Option (Option (RawMap RK RV) × String) :=
  let fb (r : RawMap RK RV × Bool) : Option (Option (RawMap RK RV) × String) := some (some r.1, fmtBool r.2)
  match ws with
  | ["leaf-keys", id, ks] => match id.toNat?, parseKeys ks with
    | some id, some ks => fb (modLeaf m id fun l => { l with keys := ks })
    | _, _ => none
  | ["leaf-vals", id, vs] => match id.toNat?, parseNats vs with
    | some id, some vs => fb (modLeaf m id fun l => { l with vals := vs })
    | _, _ => none
  | ["leaf-next", id, n] => match id.toNat?, n.toNat? with
    | some id, some n => fb (modLeaf m id fun l => { l with next := n })
    | _, _ => none
  | ["branch-keys", id, ks] => match id.toNat?, parseKeys ks with
    | some id, some ks => fb (modBranch m id fun b => { b with keys := ks })
    | _, _ => none
  | ["branch-children", id, cs] => match id.toNat?, parseRefs cs with
    | some id, some cs => fb (modBranch m id fun b => { b with children := cs })
    | _, _ => none
  | ["set-root", r] => (parseRef r).map fun r => (some { m with root := r }, "ok")
  | ["alloc-leaf", c] => c.toNat?.map fun c =>
      match m.leaves.allocate { cap := c, keys := [], vals := [], next := nullId } with
      | .ok (id, a) => (some { m with leaves := a }, s!"id {id}")
      | _ => (none, "panic")
  | ["dealloc-leaf", id] => id.toNat?.map fun id =>
      match m.leaves.deallocate dfltLeaf id with
      | .ok (o, a) => (some { m with leaves := a }, match o with | some l => s!"some {l.keys.length}" | none => "none")
      | _ => (none, "panic")
  | ["dealloc-branch", id] => id.toNat?.map fun id =>
      match m.branches.deallocate dfltBranch id with
      | .ok (o, a) => (some { m with branches := a }, match o with | some b => s!"some {b.keys.length}" | none => "none")
      | _ => (none, "panic")
  -- LeafNode helpers reached through get_leaf_mut(id)
  | ["push-key", id, k] => match id.toNat?, parseKey k with
    | some id, some k => fb (modLeaf m id fun l => { l with keys := l.keys ++ [k] })
    | _, _ => none
  | ["push-value", id, v] => match id.toNat?, v.toNat? with
    | some id, some v => fb (modLeaf m id fun l => { l with vals := l.vals ++ [v] })
    | _, _ => none
  | ["take-keys", id] => id.toNat?.bind fun id => fb (modLeaf m id fun l => { l with keys := [] })
  | ["take-values", id] => id.toNat?.bind fun id => fb (modLeaf m id fun l => { l with vals := [] })
  | ["pop", id] => id.toNat?.bind fun id =>
      fb (modLeaf m id fun l => if l.keys.isEmpty ∨ l.vals.isEmpty then { l with keys := l.keys.dropLast, vals := l.vals.dropLast }
                                 else { l with keys := l.keys.dropLast, vals := l.vals.dropLast })
  | ["remove-at", id, i] => match id.toNat?, i.toNat? with
    | some id, some i =>
      (match m.leaves.get id with
       | some l =>
         if i < l.keys.length then
           if i < l.vals.length then fb (modLeaf m id fun l => { l with keys := removeAt l.keys i, vals := removeAt l.vals i })
           else some (none, "panic")       -- `self.values.remove(index)` out of range
         else some (some m, "true")
       | none => some (some m, "false"))
    | _, _ => none
  | _ => none

end Driver
