import BPT.Rust.Raw
import BPT.Rust.Checked
import Driver.Util
/- Rust-map part of the driver.  Keys are `ord#serial`, values are naturals. -/
namespace Driver
open BPT BPT.Rust BPT.Rust.RawMap

abbrev RK := Int × Nat
abbrev RV := Nat

def fmtKey (k : RK) : String := s!"{k.1}#{k.2}"
def fmtKV (p : RK × RV) : String := s!"{fmtKey p.1}={p.2}"
def fmtRef : NodeRef → String
  | .leaf i => s!"L{i}"
  | .branch i => s!"B{i}"

def fmtRes {α : Type} (f : α → String) : Res α → String
  | .ok a => f a
  | .panic => "panic"
  | .diverge => "diverge"
  | .ub => "ub"

def parseKey (s : String) : Option RK :=
  match s.splitOn "#" with
  | [a, b] => match a.toInt?, b.toNat? with
    | some a, some b => some (a, b)
    | _, _ => none
  | [a] => a.toInt?.map (fun a => (a, 0))
  | _ => none

def parseBound (s : String) : Option (Bound RK) :=
  if s == "u" then some .unbounded
  else if s.startsWith "i" then (s.drop 1).toString.toInt?.map (fun a => .included (a, 0))
  else if s.startsWith "e" then (s.drop 1).toString.toInt?.map (fun a => .excluded (a, 0))
  else none

def parseOptKey (s : String) : Option (Option RK) :=
  if s == "-" then some none else s.toInt?.map (fun a => some (a, 0))

def fmtLeafSlot (i : Nat) (l : RLeaf RK RV) (live : Bool) : String :=
  s!"L{i}:{if live then "" else "free"}[cap={l.cap} k={fmtList fmtKey l.keys} v={fmtList toString l.vals} n={l.next}]"
def fmtBranchSlot (i : Nat) (b : RBranch RK) (live : Bool) : String :=
  s!"B{i}:{if live then "" else "free"}[cap={b.cap} k={fmtList fmtKey b.keys} c={fmtList fmtRef b.children}]"

def enumFrom {α : Type} (n : Nat) : List α → List (Nat × α)
  | [] => []
  | a :: as => (n, a) :: enumFrom (n+1) as

def dumpRaw (m : RawMap RK RV) : String :=
  let ls := (enumFrom 0 (m.leaves.storage.zip m.leaves.mask)).map (fun p => fmtLeafSlot p.1 p.2.1 p.2.2)
  let bs := (enumFrom 0 (m.branches.storage.zip m.branches.mask)).map (fun p => fmtBranchSlot p.1 p.2.1 p.2.2)
  s!"root={fmtRef m.root} cap={m.cap} LA len={m.leaves.storage.length} free={fmtList toString m.leaves.free} " ++
    " ".intercalate ls ++ s!" BA len={m.branches.storage.length} free={fmtList toString m.branches.free} " ++ " ".intercalate bs

def fmtVErr : Option RawMap.VErr → String
  | none => "ok"
  | some .nodeInvariants => "err-node"
  | some .iterUnsorted => "err-iter-unsorted"
  | some .iterCount => "err-iter-count"
  | some .leafCount => "err-leaf-count"
  | some .branchCount => "err-branch-count"
  | some .linkedList => "err-linked-list"

structure RSt where
  cfg : Cfg := {}
  st : Option (RState RK RV) := none       -- typed state (map-level API)
  raw : Option (RawMap RK RV) := none      -- raw state (after helper-API / damage ops)
  dead : Bool := false

/-- the raw view the readers see -/
def RSt.view? (s : RSt) : Option (RawMap RK RV) :=
  match s.raw with
  | some m => some m
  | none => s.st.map view

/-- run `k` `next()` calls, formatting every result -/
def stepN {σ : Type} (next : σ → Res (Option (RK × RV) × σ)) : Nat → σ → List String → (List String × Option σ)
  | 0, st, acc => (acc.reverse, some st)
  | n+1, st, acc =>
    match next st with
    | .ok (o, st') => stepN next n st' (fmtOpt fmtKV o :: acc)
    | .panic => (("panic" :: acc).reverse, none)
    | .diverge => (("diverge" :: acc).reverse, none)
    | .ub => (("ub" :: acc).reverse, none)

/-- two iterators over the same map, advanced according to `sched` (0 / 1) -/
def interleave (cfg : Cfg) (m : RawMap RK RV) (sched : List Nat) : String :=
  match m.itemsStart, m.itemsStart with
  | .ok a, .ok b =>
    let rec go : List Nat → ItState RK RV → ItState RK RV → List String → List String
      | [], _, _, acc => acc.reverse
      | s :: ss, a, b, acc =>
        if s = 0 then
          match RawMap.itemNext cfg m m.fuel a with
          | .ok (o, a') => go ss a' b (("a:" ++ fmtOpt fmtKV o) :: acc)
          | _ => ("a:fail" :: acc).reverse
        else
          match RawMap.itemNext cfg m m.fuel b with
          | .ok (o, b') => go ss a b' (("b:" ++ fmtOpt fmtKV o) :: acc)
          | _ => ("b:fail" :: acc).reverse
    " ".intercalate (go sched a b [])
  | _, _ => "fail"

def readerStep (cfg : Cfg) (m : RawMap RK RV) (ws : List String) : Option String :=
  match ws with
  | ["dump"] => some (dumpRaw m)
  | ["get", k] => (parseKey k).map fun k => fmtRes (fmtOpt (fun p => toString p.2)) (m.get k)
  | ["contains", k] => (parseKey k).map fun k => fmtRes (fun o => fmtBool o.isSome) (m.get k)
  | ["getdef", k, d] => match parseKey k, d.toNat? with
    | some k, some d => some (fmtRes (fun o => match o with | some p => toString p.2 | none => toString d) (m.get k))
    | _, _ => none
  | ["len"] => some (fmtRes toString m.len)
  | ["isempty"] => some (fmtRes (fun n => fmtBool (n == 0)) m.len)
  | ["items"] => some (fmtRes (fmtList fmtKV) (m.items cfg))
  | ["slice"] => some (fmtRes (fmtList fmtKV) (m.items cfg))
  | ["itemsfast"] => some (fmtRes (fmtList fmtKV) (m.itemsFast cfg))
  | ["keys"] => some (fmtRes (fmtList fmtKey) (m.keys cfg))
  | ["values"] => some (fmtRes (fmtList toString) (m.values cfg))
  | ["first"] => some (fmtRes (fmtOpt fmtKV) (m.first cfg))
  | ["last"] => some (fmtRes (fmtOpt fmtKV) (m.last cfg))
  | ["range", lo, hi] => match parseBound lo, parseBound hi with
    | some lo, some hi => some (fmtRes (fmtList fmtKV) (m.range cfg lo hi))
    | _, _ => none
  | ["itemsrange", lo, hi] => match parseOptKey lo, parseOptKey hi with
    | some lo, some hi => some (fmtRes (fmtList fmtKV) (m.itemsRange cfg lo hi))
    | _, _ => none
  | ["itemsfrom", start, e] => match parseKey start, parseBound e with
    | some s, some e => some (fmtRes (fmtList fmtKV) (m.itemsFromKey cfg s e))
    | _, _ => none
  | ["rangefrom", leaf, idx, skip, e] => match leaf.toNat?, idx.toNat?, parseBound e with
    | some l, some i, some e => some (fmtRes (fmtList fmtKV) (m.rangeFrom cfg (some (l, i)) (skip == "1") e))
    | _, _, _ => none
  | ["iterfrom", leaf, idx, _, e] => match leaf.toNat?, idx.toNat?, parseBound e with
    | some l, some i, some e => some (fmtRes (fmtList fmtKV) (m.itemsFromPos cfg l i e))
    | _, _, _ => none
  | ["partial", n, extra] => match n.toNat?, extra.toNat? with
    | some n, some extra =>
      (match m.itemsStart with
       | .ok st => some (" ".intercalate (stepN (RawMap.itemNext cfg m m.fuel) (n + extra) st []).1)
       | r => some (fmtRes (fun _ => "") r))
    | _, _ => none
  | ["partialfast", n, extra] => match n.toNat?, extra.toNat? with
    | some n, some extra =>
      (match RawMap.fastStart cfg m with
       | .ok st => some (" ".intercalate (stepN (RawMap.fastNext cfg m m.fuel) (n + extra) st []).1)
       | r => some (fmtRes (fun _ => "") r))
    | _, _ => none
  | ["retarget", n, leaf, extra] => match n.toNat?, leaf.toNat?, extra.toNat? with
    | some n, some l, some extra =>
      (match m.itemsStart with
       | .ok st =>
         (match stepN (RawMap.itemNext cfg m m.fuel) n st [] with
          | (outs, some st1) =>
            some (" ".intercalate (outs ++ (stepN (RawMap.itemNext cfg m m.fuel) extra { st1 with leaf := m.getLeaf l } []).1))
          | (outs, none) => some (" ".intercalate outs))
       | r => some (fmtRes (fun _ => "") r))
    | _, _, _ => none
  | ["retargetfast", n, leaf, extra] => match n.toNat?, leaf.toNat?, extra.toNat? with
    | some n, some l, some extra =>
      (match RawMap.fastStart cfg m with
       | .ok st =>
         (match stepN (RawMap.fastNext cfg m m.fuel) n st [] with
          | (outs, some st1) =>
            some (" ".intercalate (outs ++ (stepN (RawMap.fastNext cfg m m.fuel) extra { st1 with leaf := m.getLeaf l } []).1))
          | (outs, none) => some (" ".intercalate outs))
       | r => some (fmtRes (fun _ => "") r))
    | _, _, _ => none
  | ["partialrange", lo, hi, n] => match parseBound lo, parseBound hi, n.toNat? with
    | some lo, some hi, some n =>
      (match RawMap.rangeStart cfg m lo hi with
       | .ok st => some (" ".intercalate (stepN (RawMap.rangeNext cfg m m.fuel) n st []).1)
       | r => some (fmtRes (fun _ => "") r))
    | _, _, _ => none
  | "interleave" :: sched => some (interleave cfg m (sched.filterMap String.toNat?))
  | ["counts"] =>
    some (s!"leaf_count={fmtRes toString m.leafCount} nodes={fmtRes (fun p => s!"{p.1},{p.2}") m.countNodes} " ++
      s!"leaf_sizes={fmtRes (fmtList toString) m.leafSizes} leaf_root={fmtBool m.isLeafRoot} " ++
      s!"alloc_leaves={m.leaves.len} free_leaves={m.leaves.freeCount} alloc_branches={m.branches.len} free_branches={m.branches.freeCount} " ++
      s!"first_leaf={fmtRes (fmtOpt toString) m.firstLeaf}")
  | ["check"] =>
    some (s!"invariants={fmtRes fmtBool (m.checkInvariants cfg)} detailed={fmtRes fmtVErr (m.checkDetailed cfg)}")
  | _ => none

/-- checked wrappers: the model functions of BPT/Rust/Checked.lean, formatted -/
def fmtErr : ApiErr → String
  | .keyNotFound => "err KeyNotFound"
  | .dataIntegrity => "err DataIntegrity"

def fmtExcept {α : Type} (f : α → String) : Except ApiErr α → String
  | .ok a => "ok " ++ f a
  | .error e => fmtErr e

def fmtChecked {α : Type} (f : α → String) : Option (RState RK RV × Except ApiErr α) → Option (RState RK RV) × String
  | some (s', r) => (some s', fmtExcept f r)
  | none => (none, "panic")

def mutStep (cfg : Cfg) (s : RState RK RV) (ws : List String) : Option (Option (RState RK RV) × String) :=
  match ws with
  | ["insert", k, v] => match parseKey k, v.toNat? with
    | some k, some v => some (match insert s k v with
      | some (s', old) => (some s', fmtOpt toString old)
      | none => (none, "panic"))
    | _, _ => none
  | ["remove", k] => (parseKey k).map fun k => match remove s k with
      | some (s', old) => (some s', fmtOpt toString old)
      | none => (none, "panic")
  | ["getmut", k, v] => match parseKey k, v.toNat? with
    | some k, some v => let r := getMutWrite s k v; some (some r.1, fmtOpt toString r.2)
    | _, _ => none
  | ["clear"] => some (some (clear s), "ok")
  | ["tryinsert", k, v] => match parseKey k, v.toNat? with
    | some k, some v => some (fmtChecked (fmtOpt toString) (tryInsert cfg s k v))
    | _, _ => none
  | ["tryremove", k] => (parseKey k).map fun k => fmtChecked toString (tryRemove cfg s k)
  | ["removeitem", k] => (parseKey k).map fun k => fmtChecked toString (removeItem s k)
  | _ => none

def rustStep (r : RSt) (ws : List String) : RSt × String :=
  if r.dead then (r, "dead") else
  match ws with
  | ["new", c] | ["empty", c] =>
    match c.toNat? with
    | none => (r, "bad-op")
    | some c => match (new c : Option (RState RK RV)) with
      | some s => ({ r with st := some s, raw := none }, "ok")
      | none => ({ r with st := none, raw := none }, "err InvalidCapacity")
  | ["drop"] => ({ r with st := none, raw := none }, "ok")
  | ["default"] => ({ r with st := (new defaultCapacity : Option (RState RK RV)), raw := none }, "ok")
  | ["tryget", k] | ["getitem", k] =>
    match parseKey k, r.view? with
    | some k, some m => (r, fmtRes (fun o => match o with | some p => s!"ok {p.2}" | none => "err KeyNotFound") (m.get k))
    | _, _ => (r, "bad-op")
  | "getmany" :: ks =>
    match r.view? with
    | none => (r, "bad-op")
    | some m =>
      let keys := ks.filterMap parseKey
      let rec go : List RK → List String → String
        | [], acc => "ok " ++ fmtList id acc.reverse
        | k :: rest, acc => match m.get k with
          | .ok (some p) => go rest (toString p.2 :: acc)
          | .ok none => "err KeyNotFound"
          | _ => "fail"
      (r, go keys [])
  | "batchinsert" :: kvs =>
    match r.st with
    | none => (r, "bad-op")
    | some s0 =>
      -- items are `k:v`; semantics of `batch_insert`: try_insert one by one, roll back on error
      let items : List (RK × RV) := kvs.filterMap fun w => match w.splitOn ":" with
        | [a, b] => match parseKey a, b.toNat? with
          | some a, some b => some (a, b)
          | _, _ => none
        | _ => none
      let res := fmtChecked (fun (l : List (Option RV)) => fmtList id (l.map (fmtOpt toString))) (batchInsert r.cfg s0 items)
      (match res.1 with
       | some s' => ({ r with st := some s' }, res.2)
       | none => ({ r with dead := true }, res.2))
  | ["tryinsert", _, _] | ["tryremove", _] =>
    (match r.raw, r.st with
     | some m, _ =>
       (match m.checkDetailed r.cfg with
        | .ok none => (r, "raw-unsupported")
        | .ok (some _) => (r, "err DataIntegrity")
        | x => (r, fmtRes (fun _ => "") x))
     | none, some s =>
       (match mutStep r.cfg s ws with
        | some (some s', out) => ({ r with st := some s' }, out)
        | some (none, out) => ({ r with dead := true }, out)
        | none => (r, "bad-op"))
     | none, none => (r, "bad-op"))
  | ["validateop"] =>
    match r.view? with
    | some m => (r, fmtRes (fun e => match e with | none => "ok" | some _ => "err DataIntegrity") (m.checkDetailed r.cfg))
    | none => (r, "bad-op")
  | _ =>
    match r.view? with
    | none => (r, "bad-op")
    | some m =>
      match readerStep r.cfg m ws with
      | some out => (r, out)
      | none =>
        match r.raw, r.st with
        | none, some s =>
          (match mutStep r.cfg s ws with
           | some (some s', out) => ({ r with st := some s' }, out)
           | some (none, out) => ({ r with dead := true }, out)
           | none => (r, "bad-op"))
        | _, _ => (r, "bad-op")

end Driver
