import BPT.Arena.Model
import Driver.Util
/- Arena part of the driver: one op per line, one canonical output line per op. -/
namespace Driver
open BPT

abbrev AState := Arena Nat

def arenaRaw (a : AState) : String :=
  s!"storage={fmtList toString a.storage} mask={fmtList (fun b => if b then "1" else "0") a.mask} free={fmtList toString a.free}"

/-- returns (new state, output); `none` state = the case is dead after a panic -/
def arenaStep (limit : Nat) (a : AState) (ws : List String) : Option AState × String :=
  match ws with
  | ["new"] => (some Arena.empty, "ok")
  | ["alloc", x] =>
    match x.toNat? with
    | none => (some a, "bad-op")
    | some x =>
      match Arena.allocateL limit a x with
      | .ok (id, a') => (some a', s!"id {id}")
      | .panic => (none, "panic")
      | .diverge => (none, "diverge")
      | .ub => (none, "ub")
  | ["dealloc", id] | ["deallocd", id] =>
    match id.toNat? with
    | none => (some a, "bad-op")
    | some id =>
      match Arena.deallocate 0 a id with
      | .ok (o, a') => (some a', fmtOpt toString o)
      | .panic => (none, "panic")
      | .diverge => (none, "diverge")
      | .ub => (none, "ub")
  | ["faultd", id] =>
    -- deallocate_with_default interrupted by a panic of `T::default()`: mask bit cleared, index pushed, item left in
    -- the slot — the effect of deallocate_no_return
    match id.toNat? with
    | none => (some a, "bad-op")
    | some id => let r := Arena.deallocateNoReturn a id; (some r.2, if r.1 then "fault" else "none")
  | ["deallocn", id] =>
    match id.toNat? with
    | none => (some a, "bad-op")
    | some id => let r := Arena.deallocateNoReturn a id; (some r.2, fmtBool r.1)
  | ["get", id] =>
    match id.toNat? with
    | none => (some a, "bad-op")
    | some id => (some a, fmtOpt toString (a.get id))
  | ["getmut", id, x] =>
    match id.toNat?, x.toNat? with
    | some id, some x => (some (a.modify id (fun _ => x)), fmtOpt toString (a.get id))
    | _, _ => (some a, "bad-op")
  | ["contains", id] =>
    match id.toNat? with
    | none => (some a, "bad-op")
    | some id => (some a, fmtBool (a.contains id))
  | ["counts"] =>
    (some a, s!"len={a.len} alloc={a.len} empty={fmtBool a.isEmpty} free={a.freeCount} stats={a.len},{a.freeCount}")
  | ["clear"] => (some a.clear, "ok")
  | ["compact"] => (some a.compact, "ok")
  | ["raw"] => (some a, arenaRaw a)
  | _ => (some a, "bad-op")

end Driver
