/- Parsing / printing helpers for the line-protocol driver. Import-free. -/
namespace Driver

def fmtList {α : Type} (f : α → String) (l : List α) : String :=
  "[" ++ ",".intercalate (l.map f) ++ "]"

def fmtOpt {α : Type} (f : α → String) : Option α → String
  | some a => "some " ++ f a
  | none => "none"

def fmtBool (b : Bool) : String := if b then "true" else "false"

def words (line : String) : List String :=
  (line.trimAscii.toString.splitOn " ").filter (· ≠ "")

end Driver
