import BPT.Rust.InsertLinks
/- Effect of remove (with rebalancing) on the leaf links and on the leaf allocator. -/
namespace BPT.Rust
open BPT Tree
variable {K V : Type} [Keyed K]

/-- what a remove does to the links: nothing, or two adjacent links are fused and the second id is released -/
inductive LinkRem (L L' : List (Nat × Nat)) (a a' : Alloc) : Prop where
  | same (h1 : L' = L) (h2 : a' = a)
  | merge (A B : List (Nat × Nat)) (ia na ib nb : Nat) (h1 : L = A ++ [(ia, na), (ib, nb)] ++ B)
      (h2 : L' = A ++ [(ia, nb)] ++ B) (h3 : a' = a.dealloc ib)

theorem LinkRem.ctx {L L' : List (Nat × Nat)} {a a' : Alloc} (P Q : List (Nat × Nat)) (h : LinkRem L L' a a') :
    LinkRem (P ++ L ++ Q) (P ++ L' ++ Q) a a' := by
  cases h with
  | same h1 h2 => exact .same (by rw [h1]) h2
  | merge A B ia na ib nb h1 h2 h3 =>
    exact .merge (P ++ A) (B ++ Q) ia na ib nb (by rw [h1]; simp only [List.append_assoc]) (by rw [h2]; simp only [List.append_assoc]) h3

/-- links of a branch around its children `j, j+1` -/
theorem links_two (h : Nat) (b : Branch K (Tree K V h)) (j : Nat) (x y : Tree K V h)
    (hx : b.children[j]? = some x) (hy : b.children[j+1]? = some y) :
    links (h+1) (b : Tree K V (h+1)) =
      (b.children.take j).flatMap (links h) ++ (links h x ++ links h y) ++ (b.children.drop (j+2)).flatMap (links h) := by
  rw [links_succ]
  conv => lhs; rw [eq_take_cons_cons_drop b.children j x y hx hy]
  simp [List.flatMap_append]

/-- links of a branch whose children `j, j+1` are replaced -/
theorem links_replace2 (h : Nat) (b : Branch K (Tree K V h)) (j : Nat) (y x' y' : Tree K V h) (sep : K)
    (hy : b.children[j+1]? = some y) :
    links (h+1) (branchReplace2 b j x' y' sep : Tree K V (h+1)) =
      (b.children.take j).flatMap (links h) ++ (links h x' ++ links h y') ++ (b.children.drop (j+2)).flatMap (links h) := by
  have hj1 : j + 1 < b.children.length := lt_of_getElem?_eq_some hy
  rw [links_succ]
  show (setAt (setAt b.children j x') (j+1) y').flatMap (links h) = _
  rw [setAt_setAt_succ _ _ _ _ hj1]
  simp [List.flatMap_append]

theorem links_merge2 (h : Nat) (b : Branch K (Tree K V h)) (j : Nat) (y m : Tree K V h)
    (hy : b.children[j+1]? = some y) :
    links (h+1) (branchMerge2 b j m : Tree K V (h+1)) =
      (b.children.take j).flatMap (links h) ++ links h m ++ (b.children.drop (j+2)).flatMap (links h) := by
  have hj1 : j + 1 < b.children.length := lt_of_getElem?_eq_some hy
  rw [links_succ]
  show (removeAt (setAt b.children j m) (j+1)).flatMap (links h) = _
  rw [removeAt_setAt_succ _ _ _ hj1]
  simp [List.flatMap_append]

/-! ### leaf level -/

theorem leafBorrowLeft_link (a c a' c' : Leaf K V) (sep : K) (h : leafBorrowLeft a c = some (a', c', sep)) :
    link a' = link a ∧ link c' = link c := by
  unfold leafBorrowLeft at h
  split at h
  · simp only [Option.some.injEq, Prod.mk.injEq] at h
    rw [← h.1, ← h.2.1]; exact ⟨rfl, rfl⟩
  · simp at h

theorem leafBorrowRight_link (c r c' r' : Leaf K V) (sep : Option K) (h : leafBorrowRight c r = some (c', r', sep)) :
    link c' = link c ∧ link r' = link r := by
  unfold leafBorrowRight at h
  split at h
  · simp only [Option.some.injEq, Prod.mk.injEq] at h
    rw [← h.1, ← h.2.1]; exact ⟨rfl, rfl⟩
  · simp at h

theorem leafMerge_link (cap : Nat) (a c m : Leaf K V) (h : leafMerge cap a c = some m) : link m = (a.id, c.next) := by
  unfold leafMerge at h
  split at h
  · simp only [Option.some.injEq] at h; rw [← h]; rfl
  · simp at h

theorem leafBorrowLeftAt_links (b : Branch K (Leaf K V)) (j : Nat) (al : Allocs) (a c : Leaf K V) (b2 : Branch K (Leaf K V)) (al2 : Allocs)
    (ha : b.children[j]? = some a) (hc : b.children[j+1]? = some c) (he : leafBorrowLeftAt b (j+1) al a c = some (b2, al2)) :
    links 1 (b2 : Tree K V 1) = links 1 (b : Tree K V 1) ∧ al2 = al := by
  unfold leafBorrowLeftAt at he
  cases hb : leafBorrowLeft a c with
  | none => simp [hb] at he
  | some p =>
    obtain ⟨a', c', sep⟩ := p
    simp only [hb, Nat.add_sub_cancel] at he
    split at he
    · simp only [Option.some.injEq, Prod.mk.injEq] at he
      rw [← he.1, ← he.2]
      obtain ⟨l1, l2⟩ := leafBorrowLeft_link a c a' c' sep hb
      refine ⟨?_, rfl⟩
      rw [links_replace2 0 b j c a' c' sep hc, links_two 0 b j a c ha hc]
      simp only [links_zero]
      show _ ++ ([link a'] ++ [link c']) ++ _ = _ ++ ([link a] ++ [link c]) ++ _
      rw [l1, l2]
    · simp at he

theorem leafBorrowRightAt_links (b : Branch K (Leaf K V)) (i : Nat) (al : Allocs) (c r : Leaf K V) (b2 : Branch K (Leaf K V)) (al2 : Allocs)
    (hc : b.children[i]? = some c) (hr : b.children[i+1]? = some r) (he : leafBorrowRightAt b i al c r = some (b2, al2)) :
    links 1 (b2 : Tree K V 1) = links 1 (b : Tree K V 1) ∧ al2 = al := by
  unfold leafBorrowRightAt at he
  cases hb : leafBorrowRight c r with
  | none => simp [hb] at he
  | some p =>
    obtain ⟨c', r', sep⟩ := p
    obtain ⟨l1, l2⟩ := leafBorrowRight_link c r c' r' sep hb
    have hj1 : i + 1 < b.children.length := lt_of_getElem?_eq_some hr
    have hsame : ∀ (kk : List K), links 1 (({ b with keys := kk, children := setAt (setAt b.children i c') (i+1) r' } : Branch K (Leaf K V)) : Tree K V 1) =
        links 1 (b : Tree K V 1) := by
      intro kk
      rw [links_two 0 b i c r hc hr, links_succ]
      show (setAt (setAt b.children i c') (i+1) r').flatMap (links 0) = _
      rw [setAt_setAt_succ _ _ _ _ hj1]
      simp only [List.flatMap_append, List.flatMap_cons, links_zero]
      show _ ++ ([link c'] ++ ([link r'] ++ _)) = _ ++ ([link c] ++ [link r]) ++ _
      rw [l1, l2]; simp
    rw [hb] at he
    cases sep with
    | some sp =>
      simp only [] at he
      split at he
      · simp only [Option.some.injEq, Prod.mk.injEq] at he
        rw [← he.1, ← he.2]
        exact ⟨hsame _, rfl⟩
      · simp at he
    | none =>
      simp only [Option.some.injEq, Prod.mk.injEq] at he
      rw [← he.1, ← he.2]
      exact ⟨hsame _, rfl⟩

theorem leafMergeLeftAt_links (cap : Nat) (b : Branch K (Leaf K V)) (j : Nat) (al : Allocs) (a c : Leaf K V) (b2 : Branch K (Leaf K V)) (al2 : Allocs)
    (ha : b.children[j]? = some a) (hc : b.children[j+1]? = some c) (he : leafMergeLeftAt cap b (j+1) al a c = some (b2, al2)) :
    LinkRem (links 1 (b : Tree K V 1)) (links 1 (b2 : Tree K V 1)) al.leaf al2.leaf ∧ al2.branch = al.branch := by
  unfold leafMergeLeftAt at he
  cases hb : leafMerge cap a c with
  | none => simp [hb] at he
  | some m =>
    simp only [hb, Nat.add_sub_cancel] at he
    split at he
    · simp only [Option.some.injEq, Prod.mk.injEq] at he
      rw [← he.1, ← he.2]
      refine ⟨.merge _ _ a.id a.next c.id c.next (links_two 0 b j a c ha hc) ?_ rfl, rfl⟩
      rw [links_merge2 0 b j c m hc, links_zero]
      have := leafMerge_link cap a c m hb
      unfold link at this
      rw [this]
    · simp at he

theorem leafMergeRightAt_links (cap : Nat) (b : Branch K (Leaf K V)) (i : Nat) (al : Allocs) (c r : Leaf K V) (b2 : Branch K (Leaf K V)) (al2 : Allocs)
    (hc : b.children[i]? = some c) (hr : b.children[i+1]? = some r) (he : leafMergeRightAt cap b i al c r = some (b2, al2)) :
    LinkRem (links 1 (b : Tree K V 1)) (links 1 (b2 : Tree K V 1)) al.leaf al2.leaf ∧ al2.branch = al.branch := by
  unfold leafMergeRightAt at he
  cases hb : leafMerge cap c r with
  | none => simp [hb] at he
  | some m =>
    simp only [hb] at he
    split at he
    · simp only [Option.some.injEq, Prod.mk.injEq] at he
      rw [← he.1, ← he.2]
      refine ⟨.merge _ _ c.id c.next r.id r.next (links_two 0 b i c r hc hr) ?_ rfl, rfl⟩
      rw [links_merge2 0 b i r m hr, links_zero]
      have := leafMerge_link cap c r m hb
      unfold link at this
      rw [this]
    · simp at he

theorem rebalanceLeafWith_some_some (cap : Nat) (b : Branch K (Leaf K V)) (i : Nat) (al : Allocs) (c a r : Leaf K V) :
    rebalanceLeafWith cap b i al c (some a) (some r) =
      if canDonate cap a.keys.length then leafBorrowLeftAt b i al a c
      else if canDonate cap r.keys.length then leafBorrowRightAt b i al c r else leafMergeLeftAt cap b i al a c := rfl
theorem rebalanceLeafWith_some_none (cap : Nat) (b : Branch K (Leaf K V)) (i : Nat) (al : Allocs) (c a : Leaf K V) :
    rebalanceLeafWith cap b i al c (some a) none =
      if canDonate cap a.keys.length then leafBorrowLeftAt b i al a c else leafMergeLeftAt cap b i al a c := rfl
theorem rebalanceLeafWith_none_some (cap : Nat) (b : Branch K (Leaf K V)) (i : Nat) (al : Allocs) (c r : Leaf K V) :
    rebalanceLeafWith cap b i al c none (some r) =
      if canDonate cap r.keys.length then leafBorrowRightAt b i al c r else leafMergeRightAt cap b i al c r := rfl
theorem rebalanceLeafWith_none_none (cap : Nat) (b : Branch K (Leaf K V)) (i : Nat) (al : Allocs) (c : Leaf K V) :
    rebalanceLeafWith cap b i al c none none = some (b, al) := rfl

theorem rebalanceLeaf_links (cap : Nat) (b : Branch K (Leaf K V)) (i : Nat) (al : Allocs) (b2 : Branch K (Leaf K V)) (al2 : Allocs)
    (he : rebalanceLeaf cap b i al = some (b2, al2)) :
    LinkRem (links 1 (b : Tree K V 1)) (links 1 (b2 : Tree K V 1)) al.leaf al2.leaf ∧ al2.branch = al.branch := by
  unfold rebalanceLeaf at he
  cases hci : b.children[i]? with
  | none => simp [hci] at he
  | some c =>
    simp only [hci] at he
    have same : ∀ {x : Branch K (Leaf K V)} {y : Allocs}, links 1 (x : Tree K V 1) = links 1 (b : Tree K V 1) ∧ y = al →
        LinkRem (links 1 (b : Tree K V 1)) (links 1 (x : Tree K V 1)) al.leaf y.leaf ∧ y.branch = al.branch := by
      intro x y h; rw [h.2]; exact ⟨.same h.1 rfl, rfl⟩
    by_cases hi0 : i > 0
    · obtain ⟨j, rfl⟩ : ∃ j, i = j + 1 := ⟨i - 1, by omega⟩
      simp only [hi0, if_true, Nat.add_sub_cancel] at he
      cases haj : b.children[j]? with
      | none =>
        have : j < b.children.length := by have := lt_of_getElem?_eq_some hci; omega
        simp [List.getElem?_eq_getElem this] at haj
      | some a =>
        simp only [haj] at he
        by_cases hr : j + 1 + 1 < b.children.length
        · have hrj : b.children[j+1+1]? = some b.children[j+1+1] := List.getElem?_eq_getElem hr
          generalize b.children[j+1+1] = r at hrj
          simp only [hr, if_true, hrj, rebalanceLeafWith_some_some] at he
          by_cases hd1 : canDonate cap a.keys.length = true
          · rw [if_pos hd1] at he
            exact same (leafBorrowLeftAt_links b j al a c b2 al2 haj hci he)
          · rw [if_neg hd1] at he
            by_cases hd2 : canDonate cap r.keys.length = true
            · rw [if_pos hd2] at he
              exact same (leafBorrowRightAt_links b (j+1) al c r b2 al2 hci hrj he)
            · rw [if_neg hd2] at he
              exact leafMergeLeftAt_links cap b j al a c b2 al2 haj hci he
        · simp only [hr, if_false, rebalanceLeafWith_some_none] at he
          by_cases hd1 : canDonate cap a.keys.length = true
          · rw [if_pos hd1] at he
            exact same (leafBorrowLeftAt_links b j al a c b2 al2 haj hci he)
          · rw [if_neg hd1] at he
            exact leafMergeLeftAt_links cap b j al a c b2 al2 haj hci he
    · have hi0' : i = 0 := by omega
      subst hi0'
      simp only [Nat.lt_irrefl, if_false] at he
      by_cases hr : 0 + 1 < b.children.length
      · have hrj : b.children[0+1]? = some b.children[0+1] := List.getElem?_eq_getElem hr
        generalize b.children[0+1] = r at hrj
        simp only [hr, if_true, hrj, rebalanceLeafWith_none_some] at he
        by_cases hd2 : canDonate cap r.keys.length = true
        · rw [if_pos hd2] at he
          exact same (leafBorrowRightAt_links b 0 al c r b2 al2 hci hrj he)
        · rw [if_neg hd2] at he
          exact leafMergeRightAt_links cap b 0 al c r b2 al2 hci hrj he
      · simp only [hr, if_false, rebalanceLeafWith_none_none, Option.some.injEq, Prod.mk.injEq] at he
        rw [← he.1, ← he.2]; exact ⟨.same rfl rfl, rfl⟩

end BPT.Rust

namespace BPT.Rust
open BPT Tree
variable {K V : Type} [Keyed K]

/-! ### branch level: the leaves (hence the links) do not change -/

theorem branchBorrowLeft_links (h : Nat) (a c a' c' : Branch K (Tree K V h)) (sep mk : K)
    (hb : branchBorrowLeft a c sep = some (a', c', mk)) :
    links (h+1) (a' : Tree K V (h+1)) ++ links (h+1) (c' : Tree K V (h+1)) =
      links (h+1) (a : Tree K V (h+1)) ++ links (h+1) (c : Tree K V (h+1)) := by
  unfold branchBorrowLeft at hb
  cases hk : a.keys.getLast? with
  | none => simp [hk] at hb
  | some k0 =>
    cases hc : a.children.getLast? with
    | none => simp [hk, hc] at hb
    | some mc =>
      simp only [hk, hc, Option.some.injEq, Prod.mk.injEq] at hb
      rw [← hb.1, ← hb.2.1]
      simp only [links_succ]
      show (a.children.dropLast).flatMap (links h) ++ (mc :: c.children).flatMap (links h) = _
      conv => rhs; rw [dropLast_append_of_getLast? a.children mc hc]
      simp [List.flatMap_append]

theorem branchBorrowRight_links (h : Nat) (c r c' r' : Branch K (Tree K V h)) (sep mk : K)
    (hb : branchBorrowRight c r sep = some (c', r', mk)) :
    links (h+1) (c' : Tree K V (h+1)) ++ links (h+1) (r' : Tree K V (h+1)) =
      links (h+1) (c : Tree K V (h+1)) ++ links (h+1) (r : Tree K V (h+1)) := by
  unfold branchBorrowRight at hb
  cases hk : r.keys with
  | nil => simp [hk] at hb
  | cons k0 ks =>
    cases hc : r.children with
    | nil => simp [hk, hc] at hb
    | cons mc cs =>
      simp only [hk, hc, Option.some.injEq, Prod.mk.injEq] at hb
      rw [← hb.1, ← hb.2.1]
      simp only [links_succ]
      show (c.children ++ [mc]).flatMap (links h) ++ cs.flatMap (links h) = _
      rw [hc]
      simp [List.flatMap_append]

theorem branchMergeNodes_links (cap h : Nat) (a c m : Branch K (Tree K V h)) (sep : K)
    (hb : branchMergeNodes cap a c sep = some m) :
    links (h+1) (m : Tree K V (h+1)) = links (h+1) (a : Tree K V (h+1)) ++ links (h+1) (c : Tree K V (h+1)) := by
  unfold branchMergeNodes at hb
  split at hb
  · simp only [Option.some.injEq] at hb
    rw [← hb]
    simp only [links_succ]
    show (a.children ++ c.children).flatMap (links h) = _
    rw [List.flatMap_append]
  · simp at hb

theorem ite_none_eq_some {α : Type} {c : Prop} [Decidable c] {x : Option α} {y : α}
    (h : (if c then x else none) = some y) : x = some y := by
  split at h
  · exact h
  · cases h

theorem rebalanceBranchWith_some_some (cap : Nat) {α : Type} (b : Branch K (Branch K α)) (i : Nat) (al : Allocs) (c a r : Branch K α) :
    rebalanceBranchWith cap b i al c (some a) (some r) =
      if canDonate cap a.keys.length then branchBorrowLeftAt b i al a c
      else if canDonate cap r.keys.length then branchBorrowRightAt b i al c r else branchMergeLeftAt cap b i al a c := rfl
theorem rebalanceBranchWith_some_none (cap : Nat) {α : Type} (b : Branch K (Branch K α)) (i : Nat) (al : Allocs) (c a : Branch K α) :
    rebalanceBranchWith cap b i al c (some a) none =
      if canDonate cap a.keys.length then branchBorrowLeftAt b i al a c else branchMergeLeftAt cap b i al a c := rfl
theorem rebalanceBranchWith_none_some (cap : Nat) {α : Type} (b : Branch K (Branch K α)) (i : Nat) (al : Allocs) (c r : Branch K α) :
    rebalanceBranchWith cap b i al c none (some r) =
      if canDonate cap r.keys.length then branchBorrowRightAt b i al c r else branchMergeRightAt cap b i al c r := rfl
theorem rebalanceBranchWith_none_none (cap : Nat) {α : Type} (b : Branch K (Branch K α)) (i : Nat) (al : Allocs) (c : Branch K α) :
    rebalanceBranchWith cap b i al c none none = some (b, al) := rfl

/-- what a branch-level rebalance does to the allocators: the leaf one is untouched,
    the branch one is unchanged (borrow) or gets the merged-away node's id back -/
inductive BranchRem (a a' : Alloc) (ids ids' : List Nat) : Prop where
  | same (h1 : a' = a) (h2 : ids' = ids)
  | freed (x : Nat) (h1 : a' = a.dealloc x) (h2 : ∀ i, ids.count i = ids'.count i + (if i = x then 1 else 0))

theorem rebalanceBranch_links (cap h : Nat) (b : Branch K (Branch K (Tree K V h))) (i : Nat) (al : Allocs)
    (b2 : Branch K (Branch K (Tree K V h))) (al2 : Allocs) (he : rebalanceBranch cap b i al = some (b2, al2)) :
    links (h+2) (b2 : Tree K V (h+2)) = links (h+2) (b : Tree K V (h+2)) ∧ al2.leaf = al.leaf := by
  unfold rebalanceBranch at he
  cases hci : b.children[i]? with
  | none => simp [hci] at he
  | some c =>
    simp only [hci] at he
    replace he := ite_none_eq_some he
    -- the four operations
    have bl : ∀ j a, i = j + 1 → b.children[j]? = some a → branchBorrowLeftAt b i al a c = some (b2, al2) →
        links (h+2) (b2 : Tree K V (h+2)) = links (h+2) (b : Tree K V (h+2)) ∧ al2.leaf = al.leaf := by
      intro j a hij ha he
      subst hij
      unfold branchBorrowLeftAt at he
      simp only [Nat.add_sub_cancel] at he
      cases hs : b.keys[j]? with
      | none => simp [hs] at he
      | some sep =>
        simp only [hs] at he
        cases hb : branchBorrowLeft a c sep with
        | none => simp [hb] at he
        | some p =>
          obtain ⟨a', c', mk⟩ := p
          simp only [hb, Option.some.injEq, Prod.mk.injEq] at he
          rw [← he.1, ← he.2]
          refine ⟨?_, rfl⟩
          rw [links_replace2 (h+1) b j c a' c' mk hci, links_two (h+1) b j a c ha hci, branchBorrowLeft_links h a c a' c' sep mk hb]
    have br : ∀ r, b.children[i+1]? = some r → branchBorrowRightAt b i al c r = some (b2, al2) →
        links (h+2) (b2 : Tree K V (h+2)) = links (h+2) (b : Tree K V (h+2)) ∧ al2.leaf = al.leaf := by
      intro r hr he
      unfold branchBorrowRightAt at he
      cases hs : b.keys[i]? with
      | none => simp [hs] at he
      | some sep =>
        simp only [hs] at he
        cases hb : branchBorrowRight c r sep with
        | none => simp [hb] at he
        | some p =>
          obtain ⟨c', r', mk⟩ := p
          simp only [hb, Option.some.injEq, Prod.mk.injEq] at he
          rw [← he.1, ← he.2]
          refine ⟨?_, rfl⟩
          rw [links_replace2 (h+1) b i r c' r' mk hr, links_two (h+1) b i c r hci hr, branchBorrowRight_links h c r c' r' sep mk hb]
    have ml : ∀ j a, i = j + 1 → b.children[j]? = some a → branchMergeLeftAt cap b i al a c = some (b2, al2) →
        links (h+2) (b2 : Tree K V (h+2)) = links (h+2) (b : Tree K V (h+2)) ∧ al2.leaf = al.leaf := by
      intro j a hij ha he
      subst hij
      unfold branchMergeLeftAt at he
      simp only [Nat.add_sub_cancel] at he
      cases hs : b.keys[j]? with
      | none => simp [hs] at he
      | some sep =>
        simp only [hs] at he
        cases hb : branchMergeNodes cap a c sep with
        | none => simp [hb] at he
        | some m =>
          simp only [hb, Option.some.injEq, Prod.mk.injEq] at he
          rw [← he.1, ← he.2]
          refine ⟨?_, rfl⟩
          rw [links_merge2 (h+1) b j c m hci, links_two (h+1) b j a c ha hci, branchMergeNodes_links cap h a c m sep hb]
    have mr : ∀ r, b.children[i+1]? = some r → branchMergeRightAt cap b i al c r = some (b2, al2) →
        links (h+2) (b2 : Tree K V (h+2)) = links (h+2) (b : Tree K V (h+2)) ∧ al2.leaf = al.leaf := by
      intro r hr he
      unfold branchMergeRightAt at he
      cases hs : b.keys[i]? with
      | none => simp [hs] at he
      | some sep =>
        simp only [hs] at he
        cases hb : branchMergeNodes cap c r sep with
        | none => simp [hb] at he
        | some m =>
          simp only [hb, Option.some.injEq, Prod.mk.injEq] at he
          rw [← he.1, ← he.2]
          refine ⟨?_, rfl⟩
          rw [links_merge2 (h+1) b i r m hr, links_two (h+1) b i c r hci hr, branchMergeNodes_links cap h c r m sep hb]
    by_cases hi0 : i > 0
    · obtain ⟨j, rfl⟩ : ∃ j, i = j + 1 := ⟨i - 1, by omega⟩
      simp only [hi0, if_true, Nat.add_sub_cancel] at he
      cases haj : b.children[j]? with
      | none =>
        have : j < b.children.length := by have := lt_of_getElem?_eq_some hci; omega
        simp [List.getElem?_eq_getElem this] at haj
      | some a =>
        simp only [haj] at he
        by_cases hr : j + 1 + 1 < b.children.length
        · have hrj : b.children[j+1+1]? = some b.children[j+1+1] := List.getElem?_eq_getElem hr
          generalize b.children[j+1+1] = r at hrj
          simp only [hr, if_true, hrj, rebalanceBranchWith_some_some] at he
          by_cases hd1 : canDonate cap a.keys.length = true
          · rw [if_pos hd1] at he; exact bl j a rfl haj he
          · rw [if_neg hd1] at he
            by_cases hd2 : canDonate cap r.keys.length = true
            · rw [if_pos hd2] at he; exact br r hrj he
            · rw [if_neg hd2] at he; exact ml j a rfl haj he
        · simp only [hr, if_false, rebalanceBranchWith_some_none] at he
          by_cases hd1 : canDonate cap a.keys.length = true
          · rw [if_pos hd1] at he; exact bl j a rfl haj he
          · rw [if_neg hd1] at he; exact ml j a rfl haj he
    · have hi0' : i = 0 := by omega
      subst hi0'
      simp only [Nat.lt_irrefl, if_false] at he
      by_cases hr : 0 + 1 < b.children.length
      · have hrj : b.children[0+1]? = some b.children[0+1] := List.getElem?_eq_getElem hr
        generalize b.children[0+1] = r at hrj
        simp only [hr, if_true, hrj, rebalanceBranchWith_none_some] at he
        by_cases hd2 : canDonate cap r.keys.length = true
        · rw [if_pos hd2] at he; exact br r hrj he
        · rw [if_neg hd2] at he; exact mr r hrj he
      · simp only [hr, if_false, rebalanceBranchWith_none_none, Option.some.injEq, Prod.mk.injEq] at he
        rw [← he.1, ← he.2]; exact ⟨rfl, rfl⟩

end BPT.Rust

namespace BPT.Rust
open BPT Tree
variable {K V : Type} [Keyed K]

theorem removeLeaf_links (cap : Nat) (l : Leaf K V) (k : K) (r : RemOut K V 0) (he : removeLeaf cap l k = some r) :
    links 0 r.t = links 0 (l : Tree K V 0) := by
  unfold removeLeaf at he
  simp only [] at he
  cases hk' : l.keys[lowerBound l.keys k]? with
  | none =>
    rw [hk'] at he
    simp only [Bool.false_eq_true, if_false, Option.some.injEq] at he
    rw [← he]
  | some k' =>
    rw [hk'] at he
    by_cases heq : ord k' = ord k
    · simp only [heq, decide_true, if_true] at he
      cases hv : l.vals[lowerBound l.keys k]? with
      | none => rw [hv] at he; simp at he
      | some old =>
        rw [hv] at he
        simp only [Option.some.injEq] at he
        rw [← he]; rfl
    · simp only [heq, decide_false, Bool.false_eq_true, if_false, Option.some.injEq] at he
      rw [← he]

theorem removeRec_links (cap : Nat) :
    ∀ (h : Nat) (t : Tree K V h) (k : K) (al : Allocs) (r : RemOut K V h) (al' : Allocs),
      removeRec cap h t k al = some (r, al') → LinkRem (links h t) (links h r.t) al.leaf al'.leaf := by
  intro h
  induction h with
  | zero =>
    intro t k al r al' he
    unfold removeRec at he
    cases hr : removeLeaf cap (t : Leaf K V) k with
    | none => simp [hr] at he
    | some r0 =>
      simp only [hr, Option.map_some, Option.some.injEq, Prod.mk.injEq] at he
      rw [← he.1, ← he.2]
      exact .same (removeLeaf_links cap _ k r0 hr) rfl
  | succ h ih =>
    intro t k al r al' he
    unfold removeRec at he
    simp only [] at he
    cases hci : (Branch.children t)[upperBound (Branch.keys t) k]? with
    | none =>
      simp only [hci, Option.some.injEq, Prod.mk.injEq] at he
      rw [← he.1, ← he.2]; exact .same rfl rfl
    | some c =>
      simp only [hci] at he
      cases hrec : removeRec cap h c k al with
      | none => simp [hrec] at he
      | some p =>
        obtain ⟨rc, al1⟩ := p
        have hl := ih c k al rc al1 hrec
        simp only [hrec] at he
        have hsplit := flatMap_split (links h) (Branch.children t) _ c hci
        have hb1 : links (h+1) (({ (t : Branch K (Tree K V h)) with children := setAt (Branch.children t) (upperBound (Branch.keys t) k) rc.t } : Branch K (Tree K V h)) : Tree K V (h+1)) =
            ((Branch.children t).take (upperBound (Branch.keys t) k)).flatMap (links h) ++ links h rc.t ++
            ((Branch.children t).drop (upperBound (Branch.keys t) k + 1)).flatMap (links h) := by
          rw [links_succ]
          show (setAt (Branch.children t) _ rc.t).flatMap (links h) = _
          rw [flatMap_setAt]
        have hctx := hl.ctx (((Branch.children t).take (upperBound (Branch.keys t) k)).flatMap (links h))
          (((Branch.children t).drop (upperBound (Branch.keys t) k + 1)).flatMap (links h))
        rw [← hb1, ← hsplit, ← links_succ] at hctx
        split at he
        · -- rebalance
          split at he
          · simp at he
          · rename_i b2 al2 hreb
            simp only [Option.some.injEq, Prod.mk.injEq] at he
            rw [← he.1, ← he.2]
            show LinkRem _ (links (h+1) (b2 : Tree K V (h+1))) _ _
            cases h with
            | zero =>
              -- the child is a leaf: its links did not change, the merge (if any) happens here
              have hrl := rebalanceLeaf_links cap _ _ al1 b2 al2 hreb
              have hc0 : links 0 rc.t = links 0 c ∧ al1 = al := by
                unfold removeRec at hrec
                cases hr0 : removeLeaf cap (c : Leaf K V) k with
                | none => simp [hr0] at hrec
                | some r0 =>
                  simp only [hr0, Option.map_some, Option.some.injEq, Prod.mk.injEq] at hrec
                  rw [← hrec.1, ← hrec.2]
                  exact ⟨removeLeaf_links cap _ k r0 hr0, rfl⟩
              have e : links 1 (({ (t : Branch K (Tree K V 0)) with children := setAt (Branch.children t) (upperBound (Branch.keys t) k) rc.t } : Branch K (Tree K V 0)) : Tree K V 1) = links 1 t := by
                rw [hb1, hc0.1, links_succ, hsplit]
              rw [e, hc0.2] at hrl
              exact hrl.1
            | succ h' =>
              have hrl := rebalanceBranch_links cap h' _ _ al1 b2 al2 hreb
              rw [hrl.1, hrl.2]
              exact hctx
        · simp only [Option.some.injEq, Prod.mk.injEq] at he
          rw [← he.1, ← he.2]
          exact hctx

end BPT.Rust
