import BPT.Rust.Model
/-
  The raw arena view of a Rust map and every *reader* of the crate, defined on
  that view exactly as the code walks the arenas (null check, bounds check, mask
  check).  A raw view can also describe damaged maps (C14, C15).
  Recursion over a raw view takes fuel = number of slots + 2: a walk that has
  not finished by then has revisited a slot, i.e. the real code loops forever
  (`Res.diverge`).  Import-free apart from BPT model files.
-/
namespace BPT.Rust
open BPT

inductive NodeRef where
  | leaf (id : Nat)
  | branch (id : Nat)
deriving Repr, DecidableEq

def NodeRef.id : NodeRef → Nat
  | .leaf i => i
  | .branch i => i

structure RLeaf (K V : Type) where
  cap : Nat
  keys : List K
  vals : List V
  next : Nat
deriving Repr

structure RBranch (K : Type) where
  cap : Nat
  keys : List K
  children : List NodeRef
deriving Repr

/-- `LeafNode::default()` / `BranchNode::default()`: what `mem::take` leaves in a freed slot -/
def dfltLeaf {K V : Type} : RLeaf K V := { cap := defaultCapacity, keys := [], vals := [], next := nullId }
def dfltBranch {K : Type} : RBranch K := { cap := defaultCapacity, keys := [], children := [] }

structure RawMap (K V : Type) where
  cap : Nat
  root : NodeRef
  leaves : Arena (RLeaf K V)
  branches : Arena (RBranch K)

/-- switches between the repaired code (all `true`) and the code as found (D1–D4) -/
structure Cfg where
  skipOnlyMatched : Bool := true     -- D1: range() skips the first item only when the excluded start key matched
  honourEndIncl : Bool := true       -- D2: the borrowed end key honours `end_inclusive`
  validatorChecksEmpty : Bool := true -- D3: occupancy is checked for empty nodes too
  guardBoth : Bool := true           -- D4: the unchecked key/value read is guarded by both lengths
  fastChecked : Bool := true         -- D4: FastItemIterator follows leaf ids through the checked lookup

def Cfg.repaired : Cfg := {}

variable {K V : Type} [Keyed K]

/-! ## view of a typed state -/

def leafToRaw (cap : Nat) (l : Leaf K V) : RLeaf K V := { cap := cap, keys := l.keys, vals := l.vals, next := l.next }
def branchToRaw (cap : Nat) (b : BranchRec K) : RBranch K :=
  { cap := cap, keys := b.keys,
    children := b.childIds.map (fun i => if b.childrenAreLeaves then NodeRef.leaf i else NodeRef.branch i) }

def viewLeaves (cap : Nat) (ls : List (Leaf K V)) (a : Alloc) : Arena (RLeaf K V) :=
  { storage := (List.range a.len).map (fun i => match ls.find? (fun l => l.id == i) with
      | some l => leafToRaw cap l
      | none => dfltLeaf),
    mask := (List.range a.len).map (fun i => (ls.find? (fun l => l.id == i)).isSome),
    free := a.free }

def viewBranches (cap : Nat) (bs : List (BranchRec K)) (a : Alloc) : Arena (RBranch K) :=
  { storage := (List.range a.len).map (fun i => match bs.find? (fun b => b.id == i) with
      | some b => branchToRaw cap b
      | none => dfltBranch),
    mask := (List.range a.len).map (fun i => (bs.find? (fun b => b.id == i)).isSome),
    free := a.free }

def view (s : RState K V) : RawMap K V :=
  { cap := s.cap,
    root := if s.height = 0 then .leaf (rootId s.height s.root) else .branch (rootId s.height s.root),
    leaves := viewLeaves s.cap (Tree.leaves s.height s.root) s.al.leaf,
    branches := viewBranches s.cap (branches s.height s.root) s.al.branch }

namespace RawMap

def fuel (m : RawMap K V) : Nat := m.leaves.storage.length + m.branches.storage.length + 2

def getLeaf (m : RawMap K V) (id : Nat) : Option (RLeaf K V) := m.leaves.get id
def getBranch (m : RawMap K V) (id : Nat) : Option (RBranch K) := m.branches.get id

/-! ## navigation -/

/-- `find_leaf_for_key_with_match` (and `find_leaf_for_key`, which drops the flag) from node `n` -/
def findLeafFrom (m : RawMap K V) (k : K) : Nat → NodeRef → Res (Option (Nat × Nat × Bool))
  | 0, _ => .diverge
  | f+1, .leaf id =>
    match m.getLeaf id with
    | none => .ok none
    | some l =>
      let i := lowerBound l.keys k
      let matched : Bool := match l.keys[i]? with
        | some k' => ord k' = ord k
        | none => false
      .ok (some (id, i, matched))
  | f+1, .branch id =>
    match m.getBranch id with
    | none => .ok none
    | some b =>
      match b.children[upperBound b.keys k]? with
      | none => .ok none
      | some c => findLeafFrom m k f c

def findLeaf (m : RawMap K V) (k : K) : Res (Option (Nat × Nat × Bool)) := findLeafFrom m k m.fuel m.root

/-- `get_first_leaf_id` -/
def firstLeafFrom (m : RawMap K V) : Nat → NodeRef → Res (Option Nat)
  | 0, _ => .diverge
  | _+1, .leaf id => .ok (some id)
  | f+1, .branch id =>
    match m.getBranch id with
    | none => .ok none
    | some b =>
      match b.children with
      | [] => .ok none
      | c :: _ => firstLeafFrom m f c

def firstLeaf (m : RawMap K V) : Res (Option Nat) := firstLeafFrom m m.fuel m.root

/-- `get`: the stored key object and the value -/
def get (m : RawMap K V) (k : K) : Res (Option (K × V)) :=
  match m.findLeaf k with
  | .ok (some (id, i, true)) =>
    (match m.getLeaf id with
     | none => .ok none
     | some l =>
       match l.keys[i]?, l.vals[i]? with
       | some k', some v => .ok (some (k', v))
       | _, _ => .ok none)
  | .ok _ => .ok none
  | .panic => .panic
  | .diverge => .diverge
  | .ub => .ub

/-! ## counting readers (`len`, `leaf_count`, `count_nodes_in_tree`, `leaf_sizes`, `collect_leaf_ids`) -/

def sumRes : List (Res Nat) → Res Nat
  | [] => .ok 0
  | r :: rs => r.bind fun a => (sumRes rs).map (a + ·)

def concatRes {α : Type} : List (Res (List α)) → Res (List α)
  | [] => .ok []
  | r :: rs => r.bind fun a => (concatRes rs).map (a ++ ·)

def lenFrom (m : RawMap K V) : Nat → NodeRef → Res Nat
  | 0, _ => .diverge
  | _+1, .leaf id => .ok (match m.getLeaf id with | some l => l.keys.length | none => 0)
  | f+1, .branch id =>
    match m.getBranch id with
    | none => .ok 0
    | some b => sumRes (b.children.map (lenFrom m f))

def len (m : RawMap K V) : Res Nat := lenFrom m m.fuel m.root

def leafCountFrom (m : RawMap K V) : Nat → NodeRef → Res Nat
  | 0, _ => .diverge
  | _+1, .leaf _ => .ok 1
  | f+1, .branch id =>
    match m.getBranch id with
    | none => .ok 0
    | some b => sumRes (b.children.map (leafCountFrom m f))

def leafCount (m : RawMap K V) : Res Nat := leafCountFrom m m.fuel m.root

/-- `count_nodes_recursive` → (leaves, branches) -/
def countNodesFrom (m : RawMap K V) : Nat → NodeRef → Res (Nat × Nat)
  | 0, _ => .diverge
  | _+1, .leaf _ => .ok (1, 0)
  | f+1, .branch id =>
    match m.getBranch id with
    | none => .ok (0, 0)
    | some b =>
      (sumRes (b.children.map (fun c => (countNodesFrom m f c).map (·.1)))).bind fun ls =>
      (sumRes (b.children.map (fun c => (countNodesFrom m f c).map (·.2)))).map fun bs => (ls, bs + 1)

def countNodes (m : RawMap K V) : Res (Nat × Nat) :=
  match m.root with
  | .leaf _ => .ok (1, 0)
  | r => countNodesFrom m m.fuel r

def leafSizesFrom (m : RawMap K V) : Nat → NodeRef → Res (List Nat)
  | 0, _ => .diverge
  | _+1, .leaf id => .ok (match m.getLeaf id with | some l => [l.keys.length] | none => [])
  | f+1, .branch id =>
    match m.getBranch id with
    | none => .ok []
    | some b => concatRes (b.children.map (leafSizesFrom m f))

def leafSizes (m : RawMap K V) : Res (List Nat) := leafSizesFrom m m.fuel m.root

def leafIdsFrom (m : RawMap K V) : Nat → NodeRef → Res (List Nat)
  | 0, _ => .diverge
  | _+1, .leaf id => .ok [id]
  | f+1, .branch id =>
    match m.getBranch id with
    | none => .ok []
    | some b => concatRes (b.children.map (leafIdsFrom m f))

def leafIds (m : RawMap K V) : Res (List Nat) := leafIdsFrom m m.fuel m.root

def isLeafRoot (m : RawMap K V) : Bool := match m.root with | .leaf _ => true | .branch _ => false

/-! ## ItemIterator / KeyIterator / ValueIterator -/

structure ItState (K V : Type) where
  leaf : Option (RLeaf K V)     -- `current_leaf_ref`
  idx : Nat
  endKey : Option K := none     -- borrowed end bound
  endBound : Option K := none   -- owned end bound (set by RangeIterator)
  endIncl : Bool := false

def beyondEnd (cfg : Cfg) (st : ItState K V) (k : K) : Bool :=
  match st.endKey with
  | some e => if cfg.honourEndIncl ∧ st.endIncl then decide (ord k > ord e) else decide (ord k ≥ ord e)
  | none =>
    match st.endBound with
    | some e => if st.endIncl then decide (ord k > ord e) else decide (ord k ≥ ord e)
    | none => false

/-- one `ItemIterator::next()` call -/
def itemNext (cfg : Cfg) (m : RawMap K V) : Nat → ItState K V → Res (Option (K × V) × ItState K V)
  | 0, _ => .diverge
  | f+1, st =>
    match st.leaf with
    | none => .ok (none, st)
    | some lf =>
      let guard : Bool := if cfg.guardBoth then decide (st.idx < lf.keys.length ∧ st.idx < lf.vals.length)
                          else decide (st.idx < lf.keys.length)
      if guard then
        -- `unsafe { leaf.get_key_value_unchecked(index) }`
        match lf.keys[st.idx]?, lf.vals[st.idx]? with
        | some k, some v =>
          if beyondEnd cfg st k then .ok (none, { st with leaf := none })
          else .ok (some (k, v), { st with idx := st.idx + 1 })
        | _, _ => .ub
      else if lf.next = nullId then .ok (none, { st with leaf := none })
      else
        match m.getLeaf lf.next with
        | none => .ok (none, { st with leaf := none, idx := 0 })
        | some lf' => itemNext cfg m f { st with leaf := some lf', idx := 0 }

/-- `ItemIterator::new` -/
def itemsStart (m : RawMap K V) : Res (ItState K V) :=
  m.firstLeaf.map fun first => { leaf := first.bind m.getLeaf, idx := 0 }

/-- `new_from_position_with_bounds(tree, leaf_id, index, end_bound)` -/
inductive Bound (K : Type) where
  | included (k : K)
  | excluded (k : K)
  | unbounded
deriving Repr

def itemsFrom (m : RawMap K V) (leafId idx : Nat) (e : Bound K) : ItState K V :=
  match e with
  | .included k => { leaf := m.getLeaf leafId, idx := idx, endKey := some k, endIncl := true }
  | .excluded k => { leaf := m.getLeaf leafId, idx := idx, endKey := some k, endIncl := false }
  | .unbounded => { leaf := m.getLeaf leafId, idx := idx }

/-- drain an iterator (`collect()`): `n` bounds the number of `next()` calls; with
    `n = itemBound m` running out means the chain is cyclic -/
def drain {σ α : Type} (next : σ → Res (Option α × σ)) : Nat → σ → Res (List α)
  | 0, _ => .diverge        -- more items than the arena holds: a leaf was revisited, `collect()` never returns
  | n+1, st =>
    match next st with
    | .ok (none, _) => .ok []
    | .ok (some a, st') => (drain next n st').map (a :: ·)
    | .panic => .panic
    | .diverge => .diverge
    | .ub => .ub

/-- an upper bound on the number of items any iterator over `m` can yield before it ends or provably cycles -/
def itemBound (m : RawMap K V) : Nat :=
  (m.leaves.storage.map (fun l => l.keys.length + 1)).sum + 1

/-- `items().collect()` = `slice()` -/
def items (cfg : Cfg) (m : RawMap K V) : Res (List (K × V)) :=
  m.itemsStart.bind fun st => drain (itemNext cfg m m.fuel) m.itemBound st

def keys (cfg : Cfg) (m : RawMap K V) : Res (List K) := (items cfg m).map (·.map (·.1))
def values (cfg : Cfg) (m : RawMap K V) : Res (List V) := (items cfg m).map (·.map (·.2))
def first (cfg : Cfg) (m : RawMap K V) : Res (Option (K × V)) :=
  m.itemsStart.bind fun st => (itemNext cfg m m.fuel st).map (·.1)
def last (cfg : Cfg) (m : RawMap K V) : Res (Option (K × V)) := (items cfg m).map (·.getLast?)

/-! ## FastItemIterator -/

structure FastState (K V : Type) where
  leaf : Option (RLeaf K V)
  idx : Nat
  finished : Bool

/-- `get_leaf_unchecked(id)`: defined only on an allocated, in-range slot -/
def getLeafUnchecked (m : RawMap K V) (id : Nat) : Res (RLeaf K V) :=
  if m.leaves.uncheckedOk id then
    match m.leaves.storage[id]? with
    | some l => .ok l
    | none => .ub
  else .ub

def fastStart (cfg : Cfg) (m : RawMap K V) : Res (FastState K V) :=
  m.firstLeaf.bind fun first =>
    match first with
    | none => .ok { leaf := none, idx := 0, finished := false }
    | some id =>
      if cfg.fastChecked then .ok { leaf := m.getLeaf id, idx := 0, finished := false }
      else (getLeafUnchecked m id).map fun l => { leaf := some l, idx := 0, finished := false }

def fastNext (cfg : Cfg) (m : RawMap K V) : Nat → FastState K V → Res (Option (K × V) × FastState K V)
  | 0, _ => .diverge
  | f+1, st =>
    if st.finished then .ok (none, st) else
    match st.leaf with
    | none => .ok (none, { st with finished := true })
    | some lf =>
      if st.idx < lf.keys.length then
        match lf.keys[st.idx]?, lf.vals[st.idx]? with
        | some k, some v => .ok (some (k, v), { st with idx := st.idx + 1 })
        | _, _ => .ok (none, st)                -- `leaf.get_value(i)?` returns None from next()
      else if lf.next ≠ nullId then
        if cfg.fastChecked then fastNext cfg m f { st with leaf := m.getLeaf lf.next, idx := 0 }
        else
          match getLeafUnchecked m lf.next with
          | .ok l => fastNext cfg m f { st with leaf := some l, idx := 0 }
          | .panic => .panic
          | .diverge => .diverge
          | .ub => .ub
      else .ok (none, { st with finished := true })

def itemsFast (cfg : Cfg) (m : RawMap K V) : Res (List (K × V)) :=
  (fastStart cfg m).bind fun st => drain (fastNext cfg m m.fuel) m.itemBound st

/-! ## range queries -/

structure RangeState (K V : Type) where
  it : Option (ItState K V)
  skipFirst : Bool
  firstKey : Option K

/-- the owned end bound `RangeIterator::new_with_skip_owned` installs in its inner iterator -/
def withEnd (it : ItState K V) (hi : Bound K) : ItState K V :=
  match hi with
  | .included k => { it with endBound := some k, endIncl := true }
  | .excluded k => { it with endBound := some k, endIncl := false }
  | .unbounded => it

/-- `resolve_range_bounds` + `RangeIterator::new_with_skip_owned` -/
def rangeStart (cfg : Cfg) (m : RawMap K V) (lo hi : Bound K) : Res (RangeState K V) :=
  let start : Res (Option (Nat × Nat) × Bool) :=
    match lo with
    | .included k => (m.findLeaf k).map fun r => (r.map (fun p => (p.1, p.2.1)), false)
    | .excluded k => (m.findLeaf k).map fun r =>
        (r.map (fun p => (p.1, p.2.1)),
         if cfg.skipOnlyMatched then (match r with | some p => p.2.2 | none => false) else true)
    | .unbounded => m.firstLeaf.map fun r => (r.map (fun id => (id, 0)), false)
  start.map fun (info, skip) =>
    match info with
    | none => { it := none, skipFirst := skip, firstKey := none }
    | some (leafId, idx) =>
      let it1 : ItState K V := withEnd { leaf := m.getLeaf leafId, idx := idx } hi
      let fk : Option K := if skip then (m.getLeaf leafId).bind (fun l => l.keys[idx]?) else none
      { it := some it1, skipFirst := skip, firstKey := fk }

/-- `RangeIterator::next` -/
def rangeNext (cfg : Cfg) (m : RawMap K V) (f : Nat) (r : RangeState K V) : Res (Option (K × V) × RangeState K V) :=
  match r.it with
  | none => .ok (none, r)
  | some it =>
    match itemNext cfg m f it with
    | .ok (none, it') => .ok (none, { r with it := some it' })
    | .ok (some kv, it') =>
      if r.skipFirst then
        let skipIt : Bool := match r.firstKey with
          | some fk => ord kv.1 = ord fk
          | none => false
        if skipIt then
          match itemNext cfg m f it' with
          | .ok (o, it'') => .ok (o, { it := some it'', skipFirst := false, firstKey := r.firstKey })
          | .panic => .panic
          | .diverge => .diverge
          | .ub => .ub
        else .ok (some kv, { it := some it', skipFirst := false, firstKey := r.firstKey })
      else .ok (some kv, { r with it := some it' })
    | .panic => .panic
    | .diverge => .diverge
    | .ub => .ub

def range (cfg : Cfg) (m : RawMap K V) (lo hi : Bound K) : Res (List (K × V)) :=
  (rangeStart cfg m lo hi).bind fun st => drain (rangeNext cfg m m.fuel) m.itemBound st

/-- `items_range(start, end)` -/
def itemsRange (cfg : Cfg) (m : RawMap K V) (lo hi : Option K) : Res (List (K × V)) :=
  range cfg m (match lo with | some k => .included k | none => .unbounded)
              (match hi with | some k => .excluded k | none => .unbounded)

/-- an `ItemIterator` started at the position `find_leaf_for_key(start)` with an explicit end bound -/
def itemsFromKey (cfg : Cfg) (m : RawMap K V) (start : K) (e : Bound K) : Res (List (K × V)) :=
  (m.findLeaf start).bind fun r =>
    match r with
    | none => .ok []
    | some (id, idx, _) => drain (itemNext cfg m m.fuel) m.itemBound (itemsFrom m id idx e)

/-- `RangeIterator::new_with_skip_owned(tree, start_info, skip_first, end_info)` called directly (it is a public,
    safe constructor) with an arbitrary start position -/
def rangeStartAt (m : RawMap K V) (info : Option (Nat × Nat)) (skip : Bool) (hi : Bound K) : RangeState K V :=
  match info with
  | none => { it := none, skipFirst := skip, firstKey := none }
  | some (leafId, idx) =>
    let it1 : ItState K V := withEnd { leaf := m.getLeaf leafId, idx := idx } hi
    let fk : Option K := if skip then (m.getLeaf leafId).bind (fun l => l.keys[idx]?) else none
    { it := some it1, skipFirst := skip, firstKey := fk }

def rangeFrom (cfg : Cfg) (m : RawMap K V) (info : Option (Nat × Nat)) (skip : Bool) (hi : Bound K) : Res (List (K × V)) :=
  drain (rangeNext cfg m m.fuel) m.itemBound (rangeStartAt m info skip hi)

/-- `ItemIterator::new_from_position_with_bounds(tree, leaf_id, index, end)` called directly with an arbitrary position -/
def itemsFromPos (cfg : Cfg) (m : RawMap K V) (leafId idx : Nat) (e : Bound K) : Res (List (K × V)) :=
  drain (itemNext cfg m m.fuel) m.itemBound (itemsFrom m leafId idx e)

/-! ## validators -/

/-- `for i in 1..len { if keys[i-1] >= keys[i] { return false } }` -/
def strictlySorted : List K → Bool
  | [] => true
  | [_] => true
  | a :: b :: rest => decide (ord a < ord b) && strictlySorted (b :: rest)

def allRes {α : Type} (p : α → Res Bool) : List α → Res Bool
  | [] => .ok true
  | a :: as => (p a).bind fun b => if b then allRes p as else .ok false

/-- `check_node_invariants(node, min_key, max_key, is_root)` -/
def checkNode (cfg : Cfg) (m : RawMap K V) : Nat → NodeRef → Option K → Option K → Bool → Res Bool
  | 0, _, _, _, _ => .diverge
  | _+1, .leaf id, lo, hi, isRoot =>
    match m.getLeaf id with
    | none => .ok false
    | some l =>
      if l.keys.length ≠ l.vals.length then .ok false
      else if ¬ strictlySorted l.keys then .ok false
      else if l.keys.length > m.cap then .ok false
      else if (cfg.validatorChecksEmpty ∨ ¬ l.keys.isEmpty) ∧ isUnderfull l.cap l.keys.length ∧ ¬ isRoot then .ok false
      else if (match lo, l.keys.head? with | some mn, some fk => decide (ord fk < ord mn) | _, _ => false) then .ok false
      else if (match hi, l.keys.getLast? with | some mx, some lk => decide (ord lk ≥ ord mx) | _, _ => false) then .ok false
      else .ok true
  | f+1, .branch id, lo, hi, isRoot =>
    match m.getBranch id with
    | none => .ok false
    | some b =>
      if b.keys.length + 1 ≠ b.children.length then .ok false
      else if ¬ strictlySorted b.keys then .ok false
      else if b.keys.length > m.cap then .ok false
      else if (cfg.validatorChecksEmpty ∨ ¬ b.keys.isEmpty) ∧ isUnderfull b.cap b.keys.length ∧ ¬ isRoot then .ok false
      else if b.children.isEmpty then .ok false
      else
        allRes (fun (p : Nat × NodeRef) =>
            let cmin : Option K := if p.1 = 0 then lo else b.keys[p.1 - 1]?
            let cmax : Option K := if p.1 = b.keys.length then hi else b.keys[p.1]?
            checkNode cfg m f p.2 cmin cmax false)
          ((List.range b.children.length).zip b.children)

def checkInvariants (cfg : Cfg) (m : RawMap K V) : Res Bool := checkNode cfg m m.fuel m.root none none true

inductive VErr where
  | nodeInvariants      -- "Tree invariants violated"
  | iterUnsorted        -- "Iterator returned unsorted keys"
  | iterCount           -- "Iterator returned n keys but tree has m items"
  | leafCount           -- arena error: leaf consistency
  | branchCount         -- arena error: branch consistency
  | linkedList          -- corrupted tree: linked list
deriving Repr, DecidableEq

/-- the `while let Some(id) = current_id` walk of `check_leaf_linked_list_completeness` -/
def chainIds (m : RawMap K V) : Nat → Option Nat → Res (List Nat)
  | 0, _ => .diverge
  | _+1, none => .ok []
  | f+1, some id =>
    match m.getLeaf id with
    | none => .ok [id]
    | some l => (chainIds m f (if l.next ≠ nullId then some l.next else none)).map (id :: ·)

def insertSorted (x : Nat) : List Nat → List Nat
  | [] => [x]
  | y :: ys => if x ≤ y then x :: y :: ys else y :: insertSorted x ys
def sortNat (l : List Nat) : List Nat := l.foldr insertSorted []

/-- `check_invariants_detailed` / `validate`: `none` = Ok(()) -/
def checkDetailed (cfg : Cfg) (m : RawMap K V) : Res (Option VErr) :=
  (checkInvariants cfg m).bind fun ok =>
  if ¬ ok then .ok (some .nodeInvariants) else
  (keys cfg m).bind fun ks =>
  if ¬ strictlySorted ks then .ok (some .iterUnsorted) else
  (len m).bind fun n =>
  if ks.length ≠ n then .ok (some .iterCount) else
  (countNodes m).bind fun cnt =>
  if cnt.1 ≠ m.leaves.len then .ok (some .leafCount) else
  if cnt.2 ≠ m.branches.len then .ok (some .branchCount) else
  (leafIds m).bind fun tids =>
  m.firstLeaf.bind fun first =>
  (chainIds m m.fuel first).bind fun cids =>
  if sortNat tids ≠ sortNat cids then .ok (some .linkedList) else .ok none

end RawMap
end BPT.Rust
