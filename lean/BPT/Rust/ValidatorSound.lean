import BPT.Rust.NoUB
import BPT.Core.Spec
/-
  Soundness of the validator model over ALL raw maps: if `check_node_invariants`
  answers `true`, the part of the map reachable from that node satisfies the
  declarative node conditions.
-/
namespace BPT.Rust
open BPT RawMap
variable {K V : Type} [Keyed K]

/-- what `check_node_invariants(node, min, max, is_root)` establishes -/
inductive NodeOK (m : RawMap K V) : NodeRef → Option K → Option K → Bool → Prop where
  | leaf (id : Nat) (l : RLeaf K V) (lo hi : Option K) (isRoot : Bool) :
      m.getLeaf id = some l →                                  -- the node is allocated
      l.keys.length = l.vals.length →                          -- key and value counts agree
      KSorted l.keys →                                         -- strictly ascending, no duplicates
      l.keys.length ≤ m.cap →                                  -- not above capacity
      (isRoot = false → ¬ l.keys.length < minKeys l.cap) →     -- minimum occupancy (also for empty nodes)
      (∀ a, lo = some a → ∀ k ∈ l.keys, ord a ≤ ord k) →       -- inside the interval the separators allow
      (∀ b, hi = some b → ∀ k ∈ l.keys, ord k < ord b) →
      NodeOK m (.leaf id) lo hi isRoot
  | branch (id : Nat) (b : RBranch K) (lo hi : Option K) (isRoot : Bool) :
      m.getBranch id = some b →
      b.keys.length + 1 = b.children.length →                  -- one more child than keys
      KSorted b.keys →
      b.keys.length ≤ m.cap →
      (isRoot = false → ¬ b.keys.length < minKeys b.cap) →
      (∀ i c, b.children[i]? = some c →
        NodeOK m c (if i = 0 then lo else b.keys[i-1]?) (if i = b.keys.length then hi else b.keys[i]?) false) →
      NodeOK m (.branch id) lo hi isRoot

theorem strictlySorted_iff (ks : List K) : strictlySorted ks = true → KSorted ks := by
  induction ks with
  | nil => intro _; exact List.Pairwise.nil
  | cons a as ih =>
    cases as with
    | nil => intro _; simp [KSorted]
    | cons b bs =>
      intro h
      simp only [strictlySorted, Bool.and_eq_true, decide_eq_true_eq] at h
      have hs := ih h.2
      unfold KSorted at hs ⊢
      rw [List.pairwise_cons]
      refine ⟨?_, hs⟩
      intro x hx
      rcases List.mem_cons.1 hx with rfl | hx
      · exact h.1
      · have := (List.pairwise_cons.1 hs).1 x hx
        omega

theorem allRes_true {α : Type} (p : α → Res Bool) : ∀ (l : List α), allRes p l = .ok true → ∀ a ∈ l, p a = .ok true
  | [], _, a, ha => by cases ha
  | x :: xs, h, a, ha => by
    simp only [allRes] at h
    cases hx : p x with
    | ok b =>
      rw [hx] at h
      simp only [Res.bind_ok] at h
      cases b with
      | false => simp at h
      | true =>
        simp only [if_true] at h
        rcases List.mem_cons.1 ha with rfl | ha
        · exact hx
        · exact allRes_true p xs h a ha
    | panic => rw [hx] at h; simp at h
    | diverge => rw [hx] at h; simp at h
    | ub => rw [hx] at h; simp at h

theorem ite_ok_false {c : Prop} [Decidable c] {x : Res Bool} (h : (if c then .ok false else x) = .ok true) : ¬ c ∧ x = .ok true := by
  split at h
  · simp at h
  · rename_i hc; exact ⟨hc, h⟩

theorem head_le_of_sorted (ks : List K) (hs : KSorted ks) (k0 : K) (h0 : ks.head? = some k0) : ∀ k ∈ ks, ord k0 ≤ ord k := by
  cases ks with
  | nil => intro k hk; cases hk
  | cons a as =>
    simp only [List.head?_cons, Option.some.injEq] at h0
    subst h0
    intro k hk
    rcases List.mem_cons.1 hk with rfl | hk
    · exact Int.le_refl _
    · exact Int.le_of_lt ((List.pairwise_cons.1 hs).1 k hk)

theorem le_last_of_sorted (ks : List K) (hs : KSorted ks) (kl : K) (hl : ks.getLast? = some kl) : ∀ k ∈ ks, ord k ≤ ord kl := by
  intro k hk
  obtain ⟨i, hi, rfl⟩ := List.getElem_of_mem hk
  have hne : ks ≠ [] := by intro h; rw [h] at hi; simp at hi
  rw [List.getLast?_eq_some_getLast hne, Option.some.injEq, List.getLast_eq_getElem] at hl
  subst hl
  by_cases hil : i = ks.length - 1
  · subst hil; exact Int.le_refl _
  · exact Int.le_of_lt (List.pairwise_iff_getElem.1 hs i (ks.length - 1) hi (by omega) (by omega))

/-- **Soundness of `check_node_invariants`** (repaired code), for every raw map -/
theorem checkNode_sound (m : RawMap K V) : ∀ (f : Nat) (n : NodeRef) (lo hi : Option K) (isRoot : Bool),
    m.checkNode Cfg.repaired f n lo hi isRoot = .ok true → NodeOK m n lo hi isRoot := by
  intro f
  induction f with
  | zero => intro n lo hi r h; simp [checkNode] at h
  | succ f ih =>
    intro n lo hi isRoot h
    cases n with
    | leaf id =>
      unfold checkNode at h
      cases hg : m.getLeaf id with
      | none => simp [hg] at h
      | some l =>
        simp only [hg] at h
        obtain ⟨c1, h⟩ := ite_ok_false h
        obtain ⟨c2, h⟩ := ite_ok_false h
        obtain ⟨c3, h⟩ := ite_ok_false h
        obtain ⟨c4, h⟩ := ite_ok_false h
        obtain ⟨c5, h⟩ := ite_ok_false h
        obtain ⟨c6, h⟩ := ite_ok_false h
        have hs := strictlySorted_iff l.keys (by simpa using c2)
        refine NodeOK.leaf id l lo hi isRoot hg (by simpa using c1) hs (by omega) ?_ ?_ ?_
        · intro hr hlt
          apply c4
          refine ⟨Or.inl rfl, ?_, by simp [hr]⟩
          simp [isUnderfull, hlt]
        · intro a ha k hk
          subst ha
          cases hh : l.keys.head? with
          | none => rw [List.head?_eq_none_iff] at hh; rw [hh] at hk; cases hk
          | some fk =>
            simp only [hh, decide_eq_true_eq] at c5
            have := head_le_of_sorted l.keys hs fk hh k hk
            omega
        · intro b hb k hk
          subst hb
          cases hh : l.keys.getLast? with
          | none => rw [List.getLast?_eq_none_iff] at hh; rw [hh] at hk; cases hk
          | some lk =>
            simp only [hh, decide_eq_true_eq] at c6
            have := le_last_of_sorted l.keys hs lk hh k hk
            omega
    | branch id =>
      unfold checkNode at h
      cases hg : m.getBranch id with
      | none => simp [hg] at h
      | some b =>
        simp only [hg] at h
        obtain ⟨c1, h⟩ := ite_ok_false h
        obtain ⟨c2, h⟩ := ite_ok_false h
        obtain ⟨c3, h⟩ := ite_ok_false h
        obtain ⟨c4, h⟩ := ite_ok_false h
        obtain ⟨c5, h⟩ := ite_ok_false h
        have hall := allRes_true _ _ h
        refine NodeOK.branch id b lo hi isRoot hg (by simpa using c1) (strictlySorted_iff b.keys (by simpa using c2)) (by omega) ?_ ?_
        · intro hr hlt
          apply c4
          refine ⟨Or.inl rfl, ?_, by simp [hr]⟩
          simp [isUnderfull, hlt]
        · intro i c hc
          have hi' : i < b.children.length := lt_of_getElem?_eq_some hc
          have hmem : (i, c) ∈ (List.range b.children.length).zip b.children := by
            rw [List.mem_iff_getElem?]
            refine ⟨i, ?_⟩
            rw [List.getElem?_zip_eq_some]
            exact ⟨List.getElem?_range hi', hc⟩
          exact ih c _ _ false (hall (i, c) hmem)

/-- `check_invariants() = true` ⇒ the reachable part of the map is node-valid -/
theorem checkInvariants_sound (m : RawMap K V) (h : m.checkInvariants Cfg.repaired = .ok true) : NodeOK m m.root none none true :=
  checkNode_sound m _ _ _ _ _ h

end BPT.Rust
