import BPT.Rust.Remove1
/-
  Remove, part 2: rebalancing an underfull *leaf* child (borrow left / right,
  merge left / right) keeps order, contents and occupancy.
-/
namespace BPT.Rust
open BPT Tree
variable {K V : Type} [Keyed K]

/-- the situation `rebalance` is called in: child `i` is one key short, everything else is fine -/
structure RebPre (cap h : Nat) (b : Branch K (Tree K V h)) (i : Nat) (lo hi : Option Int) : Prop where
  cap4 : 4 ≤ cap
  ord : Ordered (h+1) b lo hi
  nk : 1 ≤ b.keys.length
  idx : i < b.children.length
  sz : ∀ j c, b.children[j]? = some c → Sized cap h c (if j = i then cap / 2 - 1 else cap / 2)
  under : ∀ c, b.children[i]? = some c → nkeys h c = cap / 2 - 1

structure RebPost (cap h : Nat) (b b2 : Branch K (Tree K V h)) (lo hi : Option Int) : Prop where
  ord : Ordered (h+1) b2 lo hi
  list : toList (h+1) b2 = toList (h+1) b
  sz : ∀ c ∈ b2.children, Sized cap h c (cap / 2)
  k1 : b.keys.length ≤ b2.keys.length + 1
  k2 : b2.keys.length ≤ b.keys.length
  id : b2.id = b.id

/-- children `j`, `j+1` of an ordered branch, with their bounds -/
theorem two_children (h : Nat) (b : Branch K (Tree K V h)) (lo hi : Option Int) (j : Nat) (x y : Tree K V h)
    (hb : Ordered (h+1) b lo hi) (hx : b.children[j]? = some x) (hy : b.children[j+1]? = some y) :
    ∃ sep, b.keys[j]? = some sep ∧ Ordered h x (loAt b.keys lo j) (some (ord sep)) ∧
      Ordered h y (some (ord sep)) (hiAt b.keys hi (j+1)) ∧ j + 1 < b.children.length ∧ j < b.keys.length := by
  obtain ⟨hs, hlen, hkb, hc⟩ := hb
  have hj1 : j + 1 < b.children.length := lt_of_getElem?_eq_some hy
  have hjk : j < b.keys.length := by omega
  refine ⟨b.keys[j], List.getElem?_eq_getElem hjk, ?_, ?_, hj1, hjk⟩
  · have := hc j x hx
    have e : hiAt b.keys hi j = some (ord b.keys[j]) := by
      unfold hiAt; rw [if_neg (by omega), List.getElem?_eq_getElem hjk]; rfl
    rw [e] at this; exact this
  · have := hc (j+1) y hy
    have e : loAt b.keys lo (j+1) = some (ord b.keys[j]) := by
      unfold loAt; rw [if_neg (by omega)]; simp [List.getElem?_eq_getElem hjk]
    rw [e] at this; exact this

/-- replacing children `j, j+1` and the separator between them by a re-cut of their glued contents -/
theorem recut_post (cap h : Nat) (b : Branch K (Tree K V h)) (lo hi : Option Int) (j : Nat) (x y x' y' : Tree K V h) (sep : K)
    (hb : Ordered (h+1) b lo hi) (hx : b.children[j]? = some x) (hy : b.children[j+1]? = some y)
    (hx' : Ordered h x' (loAt b.keys lo j) (some (ord sep))) (hy' : Ordered h y' (some (ord sep)) (hiAt b.keys hi (j+1)))
    (hin : InB (loAt b.keys lo j) (hiAt b.keys hi (j+1)) (ord sep)) (hne : 1 ≤ nkeys h x')
    (hlist : toList h x' ++ toList h y' = toList h x ++ toList h y)
    (hsx : Sized cap h x' (cap/2)) (hsy : Sized cap h y' (cap/2))
    (hrest : ∀ n c, b.children[n]? = some c → n ≠ j → n ≠ j + 1 → Sized cap h c (cap/2)) :
    RebPost cap h b (branchReplace2 b j x' y' sep) lo hi := by
  have hj1 : j + 1 < b.children.length := lt_of_getElem?_eq_some hy
  obtain ⟨hs, hlen, hkb, hc⟩ := hb
  have hjk : j < b.keys.length := by omega
  have hstrict : ∀ z, loAt b.keys lo j = some z → z < ord sep := by
    intro z hz
    rw [hz] at hx'
    exact bounds_strict h x' z (ord sep) hx' hne
  obtain ⟨f1, f2, f3⟩ := sep_fits b.keys lo hi j (ord sep) hs hkb hjk hin hstrict
  refine ⟨?_, ?_, ?_, ?_, ?_, rfl⟩
  · exact ordered_replace2 h b lo hi j x' y' sep ⟨hs, hlen, hkb, hc⟩ hj1 hx' hy' f1 f2 f3
  · rw [toList_succ, toList_succ]
    show (setAt (setAt b.children j x') (j+1) y').flatMap (toList h) = b.children.flatMap (toList h)
    rw [setAt_setAt_succ _ _ _ _ hj1]
    conv => rhs; rw [eq_take_cons_cons_drop b.children j x y hx hy]
    simp only [List.flatMap_append, List.flatMap_cons]
    rw [← List.append_assoc (toList h x'), hlist, List.append_assoc]
  · intro c hc'
    have hc'' : c ∈ setAt (setAt b.children j x') (j+1) y' := hc'
    rw [setAt_setAt_succ _ _ _ _ hj1] at hc''
    rcases List.mem_append.1 hc'' with hm | hm
    · rw [List.mem_take_iff_getElem] at hm
      obtain ⟨n, hn, rfl⟩ := hm
      have hn' : n < j := by omega
      exact hrest n _ (List.getElem?_eq_getElem (by omega)) (by omega) (by omega)
    · rcases List.mem_cons.1 hm with rfl | hm
      · exact hsx
      · rcases List.mem_cons.1 hm with rfl | hm
        · exact hsy
        · rw [List.mem_drop_iff_getElem] at hm
          obtain ⟨n, hn, rfl⟩ := hm
          exact hrest (j + 2 + n) _ (List.getElem?_eq_getElem (by omega)) (by omega) (by omega)
  · show b.keys.length ≤ (setAt b.keys j sep).length + 1
    rw [length_setAt _ _ _ hjk]; omega
  · show (setAt b.keys j sep).length ≤ b.keys.length
    rw [length_setAt _ _ _ hjk]; omega

end BPT.Rust

namespace BPT.Rust
open BPT Tree
variable {K V : Type} [Keyed K]

/-- replacing children `j, j+1` by their merge and dropping the separator between them -/
theorem merge_post (cap h : Nat) (b : Branch K (Tree K V h)) (lo hi : Option Int) (j : Nat) (x y m : Tree K V h)
    (hb : Ordered (h+1) b lo hi) (hx : b.children[j]? = some x) (hy : b.children[j+1]? = some y)
    (hm : Ordered h m (loAt b.keys lo j) (hiAt b.keys hi (j+1)))
    (hlist : toList h m = toList h x ++ toList h y)
    (hsm : Sized cap h m (cap/2))
    (hrest : ∀ n c, b.children[n]? = some c → n ≠ j → n ≠ j + 1 → Sized cap h c (cap/2)) :
    RebPost cap h b (branchMerge2 b j m) lo hi := by
  have hj1 : j + 1 < b.children.length := lt_of_getElem?_eq_some hy
  have hlen := hb.2.1
  have hjk : j < b.keys.length := by omega
  refine ⟨?_, ?_, ?_, ?_, ?_, rfl⟩
  · exact ordered_merge2 h b lo hi j m hb hj1 hm
  · rw [toList_succ, toList_succ]
    show (removeAt (setAt b.children j m) (j+1)).flatMap (toList h) = b.children.flatMap (toList h)
    rw [removeAt_setAt_succ _ _ _ hj1]
    conv => rhs; rw [eq_take_cons_cons_drop b.children j x y hx hy]
    simp only [List.flatMap_append, List.flatMap_cons]
    rw [hlist, List.append_assoc]
  · intro c hc'
    have hc'' : c ∈ removeAt (setAt b.children j m) (j+1) := hc'
    rw [removeAt_setAt_succ _ _ _ hj1] at hc''
    rcases List.mem_append.1 hc'' with hm' | hm'
    · rw [List.mem_take_iff_getElem] at hm'
      obtain ⟨n, hn, rfl⟩ := hm'
      exact hrest n _ (List.getElem?_eq_getElem (by omega)) (by omega) (by omega)
    · rcases List.mem_cons.1 hm' with rfl | hm'
      · exact hsm
      · rw [List.mem_drop_iff_getElem] at hm'
        obtain ⟨n, hn, rfl⟩ := hm'
        exact hrest (j + 2 + n) _ (List.getElem?_eq_getElem (by omega)) (by omega) (by omega)
  · show b.keys.length ≤ (removeAt b.keys j).length + 1
    rw [length_removeAt _ _ hjk]; omega
  · show (removeAt b.keys j).length ≤ b.keys.length
    rw [length_removeAt _ _ hjk]; omega

/-! ### two adjacent leaves -/

theorem leaf_lo_le (l : Leaf K V) (lo hi : Option Int) (ho : Ordered 0 (l : Tree K V 0) lo hi) (hne : l.keys ≠ []) :
    (∀ a, lo = some a → ∀ b, hi = some b → a < b) ∧ (∀ x ∈ l.keys, InB lo hi (ord x)) := by
  obtain ⟨_, _, hb⟩ := ho
  refine ⟨?_, hb⟩
  intro a ha b hb'
  obtain ⟨x, hx⟩ := List.exists_mem_of_ne_nil _ hne
  have hx' := hb x hx
  have h1 := hx'.1 a ha; have h2 := hx'.2 b hb'; omega

theorem leafBorrowLeft_spec (a c : Leaf K V) (lo hi : Option Int) (s : Int)
    (ha : Ordered 0 (a : Tree K V 0) lo (some s)) (hc : Ordered 0 (c : Tree K V 0) (some s) hi)
    (ha2 : 2 ≤ a.keys.length) (hc1 : c.keys ≠ []) :
    ∃ a' c' k, leafBorrowLeft a c = some (a', c', k) ∧
      Ordered 0 (a' : Tree K V 0) lo (some (ord k)) ∧ Ordered 0 (c' : Tree K V 0) (some (ord k)) hi ∧ InB lo hi (ord k) ∧
      Leaf.entries a' ++ Leaf.entries c' = Leaf.entries a ++ Leaf.entries c ∧
      a'.keys.length + 1 = a.keys.length ∧ c'.keys.length = c.keys.length + 1 ∧
      a'.id = a.id ∧ a'.next = a.next ∧ c'.id = c.id ∧ c'.next = c.next := by
  have hal : a.keys.length = a.vals.length := ha.2.1
  have hcl : c.keys.length = c.vals.length := hc.2.1
  have hane : a.keys ≠ [] := by intro h; simp [h] at ha2
  have havne : a.vals ≠ [] := by
    intro h; rw [h] at hal; simp only [List.length_nil] at hal; omega
  obtain ⟨k, hk⟩ : ∃ k, a.keys.getLast? = some k := ⟨_, List.getLast?_eq_some_getLast hane⟩
  obtain ⟨v, hv⟩ : ∃ v, a.vals.getLast? = some v := ⟨_, List.getLast?_eq_some_getLast havne⟩
  have dk := dropLast_append_of_getLast? a.keys k hk
  have dv := dropLast_append_of_getLast? a.vals v hv
  have dl : a.keys.dropLast.length = a.vals.dropLast.length := by simp [hal]
  refine ⟨{ a with keys := a.keys.dropLast, vals := a.vals.dropLast }, { c with keys := k :: c.keys, vals := v :: c.vals }, k, ?_, ?_⟩
  · simp [leafBorrowLeft, hk, hv]
  · have hlo : ∀ l, lo = some l → l ≤ s := by
      intro l hl; have := (leaf_lo_le a lo (some s) ha hane).1 l hl s rfl; omega
    have hhi : ∀ u, hi = some u → s ≤ u := by
      intro u hu; have := (leaf_lo_le c (some s) hi hc hc1).1 s rfl u hu; omega
    have hg := leaf_glue a.keys c.keys a.vals c.vals lo hi s a.id c.id 0 a.next c.next 0 ha hc hlo hhi
    have e1 : a.keys ++ c.keys = a.keys.dropLast ++ (k :: c.keys) := by
      conv => lhs; rw [dk]
      simp
    have e2 : a.vals ++ c.vals = a.vals.dropLast ++ (v :: c.vals) := by
      conv => lhs; rw [dv]
      simp
    rw [e1, e2] at hg
    obtain ⟨h1, h2, h3⟩ := leaf_cut_append a.keys.dropLast (k :: c.keys) a.vals.dropLast (v :: c.vals) lo hi k 0 a.id c.id 0 a.next c.next hg dl rfl
    refine ⟨h1, h2, h3, ?_, ?_, by simp, rfl, rfl, rfl, rfl⟩
    · simp only [Leaf.entries]
      conv => rhs; rw [dk, dv, zip_append_of_length _ _ _ _ dl]
      simp
    · show a.keys.dropLast.length + 1 = a.keys.length
      simp; omega

theorem leafBorrowRight_spec (c r : Leaf K V) (lo hi : Option Int) (s : Int)
    (hc : Ordered 0 (c : Tree K V 0) lo (some s)) (hr : Ordered 0 (r : Tree K V 0) (some s) hi)
    (hr2 : 2 ≤ r.keys.length) (hc1 : c.keys ≠ []) :
    ∃ c' r' k, leafBorrowRight c r = some (c', r', some k) ∧
      Ordered 0 (c' : Tree K V 0) lo (some (ord k)) ∧ Ordered 0 (r' : Tree K V 0) (some (ord k)) hi ∧ InB lo hi (ord k) ∧
      Leaf.entries c' ++ Leaf.entries r' = Leaf.entries c ++ Leaf.entries r ∧
      r'.keys.length + 1 = r.keys.length ∧ c'.keys.length = c.keys.length + 1 ∧
      c'.id = c.id ∧ c'.next = c.next ∧ r'.id = r.id ∧ r'.next = r.next := by
  have hrl : r.keys.length = r.vals.length := hr.2.1
  have hcl : c.keys.length = c.vals.length := hc.2.1
  cases hrk : r.keys with
  | nil => simp [hrk] at hr2
  | cons k0 ks =>
    cases hrv : r.vals with
    | nil => rw [hrk, hrv] at hrl; simp at hrl
    | cons v0 vs =>
      cases hks : ks with
      | nil => simp [hrk, hks] at hr2
      | cons k1 ks' =>
        have hrne : r.keys ≠ [] := by rw [hrk]; simp
        refine ⟨{ c with keys := c.keys ++ [k0], vals := c.vals ++ [v0] }, { r with keys := k1 :: ks', vals := vs }, k1, ?_, ?_⟩
        · simp [leafBorrowRight, hrk, hrv, hks]
        · have hlo : ∀ l, lo = some l → l ≤ s := by
            intro l hl; have := (leaf_lo_le c lo (some s) hc hc1).1 l hl s rfl; omega
          have hhi : ∀ u, hi = some u → s ≤ u := by
            intro u hu; have := (leaf_lo_le r (some s) hi hr hrne).1 s rfl u hu; omega
          have hg := leaf_glue c.keys r.keys c.vals r.vals lo hi s c.id r.id 0 c.next r.next 0 hc hr hlo hhi
          have e1 : c.keys ++ r.keys = (c.keys ++ [k0]) ++ (k1 :: ks') := by rw [hrk, hks]; simp
          have e2 : c.vals ++ r.vals = (c.vals ++ [v0]) ++ vs := by rw [hrv]; simp
          rw [e1, e2] at hg
          have dl : (c.keys ++ [k0]).length = (c.vals ++ [v0]).length := by simp [hcl]
          obtain ⟨h1, h2, h3⟩ := leaf_cut_append (c.keys ++ [k0]) (k1 :: ks') (c.vals ++ [v0]) vs lo hi k1 0 c.id r.id 0 c.next r.next hg dl rfl
          refine ⟨h1, h2, h3, ?_, ?_, by simp, rfl, rfl, rfl, rfl⟩
          · simp only [Leaf.entries]
            rw [hrk, hrv, hks, zip_append_of_length _ _ _ _ hcl]
            simp
          · show (k1 :: ks').length + 1 = (k0 :: k1 :: ks').length
            simp

theorem leafMerge_spec (cap : Nat) (a c : Leaf K V) (lo hi : Option Int) (s : Int)
    (ha : Ordered 0 (a : Tree K V 0) lo (some s)) (hc : Ordered 0 (c : Tree K V 0) (some s) hi)
    (hane : a.keys ≠ []) (hcne : c.keys ≠ []) (hfit : a.keys.length + c.keys.length ≤ cap) :
    ∃ m, leafMerge cap a c = some m ∧ Ordered 0 (m : Tree K V 0) lo hi ∧
      Leaf.entries m = Leaf.entries a ++ Leaf.entries c ∧ m.keys.length = a.keys.length + c.keys.length ∧
      m.id = a.id ∧ m.next = c.next := by
  have hal : a.keys.length = a.vals.length := ha.2.1
  have hcl : c.keys.length = c.vals.length := hc.2.1
  refine ⟨{ a with keys := a.keys ++ c.keys, vals := a.vals ++ c.vals, next := c.next }, ?_, ?_, ?_, by simp, rfl, rfl⟩
  · unfold leafMerge
    have : a.keys.length + c.keys.length ≤ cap ∧ a.vals.length + c.vals.length ≤ cap := ⟨hfit, by omega⟩
    simp [this]
  · have hlo : ∀ l, lo = some l → l ≤ s := by
      intro l hl; have := (leaf_lo_le a lo (some s) ha hane).1 l hl s rfl; omega
    have hhi : ∀ u, hi = some u → s ≤ u := by
      intro u hu; have := (leaf_lo_le c (some s) hi hc hcne).1 s rfl u hu; omega
    exact leaf_glue a.keys c.keys a.vals c.vals lo hi s a.id c.id a.id a.next c.next c.next ha hc hlo hhi
  · simp only [Leaf.entries]
    exact zip_append_of_length _ _ _ _ hal

end BPT.Rust

namespace BPT.Rust
open BPT Tree
variable {K V : Type} [Keyed K]

theorem toList_leaf (l : Leaf K V) : toList 0 (l : Tree K V 0) = Leaf.entries l := toList_zero _

/-- borrow from the left sibling (children `j`, `j+1`; the underfull one is `j+1`) -/
theorem leafBorrowLeftAt_spec (cap : Nat) (b : Branch K (Leaf K V)) (j : Nat) (al : Allocs) (lo hi : Option Int) (a c : Leaf K V)
    (hp : RebPre cap 0 (b : Branch K (Tree K V 0)) (j+1) lo hi) (ha : b.children[j]? = some a) (hc : b.children[j+1]? = some c)
    (hdon : cap / 2 < a.keys.length) :
    ∃ b2, leafBorrowLeftAt b (j+1) al a c = some (b2, al) ∧ RebPost cap 0 (b : Branch K (Tree K V 0)) b2 lo hi := by
  obtain ⟨hcap, hb, hnk, hidx, hsz, hun⟩ := hp
  obtain ⟨sep, hsep, hoa, hoc, hj1, hjk⟩ := two_children 0 b lo hi j a c hb ha hc
  have hclen : c.keys.length = cap / 2 - 1 := hun c hc
  have hasz := hsz j a ha
  simp only [show j ≠ j + 1 by omega, if_false] at hasz
  obtain ⟨a', c', k, he, h1, h2, h3, h4, h5, h6, _⟩ :=
    leafBorrowLeft_spec a c _ _ (ord sep) hoa hoc (by omega) (by intro h; simp [h] at hclen; omega)
  refine ⟨branchReplace2 b j a' c' k, ?_, ?_⟩
  · simp [leafBorrowLeftAt, he, hjk]
  · apply recut_post cap 0 b lo hi j a c a' c' k hb ha hc h1 h2 h3
    · show 1 ≤ (a' : Leaf K V).keys.length; omega
    · simp only [toList_leaf]; exact h4
    · exact ⟨by show cap / 2 ≤ (a' : Leaf K V).keys.length; omega, by show (a' : Leaf K V).keys.length ≤ cap; have := hasz.2; omega⟩
    · exact ⟨by show cap / 2 ≤ (c' : Leaf K V).keys.length; omega, by show (c' : Leaf K V).keys.length ≤ cap; omega⟩
    · intro n x hx hn1 hn2
      have := hsz n x hx
      simp only [hn2, if_false] at this; exact this

theorem leafBorrowRightAt_spec (cap : Nat) (b : Branch K (Leaf K V)) (i : Nat) (al : Allocs) (lo hi : Option Int) (c r : Leaf K V)
    (hp : RebPre cap 0 (b : Branch K (Tree K V 0)) i lo hi) (hc : b.children[i]? = some c) (hr : b.children[i+1]? = some r)
    (hdon : cap / 2 < r.keys.length) :
    ∃ b2, leafBorrowRightAt b i al c r = some (b2, al) ∧ RebPost cap 0 (b : Branch K (Tree K V 0)) b2 lo hi := by
  obtain ⟨hcap, hb, hnk, hidx, hsz, hun⟩ := hp
  obtain ⟨sep, hsep, hoc, hor, hj1, hjk⟩ := two_children 0 b lo hi i c r hb hc hr
  have hclen : c.keys.length = cap / 2 - 1 := hun c hc
  have hrsz := hsz (i+1) r hr
  simp only [show i + 1 ≠ i by omega, if_false] at hrsz
  obtain ⟨c', r', k, he, h1, h2, h3, h4, h5, h6, _⟩ :=
    leafBorrowRight_spec c r _ _ (ord sep) hoc hor (by omega) (by intro h; simp [h] at hclen; omega)
  refine ⟨branchReplace2 b i c' r' k, ?_, ?_⟩
  · simp [leafBorrowRightAt, he, hjk]
  · apply recut_post cap 0 b lo hi i c r c' r' k hb hc hr h1 h2 h3
    · show 1 ≤ (c' : Leaf K V).keys.length; omega
    · simp only [toList_leaf]; exact h4
    · exact ⟨by show cap / 2 ≤ (c' : Leaf K V).keys.length; omega, by show (c' : Leaf K V).keys.length ≤ cap; omega⟩
    · exact ⟨by show cap / 2 ≤ (r' : Leaf K V).keys.length; omega, by show (r' : Leaf K V).keys.length ≤ cap; have := hrsz.2; omega⟩
    · intro n x hx hn1 hn2
      have := hsz n x hx
      simp only [hn1, if_false] at this; exact this

/-- merge children `j` (not a donor) and `j+1` (the underfull one) -/
theorem leafMergeLeftAt_spec (cap : Nat) (b : Branch K (Leaf K V)) (j : Nat) (al : Allocs) (lo hi : Option Int) (a c : Leaf K V)
    (hp : RebPre cap 0 (b : Branch K (Tree K V 0)) (j+1) lo hi) (ha : b.children[j]? = some a) (hc : b.children[j+1]? = some c)
    (hnd : ¬ cap / 2 < a.keys.length) :
    ∃ b2 al2, leafMergeLeftAt cap b (j+1) al a c = some (b2, al2) ∧ RebPost cap 0 (b : Branch K (Tree K V 0)) b2 lo hi := by
  obtain ⟨hcap, hb, hnk, hidx, hsz, hun⟩ := hp
  obtain ⟨sep, hsep, hoa, hoc, hj1, hjk⟩ := two_children 0 b lo hi j a c hb ha hc
  have hclen : c.keys.length = cap / 2 - 1 := hun c hc
  have hasz := hsz j a ha
  simp only [show j ≠ j + 1 by omega, if_false] at hasz
  have halen : a.keys.length = cap / 2 := by have := hasz.1; omega
  obtain ⟨m, he, h1, h2, h3, _⟩ := leafMerge_spec cap a c _ _ (ord sep) hoa hoc
    (by intro h; simp [h] at halen; omega) (by intro h; simp [h] at hclen; omega) (by omega)
  refine ⟨branchMerge2 b j m, { al with leaf := al.leaf.dealloc c.id }, ?_, ?_⟩
  · simp [leafMergeLeftAt, he, hjk]
  · apply merge_post cap 0 b lo hi j a c m hb ha hc h1
    · simp only [toList_leaf]; exact h2
    · exact ⟨by show cap / 2 ≤ (m : Leaf K V).keys.length; omega, by show (m : Leaf K V).keys.length ≤ cap; omega⟩
    · intro n x hx hn1 hn2
      have := hsz n x hx
      simp only [hn2, if_false] at this; exact this

theorem leafMergeRightAt_spec (cap : Nat) (b : Branch K (Leaf K V)) (i : Nat) (al : Allocs) (lo hi : Option Int) (c r : Leaf K V)
    (hp : RebPre cap 0 (b : Branch K (Tree K V 0)) i lo hi) (hc : b.children[i]? = some c) (hr : b.children[i+1]? = some r)
    (hnd : ¬ cap / 2 < r.keys.length) :
    ∃ b2 al2, leafMergeRightAt cap b i al c r = some (b2, al2) ∧ RebPost cap 0 (b : Branch K (Tree K V 0)) b2 lo hi := by
  obtain ⟨hcap, hb, hnk, hidx, hsz, hun⟩ := hp
  obtain ⟨sep, hsep, hoc, hor, hj1, hjk⟩ := two_children 0 b lo hi i c r hb hc hr
  have hclen : c.keys.length = cap / 2 - 1 := hun c hc
  have hrsz := hsz (i+1) r hr
  simp only [show i + 1 ≠ i by omega, if_false] at hrsz
  have hrlen : r.keys.length = cap / 2 := by have := hrsz.1; omega
  obtain ⟨m, he, h1, h2, h3, _⟩ := leafMerge_spec cap c r _ _ (ord sep) hoc hor
    (by intro h; simp [h] at hclen; omega) (by intro h; simp [h] at hrlen; omega) (by omega)
  refine ⟨branchMerge2 b i m, { al with leaf := al.leaf.dealloc r.id }, ?_, ?_⟩
  · simp [leafMergeRightAt, he, hjk]
  · apply merge_post cap 0 b lo hi i c r m hb hc hr h1
    · simp only [toList_leaf]; exact h2
    · exact ⟨by show cap / 2 ≤ (m : Leaf K V).keys.length; omega, by show (m : Leaf K V).keys.length ≤ cap; omega⟩
    · intro n x hx hn1 hn2
      have := hsz n x hx
      simp only [hn1, if_false] at this; exact this

theorem rebalanceLeaf_spec (cap : Nat) (b : Branch K (Leaf K V)) (i : Nat) (al : Allocs) (lo hi : Option Int)
    (hp : RebPre cap 0 (b : Branch K (Tree K V 0)) i lo hi) :
    ∃ b2 al2, rebalanceLeaf cap b i al = some (b2, al2) ∧ RebPost cap 0 (b : Branch K (Tree K V 0)) b2 lo hi := by
  have hp' := hp
  obtain ⟨hcap, hb, hnk, hidx, hsz, hun⟩ := hp
  have hlen : b.children.length = b.keys.length + 1 := hb.2.1
  have hci : b.children[i]? = some b.children[i] := List.getElem?_eq_getElem hidx
  generalize b.children[i] = c at hci
  unfold rebalanceLeaf
  simp only [hci]
  by_cases hi0 : i > 0
  · obtain ⟨j, rfl⟩ : ∃ j, i = j + 1 := ⟨i - 1, by omega⟩
    have haj : b.children[j]? = some b.children[j] := List.getElem?_eq_getElem (by omega)
    generalize b.children[j] = a at haj
    simp only [hi0, if_true, Nat.add_sub_cancel, haj]
    unfold rebalanceLeafWith
    by_cases hdon : cap / 2 < a.keys.length
    · have : canDonate cap a.keys.length = true := by simp [canDonate, minKeys, hdon]
      simp only [this, if_true]
      obtain ⟨b2, he, hpost⟩ := leafBorrowLeftAt_spec cap b j al lo hi a c hp' haj hci hdon
      exact ⟨b2, al, he, hpost⟩
    · have : canDonate cap a.keys.length = false := by simp [canDonate, minKeys]; omega
      simp only [this, Bool.false_eq_true, if_false]
      by_cases hr : j + 1 + 1 < b.children.length
      · have hrj : b.children[j+1+1]? = some b.children[j+1+1] := List.getElem?_eq_getElem hr
        generalize b.children[j+1+1] = r at hrj
        simp only [hr, if_true, hrj]
        by_cases hdr : cap / 2 < r.keys.length
        · have : canDonate cap r.keys.length = true := by simp [canDonate, minKeys, hdr]
          simp only [this, if_true]
          obtain ⟨b2, he, hpost⟩ := leafBorrowRightAt_spec cap b (j+1) al lo hi c r hp' hci hrj hdr
          exact ⟨b2, al, he, hpost⟩
        · have : canDonate cap r.keys.length = false := by simp [canDonate, minKeys]; omega
          simp only [this, Bool.false_eq_true, if_false]
          exact leafMergeLeftAt_spec cap b j al lo hi a c hp' haj hci hdon
      · simp only [hr, if_false]
        exact leafMergeLeftAt_spec cap b j al lo hi a c hp' haj hci hdon
  · have hi0' : i = 0 := by omega
    subst hi0'
    have hr : 0 + 1 < b.children.length := by omega
    have hrj : b.children[0+1]? = some b.children[0+1] := List.getElem?_eq_getElem hr
    generalize b.children[0+1] = r at hrj
    simp only [Nat.lt_irrefl, if_false, hr, if_true, hrj]
    unfold rebalanceLeafWith
    by_cases hdr : cap / 2 < r.keys.length
    · have : canDonate cap r.keys.length = true := by simp [canDonate, minKeys, hdr]
      simp only [this, if_true]
      obtain ⟨b2, he, hpost⟩ := leafBorrowRightAt_spec cap b 0 al lo hi c r hp' hci hrj hdr
      exact ⟨b2, al, he, hpost⟩
    · have : canDonate cap r.keys.length = false := by simp [canDonate, minKeys]; omega
      simp only [this, Bool.false_eq_true, if_false]
      exact leafMergeRightAt_spec cap b 0 al lo hi c r hp' hci hrj hdr

end BPT.Rust
