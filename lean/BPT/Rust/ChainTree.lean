import BPT.Rust.ValidatorSound
import BPT.Rust.Iter2
/-
  Tree side of the detailed validator's soundness, for EVERY raw map: what
  `collect_leaf_ids` returns on a node-valid map is a list of stored, non-underfull
  leaves whose key sets ascend from left to right.
-/
namespace BPT.Rust
open BPT RawMap
variable {K V : Type} [Keyed K]

/-- the keys stored in leaf slot `id` (none if the slot is not allocated) -/
def keysOf (m : RawMap K V) (id : Nat) : List K := match m.getLeaf id with | some l => l.keys | none => []

/-- every key of leaf `a` is below every key of leaf `b` -/
def Before (m : RawMap K V) (a b : Nat) : Prop := ∀ x ∈ keysOf m a, ∀ y ∈ keysOf m b, ord x < ord y

theorem keysOf_some (m : RawMap K V) (id : Nat) (l : RLeaf K V) (h : m.getLeaf id = some l) : keysOf m id = l.keys := by
  unfold keysOf; rw [h]

theorem concatRes_inv {α : Type} : ∀ (rs : List (Res (List α))) (L : List α), concatRes rs = .ok L →
    ∃ Ls : List (List α), rs = Ls.map Res.ok ∧ L = Ls.flatten := by
  intro rs
  induction rs with
  | nil => intro L h; simp only [concatRes, Res.ok.injEq] at h; exact ⟨[], rfl, h.symm⟩
  | cons r rs ih =>
    intro L h
    simp only [concatRes] at h
    cases r with
    | ok a =>
      simp only [Res.bind_ok] at h
      cases hr : concatRes rs with
      | ok L' =>
        rw [hr] at h
        simp only [Res.map_ok, Res.ok.injEq] at h
        obtain ⟨Ls, h1, h2⟩ := ih L' hr
        exact ⟨a :: Ls, by rw [h1]; rfl, by rw [← h, h2]; rfl⟩
      | panic => rw [hr] at h; simp [Res.map] at h
      | diverge => rw [hr] at h; simp [Res.map] at h
      | ub => rw [hr] at h; simp [Res.map] at h
    | panic => simp at h
    | diverge => simp at h
    | ub => simp at h

theorem sumRes_inv : ∀ (rs : List (Res Nat)) (n : Nat), sumRes rs = .ok n →
    ∃ ns : List Nat, rs = ns.map Res.ok ∧ n = ns.sum := by
  intro rs
  induction rs with
  | nil => intro n h; simp only [sumRes, Res.ok.injEq] at h; exact ⟨[], rfl, h.symm⟩
  | cons r rs ih =>
    intro n h
    simp only [sumRes] at h
    cases r with
    | ok a =>
      simp only [Res.bind_ok] at h
      cases hr : sumRes rs with
      | ok n' =>
        rw [hr] at h
        simp only [Res.map_ok, Res.ok.injEq] at h
        obtain ⟨ns, h1, h2⟩ := ih n' hr
        exact ⟨a :: ns, by rw [h1]; rfl, by rw [← h, h2]; rfl⟩
      | panic => rw [hr] at h; simp [Res.map] at h
      | diverge => rw [hr] at h; simp [Res.map] at h
      | ub => rw [hr] at h; simp [Res.map] at h
    | panic => simp at h
    | diverge => simp at h
    | ub => simp at h

/-- what the tree walk establishes about the leaf ids it lists -/
structure LeavesOK (m : RawMap K V) (lo hi : Option K) (strict : Prop) (L : List Nat) : Prop where
  ne : L ≠ []
  good : ∀ id ∈ L, ∃ l, m.getLeaf id = some l ∧ l.keys.length = l.vals.length ∧ KSorted l.keys ∧
    (strict → ¬ l.keys.length < minKeys l.cap)
  pw : L.Pairwise (Before m)
  lob : ∀ a, lo = some a → ∀ id ∈ L, ∀ k ∈ keysOf m id, ord a ≤ ord k
  hib : ∀ b, hi = some b → ∀ id ∈ L, ∀ k ∈ keysOf m id, ord k < ord b

/-- every stored leaf has room for at least two keys, so "not underfull" means "not empty" -/
def CapsOK (m : RawMap K V) : Prop := ∀ id l, m.getLeaf id = some l → 2 ≤ l.cap

theorem LeavesOK.exists_key {m : RawMap K V} {lo hi : Option K} {L : List Nat} (hc : CapsOK m)
    (h : LeavesOK m lo hi True L) : ∀ id ∈ L, ∃ k, k ∈ keysOf m id := by
  intro id hid
  obtain ⟨l, hg, _, _, hne⟩ := h.good id hid
  have h2 := hc id l hg
  have : 1 ≤ l.keys.length := by
    have := hne trivial
    unfold minKeys at this
    have : 1 ≤ l.cap / 2 := by omega
    omega
  rw [keysOf_some m id l hg]
  cases hk : l.keys with
  | nil => rw [hk] at this; simp at this
  | cons k _ => exact ⟨k, List.mem_cons_self⟩

theorem map_ok_getElem {α : Type} (rs : List (Res α)) (Ls : List α) (h : rs = Ls.map Res.ok) (i : Nat) (hi : i < rs.length) :
    ∃ (hi' : i < Ls.length), rs[i] = .ok Ls[i] := by
  subst h
  simp only [List.length_map] at hi
  exact ⟨hi, by simp⟩

/-- **tree side**: the leaf ids listed under a node-valid node -/
theorem leafIdsFrom_ok (m : RawMap K V) (hc : CapsOK m) : ∀ (f : Nat) (n : NodeRef) (lo hi : Option K) (r : Bool) (L : List Nat),
    m.leafIdsFrom f n = .ok L → NodeOK m n lo hi r →
    LeavesOK m lo hi (r = false ∨ ∃ id, n = .branch id) L := by
  intro f
  induction f with
  | zero => intro n lo hi r L h _; simp [leafIdsFrom] at h
  | succ f ih =>
    intro n lo hi r L h hok
    cases hok with
    | leaf id l _ _ _ hg h1 h2 h3 h4 h5 h6 =>
      simp only [leafIdsFrom, Res.ok.injEq] at h
      subst h
      refine ⟨by simp, ?_, by simp, ?_, ?_⟩
      · intro x hx
        simp only [List.mem_singleton] at hx; subst hx
        refine ⟨l, hg, h1, h2, ?_⟩
        intro hs
        rcases hs with hs | ⟨_, hs⟩
        · exact h4 hs
        · cases hs
      · intro a ha x hx k hk
        simp only [List.mem_singleton] at hx; subst hx
        rw [keysOf_some m _ l hg] at hk
        exact h5 a ha k hk
      · intro b hb x hx k hk
        simp only [List.mem_singleton] at hx; subst hx
        rw [keysOf_some m _ l hg] at hk
        exact h6 b hb k hk
    | branch id b _ _ _ hg h1 h2 h3 h4 hch =>
      simp only [leafIdsFrom, hg] at h
      obtain ⟨Ls, hmap, rfl⟩ := concatRes_inv _ L h
      have hlen : Ls.length = b.children.length := by
        have := congrArg List.length hmap
        simpa using this.symm
      -- per-child facts
      have hchild : ∀ (i : Nat) (hi' : i < Ls.length),
          LeavesOK m (if i = 0 then lo else b.keys[i-1]?) (if i = b.keys.length then hi else b.keys[i]?) True Ls[i] := by
        intro i hi'
        have hic : i < b.children.length := by omega
        have hci : b.children[i]? = some b.children[i] := List.getElem?_eq_getElem hic
        have hnok := hch i _ hci
        have hget : (b.children.map (m.leafIdsFrom f))[i]'(by simpa using hic) = .ok Ls[i] := by
          obtain ⟨_, h'⟩ := map_ok_getElem _ Ls hmap i (by simpa using hic)
          exact h'
        simp only [List.getElem_map] at hget
        have := ih _ _ _ false _ hget hnok
        exact ⟨this.ne, fun x hx => by
            obtain ⟨l, a1, a2, a3, a4⟩ := this.good x hx
            exact ⟨l, a1, a2, a3, fun _ => a4 (Or.inl rfl)⟩,
          this.pw, this.lob, this.hib⟩
      have hn : 0 < Ls.length := by omega
      have hsorted := List.pairwise_iff_getElem.1 h2
      -- keys of child i lie below separator i, keys of child j ≥ 1 lie at or above separator j-1
      have hbelow : ∀ (i : Nat) (hi' : i < Ls.length) (hk : i < b.keys.length), ∀ x ∈ Ls[i], ∀ k ∈ keysOf m x, ord k < ord b.keys[i] := by
        intro i hi' hk x hx k hkx
        have := (hchild i hi').hib b.keys[i] (by
          have : i ≠ b.keys.length := by omega
          simp [this, List.getElem?_eq_getElem hk]) x hx k hkx
        exact this
      have habove : ∀ (j : Nat) (hj' : j < Ls.length) (hj0 : 0 < j), ∀ y ∈ Ls[j], ∀ k ∈ keysOf m y, ord (b.keys[j-1]'(by omega)) ≤ ord k := by
        intro j hj' hj0 y hy k hky
        have hjk : j - 1 < b.keys.length := by omega
        have := (hchild j hj').lob (b.keys[j-1]) (by
          have : j ≠ 0 := by omega
          simp [this, List.getElem?_eq_getElem hjk]) y hy k hky
        exact this
      have hsep_le : ∀ (i j : Nat) (hi' : i < b.keys.length) (hj' : j < b.keys.length), i ≤ j → ord b.keys[i] ≤ ord b.keys[j] := by
        intro i j hi' hj' hij
        by_cases he : i = j
        · subst he; exact Int.le_refl _
        · exact Int.le_of_lt (hsorted i j hi' hj' (by omega))
      refine ⟨?_, ?_, ?_, ?_, ?_⟩
      · -- non-empty
        intro hnil
        have h0 := (hchild 0 hn).ne
        apply h0
        have hmem : Ls[0] ∈ Ls := List.getElem_mem hn
        have := List.flatten_eq_nil_iff.1 hnil Ls[0] hmem
        exact this
      · intro x hx
        obtain ⟨Li, hLi, hxi⟩ := List.mem_flatten.1 hx
        obtain ⟨i, hi', rfl⟩ := List.getElem_of_mem hLi
        obtain ⟨l, a1, a2, a3, a4⟩ := (hchild i hi').good x hxi
        exact ⟨l, a1, a2, a3, fun _ => a4 trivial⟩
      · rw [List.pairwise_flatten]
        refine ⟨?_, ?_⟩
        · intro Li hLi
          obtain ⟨i, hi', rfl⟩ := List.getElem_of_mem hLi
          exact (hchild i hi').pw
        · rw [List.pairwise_iff_getElem]
          intro i j hi' hj' hij x hx y hy kx hkx ky hky
          have hik : i < b.keys.length := by omega
          have h1' := hbelow i hi' hik x hx kx hkx
          have h2' := habove j hj' (by omega) y hy ky hky
          have h3' := hsep_le i (j-1) hik (by omega) (by omega)
          omega
      · intro a ha x hx k hk
        obtain ⟨Li, hLi, hxi⟩ := List.mem_flatten.1 hx
        obtain ⟨i, hi', rfl⟩ := List.getElem_of_mem hLi
        by_cases hi0 : i = 0
        · subst hi0
          exact (hchild 0 hi').lob a (by simp [ha]) x hxi k hk
        · -- through a key of the first child: a ≤ k0 < keys[0] ≤ keys[i-1] ≤ k
          have hne0 := (hchild 0 hn).ne
          obtain ⟨x0, hx0⟩ : ∃ x0, x0 ∈ Ls[0] := by
            cases h0 : Ls[0] with
            | nil => exact absurd h0 hne0
            | cons x0 _ => exact ⟨x0, List.mem_cons_self⟩
          obtain ⟨k0, hk0⟩ := (hchild 0 hn).exists_key hc x0 hx0
          have hk1 : 0 < b.keys.length := by omega
          have e1 := (hchild 0 hn).lob a (by simp [ha]) x0 hx0 k0 hk0
          have e2 := hbelow 0 hn hk1 x0 hx0 k0 hk0
          have e3 := habove i hi' (by omega) x hxi k hk
          have e4 := hsep_le 0 (i-1) hk1 (by omega) (by omega)
          omega
      · intro c hcb x hx k hk
        obtain ⟨Li, hLi, hxi⟩ := List.mem_flatten.1 hx
        obtain ⟨i, hi', rfl⟩ := List.getElem_of_mem hLi
        by_cases hil : i = b.keys.length
        · exact (hchild i hi').hib c (by simp [hil, hcb]) x hxi k hk
        · -- through a key of the last child: k < keys[i] ≤ keys[n-1] ≤ kl < c
          have hlast : b.keys.length < Ls.length := by omega
          have hnel := (hchild b.keys.length hlast).ne
          obtain ⟨xl, hxl⟩ : ∃ xl, xl ∈ Ls[b.keys.length] := by
            cases h0 : Ls[b.keys.length] with
            | nil => exact absurd h0 hnel
            | cons x0 _ => exact ⟨x0, List.mem_cons_self⟩
          obtain ⟨kl, hkl⟩ := (hchild b.keys.length hlast).exists_key hc xl hxl
          have hik : i < b.keys.length := by omega
          have e1 := (hchild b.keys.length hlast).hib c (by simp [hcb]) xl hxl kl hkl
          have e2 := hbelow i hi' hik x hxi k hk
          have e3 := habove b.keys.length hlast (by omega) xl hxl kl hkl
          have e4 := hsep_le i (b.keys.length - 1) hik (by omega) (by omega)
          omega

end BPT.Rust
