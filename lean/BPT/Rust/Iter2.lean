import BPT.Rust.Iter
/-
  Draining a positioned iterator; the chain of a valid state; `items()` & co on
  the arena view equal the abstraction.
-/
namespace BPT.Rust
open BPT Tree RawMap
variable {K V : Type} [Keyed K]

theorem drain_pos (cfg : Cfg) (m : RawMap K V) (cap : Nat) (fuel : Nat) :
    ∀ (N : Nat) (st : ItState K V) (R : List (K × V)) (n : Nat), Pos m cap st R n → n + 1 ≤ fuel →
      (R.takeWhile (fun kv => ! beyondEnd cfg st kv.1)).length < N →
      drain (itemNext cfg m fuel) N st = .ok (R.takeWhile (fun kv => ! beyondEnd cfg st kv.1)) := by
  intro N
  induction N with
  | zero => intro st R n _ _ hN; omega
  | succ N ih =>
    intro st R n hp hf hN
    obtain ⟨out, st', he, hse, hres⟩ := itemNext_pos cfg m cap n st R fuel hp hf
    unfold drain
    rw [he]
    cases R with
    | nil =>
      simp only [] at hres
      rw [hres.1]; rfl
    | cons kv R' =>
      simp only [] at hres
      by_cases hb : beyondEnd cfg st kv.1 = true
      · rw [if_pos hb] at hres
        rw [hres.1]
        simp [List.takeWhile_cons, hb]
      · rw [if_neg hb] at hres
        obtain ⟨h1, n', h2, h3⟩ := hres
        rw [h1]
        have hb' : beyondEnd cfg st kv.1 = false := by cases hx : beyondEnd cfg st kv.1 <;> simp_all
        have hcong : ∀ (L : List (K × V)), L.takeWhile (fun kv => ! beyondEnd cfg st' kv.1) = L.takeWhile (fun kv => ! beyondEnd cfg st kv.1) := by
          intro L; congr 1; funext x; rw [beyondEnd_congr cfg st' st hse]
        simp only [List.takeWhile_cons, hb', Bool.not_false, if_true] at hN ⊢
        have := ih st' R' n' h2 (by omega) (by rw [hcong]; simp only [List.length_cons] at hN; omega)
        rw [this, hcong]; rfl

/-- the leaves of a valid state form a stored chain -/
theorem rawChain_of (m : RawMap K V) (cap : Nat) : ∀ (L : List (Leaf K V)),
    (∀ l ∈ L, m.getLeaf l.id = some (leafToRaw cap l) ∧ l.keys.length = l.vals.length ∧ l.id ≠ nullId) →
    ChainL (L.map link) nullId → RawChain m cap L (firstOf (L.map link) nullId) := by
  intro L
  induction L with
  | nil => intro _ _; exact RawChain.nil
  | cons l rest ih =>
    intro hall hch
    have hl := hall l List.mem_cons_self
    have hch' : l.next = firstOf (rest.map link) nullId ∧ ChainL (rest.map link) nullId := hch
    exact RawChain.cons l rest _ hl.1 hl.2.1 hl.2.2 hch'.1 (ih (fun x hx => hall x (List.mem_cons_of_mem _ hx)) hch'.2)

theorem leaves_lens : ∀ (h : Nat) (t : Tree K V h) (lo hi : Option Int), Ordered h t lo hi →
    ∀ l ∈ leaves h t, l.keys.length = l.vals.length := by
  intro h
  induction h with
  | zero => intro t lo hi ho l hl; simp only [Tree.leaves, List.mem_singleton] at hl; subst hl; exact ho.2.1
  | succ h ih =>
    intro t lo hi ho l hl
    obtain ⟨_, _, _, hc⟩ := ho
    simp only [Tree.leaves, List.mem_flatMap] at hl
    obtain ⟨c, hcm, hl⟩ := hl
    obtain ⟨i, hi', hci⟩ := List.getElem_of_mem hcm
    exact ih c _ _ (hc i c (by rw [List.getElem?_eq_getElem hi', hci])) l hl

theorem leaves_embedded (m : RawMap K V) (cap : Nat) : ∀ (h : Nat) (t : Tree K V h), Embeds m cap h t →
    ∀ l ∈ leaves h t, m.getLeaf l.id = some (leafToRaw cap l) := by
  intro h
  induction h with
  | zero => intro t he l hl; simp only [Tree.leaves, List.mem_singleton] at hl; subst hl; exact he
  | succ h ih =>
    intro t he l hl
    simp only [Tree.leaves, List.mem_flatMap] at hl
    obtain ⟨c, hcm, hl⟩ := hl
    exact ih c (he.2 c hcm) l hl

theorem firstLeafOf_head : ∀ (h : Nat) (t : Tree K V h) (lo hi : Option Int), Ordered h t lo hi →
    firstLeafOf h t = (leaves h t).head? := by
  intro h
  induction h with
  | zero => intro t _ _ _; rfl
  | succ h ih =>
    intro t lo hi ho
    obtain ⟨_, hlen, _, hc⟩ := ho
    cases hch : (Branch.children t) with
    | nil => rw [hch] at hlen; simp at hlen
    | cons c rest =>
      have hco := hc 0 c (by rw [hch]; rfl)
      simp only [firstLeafOf, hch]
      rw [ih c _ _ hco]
      have hne : Tree.leaves h c ≠ [] := by
        intro hn
        have := links_ne_nil h c _ _ hco
        exact this (by simp [links, hn])
      show _ = ((Branch.children t).flatMap (Tree.leaves h)).head?
      rw [hch, List.flatMap_cons]
      cases hl : Tree.leaves h c with
      | nil => exact absurd hl hne
      | cons x xs => rfl

/-- the chain of a valid state on its arena view -/
theorem view_chain (s : RState K V) (hs : SInv s) (hsm : Small s) :
    RawChain (view s) s.cap (Tree.leaves s.height s.root) (firstOf (links s.height s.root) nullId) := by
  have he := view_embeds s hs hsm
  have fl := hs.leafIds.facts
  rw [leafIds_eq_leaves] at fl
  apply rawChain_of
  · intro l hl
    refine ⟨leaves_embedded (view s) s.cap s.height s.root he l hl, leaves_lens s.height s.root none none hs.inv.ord l hl, ?_⟩
    have := fl.2.2.1 l.id (List.mem_append_left _ (List.mem_map_of_mem hl))
    have := hsm.1
    omega
  · exact hs.chain

theorem RawChain.inv_cons {m : RawMap K V} {cap : Nat} {l : Leaf K V} {rest : List (Leaf K V)} {x : Nat}
    (h : RawChain m cap (l :: rest) x) :
    m.getLeaf l.id = some (leafToRaw cap l) ∧ l.keys.length = l.vals.length ∧ l.id ≠ nullId ∧ RawChain m cap rest l.next := by
  cases h with
  | cons _ _ nxt h1 h2 h3 h4 h5 => exact ⟨h1, h2, h3, h4 ▸ h5⟩

theorem sum_le_sum_pointwise {α : Type} (f g : α → Nat) (L : List α) (h : ∀ x ∈ L, f x ≤ g x) :
    (L.map f).sum ≤ (L.map g).sum := by
  induction L with
  | nil => simp
  | cons a L ih =>
    have h1 := h a List.mem_cons_self
    have h2 := ih (fun x hx => h x (List.mem_cons_of_mem _ hx))
    simp only [List.map_cons, List.sum_cons]; omega

theorem sum_map_erase (f : Nat → Nat) (B : List Nat) (a : Nat) (h : a ∈ B) :
    (B.map f).sum = f a + ((B.erase a).map f).sum := by
  induction B with
  | nil => cases h
  | cons b B ih =>
    by_cases hb : b = a
    · subst hb; simp
    · have hm : a ∈ B := by rcases List.mem_cons.1 h with h | h; exact absurd h.symm hb; exact h
      have : (b == a) = false := by simp [hb]
      simp only [List.map_cons, List.sum_cons, List.erase_cons, this]
      rw [ih hm]; simp only [Bool.false_eq_true, if_false, List.map_cons, List.sum_cons]; omega

theorem sum_le_of_nodup_subset (f : Nat → Nat) : ∀ (A B : List Nat), A.Nodup → (∀ a ∈ A, a ∈ B) →
    (A.map f).sum ≤ (B.map f).sum := by
  intro A
  induction A with
  | nil => intro B _ _; simp
  | cons a A ih =>
    intro B hnd hsub
    have ha := hsub a List.mem_cons_self
    rw [sum_map_erase f B a ha]
    have hnd' := List.nodup_cons.1 hnd
    have := ih (B.erase a) hnd'.2 (by
      intro x hx
      have hxa : x ≠ a := by intro he; exact hnd'.1 (he ▸ hx)
      exact (List.mem_erase_of_ne hxa).2 (hsub x (List.mem_cons_of_mem _ hx)))
    simp only [List.map_cons, List.sum_cons]; omega

/-- the drain bound of the view exceeds the number of entries -/
theorem itemBound_ok (s : RState K V) (hs : SInv s) (hsm : Small s) : (abs s).length < (view s).itemBound := by
  have fl := hs.leafIds.facts
  rw [leafIds_eq_leaves] at fl
  have hnd : ((Tree.leaves s.height s.root).map (·.id)).Nodup := List.Nodup.sublist (List.sublist_append_left _ _) fl.2.1
  have hlt : ∀ l ∈ Tree.leaves s.height s.root, l.id < s.al.leaf.len :=
    fun l hl => fl.2.2.1 _ (List.mem_append_left _ (List.mem_map_of_mem hl))
  -- per-slot weight
  let g : Nat → Nat := fun i => match (Tree.leaves s.height s.root).find? (fun l => l.id == i) with
    | some l => l.keys.length + 1
    | none => 1
  have hstorage : (view s).itemBound = ((List.range s.al.leaf.len).map g).sum + 1 := by
    unfold RawMap.itemBound view viewLeaves
    simp only [List.map_map]
    congr 2
    apply List.map_congr_left
    intro i _
    simp only [Function.comp, g]
    cases (Tree.leaves s.height s.root).find? (fun l => l.id == i) <;> simp [leafToRaw, dfltLeaf]
  have hleaves : (abs s).length ≤ (((Tree.leaves s.height s.root).map (·.id)).map g).sum := by
    unfold abs toList
    rw [List.length_flatMap, List.map_map]
    apply sum_le_sum_pointwise
    intro l hl
    have h1 := find?_of_nodup (fun (x : Leaf K V) => x.id) _ l hl hnd
    show l.entries.length ≤ g l.id
    simp only [g, h1]
    simp [Leaf.entries, List.length_zip]; omega
  have hsum := sum_le_of_nodup_subset g ((Tree.leaves s.height s.root).map (·.id)) (List.range s.al.leaf.len) hnd (by
    intro a ha
    obtain ⟨l, hl, rfl⟩ := List.mem_map.1 ha
    exact List.mem_range.2 (hlt l hl))
  omega

/-- **C02 core**: `items()` on the arena view yields exactly the abstraction (any `Cfg`: on valid
    maps the unchecked reads are guarded either way) -/
theorem view_items (cfg : Cfg) (s : RState K V) (hs : SInv s) (hsm : Small s) : (view s).items cfg = .ok (abs s) := by
  have he := view_embeds s hs hsm
  have hf := fuel_ok s hs
  have hch := view_chain s hs hsm
  have hfl := firstLeafOf_head s.height s.root none none hs.inv.ord
  unfold RawMap.items RawMap.itemsStart RawMap.firstLeaf
  rw [view_root, firstLeafFrom_spec (view s) s.cap s.height s.root _ he hf, hfl]
  cases hL : Tree.leaves s.height s.root with
  | nil =>
    exfalso
    exact links_ne_nil s.height s.root none none hs.inv.ord (by simp [links, hL])
  | cons l0 rest =>
    rw [hL] at hch
    simp only [List.head?_cons, Option.map_some, Res.map_ok, Res.bind_ok, Option.bind_some]
    obtain ⟨hget, hlens, hne, hrest⟩ := hch.inv_cons
    rw [hget]
    have hpos : Pos (view s) s.cap ({ leaf := some (leafToRaw s.cap l0), idx := 0 } : ItState K V)
        (l0.entries.drop 0 ++ rest.flatMap Leaf.entries) rest.length :=
      Pos.at _ l0 rest l0.next rest.length rfl hlens hrest rfl (Nat.zero_le _) rfl
    have habs : abs s = l0.entries.drop 0 ++ rest.flatMap Leaf.entries := by
      simp [abs, toList, hL]
    have hnb : ∀ (L : List (K × V)), L.takeWhile (fun kv => ! beyondEnd cfg ({ leaf := some (leafToRaw s.cap l0), idx := 0 } : ItState K V) kv.1) = L := by
      intro L
      have hfun : (fun (kv : K × V) => ! beyondEnd cfg ({ leaf := some (leafToRaw s.cap l0), idx := 0 } : ItState K V) kv.1) = fun _ => true := by
        funext kv; simp [beyondEnd]
      rw [hfun]
      induction L with
      | nil => rfl
      | cons x xs ih => simp [List.takeWhile_cons, ih]
    have hleaves_le : rest.length + 1 ≤ (view s).fuel := by
      have fl := hs.leafIds.facts.1
      rw [leafIds_eq_leaves, hL] at fl
      simp only [List.map_cons, List.length_cons, List.length_map] at fl
      unfold RawMap.fuel view viewLeaves
      simp only [List.length_map, List.length_range]
      omega
    have := drain_pos cfg (view s) s.cap (view s).fuel (view s).itemBound _ _ rest.length hpos hleaves_le (by
      rw [hnb, ← habs]; exact itemBound_ok s hs hsm)
    rw [this, hnb, habs]

end BPT.Rust

namespace BPT.Rust
open BPT Tree RawMap
variable {K V : Type} [Keyed K]

/-- a fresh `ItemIterator` on the view of a valid state is positioned at the whole abstraction -/
theorem view_start_pos (s : RState K V) (hs : SInv s) (hsm : Small s) :
    ∃ st n, (view s).itemsStart = .ok st ∧ Pos (view s) s.cap st (abs s) n ∧ n + 1 ≤ (view s).fuel ∧
      st.endKey = none ∧ st.endBound = none := by
  have he := view_embeds s hs hsm
  have hf := fuel_ok s hs
  have hch := view_chain s hs hsm
  have hfl := firstLeafOf_head s.height s.root none none hs.inv.ord
  unfold RawMap.itemsStart RawMap.firstLeaf
  rw [view_root, firstLeafFrom_spec (view s) s.cap s.height s.root _ he hf, hfl]
  cases hL : Tree.leaves s.height s.root with
  | nil =>
    exfalso
    exact links_ne_nil s.height s.root none none hs.inv.ord (by simp [links, hL])
  | cons l0 rest =>
    rw [hL] at hch
    obtain ⟨hget, hlens, hne, hrest⟩ := hch.inv_cons
    have habs : abs s = l0.entries.drop 0 ++ rest.flatMap Leaf.entries := by
      simp [abs, toList, hL]
    have hleaves_le : rest.length + 1 ≤ (view s).fuel := by
      have fl := hs.leafIds.facts.1
      rw [leafIds_eq_leaves, hL] at fl
      simp only [List.map_cons, List.length_cons, List.length_map] at fl
      unfold RawMap.fuel view viewLeaves
      simp only [List.length_map, List.length_range]
      omega
    refine ⟨{ leaf := some (leafToRaw s.cap l0), idx := 0 }, rest.length, ?_, ?_, hleaves_le, rfl, rfl⟩
    · simp only [List.head?_cons, Option.map_some, Res.map_ok, Option.bind_some, hget]
    · rw [habs]
      exact Pos.at _ l0 rest l0.next rest.length rfl hlens hrest rfl (Nat.zero_le _) rfl

/-- `first()` -/
theorem view_first (cfg : Cfg) (s : RState K V) (hs : SInv s) (hsm : Small s) : (view s).first cfg = .ok ((abs s).head?) := by
  obtain ⟨st, n, he, hp, hf, e1, e2⟩ := view_start_pos s hs hsm
  obtain ⟨out, st', hn, _, hres⟩ := itemNext_pos cfg (view s) s.cap n st (abs s) _ hp hf
  unfold RawMap.first
  rw [he]
  simp only [Res.bind_ok, hn, Res.map_ok]
  cases hR : abs s with
  | nil => rw [hR] at hres; rw [hres.1]; rfl
  | cons kv R' =>
    rw [hR] at hres
    have : beyondEnd cfg st kv.1 = false := by simp [beyondEnd, e1, e2]
    simp only [this, Bool.false_eq_true, if_false] at hres
    rw [hres.1]; rfl

end BPT.Rust
