import BPT.Rust.InsertLeaf
namespace BPT.Rust
open BPT Tree
variable {K V : Type} [Keyed K]

theorem entries_split (E : List K) (Ev : List V) (m : Nat) :
    (E.take m).zip (Ev.take m) ++ (E.drop m).zip (Ev.drop m) = E.zip Ev := by
  have : (E.take m).zip (Ev.take m) = (E.zip Ev).take m := by simp only [List.zip, List.take_zipWith]
  rw [this]
  have : (E.drop m).zip (Ev.drop m) = (E.zip Ev).drop m := by simp only [List.zip, List.drop_zipWith]
  rw [this, List.take_append_drop]

/-- the shape every leaf split has: the would-be contents `E/Ev` cut at `m` -/
theorem leaf_cut_spec (E : List K) (Ev : List V) (m : Nat) (lo hi : Option Int) (sep : K)
    (hs : KSorted E) (hl : E.length = Ev.length) (hb : ∀ x ∈ E, InB lo hi (ord x))
    (hsep : (E.drop m).head? = some sep) (id₁ id₂ n₁ n₂ : Nat) :
    Ordered 0 ({ id := id₁, keys := E.take m, vals := Ev.take m, next := n₁ } : Leaf K V) lo (some (ord sep)) ∧
    Ordered 0 ({ id := id₂, keys := E.drop m, vals := Ev.drop m, next := n₂ } : Leaf K V) (some (ord sep)) hi ∧
    InB lo hi (ord sep) := by
  obtain ⟨h1, h2, h3⟩ := ksorted_take_drop E m hs
  have hsepmem : sep ∈ E.drop m := List.mem_of_mem_head? hsep
  refine ⟨⟨h1, by simp [hl], ?_⟩, ⟨h2, by simp [hl], ?_⟩, hb sep (List.mem_of_mem_drop hsepmem)⟩
  · intro x hx
    refine ⟨(hb x (List.mem_of_mem_take hx)).1, ?_⟩
    intro u hu; cases hu; exact h3 x hx sep hsepmem
  · intro x hx
    refine ⟨?_, (hb x (List.mem_of_mem_drop hx)).2⟩
    intro u hu; cases hu
    -- sep is the head of the sorted right half
    cases hd : E.drop m with
    | nil => rw [hd] at hx; simp at hx
    | cons a as =>
      rw [hd] at hx hsep h2
      simp at hsep; subst hsep
      rcases List.mem_cons.1 hx with rfl | hx
      · exact Int.le_refl _
      · exact Int.le_of_lt ((List.pairwise_cons.1 h2).1 x hx)

end BPT.Rust
