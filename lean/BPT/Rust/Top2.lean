import BPT.Rust.Top
/- Map-level readers and the `get_mut` write against `SMap`. -/
namespace BPT
variable {K V : Type} [Keyed K]

namespace SMap
/-- replace the value stored under `k` (if any); the key object stays -/
def adjust : List (K × V) → K → V → List (K × V)
  | [], _, _ => []
  | (k', v') :: m, k, v => if ord k' = ord k then (k', v) :: m else (k', v') :: adjust m k v

theorem adjust_of_ne (B : List (K × V)) (k : K) (v : V) (h : ∀ p ∈ B, ord p.1 ≠ ord k) : adjust B k v = B := by
  induction B with
  | nil => rfl
  | cons b B ih =>
    obtain ⟨bk, bv⟩ := b
    have hb := h (bk, bv) List.mem_cons_self
    simp only [adjust]
    rw [if_neg hb, ih (fun p hp => h p (List.mem_cons_of_mem _ hp))]

theorem adjust_append_left (A R : List (K × V)) (k : K) (v : V) (h : ∀ p ∈ A, ord p.1 < ord k) :
    adjust (A ++ R) k v = A ++ adjust R k v := by
  induction A with
  | nil => rfl
  | cons a A ih =>
    obtain ⟨ak, av⟩ := a
    have ha := h (ak, av) List.mem_cons_self
    have ih := ih (fun p hp => h p (List.mem_cons_of_mem _ hp))
    simp only [List.cons_append, adjust]
    have : ¬ ord ak = ord k := by simp at ha; omega
    rw [if_neg this, ih]

theorem adjust_append_right (M B : List (K × V)) (k : K) (v : V) (h : ∀ p ∈ B, ord k < ord p.1) :
    adjust (M ++ B) k v = adjust M k v ++ B := by
  induction M with
  | nil =>
    simp only [List.nil_append, adjust]
    exact adjust_of_ne B k v (fun p hp => by have := h p hp; omega)
  | cons m M ih =>
    obtain ⟨mk, mv⟩ := m
    simp only [List.cons_append, adjust]
    split
    · rfl
    · simp [ih]

theorem adjust_zip (ks : List K) (vs : List V) (k : K) (v : V) (hs : KSorted ks) (hl : ks.length = vs.length) :
    adjust (ks.zip vs) k v =
      if (ks[lowerBound ks k]?).map ord = some (ord k) then ks.zip (setAt vs (lowerBound ks k) v) else ks.zip vs := by
  induction ks generalizing vs with
  | nil => cases vs <;> simp [adjust, lowerBound_nil]
  | cons a as ih =>
    cases vs with
    | nil => simp at hl
    | cons b bs =>
      have hs' := List.pairwise_cons.1 hs
      have hl' : as.length = bs.length := by simpa using hl
      rw [lowerBound_cons]
      simp only [List.zip_cons_cons, adjust]
      by_cases h1 : ord a < ord k
      · have hne : ¬ ord a = ord k := by omega
        simp only [hne, h1, if_true, if_false, List.getElem?_cons_succ]
        rw [ih bs hs'.2 hl']
        split <;> simp [setAt]
      · simp only [h1, if_false, List.getElem?_cons_zero, Option.map_some, Option.some.injEq]
        by_cases h2 : ord a = ord k
        · simp [h2, setAt]
        · simp only [h2, if_false]
          congr 1
          exact adjust_of_ne _ k v (fun p hp => by
            have := hs'.1 p.1 (List.of_mem_zip hp).1; omega)

end SMap
end BPT

namespace BPT.Rust
open BPT Tree
variable {K V : Type} [Keyed K]

/-! ### get -/

theorem getRec_spec : ∀ (h : Nat) (t : Tree K V h) (lo hi : Option Int) (k : K),
    Ordered h t lo hi → getRec h t k = SMap.lookup (toList h t) k := by
  intro h
  induction h with
  | zero =>
    intro t lo hi k ho
    obtain ⟨hs, hl, hb⟩ := ho
    rw [toList_zero]
    simp only [Leaf.entries]
    rw [SMap.lookup_zip _ _ k hs hl]
    unfold getRec
    simp only []
    cases hk : (t : Leaf K V).keys[lowerBound (t : Leaf K V).keys k]? with
    | none => rfl
    | some k' =>
      have hlt : lowerBound (t : Leaf K V).keys k < (t : Leaf K V).keys.length := lt_of_getElem?_eq_some hk
      have hltv : lowerBound (t : Leaf K V).keys k < (t : Leaf K V).vals.length := by omega
      simp only [List.getElem?_eq_getElem hltv, Option.map_some]
  | succ h ih =>
    intro t lo hi k ho
    have ho' := ho
    obtain ⟨hs, hlen, hkb, hc⟩ := ho
    have hle := upperBound_le (Branch.keys t) k
    have hic : upperBound (Branch.keys t) k < (Branch.children t).length := by omega
    have hci : (Branch.children t)[upperBound (Branch.keys t) k]? = some (Branch.children t)[upperBound (Branch.keys t) k] :=
      List.getElem?_eq_getElem hic
    generalize hcdef : (Branch.children t)[upperBound (Branch.keys t) k] = c at hci
    have hsplit := flatMap_split (toList h) (Branch.children t) _ c hci
    have hA := left_lt h t lo hi ho' k
    have hB := right_gt h t lo hi ho' k
    unfold getRec
    simp only [hci]
    rw [ih c _ _ k (hc _ c hci), toList_succ, hsplit, List.append_assoc,
        SMap.lookup_append_left _ _ _ hA, SMap.lookup_append_right _ _ _ hB]

theorem get_spec (s : RState K V) (k : K) (hi : Inv s) : get s k = SMap.lookup (abs s) k :=
  getRec_spec s.height s.root none none k hi.ord

/-! ### len -/

theorem lenRec_spec : ∀ (h : Nat) (t : Tree K V h) (lo hi : Option Int), Ordered h t lo hi → lenRec h t = (toList h t).length := by
  intro h
  induction h with
  | zero =>
    intro t lo hi ho
    rw [toList_zero]
    simp only [lenRec, Leaf.entries, List.length_zip]
    have : (t : Leaf K V).keys.length = (t : Leaf K V).vals.length := ho.2.1
    omega
  | succ h ih =>
    intro t lo hi ho
    obtain ⟨hs, hlen, hkb, hc⟩ := ho
    rw [toList_succ, List.length_flatMap]
    unfold lenRec
    congr 1
    apply List.map_congr_left
    intro c hcm
    obtain ⟨i, hi', hci⟩ := List.getElem_of_mem hcm
    have hci' : (Branch.children t)[i]? = some c := by rw [List.getElem?_eq_getElem hi', hci]
    exact ih c _ _ (hc i c hci')

theorem len_spec (s : RState K V) (hi : Inv s) : len s = (abs s).length :=
  lenRec_spec s.height s.root none none hi.ord

/-! ### a write through `get_mut` -/

theorem setRec_spec (cap : Nat) : ∀ (h : Nat) (t : Tree K V h) (lo hi : Option Int) (k : K) (v : V) (m : Nat),
    Ordered h t lo hi → Sized cap h t m →
    Ordered h (setRec h t k v) lo hi ∧ Sized cap h (setRec h t k v) m ∧
    toList h (setRec h t k v) = SMap.adjust (toList h t) k v := by
  intro h
  induction h with
  | zero =>
    intro t lo hi k v m ho hsz
    have ho' := ho
    obtain ⟨hs, hl, hb⟩ := ho
    have hadj := SMap.adjust_zip (t : Leaf K V).keys (t : Leaf K V).vals k v hs hl
    rw [toList_zero, toList_zero]
    simp only [Leaf.entries]
    unfold setRec
    simp only []
    cases hk : (t : Leaf K V).keys[lowerBound (t : Leaf K V).keys k]? with
    | none =>
      rw [hk] at hadj
      simp only [Option.map_none] at hadj
      exact ⟨ho', hsz, by rw [hadj]; simp⟩
    | some k' =>
      have hlt : lowerBound (t : Leaf K V).keys k < (t : Leaf K V).keys.length := lt_of_getElem?_eq_some hk
      have hltv : lowerBound (t : Leaf K V).keys k < (t : Leaf K V).vals.length := by omega
      rw [hk] at hadj
      by_cases heq : ord k' = ord k
      · simp only [heq, hltv, and_self, if_true]
        simp only [Option.map_some, heq, if_true] at hadj
        refine ⟨⟨hs, ?_, hb⟩, hsz, hadj.symm⟩
        show (t : Leaf K V).keys.length = (setAt (t : Leaf K V).vals _ v).length
        rw [length_setAt _ _ _ hltv]; exact hl
      · simp only [heq, false_and, if_false]
        have hne : ¬ (some (ord k') = some (ord k)) := by simpa using heq
        simp only [Option.map_some, hne, if_false] at hadj
        exact ⟨ho', hsz, hadj.symm⟩
  | succ h ih =>
    intro t lo hi k v m ho hsz
    have ho' := ho
    obtain ⟨hs, hlen, hkb, hc⟩ := ho
    obtain ⟨hz1, hz2, hz3⟩ := hsz
    have hle := upperBound_le (Branch.keys t) k
    have hic : upperBound (Branch.keys t) k < (Branch.children t).length := by omega
    have hci : (Branch.children t)[upperBound (Branch.keys t) k]? = some (Branch.children t)[upperBound (Branch.keys t) k] :=
      List.getElem?_eq_getElem hic
    generalize hcdef : (Branch.children t)[upperBound (Branch.keys t) k] = c at hci
    have hcm : c ∈ Branch.children t := List.mem_of_getElem? hci
    obtain ⟨h1, h2, h3⟩ := ih c _ _ k v (cap/2) (hc _ c hci) (hz3 c hcm)
    have hsplit := flatMap_split (toList h) (Branch.children t) _ c hci
    have hA := left_lt h t lo hi ho' k
    have hB := right_gt h t lo hi ho' k
    unfold setRec
    simp only [hci]
    refine ⟨ordered_replace1 h t lo hi _ _ ho' hic h1, ⟨hz1, hz2, ?_⟩, ?_⟩
    · intro x hx
      rcases mem_setAt _ _ _ _ hx with rfl | hx
      · exact h2
      · exact hz3 x hx
    · rw [toList_succ, toList_succ]
      show (setAt (Branch.children t) _ _).flatMap (toList h) = _
      rw [flatMap_setAt, h3, hsplit]
      conv => rhs; rw [List.append_assoc, SMap.adjust_append_left _ _ _ _ hA, SMap.adjust_append_right _ _ _ _ hB]
      simp only [List.append_assoc]

theorem getMutWrite_spec (s : RState K V) (k : K) (v : V) (hi : Inv s) :
    Inv (getMutWrite s k v).1 ∧ (getMutWrite s k v).2 = (SMap.lookup (abs s) k).map (·.2) ∧
    abs (getMutWrite s k v).1 = SMap.adjust (abs s) k v ∧ (getMutWrite s k v).1.cap = s.cap := by
  unfold getMutWrite
  have hg := get_spec s k hi
  cases hget : get s k with
  | none =>
    rw [hget] at hg
    refine ⟨hi, by rw [← hg]; rfl, ?_, rfl⟩
    -- nothing stored under k: adjust is the identity
    symm
    apply SMap.adjust_of_ne
    intro p hp hpe
    have : (SMap.lookup (abs s) k).isSome := by
      unfold SMap.lookup
      rw [List.find?_isSome]
      exact ⟨p, hp, by simp [hpe]⟩
    rw [← hg] at this; simp at this
  | some p =>
    rw [hget] at hg
    obtain ⟨pk, pv⟩ := p
    obtain ⟨h1, h2, h3⟩ := setRec_spec s.cap s.height s.root none none k v _ hi.ord hi.sz
    exact ⟨⟨hi.cap4, h1, h2⟩, by rw [← hg]; rfl, h3, rfl⟩

end BPT.Rust
