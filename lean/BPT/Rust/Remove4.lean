import BPT.Rust.Remove3
/-
  Remove, part 4: the recursion.  For every height, capacity ≥ 4 and key:
  `removeRec` does not panic, returns the erased value, the entry list becomes
  `SMap.erase`, order and occupancy are kept (the node itself may end one key
  short, which is what the `under` flag reports).
-/
namespace BPT.Rust
open BPT Tree
variable {K V : Type} [Keyed K]

structure RemPost (cap h : Nat) (t : Tree K V h) (lo hi : Option Int) (k : K) (m : Nat) (r : RemOut K V h) : Prop where
  old : r.old = (SMap.lookup (toList h t) k).map (·.2)
  list : toList h r.t = SMap.erase (toList h t) k
  ord : Ordered h r.t lo hi
  same : r.old = none → r.t = t ∧ r.under = false
  sz : Sized cap h r.t (m - 1)
  under : r.old.isSome → r.under = decide (nkeys h r.t < cap / 2)
  nk : nkeys h t ≤ nkeys h r.t + 1
  id : rootId h r.t = rootId h t

theorem sized_raise (cap : Nat) : ∀ (h : Nat) (t : Tree K V h) (m m' : Nat), Sized cap h t m → m' ≤ nkeys h t → Sized cap h t m'
  | 0, _, _, _, hs, hm => ⟨hm, hs.2⟩
  | _+1, _, _, _, hs, hm => ⟨hm, hs.2.1, hs.2.2⟩

theorem removeRec_spec (cap : Nat) (hcap : 4 ≤ cap) :
    ∀ (h : Nat) (t : Tree K V h) (lo hi : Option Int) (k : K) (al : Allocs) (m : Nat),
      Ordered h t lo hi → Sized cap h t m → (h = 0 ∨ 1 ≤ m) →
      ∃ r al', removeRec cap h t k al = some (r, al') ∧ RemPost cap h t lo hi k m r := by
  intro h
  induction h with
  | zero =>
    intro t lo hi k al m ho hsz _
    obtain ⟨r, he, h1, h2, h3, h4, h5, h6, h7⟩ := removeLeaf_spec cap (t : Leaf K V) lo hi k ho
    refine ⟨r, al, by simp [removeRec, he], ?_⟩
    have hsz' : m ≤ (t : Leaf K V).keys.length ∧ (t : Leaf K V).keys.length ≤ cap := hsz
    refine ⟨by rw [toList_zero]; exact h1, by rw [toList_zero, toList_zero]; exact h2, h3, h4, ?_, ?_, ?_, h6⟩
    · cases ho' : r.old with
      | none => rw [(h4 ho').1]; exact Sized.mono cap 0 t m (m-1) (by omega) hsz
      | some v =>
        have := (h5 (by simp [ho'])).1
        exact ⟨by show m - 1 ≤ (r.t : Leaf K V).keys.length; omega, by show (r.t : Leaf K V).keys.length ≤ cap; omega⟩
    · intro hs; exact (h5 hs).2
    · cases ho' : r.old with
      | none => rw [(h4 ho').1]; omega
      | some v =>
        have := (h5 (by simp [ho'])).1
        show (t : Leaf K V).keys.length ≤ (r.t : Leaf K V).keys.length + 1
        omega
  | succ h ih =>
    intro t lo hi k al m ho hsz hm
    have ho' := ho
    obtain ⟨hs, hlen, hkb, hc⟩ := ho
    obtain ⟨hz1, hz2, hz3⟩ := hsz
    have hm1 : 1 ≤ m := by rcases hm with h0 | h0; omega; exact h0
    have hle := upperBound_le (Branch.keys t) k
    have hic : upperBound (Branch.keys t) k < (Branch.children t).length := by omega
    have hci : (Branch.children t)[upperBound (Branch.keys t) k]? = some (Branch.children t)[upperBound (Branch.keys t) k] :=
      List.getElem?_eq_getElem hic
    generalize hcdef : (Branch.children t)[upperBound (Branch.keys t) k] = c at hci
    have hcm : c ∈ Branch.children t := List.mem_of_getElem? hci
    have hco := hc _ c hci
    obtain ⟨r, al1, he, hr⟩ := ih c _ _ k al (cap/2) hco (hz3 c hcm) (Or.inr (by omega))
    -- decomposition of the entry list around the routed child
    have hsplit := flatMap_split (toList h) (Branch.children t) _ c hci
    have hA := left_lt h t lo hi ho' k
    have hB := right_gt h t lo hi ho' k
    have hlook : SMap.lookup (toList (h+1) t) k = SMap.lookup (toList h c) k := by
      rw [toList_succ, hsplit, List.append_assoc, SMap.lookup_append_left _ _ _ hA, SMap.lookup_append_right _ _ _ hB]
    have herase : SMap.erase (toList (h+1) t) k =
        ((Branch.children t).take (upperBound (Branch.keys t) k)).flatMap (toList h) ++ SMap.erase (toList h c) k ++
          ((Branch.children t).drop (upperBound (Branch.keys t) k + 1)).flatMap (toList h) := by
      rw [toList_succ, hsplit, List.append_assoc, SMap.erase_append_left _ _ _ hA, SMap.erase_append_right _ _ _ hB, List.append_assoc]
    unfold removeRec
    simp only [hci, he]
    -- the branch with the routed child replaced
    have hb1o : Ordered (h+1) ({ (t : Branch K (Tree K V h)) with children := setAt (Branch.children t) (upperBound (Branch.keys t) k) r.t } : Branch K (Tree K V h)) lo hi :=
      ordered_replace1 h t lo hi _ r.t ho' hic hr.ord
    have hb1l : toList (h+1) ({ (t : Branch K (Tree K V h)) with children := setAt (Branch.children t) (upperBound (Branch.keys t) k) r.t } : Branch K (Tree K V h)) =
        SMap.erase (toList (h+1) t) k := by
      rw [toList_succ, herase]
      show (setAt (Branch.children t) _ r.t).flatMap (toList h) = _
      rw [flatMap_setAt, hr.list]
    cases hold : r.old with
    | none =>
      have hsame := hr.same hold
      simp only [Option.isSome_none, Bool.false_eq_true, false_and, if_false]
      have hb1eq : ({ (t : Branch K (Tree K V h)) with children := setAt (Branch.children t) (upperBound (Branch.keys t) k) r.t } : Branch K (Tree K V h)) = t := by
        rw [hsame.1, setAt_eq_self _ _ _ hci]
      refine ⟨_, _, rfl, ?_⟩
      refine ⟨?_, hb1l, hb1o, fun _ => ⟨hb1eq, rfl⟩, ?_, by intro hs; simp at hs, ?_, rfl⟩
      · show none = _
        rw [hlook, ← hr.old, hold]
      · rw [hb1eq]; exact ⟨by show m - 1 ≤ (Branch.keys t).length; omega, hz2, hz3⟩
      · rw [hb1eq]; show nkeys (h+1) t ≤ nkeys (h+1) t + 1; omega
    | some v =>
      have hold' : (SMap.lookup (toList (h+1) t) k).map (·.2) = some v := by rw [hlook, ← hr.old, hold]
      have hunder := hr.under (by simp [hold])
      by_cases hu : r.under = true
      · simp only [Option.isSome_some, hu, and_self, if_true]
        -- rebalance
        have hnk : nkeys h r.t = cap / 2 - 1 := by
          rw [hu] at hunder
          have h1 : nkeys h r.t < cap / 2 := by simpa using hunder.symm
          have h2 := (Sized.nkeys cap h r.t _ hr.sz).1
          omega
        have hpre : RebPre cap h ({ (t : Branch K (Tree K V h)) with children := setAt (Branch.children t) (upperBound (Branch.keys t) k) r.t } : Branch K (Tree K V h))
            (upperBound (Branch.keys t) k) lo hi := by
          refine ⟨hcap, hb1o, by show 1 ≤ (Branch.keys t).length; omega, ?_, ?_, ?_⟩
          · show _ < (setAt (Branch.children t) _ r.t).length
            rw [length_setAt _ _ _ hic]; exact hic
          · intro j x hx
            have hx' : (setAt (Branch.children t) (upperBound (Branch.keys t) k) r.t)[j]? = some x := hx
            rw [getElem?_setAt _ _ _ _ hic] at hx'
            by_cases hj : j = upperBound (Branch.keys t) k
            · simp only [hj, if_true] at hx' ⊢
              cases hx'; exact hr.sz
            · simp only [hj, if_false] at hx' ⊢
              exact hz3 x (List.mem_of_getElem? hx')
          · intro x hx
            have hx' : (setAt (Branch.children t) (upperBound (Branch.keys t) k) r.t)[upperBound (Branch.keys t) k]? = some x := hx
            rw [getElem?_setAt _ _ _ _ hic] at hx'
            simp only [if_true] at hx'
            cases hx'; exact hnk
        obtain ⟨b2, al2, hreb, hpost⟩ := rebalance_spec cap h _ _ al1 lo hi hpre
        rw [hreb]
        refine ⟨_, _, rfl, ?_⟩
        have hk1 : (Branch.keys t).length ≤ b2.keys.length + 1 := hpost.k1
        have hk2 : b2.keys.length ≤ (Branch.keys t).length := hpost.k2
        refine ⟨hold'.symm, by rw [hpost.list]; exact hb1l, hpost.ord, by intro hn; simp at hn, ?_, ?_, ?_, hpost.id⟩
        · exact ⟨by show m - 1 ≤ b2.keys.length; omega, by show b2.keys.length ≤ cap; omega, hpost.sz⟩
        · intro _; rfl
        · show (Branch.keys t).length ≤ b2.keys.length + 1; exact hk1
      · have hu' : r.under = false := by cases hru : r.under <;> simp_all
        simp only [Option.isSome_some, hu', Bool.false_eq_true, and_false, if_false, if_true]
        have hnk : cap / 2 ≤ nkeys h r.t := by
          rw [hu'] at hunder
          have : ¬ nkeys h r.t < cap / 2 := by simpa using hunder.symm
          omega
        refine ⟨_, _, rfl, ?_⟩
        refine ⟨hold'.symm, hb1l, hb1o, by intro hn; simp at hn, ?_, by intro _; rfl, by show (Branch.keys t).length ≤ (Branch.keys t).length + 1; omega, rfl⟩
        refine ⟨by show m - 1 ≤ (Branch.keys t).length; omega, hz2, ?_⟩
        intro x hx
        rcases mem_setAt _ _ _ _ hx with rfl | hx
        · exact sized_raise cap h _ _ _ hr.sz hnk
        · exact hz3 x hx

end BPT.Rust
