import BPT.Rust.Raw
/-
  No reader of the repaired code can perform an unchecked access outside its
  precondition, on ANY raw map (no invariant assumed): `Res.ub` is unreachable.
-/
namespace BPT.Rust
open BPT RawMap
variable {K V : Type} [Keyed K]

def NoUB {α : Type} (r : Res α) : Prop := r ≠ .ub

theorem NoUB.ok {α : Type} (a : α) : NoUB (.ok a : Res α) := by simp [NoUB]
theorem NoUB.panic {α : Type} : NoUB (.panic : Res α) := by simp [NoUB]
theorem NoUB.diverge {α : Type} : NoUB (.diverge : Res α) := by simp [NoUB]

theorem NoUB.bind {α β : Type} {r : Res α} {f : α → Res β} (hr : NoUB r) (hf : ∀ a, NoUB (f a)) : NoUB (r.bind f) := by
  cases r with
  | ok a => exact hf a
  | panic => exact NoUB.panic
  | diverge => exact NoUB.diverge
  | ub => exact absurd rfl hr

theorem NoUB.map {α β : Type} {r : Res α} {f : α → β} (hr : NoUB r) : NoUB (r.map f) := by
  cases r with
  | ok a => exact NoUB.ok _
  | panic => exact NoUB.panic
  | diverge => exact NoUB.diverge
  | ub => exact absurd rfl hr

/-! ### navigation and counting readers contain no unchecked access at all -/

theorem findLeafFrom_noub (m : RawMap K V) (k : K) : ∀ f n, NoUB (m.findLeafFrom k f n) := by
  intro f
  induction f with
  | zero => intro n; exact NoUB.diverge
  | succ f ih =>
    intro n
    cases n with
    | leaf id => unfold findLeafFrom; split <;> exact NoUB.ok _
    | branch id =>
      unfold findLeafFrom
      split
      · exact NoUB.ok _
      · split
        · exact NoUB.ok _
        · exact ih _

theorem firstLeafFrom_noub (m : RawMap K V) : ∀ f n, NoUB (m.firstLeafFrom f n) := by
  intro f
  induction f with
  | zero => intro n; exact NoUB.diverge
  | succ f ih =>
    intro n
    cases n with
    | leaf id => exact NoUB.ok _
    | branch id =>
      unfold firstLeafFrom
      split
      · exact NoUB.ok _
      · split
        · exact NoUB.ok _
        · exact ih _

theorem sumRes_noub : ∀ (l : List (Res Nat)), (∀ r ∈ l, NoUB r) → NoUB (sumRes l)
  | [], _ => NoUB.ok _
  | r :: rs, h => NoUB.bind (h r List.mem_cons_self) (fun _ => NoUB.map (sumRes_noub rs (fun x hx => h x (List.mem_cons_of_mem _ hx))))

theorem concatRes_noub {α : Type} : ∀ (l : List (Res (List α))), (∀ r ∈ l, NoUB r) → NoUB (concatRes l)
  | [], _ => NoUB.ok _
  | r :: rs, h => NoUB.bind (h r List.mem_cons_self) (fun _ => NoUB.map (concatRes_noub rs (fun x hx => h x (List.mem_cons_of_mem _ hx))))

theorem lenFrom_noub (m : RawMap K V) : ∀ f n, NoUB (m.lenFrom f n) := by
  intro f
  induction f with
  | zero => intro n; exact NoUB.diverge
  | succ f ih =>
    intro n
    cases n with
    | leaf id => exact NoUB.ok _
    | branch id =>
      unfold lenFrom
      split
      · exact NoUB.ok _
      · apply sumRes_noub
        intro r hr
        obtain ⟨c, _, rfl⟩ := List.mem_map.1 hr
        exact ih c

theorem leafIdsFrom_noub (m : RawMap K V) : ∀ f n, NoUB (m.leafIdsFrom f n) := by
  intro f
  induction f with
  | zero => intro n; exact NoUB.diverge
  | succ f ih =>
    intro n
    cases n with
    | leaf id => exact NoUB.ok _
    | branch id =>
      unfold leafIdsFrom
      split
      · exact NoUB.ok _
      · apply concatRes_noub
        intro r hr
        obtain ⟨c, _, rfl⟩ := List.mem_map.1 hr
        exact ih c

theorem countNodesFrom_noub (m : RawMap K V) : ∀ f n, NoUB (m.countNodesFrom f n) := by
  intro f
  induction f with
  | zero => intro n; exact NoUB.diverge
  | succ f ih =>
    intro n
    cases n with
    | leaf id => exact NoUB.ok _
    | branch id =>
      unfold countNodesFrom
      split
      · exact NoUB.ok _
      · apply NoUB.bind
        · apply sumRes_noub
          intro r hr
          obtain ⟨c, _, rfl⟩ := List.mem_map.1 hr
          exact NoUB.map (ih c)
        · intro _
          apply NoUB.map
          apply sumRes_noub
          intro r hr
          obtain ⟨c, _, rfl⟩ := List.mem_map.1 hr
          exact NoUB.map (ih c)

theorem chainIds_noub (m : RawMap K V) : ∀ f o, NoUB (m.chainIds f o) := by
  intro f
  induction f with
  | zero => intro o; exact NoUB.diverge
  | succ f ih =>
    intro o
    cases o with
    | none => exact NoUB.ok _
    | some id =>
      unfold chainIds
      split
      · exact NoUB.ok _
      · exact NoUB.map (ih _)

/-! ### the iterators: the one unchecked read is behind a guard on both vectors -/

theorem itemNext_noub (cfg : Cfg) (hg : cfg.guardBoth = true) (m : RawMap K V) : ∀ f st, NoUB (itemNext cfg m f st) := by
  intro f
  induction f with
  | zero => intro st; exact NoUB.diverge
  | succ f ih =>
    intro st
    unfold itemNext
    cases hl : st.leaf with
    | none => exact NoUB.ok _
    | some lf =>
      simp only [hg, if_true]
      by_cases hgd : st.idx < lf.keys.length ∧ st.idx < lf.vals.length
      · simp only [hgd, and_self, decide_true, if_true]
        rw [List.getElem?_eq_getElem hgd.1, List.getElem?_eq_getElem hgd.2]
        simp only []
        split <;> exact NoUB.ok _
      · simp only [hgd, decide_false, Bool.false_eq_true, if_false]
        split
        · exact NoUB.ok _
        · split
          · exact NoUB.ok _
          · exact ih _

theorem fastNext_noub (cfg : Cfg) (hg : cfg.fastChecked = true) (m : RawMap K V) : ∀ f st, NoUB (fastNext cfg m f st) := by
  intro f
  induction f with
  | zero => intro st; exact NoUB.diverge
  | succ f ih =>
    intro st
    unfold fastNext
    by_cases hfin : st.finished = true
    · rw [if_pos hfin]; exact NoUB.ok _
    · rw [if_neg hfin]
      cases hl : st.leaf with
      | none => exact NoUB.ok _
      | some lf =>
        simp only []
        by_cases hi : st.idx < lf.keys.length
        · rw [if_pos hi]
          cases lf.keys[st.idx]? <;> cases lf.vals[st.idx]? <;> exact NoUB.ok _
        · rw [if_neg hi]
          by_cases hn : lf.next ≠ nullId
          · rw [if_pos hn, if_pos hg]; exact ih _
          · rw [if_neg hn]; exact NoUB.ok _

theorem drain_noub {σ α : Type} (next : σ → Res (Option α × σ)) (h : ∀ st, NoUB (next st)) : ∀ N st, NoUB (drain next N st) := by
  intro N
  induction N with
  | zero => intro st; exact NoUB.diverge
  | succ N ih =>
    intro st
    unfold drain
    have := h st
    cases hn : next st with
    | ok p =>
      obtain ⟨o, st'⟩ := p
      cases o with
      | none => exact NoUB.ok _
      | some a => exact NoUB.map (ih st')
    | panic => exact NoUB.panic
    | diverge => exact NoUB.diverge
    | ub => rw [hn] at this; exact absurd rfl this

theorem ite_noub {α : Type} {c : Prop} [Decidable c] {a b : Res α} (ha : NoUB a) (hb : NoUB b) : NoUB (if c then a else b) := by
  split <;> assumption

theorem rangeNext_noub (cfg : Cfg) (hg : cfg.guardBoth = true) (m : RawMap K V) (f : Nat) : ∀ r, NoUB (rangeNext cfg m f r) := by
  intro r
  unfold rangeNext
  cases hi : r.it with
  | none => exact NoUB.ok _
  | some it =>
    simp only []
    have h1 := itemNext_noub cfg hg m f it
    cases hn : itemNext cfg m f it with
    | ok p =>
      obtain ⟨o, it'⟩ := p
      cases o with
      | none => exact NoUB.ok _
      | some kv =>
        simp only []
        by_cases hsk : r.skipFirst = true
        · rw [if_pos hsk]
          apply ite_noub
          · have h2 := itemNext_noub cfg hg m f it'
            cases hn2 : itemNext cfg m f it' with
            | ok p2 => exact NoUB.ok _
            | panic => exact NoUB.panic
            | diverge => exact NoUB.diverge
            | ub => rw [hn2] at h2; exact absurd rfl h2
          · exact NoUB.ok _
        · rw [if_neg hsk]; exact NoUB.ok _
    | panic => exact NoUB.panic
    | diverge => exact NoUB.diverge
    | ub => rw [hn] at h1; exact absurd rfl h1

/-- **C15.** Every map-level reader of the repaired code, on every raw map whatsoever: no unchecked
    access outside an allocated slot or outside a leaf's key/value arrays. -/
theorem readers_noub (m : RawMap K V) (lo hi : Bound K) (a b : Option K) (k : K) (e : Bound K) :
    NoUB (m.items Cfg.repaired) ∧ NoUB (m.itemsFast Cfg.repaired) ∧ NoUB (m.keys Cfg.repaired) ∧
    NoUB (m.values Cfg.repaired) ∧ NoUB (m.first Cfg.repaired) ∧ NoUB (m.last Cfg.repaired) ∧
    NoUB (m.range Cfg.repaired lo hi) ∧ NoUB (m.itemsRange Cfg.repaired a b) ∧ NoUB (m.itemsFromKey Cfg.repaired k e) ∧
    NoUB (m.get k) ∧ NoUB m.len := by
  have hitems : NoUB (m.items Cfg.repaired) :=
    NoUB.bind (NoUB.map (firstLeafFrom_noub m _ _)) (fun st => drain_noub _ (itemNext_noub _ rfl m _) _ st)
  have hrange : ∀ lo hi, NoUB (m.range Cfg.repaired lo hi) := by
    intro lo hi
    unfold RawMap.range
    apply NoUB.bind
    · unfold rangeStart
      apply NoUB.map
      cases lo with
      | included k => exact NoUB.map (findLeafFrom_noub m k _ _)
      | excluded k => exact NoUB.map (findLeafFrom_noub m k _ _)
      | unbounded => exact NoUB.map (firstLeafFrom_noub m _ _)
    · intro st; exact drain_noub _ (rangeNext_noub _ rfl m _) _ st
  refine ⟨hitems, ?_, NoUB.map hitems, NoUB.map hitems, ?_, NoUB.map hitems, hrange lo hi, hrange _ _, ?_, ?_, lenFrom_noub m _ _⟩
  · unfold RawMap.itemsFast
    apply NoUB.bind
    · unfold fastStart
      apply NoUB.bind (firstLeafFrom_noub m _ _)
      intro first
      cases first with
      | none => exact NoUB.ok _
      | some id => simp only [Cfg.repaired, if_true]; exact NoUB.ok _
    · intro st; exact drain_noub _ (fastNext_noub _ rfl m _) _ st
  · unfold RawMap.first
    exact NoUB.bind (NoUB.map (firstLeafFrom_noub m _ _)) (fun st => NoUB.map (itemNext_noub _ rfl m _ st))
  · unfold RawMap.itemsFromKey
    apply NoUB.bind (findLeafFrom_noub m k _ _)
    intro r
    cases r with
    | none => exact NoUB.ok _
    | some p => exact drain_noub _ (itemNext_noub _ rfl m _) _ _
  · unfold RawMap.get
    have := findLeafFrom_noub m k m.fuel m.root
    unfold RawMap.findLeaf
    cases hf : m.findLeafFrom k m.fuel m.root with
    | ok r =>
      cases r with
      | none => exact NoUB.ok _
      | some p =>
        obtain ⟨id, i, b⟩ := p
        cases b with
        | false => exact NoUB.ok _
        | true =>
          simp only []
          split
          · exact NoUB.ok _
          · split <;> exact NoUB.ok _
    | panic => exact NoUB.panic
    | diverge => exact NoUB.diverge
    | ub => rw [hf] at this; exact absurd rfl this

/-! ### validators -/

/-- **C15, public positioned constructors.** `RangeIterator::new_with_skip_owned` and
    `ItemIterator::new_from_position_with_bounds` are safe public functions that take an arbitrary
    `(leaf id, index)`; started anywhere, on any raw map, with or without `skip_first`, draining them performs no
    unchecked access outside its precondition. -/
theorem positioned_noub (m : RawMap K V) (info : Option (Nat × Nat)) (skip : Bool) (hi : Bound K) (leafId idx : Nat) (e : Bound K) :
    NoUB (m.rangeFrom Cfg.repaired info skip hi) ∧ NoUB (m.itemsFromPos Cfg.repaired leafId idx e) :=
  ⟨drain_noub _ (rangeNext_noub _ rfl m _) _ _, drain_noub _ (itemNext_noub _ rfl m _) _ _⟩

theorem allRes_noub {α : Type} (p : α → Res Bool) : ∀ (l : List α), (∀ a ∈ l, NoUB (p a)) → NoUB (allRes p l)
  | [], _ => NoUB.ok _
  | a :: as, h => NoUB.bind (h a List.mem_cons_self) (fun b => by
      cases b
      · exact NoUB.ok _
      · exact allRes_noub p as (fun x hx => h x (List.mem_cons_of_mem _ hx)))

theorem checkNode_noub (cfg : Cfg) (m : RawMap K V) : ∀ f n lo hi r, NoUB (m.checkNode cfg f n lo hi r) := by
  intro f
  induction f with
  | zero => intro n lo hi r; exact NoUB.diverge
  | succ f ih =>
    intro n lo hi r
    cases n with
    | leaf id =>
      unfold checkNode
      cases m.getLeaf id with
      | none => exact NoUB.ok _
      | some l =>
        simp only []
        repeat' apply ite_noub
        all_goals exact NoUB.ok _
    | branch id =>
      unfold checkNode
      cases m.getBranch id with
      | none => exact NoUB.ok _
      | some b =>
        simp only []
        repeat' apply ite_noub
        all_goals first | exact NoUB.ok _ | (apply allRes_noub; intro p _; exact ih _ _ _ _)

theorem checkDetailed_noub (m : RawMap K V) : NoUB (m.checkInvariants Cfg.repaired) ∧ NoUB (m.checkDetailed Cfg.repaired) := by
  have h1 : NoUB (m.checkInvariants Cfg.repaired) := checkNode_noub _ m _ _ _ _ _
  have hitems : NoUB (m.items Cfg.repaired) :=
    NoUB.bind (NoUB.map (firstLeafFrom_noub m _ _)) (fun st => drain_noub _ (itemNext_noub _ rfl m _) _ st)
  refine ⟨h1, ?_⟩
  unfold RawMap.checkDetailed
  apply NoUB.bind h1; intro ok
  apply ite_noub (NoUB.ok _)
  apply NoUB.bind (NoUB.map hitems); intro ks
  apply ite_noub (NoUB.ok _)
  apply NoUB.bind (lenFrom_noub m _ _); intro n
  apply ite_noub (NoUB.ok _)
  apply NoUB.bind
  · unfold RawMap.countNodes
    split
    · exact NoUB.ok _
    · exact countNodesFrom_noub m _ _
  intro cnt
  apply ite_noub (NoUB.ok _)
  apply ite_noub (NoUB.ok _)
  apply NoUB.bind (leafIdsFrom_noub m _ _); intro tids
  apply NoUB.bind (firstLeafFrom_noub m _ _); intro first
  apply NoUB.bind (chainIds_noub m _ _); intro cids
  exact ite_noub (NoUB.ok _) (NoUB.ok _)

/-! ### D4 as found: both unchecked patterns are reachable from safe code -/

/-- P1: a leaf with a key but no value (`get_leaf_mut(id).push_key(k)`), then `items()` -/
def p1Witness : RawMap Int Nat :=
  { cap := 4, root := .leaf 0,
    leaves := { storage := [{ cap := 4, keys := [7], vals := [], next := nullId }], mask := [true], free := [] },
    branches := Arena.empty }

theorem Legacy.p1_unsafe_on_raw : p1Witness.items { guardBoth := false } = .ub ∧ p1Witness.items Cfg.repaired = .ok [] := by decide

/-- P3: `set_leaf_next(id, 12345)`, then `items_fast()` follows the id unchecked -/
def p3Witness : RawMap Int Nat :=
  { cap := 4, root := .leaf 0,
    leaves := { storage := [{ cap := 4, keys := [7], vals := [70], next := 12345 }], mask := [true], free := [] },
    branches := Arena.empty }

theorem Legacy.p3_unsafe_on_raw :
    p3Witness.itemsFast { fastChecked := false } = .ub ∧ p3Witness.itemsFast Cfg.repaired = .ok [(7, 70)] := by decide

end BPT.Rust
