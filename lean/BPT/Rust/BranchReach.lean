import BPT.Rust.DetailedSound
/-
  Branch side of the detailed validator's soundness: when the tree walk lists no
  leaf twice, it visits no branch twice either (a branch visited twice would bring
  its non-empty leaf list twice), so "visited branches = allocated branches" in
  number means every allocated branch is visited.  Also: everything the walks list
  is reachable from the root through child references.
-/
namespace BPT.Rust
open BPT RawMap
variable {K V : Type} [Keyed K]

/-- nodes reachable from the root through child references, with the flag "is the root" -/
inductive Reach (m : RawMap K V) : NodeRef → Bool → Prop where
  | root : Reach m m.root true
  | child (id : Nat) (b : RBranch K) (r : Bool) (i : Nat) (c : NodeRef) :
      Reach m (.branch id) r → m.getBranch id = some b → b.children[i]? = some c → Reach m c false

/-- the branch ids `count_nodes_recursive` tallies, as a list (specification-side twin of `countNodesFrom`) -/
def branchIdsFrom (m : RawMap K V) : Nat → NodeRef → Res (List Nat)
  | 0, _ => .diverge
  | _+1, .leaf _ => .ok []
  | f+1, .branch id =>
    match m.getBranch id with
    | none => .ok []
    | some b => (concatRes (b.children.map (branchIdsFrom m f))).map (id :: ·)

theorem concatRes_map_ok {α : Type} : ∀ (Ls : List (List α)), concatRes (Ls.map Res.ok) = .ok Ls.flatten
  | [] => rfl
  | l :: Ls => by simp [concatRes, concatRes_map_ok Ls]

theorem exists_map_ok {α β : Type} (r : α → Res β) : ∀ (l : List α), (∀ a ∈ l, ∃ b, r a = .ok b) → ∃ bs : List β, l.map r = bs.map Res.ok
  | [], _ => ⟨[], rfl⟩
  | a :: l, h => by
    obtain ⟨b, hb⟩ := h a List.mem_cons_self
    obtain ⟨bs, hbs⟩ := exists_map_ok r l (fun x hx => h x (List.mem_cons_of_mem _ hx))
    exact ⟨b :: bs, by simp [hb, hbs]⟩

theorem map_ok_inj {α : Type} {a b : List α} (h : a.map Res.ok = b.map Res.ok) : a = b := by
  induction a generalizing b with
  | nil => cases b with
    | nil => rfl
    | cons _ _ => simp at h
  | cons x a ih => cases b with
    | nil => simp at h
    | cons y b =>
      simp only [List.map_cons, List.cons.injEq, Res.ok.injEq] at h
      rw [h.1, ih h.2]

/-- the branch tally of `count_nodes_recursive` is the length of the branch-id list -/
theorem countNodes_branchIds (m : RawMap K V) : ∀ (f : Nat) (n : NodeRef) (c : Nat × Nat),
    m.countNodesFrom f n = .ok c → ∃ B, branchIdsFrom m f n = .ok B ∧ c.2 = B.length := by
  intro f
  induction f with
  | zero => intro n c h; simp [countNodesFrom] at h
  | succ f ih =>
    intro n c h1
    cases n with
    | leaf id =>
      simp only [countNodesFrom, Res.ok.injEq] at h1
      subst h1
      exact ⟨[], rfl, rfl⟩
    | branch id =>
      simp only [countNodesFrom] at h1
      cases hg : m.getBranch id with
      | none =>
        rw [hg] at h1
        simp only [Res.ok.injEq] at h1
        subst h1
        exact ⟨[], by simp [branchIdsFrom, hg], rfl⟩
      | some b =>
        rw [hg] at h1
        simp only at h1
        obtain ⟨ls, _, h1'⟩ := Res.bind_eq_ok h1
        obtain ⟨bs, hbs, rfl⟩ := Res.map_eq_ok h1'
        obtain ⟨ns, hns, rfl⟩ := sumRes_inv _ _ hbs
        have hl1 : ns.length = b.children.length := by
          have := congrArg List.length hns; simpa using this.symm
        have hex : ∀ ch ∈ b.children, ∃ B, branchIdsFrom m f ch = .ok B := by
          intro ch hch
          obtain ⟨i, hi, rfl⟩ := List.getElem_of_mem hch
          obtain ⟨_, e1⟩ := map_ok_getElem _ ns hns i (by simpa using hi)
          simp only [List.getElem_map] at e1
          obtain ⟨c', hc', _⟩ := Res.map_eq_ok e1
          obtain ⟨B, hB, _⟩ := ih _ _ hc'
          exact ⟨B, hB⟩
        obtain ⟨Bs, hBs⟩ := exists_map_ok _ _ hex
        have hl2 : Bs.length = b.children.length := by
          have := congrArg List.length hBs; simpa using this.symm
        refine ⟨id :: Bs.flatten, by simp [branchIdsFrom, hg, hBs, concatRes_map_ok], ?_⟩
        show ns.sum + 1 = (id :: Bs.flatten).length
        rw [List.length_cons, sum_map_length_flatten]
        congr 2
        apply List.ext_getElem
        · simp; omega
        · intro i hi1 hi2
          have hic : i < b.children.length := by omega
          obtain ⟨_, e1⟩ := map_ok_getElem _ ns hns i (by simpa using hic)
          obtain ⟨_, e2⟩ := map_ok_getElem _ Bs hBs i (by simpa using hic)
          simp only [List.getElem_map] at e1 e2
          obtain ⟨c', hc', hn⟩ := Res.map_eq_ok e1
          obtain ⟨B', hB', hlen⟩ := ih _ _ hc'
          rw [e2] at hB'
          cases hB'
          simp only [List.getElem_map]
          rw [hn, hlen]

/-! ### the walks do not depend on the fuel they were given -/

theorem leafIdsFrom_det (m : RawMap K V) : ∀ (f f' : Nat) (n : NodeRef) (L L' : List Nat),
    m.leafIdsFrom f n = .ok L → m.leafIdsFrom f' n = .ok L' → L = L' := by
  intro f
  induction f with
  | zero => intro f' n L L' h; simp [leafIdsFrom] at h
  | succ f ih =>
    intro f' n L L' h h'
    cases f' with
    | zero => simp [leafIdsFrom] at h'
    | succ f' =>
      cases n with
      | leaf id =>
        simp only [leafIdsFrom, Res.ok.injEq] at h h'
        rw [← h, ← h']
      | branch id =>
        simp only [leafIdsFrom] at h h'
        cases hg : m.getBranch id with
        | none => rw [hg] at h h'; simp only [Res.ok.injEq] at h h'; rw [← h, ← h']
        | some b =>
          rw [hg] at h h'
          simp only at h h'
          obtain ⟨Ls, e1, rfl⟩ := concatRes_inv _ _ h
          obtain ⟨Ls', e2, rfl⟩ := concatRes_inv _ _ h'
          congr 1
          have hl1 : Ls.length = b.children.length := by have := congrArg List.length e1; simpa using this.symm
          have hl2 : Ls'.length = b.children.length := by have := congrArg List.length e2; simpa using this.symm
          apply List.ext_getElem (by omega)
          intro i hi1 hi2
          have hic : i < b.children.length := by omega
          obtain ⟨_, a1⟩ := map_ok_getElem _ Ls e1 i (by simpa using hic)
          obtain ⟨_, a2⟩ := map_ok_getElem _ Ls' e2 i (by simpa using hic)
          simp only [List.getElem_map] at a1 a2
          exact ih _ _ _ _ a1 a2

theorem branchIdsFrom_det (m : RawMap K V) : ∀ (f f' : Nat) (n : NodeRef) (L L' : List Nat),
    branchIdsFrom m f n = .ok L → branchIdsFrom m f' n = .ok L' → L = L' := by
  intro f
  induction f with
  | zero => intro f' n L L' h; simp [branchIdsFrom] at h
  | succ f ih =>
    intro f' n L L' h h'
    cases f' with
    | zero => simp [branchIdsFrom] at h'
    | succ f' =>
      cases n with
      | leaf id =>
        simp only [branchIdsFrom, Res.ok.injEq] at h h'
        rw [← h, ← h']
      | branch id =>
        simp only [branchIdsFrom] at h h'
        cases hg : m.getBranch id with
        | none => rw [hg] at h h'; simp only [Res.ok.injEq] at h h'; rw [← h, ← h']
        | some b =>
          rw [hg] at h h'
          simp only at h h'
          obtain ⟨A, hA, rfl⟩ := Res.map_eq_ok h
          obtain ⟨A', hA', rfl⟩ := Res.map_eq_ok h'
          obtain ⟨Ls, e1, rfl⟩ := concatRes_inv _ _ hA
          obtain ⟨Ls', e2, rfl⟩ := concatRes_inv _ _ hA'
          congr 2
          have hl1 : Ls.length = b.children.length := by have := congrArg List.length e1; simpa using this.symm
          have hl2 : Ls'.length = b.children.length := by have := congrArg List.length e2; simpa using this.symm
          apply List.ext_getElem (by omega)
          intro i hi1 hi2
          have hic : i < b.children.length := by omega
          obtain ⟨_, a1⟩ := map_ok_getElem _ Ls e1 i (by simpa using hic)
          obtain ⟨_, a2⟩ := map_ok_getElem _ Ls' e2 i (by simpa using hic)
          simp only [List.getElem_map] at a1 a2
          exact ih _ _ _ _ a1 a2

theorem length_le_flatten {α : Type} (Ls : List (List α)) (l : List α) (h : l ∈ Ls) : l.length ≤ Ls.flatten.length := by
  induction Ls with
  | nil => cases h
  | cons a Ls ih =>
    simp only [List.flatten_cons, List.length_append]
    rcases List.mem_cons.1 h with rfl | h
    · omega
    · have := ih h; omega

/-- what each visited branch brings along -/
def Brings (m : RawMap K V) (L B : List Nat) (x : Nat) : Prop :=
  ∃ g Lx Bx, m.leafIdsFrom g (.branch x) = .ok Lx ∧ branchIdsFrom m g (.branch x) = .ok Bx ∧
    Lx ≠ [] ∧ (∀ y ∈ Lx, y ∈ L) ∧ Bx.length ≤ B.length

/-- **no branch is visited twice** when no leaf is listed twice -/
theorem branchIds_nodup (m : RawMap K V) (hc : CapsOK m) : ∀ (f : Nat) (n : NodeRef) (lo hi : Option K) (r : Bool) (L B : List Nat),
    m.leafIdsFrom f n = .ok L → branchIdsFrom m f n = .ok B → NodeOK m n lo hi r → L.Nodup →
    B.Nodup ∧ (∀ x ∈ B, m.branches.maskAt x = true) ∧ (∀ x ∈ B, Brings m L B x) := by
  intro f
  induction f with
  | zero => intro n lo hi r L B h; simp [leafIdsFrom] at h
  | succ f ih =>
    intro n lo hi r L B hL hB hok hnd
    have hLne := (leafIdsFrom_ok m hc (f+1) n lo hi r L hL hok).ne
    cases hok with
    | leaf id l _ _ _ hg =>
      simp only [branchIdsFrom, Res.ok.injEq] at hB
      subst hB
      exact ⟨List.nodup_nil, by simp, by simp⟩
    | branch id b _ _ _ hg h1 h2 h3 h4 hch =>
      have hL0 := hL
      have hB0 := hB
      simp only [leafIdsFrom, hg] at hL
      simp only [branchIdsFrom, hg] at hB
      obtain ⟨A, hA, rfl⟩ := Res.map_eq_ok hB
      obtain ⟨Ls, e1, rfl⟩ := concatRes_inv _ _ hL
      obtain ⟨Bs, e2, rfl⟩ := concatRes_inv _ _ hA
      have hl1 : Ls.length = b.children.length := by have := congrArg List.length e1; simpa using this.symm
      have hl2 : Bs.length = b.children.length := by have := congrArg List.length e2; simpa using this.symm
      unfold List.Nodup at hnd
      rw [List.pairwise_flatten] at hnd
      have hdisj := List.pairwise_iff_getElem.1 hnd.2
      have hchild : ∀ (i : Nat) (hi1 : i < Ls.length) (hi2 : i < Bs.length),
          Bs[i].Nodup ∧ (∀ x ∈ Bs[i], m.branches.maskAt x = true) ∧ (∀ x ∈ Bs[i], Brings m Ls[i] Bs[i] x) := by
        intro i hi1 hi2
        have hic : i < b.children.length := by omega
        obtain ⟨_, a1⟩ := map_ok_getElem _ Ls e1 i (by simpa using hic)
        obtain ⟨_, a2⟩ := map_ok_getElem _ Bs e2 i (by simpa using hic)
        simp only [List.getElem_map] at a1 a2
        exact ih _ _ _ _ _ _ a1 a2 (hch i _ (List.getElem?_eq_getElem hic)) (hnd.1 _ (List.getElem_mem hi1))
      refine ⟨?_, ?_, ?_⟩
      · rw [List.nodup_cons]
        refine ⟨?_, ?_⟩
        · -- the branch itself is not visited again below it
          intro hmem
          obtain ⟨Bi, hBi, hx⟩ := List.mem_flatten.1 hmem
          obtain ⟨i, hi2, rfl⟩ := List.getElem_of_mem hBi
          obtain ⟨g, Lx, Bx, _, hbx, _, _, hlen⟩ := (hchild i (by omega) hi2).2.2 id hx
          have := branchIdsFrom_det m _ _ _ _ _ hbx hB0
          rw [this] at hlen
          have := length_le_flatten Bs Bs[i] (List.getElem_mem hi2)
          simp only [List.length_cons] at hlen
          omega
        · unfold List.Nodup
          rw [List.pairwise_flatten]
          refine ⟨?_, ?_⟩
          · intro Bi hBi
            obtain ⟨i, hi2, rfl⟩ := List.getElem_of_mem hBi
            exact (hchild i (by omega) hi2).1
          · rw [List.pairwise_iff_getElem]
            intro i j hi2 hj2 hij x hx y hy hxy
            subst hxy
            obtain ⟨g, Lx, _, hlx, _, hne, hsub, _⟩ := (hchild i (by omega) hi2).2.2 x hx
            obtain ⟨g', Lx', _, hlx', _, _, hsub', _⟩ := (hchild j (by omega) hj2).2.2 x hy
            have := leafIdsFrom_det m _ _ _ _ _ hlx hlx'
            subst this
            cases hLx : Lx with
            | nil => exact hne hLx
            | cons y0 _ =>
              have hy0 : y0 ∈ Lx := by rw [hLx]; exact List.mem_cons_self
              exact hdisj i j (by omega) (by omega) hij y0 (hsub y0 hy0) y0 (hsub' y0 hy0) rfl
      · intro x hx
        rcases List.mem_cons.1 hx with rfl | hx
        · exact (arena_get_some _ _ _ hg).2.2.1
        · obtain ⟨Bi, hBi, hx⟩ := List.mem_flatten.1 hx
          obtain ⟨i, hi2, rfl⟩ := List.getElem_of_mem hBi
          exact (hchild i (by omega) hi2).2.1 x hx
      · intro x hx
        rcases List.mem_cons.1 hx with rfl | hx
        · exact ⟨f+1, _, _, hL0, hB0, hLne, fun y hy => hy, Nat.le_refl _⟩
        · obtain ⟨Bi, hBi, hx⟩ := List.mem_flatten.1 hx
          obtain ⟨i, hi2, rfl⟩ := List.getElem_of_mem hBi
          obtain ⟨g, Lx, Bx, a1, a2, a3, a4, a5⟩ := (hchild i (by omega) hi2).2.2 x hx
          refine ⟨g, Lx, Bx, a1, a2, a3, ?_, ?_⟩
          · intro y hy
            exact List.mem_flatten.2 ⟨Ls[i], List.getElem_mem (by omega), a4 y hy⟩
          · have := length_le_flatten Bs Bs[i] (List.getElem_mem hi2)
            simp only [List.length_cons]
            omega

/-! ### what the walks list is reachable -/

theorem reach_of_leafIds (m : RawMap K V) : ∀ (f : Nat) (n : NodeRef) (r : Bool) (L : List Nat),
    Reach m n r → m.leafIdsFrom f n = .ok L → ∀ id ∈ L, ∃ r', Reach m (.leaf id) r' := by
  intro f
  induction f with
  | zero => intro n r L _ h; simp [leafIdsFrom] at h
  | succ f ih =>
    intro n r L hr h id hid
    cases n with
    | leaf x =>
      simp only [leafIdsFrom, Res.ok.injEq] at h
      subst h
      simp only [List.mem_singleton] at hid
      subst hid
      exact ⟨r, hr⟩
    | branch x =>
      simp only [leafIdsFrom] at h
      cases hg : m.getBranch x with
      | none => rw [hg] at h; simp only [Res.ok.injEq] at h; subst h; cases hid
      | some b =>
        rw [hg] at h
        simp only at h
        obtain ⟨Ls, e1, rfl⟩ := concatRes_inv _ _ h
        have hl1 : Ls.length = b.children.length := by have := congrArg List.length e1; simpa using this.symm
        obtain ⟨Li, hLi, hx⟩ := List.mem_flatten.1 hid
        obtain ⟨i, hi1, rfl⟩ := List.getElem_of_mem hLi
        have hic : i < b.children.length := by omega
        obtain ⟨_, a1⟩ := map_ok_getElem _ Ls e1 i (by simpa using hic)
        simp only [List.getElem_map] at a1
        exact ih _ false _ (Reach.child x b r i _ hr hg (List.getElem?_eq_getElem hic)) a1 id hx

theorem reach_of_branchIds (m : RawMap K V) : ∀ (f : Nat) (n : NodeRef) (r : Bool) (B : List Nat),
    Reach m n r → branchIdsFrom m f n = .ok B → ∀ id ∈ B, ∃ r', Reach m (.branch id) r' := by
  intro f
  induction f with
  | zero => intro n r L _ h; simp [branchIdsFrom] at h
  | succ f ih =>
    intro n r B hr h id hid
    cases n with
    | leaf x =>
      simp only [branchIdsFrom, Res.ok.injEq] at h
      subst h; cases hid
    | branch x =>
      simp only [branchIdsFrom] at h
      cases hg : m.getBranch x with
      | none => rw [hg] at h; simp only [Res.ok.injEq] at h; subst h; cases hid
      | some b =>
        rw [hg] at h
        simp only at h
        obtain ⟨A, hA, rfl⟩ := Res.map_eq_ok h
        obtain ⟨Bs, e1, rfl⟩ := concatRes_inv _ _ hA
        rcases List.mem_cons.1 hid with rfl | hid
        · exact ⟨r, hr⟩
        · have hl1 : Bs.length = b.children.length := by have := congrArg List.length e1; simpa using this.symm
          obtain ⟨Bi, hBi, hx⟩ := List.mem_flatten.1 hid
          obtain ⟨i, hi1, rfl⟩ := List.getElem_of_mem hBi
          have hic : i < b.children.length := by omega
          obtain ⟨_, a1⟩ := map_ok_getElem _ Bs e1 i (by simpa using hic)
          simp only [List.getElem_map] at a1
          exact ih _ false _ (Reach.child x b r i _ hr hg (List.getElem?_eq_getElem hic)) a1 id hx

/-- every allocated branch is reachable, given what the stages establish -/
theorem branches_reachable (m : RawMap K V) (hc : CapsOK m) (hroot : NodeOK m m.root none none true)
    (cnt : Nat × Nat) (hcnt : m.countNodes = .ok cnt) (hcb : cnt.2 = m.branches.len)
    (tids : List Nat) (htids : m.leafIds = .ok tids) (hnd : tids.Nodup) :
    ∀ i, m.branches.maskAt i = true → ∃ r, Reach m (.branch i) r := by
  intro i hi
  unfold RawMap.countNodes at hcnt
  cases hr : m.root with
  | leaf rid =>
    rw [hr] at hcnt
    simp only [Res.ok.injEq] at hcnt
    subst hcnt
    have := covers_allocated m.branches [] List.nodup_nil (by simp) (by simpa using hcb) i hi
    cases this
  | branch rid =>
    rw [hr] at hcnt
    simp only at hcnt
    obtain ⟨B, hB, hlen⟩ := countNodes_branchIds m _ _ _ hcnt
    unfold RawMap.leafIds at htids
    rw [hr] at htids
    rw [hr] at hroot
    obtain ⟨h1, h2, _⟩ := branchIds_nodup m hc _ _ _ _ _ _ _ htids hB hroot hnd
    have hmem := covers_allocated m.branches B h1 h2 (by omega) i hi
    have hreach : Reach m (.branch rid) true := hr ▸ Reach.root
    exact reach_of_branchIds m _ _ _ _ hreach hB i hmem

theorem leaves_reachable (m : RawMap K V) (tids : List Nat) (htids : m.leafIds = .ok tids) :
    ∀ i ∈ tids, ∃ r, Reach m (.leaf i) r :=
  fun i hi => reach_of_leafIds m _ _ _ _ Reach.root htids i hi

end BPT.Rust
