import BPT.Rust.InsertRec3
namespace BPT.Rust
open BPT Tree
variable {K V : Type} [Keyed K]

theorem leafSized_child (cap h : Nat) (b : Branch K (Tree K V h)) (i : Nat) (c : Tree K V h)
    (hsz : LeafSized cap (h+1) (b : Tree K V (h+1))) (hc : b.children[i]? = some c) : LeafSized cap h c := by
  intro l hl
  apply hsz
  show l ∈ b.children.flatMap (leaves h)
  rw [List.mem_flatMap]
  exact ⟨c, List.mem_of_getElem? hc, hl⟩

theorem insertRec_spec (cap : Nat) (hcap : 4 ≤ cap) :
    ∀ (h : Nat) (t : Tree K V h) (lo hi : Option Int) (k : K) (v : V) (al : Allocs),
      Ordered h t lo hi → InB lo hi (ord k) → LeafSized cap h t →
      ∃ res al', insertRec cap h t k v al = some (res, al') ∧ InsOK h lo hi (toList h t) k v res := by
  intro h
  induction h with
  | zero =>
    intro t lo hi k v al ho hk hsz
    have := insertLeaf_spec cap hcap (t : Leaf K V) lo hi k v al ho hk (hsz _ (by simp [leaves]))
    rw [toList_zero]
    exact this
  | succ h ih =>
    intro t lo hi k v al ho hk hsz
    have ho' := ho
    obtain ⟨hs, hlen, hkb, hc⟩ := ho
    have hle := upperBound_le (Branch.keys t) k
    have hic : upperBound (Branch.keys t) k < (Branch.children t).length := by omega
    -- the routed child
    have hci : (Branch.children t)[upperBound (Branch.keys t) k]? = some (Branch.children t)[upperBound (Branch.keys t) k] :=
      List.getElem?_eq_getElem hic
    generalize hcdef : (Branch.children t)[upperBound (Branch.keys t) k] = c at hci
    have hco := hc _ c hci
    have hkc := route_inB (Branch.keys t) lo hi k hs hk
    obtain ⟨res, al', he, hr⟩ := ih c _ _ k v al hco hkc (leafSized_child cap h t _ c hsz hci)
    -- decomposition of the entry list around the routed child
    have hsplit := flatMap_split (toList h) (Branch.children t) _ c hci
    have hA := left_lt h t lo hi ho' k
    have hB := right_gt h t lo hi ho' k
    have hins : ∀ M, SMap.insert (((Branch.children t).take (upperBound (Branch.keys t) k)).flatMap (toList h) ++ M ++
          ((Branch.children t).drop (upperBound (Branch.keys t) k + 1)).flatMap (toList h)) k v =
        ((Branch.children t).take (upperBound (Branch.keys t) k)).flatMap (toList h) ++ SMap.insert M k v ++
          ((Branch.children t).drop (upperBound (Branch.keys t) k + 1)).flatMap (toList h) := by
      intro M
      rw [List.append_assoc, SMap.insert_append_left _ _ _ _ hA, SMap.insert_append_right _ _ _ _ hB, List.append_assoc]
    unfold insertRec
    simp only [hci, he, isFull, branchSplitMid, minKeys, decide_eq_true_eq]
    cases res with
    | updated c' old =>
      simp only []
      refine ⟨_, _, rfl, ?_, ?_⟩
      · exact ordered_replace1 h t lo hi _ c' ho' hic hr.1
      · rw [toList_succ, toList_succ]
        show (setAt (Branch.children t) _ c').flatMap (toList h) = _
        rw [flatMap_setAt, hsplit, hins, hr.2]
    | split l r sep old =>
      obtain ⟨hl, hr', hsepB, hstrict, hlr⟩ := hr
      simp only []
      have h1 := keys_take_lt_of_lo (Branch.keys t) lo _ (ord sep) hs hle hstrict
      have h2 := keys_drop_gt_of_hi (Branch.keys t) hi _ (ord sep) hs (fun x hx => hsepB.2 x hx)
      have hsepB' : InB lo hi (ord sep) := by
        constructor
        · intro x hx
          -- lo ≤ sep: through the child's lower bound
          by_cases h0 : upperBound (Branch.keys t) k = 0
          · have := hsepB.1 x (by unfold loAt; rw [if_pos h0]; exact hx); exact this
          · have hlt : upperBound (Branch.keys t) k - 1 < (Branch.keys t).length := by omega
            have hk1 := (hkb _ (List.getElem_mem hlt)).1 x hx
            have := hsepB.1 (ord (Branch.keys t)[upperBound (Branch.keys t) k - 1]) (by
              unfold loAt; rw [if_neg h0, List.getElem?_eq_getElem hlt]; rfl)
            omega
        · intro x hx
          by_cases h0 : upperBound (Branch.keys t) k = (Branch.keys t).length
          · exact hsepB.2 x (by unfold hiAt; rw [if_pos h0]; exact hx)
          · have hlt : upperBound (Branch.keys t) k < (Branch.keys t).length := by omega
            have hk1 := (hkb _ (List.getElem_mem hlt)).2 x hx
            have := hsepB.2 (ord (Branch.keys t)[upperBound (Branch.keys t) k]) (by
              unfold hiAt; rw [if_neg h0, List.getElem?_eq_getElem hlt]; rfl)
            omega
      have hb1 : Ordered (h+1) ((t : Branch K (Tree K V h)).split1 (upperBound (Branch.keys t) k) l r sep) lo hi :=
        ordered_split1 h t lo hi _ l r sep ho' hic hl hr' h1 h2 hsepB'
      have hb1list : ((t : Branch K (Tree K V h)).split1 (upperBound (Branch.keys t) k) l r sep).children.flatMap (toList h) =
          SMap.insert (toList (h+1) t) k v := by
        show (insertAt (setAt (Branch.children t) _ l) _ r).flatMap (toList h) = _
        rw [toList_succ, hsplit, hins, ← hlr]
        rw [insertAt_setAt_eq _ _ _ _ hic]
        simp [List.flatMap_append]
      have hb1len : (insertAt (Branch.keys t) (upperBound (Branch.keys t) k) sep).length = (Branch.keys t).length + 1 :=
        length_insertAt _ _ _ hle
      by_cases hfull : (Branch.keys t).length ≥ cap
      · simp only [hfull, if_true, branchSplit1]
        cases hpk : (insertAt (Branch.keys t) (upperBound (Branch.keys t) k) sep)[cap / 2]? with
        | none =>
          exfalso
          have := List.getElem?_eq_none_iff.1 hpk
          omega
        | some pk =>
          simp only []
          obtain ⟨hL, hR, hpkB⟩ := branch_cut_spec h _ lo hi (cap/2) pk (Branch.id t) al'.branch.alloc.1 hb1 hpk
          refine ⟨_, _, rfl, hL, hR, hpkB, ?_, ?_⟩
          · intro x hx
            obtain ⟨_, _, hLk, _⟩ := hL
            have hne : (insertAt (Branch.keys t) (upperBound (Branch.keys t) k) sep).take (cap/2) ≠ [] := by
              intro hnil
              have := congrArg List.length hnil
              rw [List.length_take, hb1len, List.length_nil] at this
              omega
            obtain ⟨k0, hk0⟩ := List.exists_mem_of_ne_nil _ hne
            have := hLk k0 hk0
            have h6 := this.1 x hx
            have h7 := this.2 (ord pk) rfl
            omega
          · rw [toList_succ, toList_succ, ← hb1list]
            show List.flatMap (toList h) (List.take (cap/2+1) _) ++ List.flatMap (toList h) (List.drop (cap/2+1) _) = _
            rw [← List.flatMap_append, List.take_append_drop]
            rfl
      · simp only [hfull, if_false]
        exact ⟨_, _, rfl, hb1, by rw [toList_succ]; exact hb1list⟩
end BPT.Rust
