import BPT.Rust.InsertRec2
namespace BPT.Rust
open BPT Tree
variable {K V : Type} [Keyed K]

def LeafSized (cap : Nat) (h : Nat) (t : Tree K V h) : Prop := ∀ l ∈ leaves h t, l.keys.length ≤ cap

def InsOK (h : Nat) (lo hi : Option Int) (orig : List (K × V)) (k : K) (v : V) : InsRes K V h → Prop
  | .updated t' _ => Ordered h t' lo hi ∧ toList h t' = SMap.insert orig k v
  | .split a b sep _ => Ordered h a lo (some (ord sep)) ∧ Ordered h b (some (ord sep)) hi ∧ InB lo hi (ord sep) ∧
      (∀ x, lo = some x → x < ord sep) ∧ toList h a ++ toList h b = SMap.insert orig k v

theorem insertLeaf_spec (cap : Nat) (hcap : 4 ≤ cap) (l : Leaf K V) (lo hi : Option Int) (k : K) (v : V) (al : Allocs)
    (ho : Ordered 0 (l : Tree K V 0) lo hi) (hk : InB lo hi (ord k)) (hsz : l.keys.length ≤ cap) :
    ∃ res al', insertLeaf cap l k v al = some (res, al') ∧ InsOK 0 lo hi l.entries k v res := by
  have ho' := ho
  obtain ⟨hs, hl, hb⟩ := ho
  have hzip := SMap.insert_zip l.keys l.vals k v hs hl
  unfold insertLeaf
  simp only []
  cases hk' : l.keys[lowerBound l.keys k]? with
  | some k' =>
    by_cases heq : ord k' = ord k
    · have hlt : lowerBound l.keys k < l.keys.length := by
        rcases Nat.lt_or_ge (lowerBound l.keys k) l.keys.length with h | h
        · exact h
        · simp [List.getElem?_eq_none h] at hk'
      have hltv : lowerBound l.keys k < l.vals.length := by omega
      simp only [heq, decide_true, if_true, List.getElem?_eq_getElem hltv]
      refine ⟨_, _, rfl, ?_, ?_⟩
      · exact ⟨hs, by simp [length_setAt _ _ _ hltv, hl], hb⟩
      · rw [toList_zero]
        simp only [Leaf.entries]
        rw [hzip, hk']; simp [heq]
    · have hnf : ∀ k'', l.keys[lowerBound l.keys k]? = some k'' → ord k'' ≠ ord k := by
        intro k'' h; rw [hk'] at h; cases h; exact heq
      have hcond : ¬ (Option.map ord l.keys[lowerBound l.keys k]? = some (ord k)) := by
        rw [hk']; simpa using heq
      rw [if_neg hcond] at hzip
      simp only [heq, decide_false, Bool.false_eq_true, if_false]
      obtain ⟨res, al', he, hr⟩ := insertLeafAbsent_spec cap hcap l lo hi k v al ho' hk hsz hnf
      refine ⟨res, al', he, ?_⟩
      cases res with
      | updated l' old => exact ⟨hr.1, by rw [toList_zero, hr.2, ← hzip]; rfl⟩
      | split a b sep old =>
        obtain ⟨h1, h2, h3, h4, h5⟩ := hr
        refine ⟨h1, h2, h3, ?_, by rw [toList_zero, toList_zero, h4, ← hzip]; rfl⟩
        intro x hx
        obtain ⟨_, _, hab⟩ := h1
        cases hak : (a : Leaf K V).keys with
        | nil => exact absurd hak h5
        | cons a0 as =>
          have := hab a0 (by rw [hak]; exact List.mem_cons_self)
          have h6 := this.1 x hx
          have h7 := this.2 (ord sep) rfl
          omega
  | none =>
    have hnf : ∀ k'', l.keys[lowerBound l.keys k]? = some k'' → ord k'' ≠ ord k := by
      intro k'' h; rw [hk'] at h; cases h
    have hcond : ¬ (Option.map ord l.keys[lowerBound l.keys k]? = some (ord k)) := by
      rw [hk']; simp
    rw [if_neg hcond] at hzip
    simp only [Bool.false_eq_true, if_false]
    obtain ⟨res, al', he, hr⟩ := insertLeafAbsent_spec cap hcap l lo hi k v al ho' hk hsz hnf
    refine ⟨res, al', he, ?_⟩
    cases res with
    | updated l' old => exact ⟨hr.1, by rw [toList_zero, hr.2, ← hzip]; rfl⟩
    | split a b sep old =>
      obtain ⟨h1, h2, h3, h4, h5⟩ := hr
      refine ⟨h1, h2, h3, ?_, by rw [toList_zero, toList_zero, h4, ← hzip]; rfl⟩
      intro x hx
      obtain ⟨_, _, hab⟩ := h1
      cases hak : (a : Leaf K V).keys with
      | nil => exact absurd hak h5
      | cons a0 as =>
        have := hab a0 (by rw [hak]; exact List.mem_cons_self)
        have h6 := this.1 x hx
        have h7 := this.2 (ord sep) rfl
        omega
end BPT.Rust
