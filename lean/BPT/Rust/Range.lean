import BPT.Rust.Iter2
import BPT.Core.Sorted
/-
  Range queries on the arena view: where `find_leaf_for_key` positions the
  iterator, what remains from there, and the `RangeIterator` on top.
-/
namespace BPT.Rust
open BPT Tree RawMap
variable {K V : Type} [Keyed K]

theorem leaves_sorted : ∀ (h : Nat) (t : Tree K V h) (lo hi : Option Int), Ordered h t lo hi →
    ∀ l ∈ Tree.leaves h t, KSorted l.keys := by
  intro h
  induction h with
  | zero => intro t lo hi ho l hl; simp only [Tree.leaves, List.mem_singleton] at hl; subst hl; exact ho.1
  | succ h ih =>
    intro t lo hi ho l hl
    obtain ⟨_, _, _, hc⟩ := ho
    simp only [Tree.leaves, List.mem_flatMap] at hl
    obtain ⟨c, hcm, hl⟩ := hl
    obtain ⟨i, hi', hci⟩ := List.getElem_of_mem hcm
    exact ih c _ _ (hc i c (by rw [List.getElem?_eq_getElem hi', hci])) l hl

theorem toList_eq_leaves (h : Nat) (t : Tree K V h) : toList h t = (Tree.leaves h t).flatMap Leaf.entries := rfl

/-- the routed leaf splits the leaves: everything before is below `k`, everything after is above -/
theorem route_split : ∀ (h : Nat) (t : Tree K V h) (lo hi : Option Int) (k : K), Ordered h t lo hi →
    ∃ before l after, routeLeaf h t k = some l ∧ Tree.leaves h t = before ++ l :: after ∧
      (∀ p ∈ before.flatMap Leaf.entries, ord p.1 < ord k) ∧ (∀ p ∈ after.flatMap Leaf.entries, ord k < ord p.1) := by
  intro h
  induction h with
  | zero => intro t lo hi k _; exact ⟨[], t, [], rfl, rfl, by simp, by simp⟩
  | succ h ih =>
    intro t lo hi k ho
    have ho' := ho
    obtain ⟨hs, hlen, hkb, hc⟩ := ho
    have hle := upperBound_le (Branch.keys t) k
    have hic : upperBound (Branch.keys t) k < (Branch.children t).length := by omega
    have hci : (Branch.children t)[upperBound (Branch.keys t) k]? = some (Branch.children t)[upperBound (Branch.keys t) k] :=
      List.getElem?_eq_getElem hic
    generalize hcdef : (Branch.children t)[upperBound (Branch.keys t) k] = c at hci
    obtain ⟨bc, l, ac, hr, hlv, hb, ha⟩ := ih c _ _ k (hc _ c hci)
    have hsplit := flatMap_split (Tree.leaves h) (Branch.children t) _ c hci
    have hA := left_lt h t lo hi ho' k
    have hB := right_gt h t lo hi ho' k
    refine ⟨((Branch.children t).take (upperBound (Branch.keys t) k)).flatMap (Tree.leaves h) ++ bc, l,
            ac ++ ((Branch.children t).drop (upperBound (Branch.keys t) k + 1)).flatMap (Tree.leaves h), ?_, ?_, ?_, ?_⟩
    · simp only [routeLeaf, hci]; exact hr
    · show (Branch.children t).flatMap (Tree.leaves h) = _
      rw [hsplit, hlv]; simp only [List.append_assoc, List.cons_append]
    · intro p hp
      rw [List.flatMap_append] at hp
      rcases List.mem_append.1 hp with hp | hp
      · apply hA
        rw [List.flatMap_assoc] at hp
        exact hp
      · exact hb p hp
    · intro p hp
      rw [List.flatMap_append] at hp
      rcases List.mem_append.1 hp with hp | hp
      · exact ha p hp
      · apply hB
        rw [List.flatMap_assoc] at hp
        exact hp

theorem RawChain.suffix {m : RawMap K V} {cap : Nat} : ∀ (before : List (Leaf K V)) (l : Leaf K V) (after : List (Leaf K V)) (x : Nat),
    RawChain m cap (before ++ l :: after) x → RawChain m cap (l :: after) l.id := by
  intro before
  induction before with
  | nil =>
    intro l after x h
    obtain ⟨h1, h2, h3, h4⟩ := h.inv_cons
    exact RawChain.cons l after _ h1 h2 h3 rfl h4
  | cons b before ih =>
    intro l after x h
    obtain ⟨_, _, _, h4⟩ := RawChain.inv_cons (l := b) (rest := before ++ l :: after) h
    exact ih l after _ h4

/-- filter of `A ++ R` by a predicate false on `A` and true on `R` -/
theorem filter_append_split {α : Type} (p : α → Bool) (A R : List α) (hA : ∀ x ∈ A, p x = false) (hR : ∀ x ∈ R, p x = true) :
    (A ++ R).filter p = R := by
  rw [List.filter_append]
  have h1 : A.filter p = [] := by rw [List.filter_eq_nil_iff]; intro x hx; simp [hA x hx]
  have h2 : R.filter p = R := by rw [List.filter_eq_self]; exact hR
  rw [h1, h2]; rfl

/-- **where `find_leaf_for_key(k)` puts the iterator**: on the view of a valid state it finds the routed
    leaf `l` and the insertion index; an `ItemIterator` started there (with any end fields) is positioned at
    exactly the entries with key `≥ k`. -/
theorem view_pos_at_key (s : RState K V) (k : K) (hs : SInv s) (hsm : Small s) :
    ∃ (l : Leaf K V) (n : Nat),
      (view s).findLeaf k = .ok (some (l.id, lowerBound l.keys k,
        (match l.keys[lowerBound l.keys k]? with | some k' => decide (ord k' = ord k) | none => false))) ∧
      (view s).getLeaf l.id = some (leafToRaw s.cap l) ∧ KSorted l.keys ∧ l.keys.length = l.vals.length ∧
      n + 1 ≤ (view s).fuel ∧
      (∀ (ek eb : Option K) (ei : Bool),
        Pos (view s) s.cap ({ leaf := some (leafToRaw s.cap l), idx := lowerBound l.keys k, endKey := ek, endBound := eb, endIncl := ei } : ItState K V)
          ((abs s).filter (fun p => decide (ord k ≤ ord p.1))) n) ∧
      ∃ T : List (K × V), (abs s).filter (fun p => decide (ord k ≤ ord p.1)) = l.entries.drop (lowerBound l.keys k) ++ T ∧
        ∀ p ∈ T, ord k < ord p.1 := by
  have he := view_embeds s hs hsm
  have hf := fuel_ok s hs
  have hch := view_chain s hs hsm
  obtain ⟨before, l, after, hr, hlv, hb, ha⟩ := route_split s.height s.root none none k hs.inv.ord
  have hlmem : l ∈ Tree.leaves s.height s.root := by rw [hlv]; simp
  have hsorted := leaves_sorted s.height s.root none none hs.inv.ord l hlmem
  have hlens := leaves_lens s.height s.root none none hs.inv.ord l hlmem
  have hget := routeLeaf_embeds (view s) s.cap s.height s.root k l he hr
  rw [hlv] at hch
  have hsuf := RawChain.suffix before l after _ hch
  obtain ⟨_, _, _, hrest⟩ := hsuf.inv_cons
  have hlb := lowerBound_spec l.keys k hsorted
  have hlble := lowerBound_le l.keys k
  -- the entries ≥ k
  have habs : abs s = (before.flatMap Leaf.entries ++ l.entries.take (lowerBound l.keys k)) ++
      (l.entries.drop (lowerBound l.keys k) ++ after.flatMap Leaf.entries) := by
    unfold abs
    rw [toList_eq_leaves, hlv]
    simp only [List.flatMap_append, List.flatMap_cons, List.append_assoc]
    rw [← List.append_assoc (l.entries.take _), List.take_append_drop]
  have hfilter : (abs s).filter (fun p => decide (ord k ≤ ord p.1)) =
      l.entries.drop (lowerBound l.keys k) ++ after.flatMap Leaf.entries := by
    rw [habs]
    apply filter_append_split
    · intro p hp
      rcases List.mem_append.1 hp with hp | hp
      · have := hb p hp; simp; omega
      · have hk : p.1 ∈ l.keys.take (lowerBound l.keys k) := by
          simp only [Leaf.entries] at hp
          have : (l.keys.zip l.vals).take (lowerBound l.keys k) = (l.keys.take (lowerBound l.keys k)).zip (l.vals.take (lowerBound l.keys k)) := by
            simp only [List.zip, List.take_zipWith]
          rw [this] at hp
          exact (List.of_mem_zip hp).1
        have := hlb.1 _ hk; simp; omega
    · intro p hp
      rcases List.mem_append.1 hp with hp | hp
      · have hk : p.1 ∈ l.keys.drop (lowerBound l.keys k) := by
          simp only [Leaf.entries] at hp
          have : (l.keys.zip l.vals).drop (lowerBound l.keys k) = (l.keys.drop (lowerBound l.keys k)).zip (l.vals.drop (lowerBound l.keys k)) := by
            simp only [List.zip, List.drop_zipWith]
          rw [this] at hp
          exact (List.of_mem_zip hp).1
        have := hlb.2 _ hk; simp; omega
      · have := ha p hp; simp; omega
  have hfuel : after.length + 1 ≤ (view s).fuel := by
    have fl := hs.leafIds.facts.1
    rw [leafIds_eq_leaves, hlv] at fl
    simp only [List.map_append, List.map_cons, List.length_append, List.length_cons, List.length_map] at fl
    unfold RawMap.fuel view viewLeaves
    simp only [List.length_map, List.length_range]
    omega
  refine ⟨l, after.length, ?_, hget, hsorted, hlens, hfuel, ?_, ?_⟩
  · unfold RawMap.findLeaf
    rw [view_root, findLeafFrom_spec (view s) s.cap s.height s.root k _ he hf, hr]; rfl
  · intro ek eb ei
    rw [hfilter]
    exact Pos.at _ l after l.next after.length rfl hlens hrest rfl hlble rfl
  · exact ⟨after.flatMap Leaf.entries, hfilter, ha⟩

end BPT.Rust

namespace BPT.Rust
open BPT Tree RawMap
variable {K V : Type} [Keyed K]

def loOK (lo : Bound K) (k : K) : Bool :=
  match lo with
  | .included a => decide (ord a ≤ ord k)
  | .excluded a => decide (ord a < ord k)
  | .unbounded => true

def upOK (hi : Bound K) (k : K) : Bool :=
  match hi with
  | .included b => decide (ord k ≤ ord b)
  | .excluded b => decide (ord k < ord b)
  | .unbounded => true

/-- `RangeBounds::contains` -/
def inBounds (lo hi : Bound K) (k : K) : Bool := loOK lo k && upOK hi k

/-- on a strictly ascending list, `takeWhile` of a downward-closed predicate is `filter` -/
theorem takeWhile_eq_filter_sorted (p : K × V → Bool) (L : List (K × V)) (hs : SMap.Sorted L)
    (hp : ∀ a b : K × V, ord a.1 < ord b.1 → p b = true → p a = true) : L.takeWhile p = L.filter p := by
  induction L with
  | nil => rfl
  | cons a L ih =>
    have hs' := List.pairwise_cons.1 hs
    by_cases ha : p a = true
    · simp [List.takeWhile_cons, List.filter_cons, ha, ih hs'.2]
    · have hall : L.filter p = [] := by
        rw [List.filter_eq_nil_iff]
        intro b hb hpb
        exact ha (hp a b (hs'.1 b hb) hpb)
      simp [List.takeWhile_cons, List.filter_cons, ha, hall]

theorem upOK_down (hi : Bound K) (a b : K × V) (hab : ord a.1 < ord b.1) (h : upOK hi b.1 = true) : upOK hi a.1 = true := by
  cases hi <;> simp [upOK] at h ⊢ <;> omega

theorem beyond_withEnd (cfg : Cfg) (lf : Option (RLeaf K V)) (idx : Nat) (hi : Bound K) (k : K) :
    (! beyondEnd cfg (withEnd ({ leaf := lf, idx := idx } : ItState K V) hi) k) = upOK hi k := by
  cases hi with
  | included b =>
    simp only [withEnd, beyondEnd, upOK, if_true]
    by_cases h : ord k ≤ ord b
    · have : ¬ ord k > ord b := by omega
      simp [h, this]
    · have : ord k > ord b := by omega
      simp [h, this]
  | excluded b =>
    simp only [withEnd, beyondEnd, upOK, Bool.false_eq_true, if_false]
    by_cases h : ord k < ord b
    · have : ¬ ord k ≥ ord b := by omega
      simp [h, this]
    · have : ord k ≥ ord b := by omega
      simp [h, this]
  | unbounded => simp [withEnd, beyondEnd, upOK]

theorem drain_range_noskip (cfg : Cfg) (m : RawMap K V) (f : Nat) (fk : Option K) :
    ∀ (N : Nat) (it : ItState K V),
      drain (rangeNext cfg m f) N ({ it := some it, skipFirst := false, firstKey := fk } : RangeState K V) =
      drain (itemNext cfg m f) N it := by
  intro N
  induction N with
  | zero => intro it; rfl
  | succ N ih =>
    intro it
    unfold drain
    simp only [rangeNext]
    cases hn : itemNext cfg m f it with
    | ok p =>
      obtain ⟨o, it'⟩ := p
      cases o with
      | none => simp
      | some kv => simp [ih it']
    | panic => simp
    | diverge => simp
    | ub => simp

end BPT.Rust

namespace BPT.Rust
open BPT Tree RawMap
variable {K V : Type} [Keyed K]

theorem takeWhile_length_le {α : Type} (p : α → Bool) (L : List α) : (L.takeWhile p).length ≤ L.length := by
  induction L with
  | nil => simp
  | cons a L ih => rw [List.takeWhile_cons]; split <;> simp <;> omega

/-- draining a `RangeIterator` whose inner iterator is positioned at `R` -/
theorem drain_range (cfg : Cfg) (m : RawMap K V) (cap f : Nat) (N : Nat) (it0 : ItState K V) (R : List (K × V)) (n : Nat)
    (sk : Bool) (fk : Option K) (hp : Pos m cap it0 R n) (hf : n + 1 ≤ f) (hsorted : SMap.Sorted R)
    (hmono : ∀ a b : K × V, ord a.1 < ord b.1 → (! beyondEnd cfg it0 b.1) = true → (! beyondEnd cfg it0 a.1) = true)
    (hN : R.length < N) :
    drain (rangeNext cfg m f) N ({ it := some it0, skipFirst := sk, firstKey := fk } : RangeState K V) =
      .ok ((if sk && (match fk, R.head? with | some a, some kv => decide (ord kv.1 = ord a) | _, _ => false) then R.tail else R).takeWhile
        (fun kv => ! beyondEnd cfg it0 kv.1)) := by
  cases sk with
  | false =>
    simp only [Bool.false_and, Bool.false_eq_true, if_false]
    rw [drain_range_noskip]
    exact drain_pos cfg m cap f N it0 R n hp hf (Nat.lt_of_le_of_lt (takeWhile_length_le _ _) hN)
  | true =>
    obtain ⟨N', rfl⟩ : ∃ N', N = N' + 1 := ⟨N - 1, by omega⟩
    obtain ⟨out, it', he, hse, hres⟩ := itemNext_pos cfg m cap n it0 R f hp hf
    unfold drain
    simp only [rangeNext, he]
    cases R with
    | nil =>
      simp only [] at hres
      rw [hres.1]
      cases fk <;> simp
    | cons kv R' =>
      simp only [] at hres
      have hs' := List.pairwise_cons.1 hsorted
      by_cases hb : beyondEnd cfg it0 kv.1 = true
      · rw [if_pos hb] at hres
        rw [hres.1]
        -- the head is already beyond the end: so is everything after it
        have htail : R'.takeWhile (fun kv => ! beyondEnd cfg it0 kv.1) = [] := by
          cases R' with
          | nil => rfl
          | cons b R'' =>
            have hlt := hs'.1 b List.mem_cons_self
            have : (! beyondEnd cfg it0 b.1) = false := by
              cases hx : (! beyondEnd cfg it0 b.1) with
              | false => rfl
              | true => have := hmono kv b hlt hx; simp [hb] at this
            simp [List.takeWhile_cons, this]
        have hhead : (kv :: R').takeWhile (fun kv => ! beyondEnd cfg it0 kv.1) = [] := by
          simp [List.takeWhile_cons, hb]
        simp only [Bool.true_and, List.head?_cons, List.tail_cons]
        cases fk with
        | none => simp [hhead]
        | some a => by_cases hm : ord kv.1 = ord a <;> simp [hm, htail, hhead]
      · rw [if_neg hb] at hres
        obtain ⟨h1, n', h2, h3⟩ := hres
        rw [h1]
        have hb' : beyondEnd cfg it0 kv.1 = false := by cases hx : beyondEnd cfg it0 kv.1 <;> simp_all
        have hcong : ∀ (L : List (K × V)), L.takeWhile (fun kv => ! beyondEnd cfg it' kv.1) = L.takeWhile (fun kv => ! beyondEnd cfg it0 kv.1) := by
          intro L; congr 1; funext x; rw [beyondEnd_congr cfg it' it0 hse]
        simp only [Bool.true_and, List.head?_cons, List.tail_cons, if_true]
        cases hfk : fk with
        | none =>
          simp only [Bool.false_eq_true, if_false]
          rw [drain_range_noskip, drain_pos cfg m cap f N' it' R' n' h2 (by omega)
            (Nat.lt_of_le_of_lt (takeWhile_length_le _ _) (by simp only [List.length_cons] at hN; omega)), hcong]
          simp [List.takeWhile_cons, hb']
        | some a =>
          by_cases hm : ord kv.1 = ord a
          · simp only [hm, decide_true, if_true]
            -- skip `kv`: the next item comes straight from `it'`
            have hd := drain_pos cfg m cap f (N'+1) it' R' n' h2 (by omega)
              (Nat.lt_of_le_of_lt (takeWhile_length_le _ _) (by simp only [List.length_cons] at hN; omega))
            rw [hcong] at hd
            rw [← hd]
            conv => rhs; unfold drain
            cases hn2 : itemNext cfg m f it' with
            | ok p =>
              obtain ⟨o, it''⟩ := p
              cases o with
              | none => simp
              | some a2 => simp [drain_range_noskip]
            | panic => simp
            | diverge => simp
            | ub => simp
          · simp only [hm, decide_false, Bool.false_eq_true, if_false]
            rw [drain_range_noskip, drain_pos cfg m cap f N' it' R' n' h2 (by omega)
              (Nat.lt_of_le_of_lt (takeWhile_length_le _ _) (by simp only [List.length_cons] at hN; omega)), hcong]
            simp [List.takeWhile_cons, hb']

end BPT.Rust

namespace BPT.Rust
open BPT Tree RawMap
variable {K V : Type} [Keyed K]

/-- a fresh iterator at the leftmost leaf, with any end fields, is positioned at the whole abstraction -/
theorem view_start_pos' (s : RState K V) (hs : SInv s) (hsm : Small s) :
    ∃ (l0 : Leaf K V) (n : Nat), (view s).firstLeaf = .ok (some l0.id) ∧ (view s).getLeaf l0.id = some (leafToRaw s.cap l0) ∧
      n + 1 ≤ (view s).fuel ∧
      ∀ (ek eb : Option K) (ei : Bool),
        Pos (view s) s.cap ({ leaf := some (leafToRaw s.cap l0), idx := 0, endKey := ek, endBound := eb, endIncl := ei } : ItState K V) (abs s) n := by
  have he := view_embeds s hs hsm
  have hf := fuel_ok s hs
  have hch := view_chain s hs hsm
  have hfl := firstLeafOf_head s.height s.root none none hs.inv.ord
  cases hL : Tree.leaves s.height s.root with
  | nil =>
    exfalso
    exact links_ne_nil s.height s.root none none hs.inv.ord (by simp [links, hL])
  | cons l0 rest =>
    rw [hL] at hch
    obtain ⟨hget, hlens, hne, hrest⟩ := hch.inv_cons
    have habs : abs s = l0.entries.drop 0 ++ rest.flatMap Leaf.entries := by
      simp [abs, toList, hL]
    have hleaves_le : rest.length + 1 ≤ (view s).fuel := by
      have fl := hs.leafIds.facts.1
      rw [leafIds_eq_leaves, hL] at fl
      simp only [List.map_cons, List.length_cons, List.length_map] at fl
      unfold RawMap.fuel view viewLeaves
      simp only [List.length_map, List.length_range]
      omega
    refine ⟨l0, rest.length, ?_, hget, hleaves_le, ?_⟩
    · unfold RawMap.firstLeaf
      rw [view_root, firstLeafFrom_spec (view s) s.cap s.height s.root _ he hf, hfl, hL]; rfl
    · intro ek eb ei
      rw [habs]
      exact Pos.at _ l0 rest l0.next rest.length rfl hlens hrest rfl (Nat.zero_le _) rfl

theorem sorted_filter (p : K × V → Bool) (L : List (K × V)) (hs : SMap.Sorted L) : SMap.Sorted (L.filter p) :=
  List.Pairwise.sublist List.filter_sublist hs

/-- **C03 core.** `range(lo, hi)` on the view of a valid state yields exactly the entries within the bounds -/
theorem view_range (s : RState K V) (lo hi : Bound K) (hs : SInv s) (hsm : Small s) :
    (view s).range Cfg.repaired lo hi = .ok ((abs s).filter (fun p => inBounds lo hi p.1)) := by
  have habs_sorted := toList_sorted s.height s.root none none hs.inv.ord
  have hbound := itemBound_ok s hs hsm
  -- common final step: from a positioned inner iterator to the filtered abstraction
  have finish : ∀ (lf : RLeaf K V) (idx n : Nat) (R : List (K × V)) (sk : Bool) (fk : Option K),
      Pos (view s) s.cap (withEnd ({ leaf := some lf, idx := idx } : ItState K V) hi) R n → n + 1 ≤ (view s).fuel →
      SMap.Sorted R → R.length ≤ (abs s).length →
      drain (rangeNext Cfg.repaired (view s) (view s).fuel) (view s).itemBound
        ({ it := some (withEnd ({ leaf := some lf, idx := idx } : ItState K V) hi), skipFirst := sk, firstKey := fk } : RangeState K V) =
      .ok ((if sk && (match fk, R.head? with | some a, some kv => decide (ord kv.1 = ord a) | _, _ => false) then R.tail else R).filter (fun p => upOK hi p.1)) := by
    intro lf idx n R sk fk hp hf hsR hlen
    have hfun : (fun (kv : K × V) => ! beyondEnd Cfg.repaired (withEnd ({ leaf := some lf, idx := idx } : ItState K V) hi) kv.1) = fun kv => upOK hi kv.1 := by
      funext kv; exact beyond_withEnd _ _ _ hi kv.1
    rw [drain_range Cfg.repaired (view s) s.cap _ _ _ R n sk fk hp hf hsR
      (by intro a b hab h
          have e1 : (! beyondEnd Cfg.repaired (withEnd ({ leaf := some lf, idx := idx } : ItState K V) hi) a.1) = upOK hi a.1 := congrFun hfun a
          have e2 : (! beyondEnd Cfg.repaired (withEnd ({ leaf := some lf, idx := idx } : ItState K V) hi) b.1) = upOK hi b.1 := congrFun hfun b
          rw [e1]; rw [e2] at h; exact upOK_down hi a b hab h) (by omega), hfun]
    congr 1
    apply takeWhile_eq_filter_sorted
    · generalize (sk && (match fk, R.head? with | some a, some kv => decide (ord kv.1 = ord a) | _, _ => false)) = b
      cases b
      · simp only [Bool.false_eq_true, if_false]; exact hsR
      · rw [if_pos rfl]; exact List.Pairwise.sublist (List.tail_sublist R) hsR
    · exact fun a b hab h => upOK_down hi a b hab h
  have pos_withEnd : ∀ (lf : RLeaf K V) (idx n : Nat) (R : List (K × V)),
      (∀ (ek eb : Option K) (ei : Bool), Pos (view s) s.cap ({ leaf := some lf, idx := idx, endKey := ek, endBound := eb, endIncl := ei } : ItState K V) R n) →
      Pos (view s) s.cap (withEnd ({ leaf := some lf, idx := idx } : ItState K V) hi) R n := by
    intro lf idx n R h
    cases hi with
    | included k => exact h none (some k) true
    | excluded k => exact h none (some k) false
    | unbounded => exact h none none false
  unfold RawMap.range RawMap.rangeStart
  cases lo with
  | unbounded =>
    obtain ⟨l0, n, hfl, hget, hf, hpos⟩ := view_start_pos' s hs hsm
    simp only [hfl, Res.map_ok, Res.bind_ok, Option.map_some, hget, Bool.false_eq_true, if_false]
    rw [finish _ 0 n (abs s) false none (pos_withEnd _ _ _ _ hpos) hf habs_sorted (Nat.le_refl _)]
    simp [inBounds, loOK]
  | included k =>
    obtain ⟨l, n, hfind, hget, hsl, hlens, hf, hpos, T, hfil, hT⟩ := view_pos_at_key s k hs hsm
    simp only [hfind, Res.map_ok, Res.bind_ok, Option.map_some, hget, Bool.false_eq_true, if_false]
    rw [finish _ _ n _ false none (pos_withEnd _ _ _ _ hpos) hf (sorted_filter _ _ habs_sorted) (List.length_filter_le _ _)]
    simp only [Bool.false_and, Bool.false_eq_true, if_false, List.filter_filter]
    congr 1
    apply List.filter_congr
    intro p _
    simp [inBounds, loOK, Bool.and_comm]
  | excluded k =>
    obtain ⟨l, n, hfind, hget, hsl, hlens, hf, hpos, T, hfil, hT⟩ := view_pos_at_key s k hs hsm
    have hsk : (Cfg.repaired).skipOnlyMatched = true := rfl
    simp only [hfind, Res.map_ok, Res.bind_ok, Option.map_some, hget, hsk, if_true]
    have hR := sorted_filter (fun p => decide (ord k ≤ ord p.1)) _ habs_sorted
    rw [finish _ _ n _ _ _ (pos_withEnd _ _ _ _ hpos) hf hR (List.length_filter_le _ _)]
    congr 1
    -- entries strictly above k
    have hgt : ∀ (L : List (K × V)), (L.filter (fun p => decide (ord k ≤ ord p.1))).filter (fun p => decide (ord k < ord p.1)) =
        L.filter (fun p => decide (ord k < ord p.1)) := by
      intro L
      rw [List.filter_filter]
      apply List.filter_congr
      intro p _
      by_cases h : ord k < ord p.1
      · have : ord k ≤ ord p.1 := by omega
        simp [h, this]
      · simp [h]
    have hfinal : ∀ (R0 : List (K × V)), R0 = (abs s).filter (fun p => decide (ord k < ord p.1)) →
        R0.filter (fun p => upOK hi p.1) = (abs s).filter (fun p => inBounds (.excluded k) hi p.1) := by
      intro R0 h0
      rw [h0, List.filter_filter]
      apply List.filter_congr
      intro p _
      simp [inBounds, loOK, Bool.and_comm]
    apply hfinal
    cases hk : l.keys[lowerBound l.keys k]? with
    | none =>
      -- not matched: nothing is skipped, and no stored key equals k
      simp only [Bool.false_and, Bool.false_eq_true, if_false]
      rw [← hgt]
      symm
      apply List.filter_eq_self.2
      intro p hp
      rw [hfil] at hp
      rcases List.mem_append.1 hp with hp | hp
      · have hlt : l.keys.length ≤ lowerBound l.keys k := by
          rcases Nat.lt_or_ge (lowerBound l.keys k) l.keys.length with h | h
          · simp [List.getElem?_eq_getElem h] at hk
          · exact h
        have : l.entries.drop (lowerBound l.keys k) = [] := by
          apply List.drop_eq_nil_of_le; simp [Leaf.entries]; omega
        rw [this] at hp; cases hp
      · have := hT p hp; simp; omega
    | some k' =>
      have hlt : lowerBound l.keys k < l.keys.length := lt_of_getElem?_eq_some hk
      have hltv : lowerBound l.keys k < l.vals.length := by omega
      have hk'e : k' = l.keys[lowerBound l.keys k] := by
        rw [List.getElem?_eq_getElem hlt] at hk; exact (Option.some.inj hk).symm
      have hdrop : l.entries.drop (lowerBound l.keys k) =
          (l.keys[lowerBound l.keys k], l.vals[lowerBound l.keys k]) :: l.entries.drop (lowerBound l.keys k + 1) := by
        simp only [Leaf.entries]; exact zip_drop_cons _ _ _ hlt hlens
      by_cases heq : ord k' = ord k
      · -- matched: the first remaining entry is the excluded key itself and is skipped
        simp only [heq, decide_true, Bool.true_and]
        rw [hfil, hdrop]
        simp only [List.cons_append, List.head?_cons, List.tail_cons]
        have hmatch : (match ((leafToRaw s.cap l).keys[lowerBound l.keys k]? : Option K), some ((l.keys[lowerBound l.keys k], l.vals[lowerBound l.keys k]) : K × V) with
            | some a, some kv => decide (ord kv.1 = ord a) | _, _ => false) = true := by
          simp [leafToRaw, List.getElem?_eq_getElem hlt]
        simp only [Option.bind_some, hmatch, if_true]
        -- the tail is exactly the entries above k
        have hRs : SMap.Sorted ((l.keys[lowerBound l.keys k], l.vals[lowerBound l.keys k]) :: (l.entries.drop (lowerBound l.keys k + 1) ++ T)) := by
          rw [← List.cons_append, ← hdrop, ← hfil]; exact hR
        have hs' := List.pairwise_cons.1 hRs
        rw [← hgt (abs s), hfil, hdrop]
        simp only [List.cons_append, List.filter_cons]
        have : ¬ (ord k < ord l.keys[lowerBound l.keys k]) := by rw [← hk'e]; omega
        simp only [this, decide_false, Bool.false_eq_true, if_false]
        symm
        rw [List.filter_eq_self]
        intro p hp
        have := hs'.1 p hp
        simp only at this
        rw [← hk'e] at this
        simp; omega
      · -- not matched: the entry at the insertion point is above k and stays
        simp only [heq, decide_false, Bool.false_and, Bool.false_eq_true, if_false]
        rw [← hgt]
        symm
        apply List.filter_eq_self.2
        intro p hp
        rw [hfil] at hp
        rcases List.mem_append.1 hp with hp | hp
        · have hkm : p.1 ∈ l.keys.drop (lowerBound l.keys k) := by
            simp only [Leaf.entries] at hp
            have : (l.keys.zip l.vals).drop (lowerBound l.keys k) = (l.keys.drop (lowerBound l.keys k)).zip (l.vals.drop (lowerBound l.keys k)) := by
              simp only [List.zip, List.drop_zipWith]
            rw [this] at hp
            exact (List.of_mem_zip hp).1
          have := lowerBound_strict l.keys k hsl (by intro k'' h; rw [hk] at h; cases h; exact heq) p.1 hkm
          simp; omega
        · have := hT p hp; simp; omega

end BPT.Rust
