import BPT.Rust.Top2
/-
  The leaf chain, positionally: `links t` is the in-order list of (id, next) of
  the leaves of `t`.  Insert replaces one link by one or two, remove keeps the
  list or fuses two adjacent links.  Chain and leaf-id bookkeeping are generic
  facts about such lists.
-/
namespace BPT.Rust
open BPT Tree
variable {K V : Type} [Keyed K]

def link (l : Leaf K V) : Nat × Nat := (l.id, l.next)
def links (h : Nat) (t : Tree K V h) : List (Nat × Nat) := (leaves h t).map link

theorem links_zero (l : Leaf K V) : links 0 (l : Tree K V 0) = [(l.id, l.next)] := rfl
theorem links_succ (h : Nat) (b : Branch K (Tree K V h)) :
    links (h+1) (b : Tree K V (h+1)) = b.children.flatMap (links h) := by
  simp only [links, leaves, List.map_flatMap]
  rfl

/-- id of the first link, or `nxt` when there is none -/
def firstOf (L : List (Nat × Nat)) (nxt : Nat) : Nat := match L with | [] => nxt | p :: _ => p.1

/-- consecutive links are chained, the last one points to `nxt` -/
def ChainL : List (Nat × Nat) → Nat → Prop
  | [], _ => True
  | p :: rest, nxt => p.2 = firstOf rest nxt ∧ ChainL rest nxt

theorem firstOf_append (A B : List (Nat × Nat)) (nxt : Nat) : firstOf (A ++ B) nxt = firstOf A (firstOf B nxt) := by
  cases A <;> rfl

theorem chainL_append (A B : List (Nat × Nat)) (nxt : Nat) :
    ChainL (A ++ B) nxt ↔ ChainL A (firstOf B nxt) ∧ ChainL B nxt := by
  induction A with
  | nil => simp [ChainL]
  | cons p A ih =>
    simp only [List.cons_append, ChainL, ih, firstOf_append]
    constructor
    · rintro ⟨h1, h2, h3⟩; exact ⟨⟨h1, h2⟩, h3⟩
    · rintro ⟨⟨h1, h2⟩, h3⟩; exact ⟨h1, h2, h3⟩

/-- one link replaced by two (leaf split) -/
theorem chainL_split (A B : List (Nat × Nat)) (i n new nxt : Nat) (h : ChainL (A ++ [(i, n)] ++ B) nxt) :
    ChainL (A ++ [(i, new), (new, n)] ++ B) nxt ∧ firstOf (A ++ [(i, new), (new, n)] ++ B) nxt = firstOf (A ++ [(i, n)] ++ B) nxt := by
  rw [List.append_assoc, chainL_append] at h
  rw [List.append_assoc, chainL_append]
  obtain ⟨h1, h2⟩ := h
  have h2' : n = firstOf B nxt ∧ ChainL B nxt := h2
  refine ⟨⟨h1, ?_⟩, ?_⟩
  · show new = new ∧ n = firstOf B nxt ∧ ChainL B nxt
    exact ⟨rfl, h2'.1, h2'.2⟩
  · simp only [List.append_assoc, firstOf_append]; rfl

/-- two adjacent links fused (leaf merge) -/
theorem chainL_merge (A B : List (Nat × Nat)) (ia na ib nb nxt : Nat) (h : ChainL (A ++ [(ia, na), (ib, nb)] ++ B) nxt) :
    ChainL (A ++ [(ia, nb)] ++ B) nxt ∧ firstOf (A ++ [(ia, nb)] ++ B) nxt = firstOf (A ++ [(ia, na), (ib, nb)] ++ B) nxt := by
  rw [List.append_assoc, chainL_append] at h
  rw [List.append_assoc, chainL_append]
  obtain ⟨h1, h2⟩ := h
  have h2' : na = ib ∧ nb = firstOf B nxt ∧ ChainL B nxt := h2
  refine ⟨⟨h1, ?_⟩, ?_⟩
  · show nb = firstOf B nxt ∧ ChainL B nxt
    exact h2'.2
  · simp only [List.append_assoc, firstOf_append]; rfl

/-- every subtree of an ordered tree has a leaf -/
theorem links_ne_nil : ∀ (h : Nat) (t : Tree K V h) (lo hi : Option Int), Ordered h t lo hi → links h t ≠ [] := by
  intro h
  induction h with
  | zero => intro t _ _ _; simp [links, leaves]
  | succ h ih =>
    intro t lo hi ho
    obtain ⟨_, hlen, _, hc⟩ := ho
    rw [links_succ]
    have h0 : 0 < (Branch.children t).length := by omega
    have hc0 := hc 0 _ (List.getElem?_eq_getElem h0)
    intro hnil
    rw [List.flatMap_eq_nil_iff] at hnil
    exact ih _ _ _ hc0 (hnil _ (List.getElem_mem h0))

end BPT.Rust
