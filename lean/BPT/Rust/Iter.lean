import BPT.Core.Tree
/- spike: ItemIterator over a raw leaf arena, walking the chain with fuel -/
namespace BPT.Rust
open BPT
variable {K V : Type}

def nullId' : Nat := 4294967295

structure RLeaf (K V : Type) where
  keys : List K
  vals : List V
  next : Nat

/-- iterator state: cached leaf (the `&LeafNode`) and index; `none` = terminal -/
structure ItState (K V : Type) where
  leaf : Option (RLeaf K V)
  idx : Nat

/-- one `next()` call: `get` is `tree.get_leaf`; fuel bounds the leaf-skipping loop -/
def itemNext (get : Nat → Option (RLeaf K V)) : Nat → ItState K V → Option (Option (K × V) × ItState K V)
  | 0, _ => none                                        -- diverge
  | f+1, st =>
    match st.leaf with
    | none => some (none, st)
    | some lf =>
      if st.idx < lf.keys.length then
        match lf.keys[st.idx]?, lf.vals[st.idx]? with
        | some k, some v => some (some (k, v), { st with idx := st.idx + 1 })
        | _, _ => some (none, { leaf := none, idx := st.idx })
      else if lf.next = nullId' then some (none, { leaf := none, idx := st.idx })
      else match get lf.next with
        | none => some (none, { leaf := none, idx := 0 })
        | some lf' => itemNext get f { leaf := some lf', idx := 0 }

/-- drain the iterator: at most `n` items, `fuel` per call -/
def collect (get : Nat → Option (RLeaf K V)) (fuel : Nat) : Nat → ItState K V → Option (List (K × V))
  | 0, _ => some []
  | n+1, st =>
    match itemNext get fuel st with
    | none => none
    | some (none, _) => some []
    | some (some kv, st') => (collect get fuel n st').map (kv :: ·)

/-- a chain: leaves with their ids, each reachable through `get`, linked in order, ending in null -/
inductive IsChain (get : Nat → Option (RLeaf K V)) : List (Nat × RLeaf K V) → Nat → Prop
  | nil : IsChain get [] nullId'
  | cons (id : Nat) (lf : RLeaf K V) (rest : List (Nat × RLeaf K V)) (nxt : Nat) :
      get id = some lf → lf.keys.length = lf.vals.length → id ≠ nullId' → lf.next = nxt → IsChain get rest nxt →
      IsChain get ((id, lf) :: rest) id

def entriesOf (lf : RLeaf K V) : List (K × V) := lf.keys.zip lf.vals

theorem zip_drop_cons (ks : List K) (vs : List V) (i : Nat) (hi : i < ks.length) (hl : ks.length = vs.length) :
    (ks.zip vs).drop i = (ks[i], vs[i]'(by omega)) :: (ks.zip vs).drop (i+1) := by
  have : i < (ks.zip vs).length := by simp; omega
  rw [List.drop_eq_getElem_cons this]
  simp

theorem itemNext_inside (get : Nat → Option (RLeaf K V)) (f : Nat) (lf : RLeaf K V) (idx : Nat)
    (hl : lf.keys.length = lf.vals.length) (hi : idx < lf.keys.length) :
    itemNext get (f+1) { leaf := some lf, idx := idx } =
      some (some (lf.keys[idx], lf.vals[idx]'(by omega)), { leaf := some lf, idx := idx + 1 }) := by
  have hv : idx < lf.vals.length := by omega
  simp [itemNext, hi, List.getElem?_eq_getElem hi, List.getElem?_eq_getElem hv]

/-- "iterator state `st` is positioned so that exactly `R` remains", with `m` leaves still ahead -/
inductive Pos (get : Nat → Option (RLeaf K V)) : ItState K V → List (K × V) → Nat → Prop
  | done (i m : Nat) : Pos get { leaf := none, idx := i } [] m
  | at (lf : RLeaf K V) (idx : Nat) (rest : List (Nat × RLeaf K V)) (nxt m : Nat) :
      lf.keys.length = lf.vals.length → IsChain get rest nxt → lf.next = nxt → idx ≤ lf.keys.length → rest.length = m →
      Pos get { leaf := some lf, idx := idx } ((entriesOf lf).drop idx ++ rest.flatMap (fun p => entriesOf p.2)) m

/-- one `next()` call from a positioned state returns the head of what remains and stays positioned -/
theorem itemNext_pos (get : Nat → Option (RLeaf K V)) :
    ∀ (m : Nat) (st : ItState K V) (R : List (K × V)) (fuel : Nat), Pos get st R m → m + 1 ≤ fuel →
      ∃ st' m', itemNext get fuel st = some (R.head?, st') ∧ Pos get st' R.tail m' ∧ m' ≤ m := by
  intro m
  induction m with
  | zero =>
    intro st R fuel hp hf
    cases fuel with
    | zero => omega
    | succ f =>
      cases hp with
      | done i => exact ⟨_, 0, by simp [itemNext], Pos.done i 0, Nat.le_refl _⟩
      | «at» lf idx rest nxt _ hl hch hnx hidx hm =>
        have hrest : rest = [] := List.eq_nil_of_length_eq_zero hm
        subst hrest
        by_cases hi : idx < lf.keys.length
        · refine ⟨{ leaf := some lf, idx := idx + 1 }, 0, ?_, ?_, Nat.le_refl _⟩
          · rw [itemNext_inside get f lf idx hl hi]
            simp only [entriesOf, List.flatMap_nil, List.append_nil]
            rw [zip_drop_cons _ _ _ hi hl]; rfl
          · have := Pos.at (get := get) lf (idx+1) [] nxt 0 hl hch hnx (by omega) rfl
            simp only [entriesOf, List.flatMap_nil, List.append_nil] at this ⊢
            rw [zip_drop_cons _ _ _ hi hl]
            simpa using this
        · have hnull : lf.next = nullId' := by cases hch; exact hnx
          have hdrop : (entriesOf lf).drop idx = [] := by
            apply List.drop_eq_nil_of_le; simp [entriesOf]; omega
          refine ⟨{ leaf := none, idx := idx }, 0, ?_, ?_, Nat.le_refl _⟩
          · simp [itemNext, hi, hnull, hdrop]
          · simp only [hdrop, List.flatMap_nil, List.append_nil, List.tail_nil]
            exact Pos.done idx 0
  | succ m ih =>
    intro st R fuel hp hf
    cases fuel with
    | zero => omega
    | succ f =>
      cases hp with
      | done i => exact ⟨_, 0, by simp [itemNext], Pos.done i 0, Nat.zero_le _⟩
      | «at» lf idx rest nxt _ hl hch hnx hidx hm =>
        by_cases hi : idx < lf.keys.length
        · refine ⟨{ leaf := some lf, idx := idx + 1 }, m+1, ?_, ?_, Nat.le_refl _⟩
          · rw [itemNext_inside get f lf idx hl hi]
            simp only [entriesOf]
            rw [zip_drop_cons _ _ _ hi hl]; rfl
          · have := Pos.at (get := get) lf (idx+1) rest nxt (m+1) hl hch hnx (by omega) hm
            simp only [entriesOf] at this ⊢
            rw [zip_drop_cons _ _ _ hi hl]
            simpa using this
        · -- end of this leaf: move on to the next one in the chain
          have hdrop : (entriesOf lf).drop idx = [] := by
            apply List.drop_eq_nil_of_le; simp [entriesOf]; omega
          cases hch with
          | nil => simp at hm
          | cons id' lf' rest' nxt2 hget hl' hne hnx2 hrest =>
            have hstep : itemNext get (f+1) { leaf := some lf, idx := idx } = itemNext get f { leaf := some lf', idx := 0 } := by
              simp [itemNext, hi, hnx, hne, hget]
            have hlen : rest'.length = m := by simpa using hm
            have hp' := Pos.at (get := get) lf' 0 rest' nxt2 m hl' hrest hnx2 (Nat.zero_le _) hlen
            obtain ⟨st', m', he, hp'', hm'⟩ := ih _ _ f hp' (by omega)
            refine ⟨st', m', ?_, ?_, by omega⟩
            · rw [hstep, he]; simp [hdrop]
            · simpa [hdrop] using hp''
end BPT.Rust
