import BPT.Rust.Readers1
/-
  ItemIterator over a raw map: from a state *positioned* on a chain of stored
  leaves with `R` remaining, one `next()` returns the head of `R` (or stops at
  the end bound) and stays positioned on the tail.
-/
namespace BPT.Rust
open BPT Tree RawMap
variable {K V : Type} [Keyed K]

/-- the leaves `L` are stored in `m` and linked in this order; the second index is the id of the first one -/
inductive RawChain (m : RawMap K V) (cap : Nat) : List (Leaf K V) → Nat → Prop where
  | nil : RawChain m cap [] nullId
  | cons (l : Leaf K V) (rest : List (Leaf K V)) (nxt : Nat) :
      m.getLeaf l.id = some (leafToRaw cap l) → l.keys.length = l.vals.length → l.id ≠ nullId → l.next = nxt →
      RawChain m cap rest nxt → RawChain m cap (l :: rest) l.id

theorem zip_drop_cons {α β : Type} (ks : List α) (vs : List β) (i : Nat) (hi : i < ks.length) (hl : ks.length = vs.length) :
    (ks.zip vs).drop i = (ks[i], vs[i]'(by omega)) :: (ks.zip vs).drop (i+1) := by
  have : i < (ks.zip vs).length := by simp; omega
  rw [List.drop_eq_getElem_cons this]
  simp

/-- iterator state `st` is positioned so that exactly `R` remains, with `n` leaves still ahead -/
inductive Pos (m : RawMap K V) (cap : Nat) : ItState K V → List (K × V) → Nat → Prop where
  | done (st : ItState K V) (n : Nat) : st.leaf = none → Pos m cap st [] n
  | at (st : ItState K V) (l : Leaf K V) (rest : List (Leaf K V)) (nxt n : Nat) :
      st.leaf = some (leafToRaw cap l) → l.keys.length = l.vals.length → RawChain m cap rest nxt → l.next = nxt →
      st.idx ≤ l.keys.length → rest.length = n →
      Pos m cap st (l.entries.drop st.idx ++ rest.flatMap Leaf.entries) n

/-- end-bound fields are never changed by `next()` -/
def sameEnd (a b : ItState K V) : Prop := a.endKey = b.endKey ∧ a.endBound = b.endBound ∧ a.endIncl = b.endIncl

theorem beyondEnd_congr (cfg : Cfg) (a b : ItState K V) (h : sameEnd a b) (k : K) : beyondEnd cfg a k = beyondEnd cfg b k := by
  unfold beyondEnd; rw [h.1, h.2.1, h.2.2]

/-- one `next()` call from a positioned state -/
theorem itemNext_pos (cfg : Cfg) (m : RawMap K V) (cap : Nat) :
    ∀ (n : Nat) (st : ItState K V) (R : List (K × V)) (fuel : Nat), Pos m cap st R n → n + 1 ≤ fuel →
      ∃ out st', itemNext cfg m fuel st = .ok (out, st') ∧ sameEnd st' st ∧
        match R with
        | [] => out = none ∧ Pos m cap st' [] 0
        | kv :: R' =>
          if beyondEnd cfg st kv.1 then out = none ∧ st'.leaf = none
          else out = some kv ∧ ∃ n', Pos m cap st' R' n' ∧ n' ≤ n := by
  intro n
  induction n with
  | zero =>
    intro st R fuel hp hf
    obtain ⟨f, rfl⟩ : ∃ f, fuel = f + 1 := ⟨fuel - 1, by omega⟩
    rcases hp with ⟨_, hnone⟩ | ⟨l, rest, nxt, _, hleaf, hl, hch, hnx, hidx, hm⟩
    · exact ⟨none, st, by simp [itemNext, hnone], ⟨rfl, rfl, rfl⟩, rfl, Pos.done _ _ hnone⟩
    · have hrest : rest = [] := List.eq_nil_of_length_eq_zero hm
      subst hrest
      by_cases hi : st.idx < l.keys.length
      · have hv : st.idx < l.vals.length := by omega
        have hR : l.entries.drop st.idx ++ ([] : List (Leaf K V)).flatMap Leaf.entries =
            (l.keys[st.idx], l.vals[st.idx]) :: l.entries.drop (st.idx+1) := by
          simp only [List.flatMap_nil, List.append_nil, Leaf.entries]
          exact zip_drop_cons _ _ _ hi hl
        rw [hR]
        have hguard : (if cfg.guardBoth = true then decide (st.idx < (leafToRaw cap l).keys.length ∧ st.idx < (leafToRaw cap l).vals.length)
            else decide (st.idx < (leafToRaw cap l).keys.length)) = true := by
          simp only [leafToRaw]; split <;> simp [hi, hv]
        by_cases hb : beyondEnd cfg st l.keys[st.idx] = true
        · refine ⟨none, { st with leaf := none }, ?_, ⟨rfl, rfl, rfl⟩, ?_⟩
          · unfold itemNext
            simp only [hleaf, hguard, if_true]
            simp only [leafToRaw, List.getElem?_eq_getElem hi, List.getElem?_eq_getElem hv, hb, if_true]
          · show (if beyondEnd cfg st _ = true then _ else _)
            rw [if_pos hb]; exact ⟨rfl, rfl⟩
        · refine ⟨some (l.keys[st.idx], l.vals[st.idx]), { st with idx := st.idx + 1 }, ?_, ⟨rfl, rfl, rfl⟩, ?_⟩
          · unfold itemNext
            simp only [hleaf, hguard, if_true]
            simp only [leafToRaw, List.getElem?_eq_getElem hi, List.getElem?_eq_getElem hv, hb]
            rfl
          · show (if beyondEnd cfg st _ = true then _ else _)
            rw [if_neg hb]
            refine ⟨rfl, 0, ?_, Nat.le_refl _⟩
            have := Pos.at (m := m) (cap := cap) { st with idx := st.idx + 1 } l [] nxt 0 hleaf hl hch hnx (by show st.idx + 1 ≤ _; omega) rfl
            simpa using this
      · have hnull : l.next = nullId := by cases hch; exact hnx
        have hdrop : l.entries.drop st.idx = [] := by
          apply List.drop_eq_nil_of_le; simp [Leaf.entries]; omega
        have hguard : (if cfg.guardBoth = true then decide (st.idx < (leafToRaw cap l).keys.length ∧ st.idx < (leafToRaw cap l).vals.length)
            else decide (st.idx < (leafToRaw cap l).keys.length)) = false := by
          simp only [leafToRaw]; split <;> simp [hi]
        refine ⟨none, { st with leaf := none }, ?_, ⟨rfl, rfl, rfl⟩, ?_⟩
        · unfold itemNext
          simp only [hleaf, hguard, Bool.false_eq_true, if_false]
          simp [leafToRaw, hnull]
        · rw [hdrop]
          exact ⟨rfl, Pos.done _ _ rfl⟩
  | succ n ih =>
    intro st R fuel hp hf
    obtain ⟨f, rfl⟩ : ∃ f, fuel = f + 1 := ⟨fuel - 1, by omega⟩
    rcases hp with ⟨_, hnone⟩ | ⟨l, rest, nxt, _, hleaf, hl, hch, hnx, hidx, hm⟩
    · exact ⟨none, st, by simp [itemNext, hnone], ⟨rfl, rfl, rfl⟩, rfl, Pos.done _ _ hnone⟩
    · by_cases hi : st.idx < l.keys.length
      · have hv : st.idx < l.vals.length := by omega
        have hR : l.entries.drop st.idx ++ rest.flatMap Leaf.entries =
            (l.keys[st.idx], l.vals[st.idx]) :: (l.entries.drop (st.idx+1) ++ rest.flatMap Leaf.entries) := by
          simp only [Leaf.entries]
          rw [zip_drop_cons _ _ _ hi hl]; rfl
        rw [hR]
        have hguard : (if cfg.guardBoth = true then decide (st.idx < (leafToRaw cap l).keys.length ∧ st.idx < (leafToRaw cap l).vals.length)
            else decide (st.idx < (leafToRaw cap l).keys.length)) = true := by
          simp only [leafToRaw]; split <;> simp [hi, hv]
        by_cases hb : beyondEnd cfg st l.keys[st.idx] = true
        · refine ⟨none, { st with leaf := none }, ?_, ⟨rfl, rfl, rfl⟩, ?_⟩
          · unfold itemNext
            simp only [hleaf, hguard, if_true]
            simp only [leafToRaw, List.getElem?_eq_getElem hi, List.getElem?_eq_getElem hv, hb, if_true]
          · show (if beyondEnd cfg st _ = true then _ else _)
            rw [if_pos hb]; exact ⟨rfl, rfl⟩
        · refine ⟨some (l.keys[st.idx], l.vals[st.idx]), { st with idx := st.idx + 1 }, ?_, ⟨rfl, rfl, rfl⟩, ?_⟩
          · unfold itemNext
            simp only [hleaf, hguard, if_true]
            simp only [leafToRaw, List.getElem?_eq_getElem hi, List.getElem?_eq_getElem hv, hb]
            rfl
          · show (if beyondEnd cfg st _ = true then _ else _)
            rw [if_neg hb]
            refine ⟨rfl, n+1, ?_, Nat.le_refl _⟩
            exact Pos.at (m := m) (cap := cap) { st with idx := st.idx + 1 } l rest nxt (n+1) hleaf hl hch hnx (by show st.idx + 1 ≤ _; omega) hm
      · -- end of this leaf: move on to the next one in the chain
        have hdrop : l.entries.drop st.idx = [] := by
          apply List.drop_eq_nil_of_le; simp [Leaf.entries]; omega
        have hguard : (if cfg.guardBoth = true then decide (st.idx < (leafToRaw cap l).keys.length ∧ st.idx < (leafToRaw cap l).vals.length)
            else decide (st.idx < (leafToRaw cap l).keys.length)) = false := by
          simp only [leafToRaw]; split <;> simp [hi]
        cases hch with
        | nil => simp at hm
        | cons l' rest' nxt2 hget hl' hne hnx2 hrest =>
          have hstep : itemNext cfg m (f+1) st = itemNext cfg m f { st with leaf := some (leafToRaw cap l'), idx := 0 } := by
            conv => lhs; unfold itemNext
            simp only [hleaf, hguard, Bool.false_eq_true, if_false]
            simp only [leafToRaw] at hget ⊢
            simp [hnx, hne, hget]
          have hlen : rest'.length = n := by simpa using hm
          have hp' := Pos.at (m := m) (cap := cap) { st with leaf := some (leafToRaw cap l'), idx := 0 } l' rest' nxt2 n rfl hl' hrest hnx2 (Nat.zero_le _) hlen
          obtain ⟨out, st', he, hse, hres⟩ := ih _ _ f hp' (by omega)
          refine ⟨out, st', by rw [hstep, he], ⟨hse.1, hse.2.1, hse.2.2⟩, ?_⟩
          simp only [hdrop, List.nil_append, List.flatMap_cons, List.drop_zero] at hres ⊢
          cases hR : l'.entries ++ rest'.flatMap Leaf.entries with
          | nil => rw [hR] at hres; exact hres
          | cons kv R' =>
            rw [hR] at hres
            have hbe : beyondEnd cfg ({ st with leaf := some (leafToRaw cap l'), idx := 0 } : ItState K V) kv.1 = beyondEnd cfg st kv.1 :=
              beyondEnd_congr cfg _ _ ⟨rfl, rfl, rfl⟩ kv.1
            simp only [hbe] at hres
            show (if beyondEnd cfg st kv.1 = true then _ else _)
            by_cases hb : beyondEnd cfg st kv.1 = true
            · rw [if_pos hb] at hres ⊢; exact hres
            · rw [if_neg hb] at hres ⊢
              obtain ⟨h1, n', h2, h3⟩ := hres
              exact ⟨h1, n', h2, by omega⟩

end BPT.Rust
