import BPT.Rust.InsertLeaf2
namespace BPT.Rust
open BPT Tree
variable {K V : Type} [Keyed K]

/-- the split point of a full leaf is interior and leaves both halves at least `cap/2` keys -/
theorem leafSplitMid_bounds (cap n : Nat) (hcap : 4 ≤ cap) (hn : n = cap) :
    0 < leafSplitMid cap n ∧ leafSplitMid cap n < n ∧ cap / 2 ≤ leafSplitMid cap n ∧ cap / 2 ≤ n - leafSplitMid cap n := by
  unfold leafSplitMid minKeys
  omega

/-- Splitting a full ordered leaf at any interior point `mid` and inserting an absent key:
    both halves ordered around the separator, entries preserved, plus the shape facts
    (ids, links, sizes) the structural invariants need. -/
theorem splitLeafAt_spec (l : Leaf K V) (lo hi : Option Int) (k : K) (v : V) (al : Allocs) (mid : Nat)
    (ho : Ordered 0 l lo hi) (hk : InB lo hi (ord k))
    (hnf : ∀ k', l.keys[lowerBound l.keys k]? = some k' → ord k' ≠ ord k)
    (hmid_pos : 0 < mid) (hmid_lt : mid < l.keys.length) :
    ∃ a b sep, splitLeafAt l k v al (lowerBound l.keys k) mid = some (.split a b sep none, { al with leaf := al.leaf.alloc.2 }) ∧
      Ordered 0 a lo (some (ord sep)) ∧ Ordered 0 b (some (ord sep)) hi ∧ InB lo hi (ord sep) ∧
      Leaf.entries a ++ Leaf.entries b = (insertAt l.keys (lowerBound l.keys k) k).zip (insertAt l.vals (lowerBound l.keys k) v) ∧
      (a : Leaf K V).keys ≠ [] ∧
      a.id = l.id ∧ a.next = al.leaf.alloc.1 ∧ (b : Leaf K V).id = al.leaf.alloc.1 ∧ b.next = l.next ∧
      a.keys.length + b.keys.length = l.keys.length + 1 ∧ mid ≤ a.keys.length ∧ a.keys.length ≤ mid + 1 ∧
      b.keys.head? = some sep := by
  obtain ⟨hs, hl, hb⟩ := ho
  have hi_le := lowerBound_le l.keys k
  have hiv_le : lowerBound l.keys k ≤ l.vals.length := by omega
  have hE := ksorted_insert_lb l.keys k hs hnf
  have hEb : ∀ x ∈ insertAt l.keys (lowerBound l.keys k) k, InB lo hi (ord x) := by
    intro x hx
    rcases (mem_insertAt _ _ _ _).1 hx with rfl | hx
    · exact hk
    · exact hb x hx
  have hEl : (insertAt l.keys (lowerBound l.keys k) k).length = (insertAt l.vals (lowerBound l.keys k) v).length := by
    rw [length_insertAt _ _ _ hi_le, length_insertAt _ _ _ hiv_le, hl]
  have hmid_le : mid ≤ l.keys.length := by omega
  have hmidv : mid ≤ l.vals.length := by omega
  unfold splitLeafAt
  simp only [goesLeft, decide_eq_true_eq]
  by_cases him : lowerBound l.keys k ≤ mid
  · simp only [him, if_true]
    have e1 := take_insertAt_le l.keys _ mid k him hmid_le
    have e2 := drop_insertAt_le l.keys _ mid k him hmid_le
    have e3 := take_insertAt_le l.vals _ mid v him hmidv
    have e4 := drop_insertAt_le l.vals _ mid v him hmidv
    cases hh : (l.keys.drop mid).head? with
    | none =>
      exfalso
      have : l.keys.drop mid = [] := by simpa using hh
      have := congrArg List.length this
      simp at this; omega
    | some sep =>
      simp only []
      refine ⟨_, _, sep, rfl, ?_⟩
      have hsep : ((insertAt l.keys (lowerBound l.keys k) k).drop (mid+1)).head? = some sep := by rw [e2]; exact hh
      have := leaf_cut_spec _ _ (mid+1) lo hi sep hE hEl hEb hsep l.id (al.leaf.alloc.1) (al.leaf.alloc.1) l.next
      rw [e1, e2, e3, e4] at this
      refine ⟨this.1, this.2.1, this.2.2, ?_, ?_, rfl, rfl, rfl, rfl, ?_, ?_, ?_, hh⟩
      · simp only [Leaf.entries]
        rw [← e1, ← e2, ← e3, ← e4]
        exact entries_split _ _ _
      · simp [insertAt]
      · simp only [List.length_drop]
        rw [length_insertAt _ _ _ (by simp; omega)]
        simp only [List.length_take]; omega
      · rw [length_insertAt _ _ _ (by simp; omega)]
        simp only [List.length_take]; omega
      · rw [length_insertAt _ _ _ (by simp; omega)]
        simp only [List.length_take]; omega
  · simp only [him, if_false]
    have him' : mid < lowerBound l.keys k := by omega
    have e1 := take_insertAt_gt l.keys _ mid k him' hi_le
    have e2 := drop_insertAt_gt l.keys _ mid k him' hi_le
    have e3 := take_insertAt_gt l.vals _ mid v him' hiv_le
    have e4 := drop_insertAt_gt l.vals _ mid v him' hiv_le
    cases hh : (insertAt (l.keys.drop mid) (lowerBound l.keys k - mid) k).head? with
    | none =>
      exfalso
      have : insertAt (l.keys.drop mid) (lowerBound l.keys k - mid) k = [] := by simpa using hh
      simp [insertAt] at this
    | some sep =>
      simp only []
      refine ⟨_, _, sep, rfl, ?_⟩
      have hsep : ((insertAt l.keys (lowerBound l.keys k) k).drop mid).head? = some sep := by rw [e2]; exact hh
      have := leaf_cut_spec _ _ mid lo hi sep hE hEl hEb hsep l.id (al.leaf.alloc.1) (al.leaf.alloc.1) l.next
      rw [e1, e2, e3, e4] at this
      refine ⟨this.1, this.2.1, this.2.2, ?_, ?_, rfl, rfl, rfl, rfl, ?_, ?_, ?_, hh⟩
      · simp only [Leaf.entries]
        rw [← e1, ← e2, ← e3, ← e4]
        exact entries_split _ _ _
      · intro hnil
        have := congrArg List.length hnil
        simp only [List.length_take, List.length_nil] at this
        omega
      · rw [length_insertAt _ _ _ (by simp; omega)]
        simp only [List.length_take, List.length_drop]; omega
      · simp only [List.length_take]; omega
      · simp only [List.length_take]; omega

theorem insertLeafAbsent_spec (cap : Nat) (hcap : 4 ≤ cap) (l : Leaf K V) (lo hi : Option Int) (k : K) (v : V) (al : Allocs)
    (ho : Ordered 0 l lo hi) (hk : InB lo hi (ord k)) (hsz : l.keys.length ≤ cap)
    (hnf : ∀ k', l.keys[lowerBound l.keys k]? = some k' → ord k' ≠ ord k) :
    ∃ res al', insertLeafAbsent cap l k v al (lowerBound l.keys k) = some (res, al') ∧
      match res with
      | .updated l' _ => Ordered 0 l' lo hi ∧ Leaf.entries l' = (insertAt l.keys (lowerBound l.keys k) k).zip (insertAt l.vals (lowerBound l.keys k) v)
      | .split a b sep _ => Ordered 0 a lo (some (ord sep)) ∧ Ordered 0 b (some (ord sep)) hi ∧
          InB lo hi (ord sep) ∧ Leaf.entries a ++ Leaf.entries b = (insertAt l.keys (lowerBound l.keys k) k).zip (insertAt l.vals (lowerBound l.keys k) v) ∧
          (a : Leaf K V).keys ≠ [] := by
  obtain ⟨hs, hl, hb⟩ := ho
  have hi_le := lowerBound_le l.keys k
  have hiv_le : lowerBound l.keys k ≤ l.vals.length := by omega
  have hE := ksorted_insert_lb l.keys k hs hnf
  have hEb : ∀ x ∈ insertAt l.keys (lowerBound l.keys k) k, InB lo hi (ord x) := by
    intro x hx
    rcases (mem_insertAt _ _ _ _).1 hx with rfl | hx
    · exact hk
    · exact hb x hx
  have hEl : (insertAt l.keys (lowerBound l.keys k) k).length = (insertAt l.vals (lowerBound l.keys k) v).length := by
    rw [length_insertAt _ _ _ hi_le, length_insertAt _ _ _ hiv_le, hl]
  unfold insertLeafAbsent
  simp only [isFull, minKeys, decide_eq_true_eq]
  by_cases hfull : l.keys.length < cap
  · have hfull' : ¬ (l.keys.length ≥ cap) := by omega
    simp only [hfull', not_false_eq_true, if_true]
    exact ⟨_, _, rfl, ⟨hE, hEl, hEb⟩, rfl⟩
  · have hn : l.keys.length = cap := by omega
    have hmin : ¬ (l.keys.length < cap / 2) := by omega
    have hfull' : l.keys.length ≥ cap := by omega
    simp only [hfull', not_true_eq_false, if_false, hmin]
    have hm := leafSplitMid_bounds cap l.keys.length hcap hn
    obtain ⟨a, b, sep, he, h1, h2, h3, h4, h5, _⟩ :=
      splitLeafAt_spec l lo hi k v al (leafSplitMid cap l.keys.length) ⟨hs, hl, hb⟩ hk hnf hm.1 hm.2.1
    exact ⟨_, _, he, h1, h2, h3, h4, h5⟩
end BPT.Rust
