import BPT.Rust.Model
import BPT.Rust.Raw
/-
  The checked / bulk API of the Rust map (lib.rs, get_operations.rs,
  delete_operations.rs, validation.rs), transcribed call by call:

    try_get / get_item   = get(k).ok_or(KeyNotFound)
    get_many             = loop over the keys, first absent key => Err(KeyNotFound)
    remove_item          = remove(k).ok_or(KeyNotFound)
    validate / validate_for_operation = check_invariants_detailed (error mapped to DataIntegrity)
    try_insert           = validate; insert; validate
    try_remove           = validate; remove(k).ok_or(KeyNotFound)?; validate
    batch_insert         = try_insert one by one; on the first Err remove the keys inserted so far, return the Err

  `none` = the basic operation panicked (arena exhausted, C16).  Import-free apart
  from BPT model files.
-/
namespace BPT.Rust
open BPT
variable {K V : Type} [Keyed K]

inductive ApiErr where
  | keyNotFound
  | dataIntegrity
deriving Repr, DecidableEq

/-- the first statement of `try_insert` / `try_remove` / `validate_for_operation` on an arbitrary (possibly damaged)
    arena state: `some e` = the call returns `Err(e)` there and then, the map untouched; `none` = the validation
    passed and the call proceeds.  A walk that does not return is not `Ok`. -/
def checkedEntry (cfg : Cfg) (m : RawMap K V) : Option ApiErr :=
  match m.checkDetailed cfg with
  | .ok none => none
  | _ => some .dataIntegrity

/-- `check_invariants_detailed().is_ok()` on the arena view of a typed state -/
def validOk (cfg : Cfg) (s : RState K V) : Bool := (checkedEntry cfg (view s)).isNone

/-- `validate_for_operation(op)` / `validate()` -/
def validateForOperation (cfg : Cfg) (s : RState K V) : Except ApiErr Unit :=
  if validOk cfg s then .ok () else .error .dataIntegrity

/-- `.ok_or(BPlusTreeError::KeyNotFound)` -/
def okOrKeyNotFound {α : Type} : Option α → Except ApiErr α
  | some a => .ok a
  | none => .error .keyNotFound

/-- `try_get` / `get_item` -/
def tryGet (s : RState K V) (k : K) : Except ApiErr V := okOrKeyNotFound ((get s k).map (·.2))

/-- `get_many` -/
def getManyE (s : RState K V) : List K → Except ApiErr (List V)
  | [] => .ok []
  | k :: ks =>
    match tryGet s k with
    | .error e => .error e
    | .ok v =>
      match getManyE s ks with
      | .error e => .error e
      | .ok vs => .ok (v :: vs)

/-- `remove_item` -/
def removeItem (s : RState K V) (k : K) : Option (RState K V × Except ApiErr V) :=
  (remove s k).map fun r => (r.1, okOrKeyNotFound r.2)

/-- `try_insert` -/
def tryInsert (cfg : Cfg) (s : RState K V) (k : K) (v : V) : Option (RState K V × Except ApiErr (Option V)) :=
  if validOk cfg s then
    match insert s k v with
    | none => none
    | some (s', old) => if validOk cfg s' then some (s', .ok old) else some (s', .error .dataIntegrity)
  else some (s, .error .dataIntegrity)

/-- `try_remove` -/
def tryRemove (cfg : Cfg) (s : RState K V) (k : K) : Option (RState K V × Except ApiErr V) :=
  if validOk cfg s then
    match remove s k with
    | none => none
    | some (s', r) =>
      match okOrKeyNotFound r with
      | .error e => some (s', .error e)      -- the `?`
      | .ok old => if validOk cfg s' then some (s', .ok old) else some (s', .error .dataIntegrity)
  else some (s, .error .dataIntegrity)

/-- the rollback loop of `batch_insert`: `for k in inserted_keys { self.remove(&k); }` -/
def rollback (s : RState K V) : List K → Option (RState K V)
  | [] => some s
  | k :: ks =>
    match remove s k with
    | none => none
    | some (s', _) => rollback s' ks

/-- `batch_insert`: `inserted` and `acc` are the two accumulators of the loop (`acc` newest first) -/
def batchInsertLoop (cfg : Cfg) : List (K × V) → RState K V → List K → List (Option V) →
    Option (RState K V × Except ApiErr (List (Option V)))
  | [], s, _, acc => some (s, .ok acc.reverse)
  | (k, v) :: rest, s, inserted, acc =>
    match tryInsert cfg s k v with
    | none => none
    | some (s', .ok old) => batchInsertLoop cfg rest s' (inserted ++ [k]) (old :: acc)
    | some (s', .error e) => (rollback s' inserted).map fun s'' => (s'', .error e)

def batchInsert (cfg : Cfg) (s : RState K V) (items : List (K × V)) : Option (RState K V × Except ApiErr (List (Option V))) :=
  batchInsertLoop cfg items s [] []

/-- the inserts of a batch, one by one (what `batch_insert` is specified to equal) -/
def insertAll : RState K V → List (K × V) → Option (RState K V × List (Option V))
  | s, [] => some (s, [])
  | s, (k, v) :: rest =>
    match insert s k v with
    | none => none
    | some (s', old) => (insertAll s' rest).map fun r => (r.1, old :: r.2)

end BPT.Rust
