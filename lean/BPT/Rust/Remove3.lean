import BPT.Rust.Remove2
/-
  Remove, part 3: rebalancing an underfull *branch* child.
-/
namespace BPT.Rust
open BPT Tree
variable {K V : Type} [Keyed K]

theorem Sized.nkeys (cap : Nat) : ∀ (h : Nat) (t : Tree K V h) (m : Nat), Sized cap h t m → m ≤ nkeys h t ∧ nkeys h t ≤ cap
  | 0, _, _, hs => hs
  | _+1, _, _, hs => ⟨hs.1, hs.2.1⟩

/-- the separator between children `j` and `j+1` lies within the range those two children span -/
theorem sep_inB (ks : List K) (lo hi : Option Int) (j : Nat) (hs : KSorted ks) (hkb : ∀ k ∈ ks, InB lo hi (ord k))
    (hj : j < ks.length) : InB (loAt ks lo j) (hiAt ks hi (j+1)) (ord ks[j]) := by
  constructor
  · intro l hl
    unfold loAt at hl
    split at hl
    · exact (hkb _ (List.getElem_mem hj)).1 l hl
    · have hlt : j - 1 < ks.length := by omega
      rw [List.getElem?_eq_getElem hlt] at hl
      simp only [Option.map_some, Option.some.injEq] at hl; subst hl
      have := List.pairwise_iff_getElem.1 hs (j-1) j hlt hj (by omega)
      omega
  · intro u hu
    unfold hiAt at hu
    split at hu
    · exact (hkb _ (List.getElem_mem hj)).2 u hu
    · have hlt : j + 1 < ks.length := by omega
      rw [List.getElem?_eq_getElem hlt] at hu
      simp only [Option.map_some, Option.some.injEq] at hu; subst hu
      exact List.pairwise_iff_getElem.1 hs j (j+1) hj hlt (by omega)

/-- keys of a branch whose children all hold a key are strictly above its lower bound -/
theorem keys_above_lo (h : Nat) (c : Branch K (Tree K V h)) (s : Int) (hi : Option Int)
    (hc : Ordered (h+1) c (some s) hi) (hch : ∀ x ∈ c.children, 1 ≤ nkeys h x) : ∀ x ∈ c.keys, s < ord x := by
  obtain ⟨hs, hlen, hkb, hcc⟩ := hc
  intro x hx
  have h0 : 0 < c.children.length := by omega
  have hc0 : c.children[0]? = some c.children[0] := List.getElem?_eq_getElem h0
  have ho := hcc 0 _ hc0
  have hk0 : 0 < c.keys.length := List.length_pos_of_mem hx
  have e1 : loAt c.keys (some s) 0 = some s := by simp [loAt]
  have e2 : hiAt c.keys hi 0 = some (ord c.keys[0]) := by
    unfold hiAt; rw [if_neg (by omega), List.getElem?_eq_getElem hk0]; rfl
  rw [e1, e2] at ho
  have hlt := bounds_strict h _ s _ ho (hch _ (List.getElem_mem h0))
  obtain ⟨n, hn, rfl⟩ := List.getElem_of_mem hx
  by_cases hn0 : n = 0
  · subst hn0; exact hlt
  · have := List.pairwise_iff_getElem.1 hs 0 n hk0 hn (by omega)
    omega

/-! ### two adjacent branches -/

theorem branchBorrowLeft_spec (h : Nat) (a c : Branch K (Tree K V h)) (lo hi : Option Int) (sep : K)
    (ha : Ordered (h+1) a lo (some (ord sep))) (hc : Ordered (h+1) c (some (ord sep)) hi) (hsep : InB lo hi (ord sep))
    (ha2 : 2 ≤ a.keys.length) (hch : ∀ x ∈ c.children, 1 ≤ nkeys h x) :
    ∃ a' c' mk, branchBorrowLeft a c sep = some (a', c', mk) ∧
      Ordered (h+1) a' lo (some (ord mk)) ∧ Ordered (h+1) c' (some (ord mk)) hi ∧ InB lo hi (ord mk) ∧
      toList (h+1) a' ++ toList (h+1) c' = toList (h+1) a ++ toList (h+1) c ∧
      a'.keys.length + 1 = a.keys.length ∧ c'.keys.length = c.keys.length + 1 ∧
      (∀ x ∈ a'.children, x ∈ a.children) ∧ (∀ x ∈ c'.children, x ∈ a.children ∨ x ∈ c.children) ∧
      a'.id = a.id ∧ c'.id = c.id := by
  have hal : a.children.length = a.keys.length + 1 := ha.2.1
  have hkne : a.keys ≠ [] := by intro h; simp [h] at ha2
  have hcne : a.children ≠ [] := by intro h; rw [h] at hal; simp at hal
  obtain ⟨mk, hmk⟩ : ∃ k, a.keys.getLast? = some k := ⟨_, List.getLast?_eq_some_getLast hkne⟩
  obtain ⟨mc, hmc⟩ : ∃ v, a.children.getLast? = some v := ⟨_, List.getLast?_eq_some_getLast hcne⟩
  have dk := dropLast_append_of_getLast? a.keys mk hmk
  have dc := dropLast_append_of_getLast? a.children mc hmc
  refine ⟨{ a with keys := a.keys.dropLast, children := a.children.dropLast },
          { c with keys := sep :: c.keys, children := mc :: c.children }, mk, ?_, ?_⟩
  · simp [branchBorrowLeft, hmk, hmc]
  · have hstrict := keys_above_lo h c (ord sep) hi hc hch
    have hg := branch_glue h a.keys c.keys a.children c.children lo hi sep a.id c.id 0 ha hc hsep hstrict
    have e1 : a.keys ++ sep :: c.keys = a.keys.dropLast ++ mk :: (sep :: c.keys) := by
      conv => lhs; rw [dk]
      simp
    have e2 : a.children ++ c.children = a.children.dropLast ++ (mc :: c.children) := by
      conv => lhs; rw [dc]
      simp
    rw [e1, e2] at hg
    have dl : a.children.dropLast.length = a.keys.dropLast.length + 1 := by simp; omega
    obtain ⟨h1, h2, h3⟩ := branch_cut_append h a.keys.dropLast (sep :: c.keys) a.children.dropLast (mc :: c.children) lo hi mk 0 a.id c.id hg dl
    refine ⟨h1, h2, h3, ?_, ?_, by simp, ?_, ?_, rfl, rfl⟩
    · simp only [toList_succ]
      show (a.children.dropLast).flatMap (toList h) ++ (mc :: c.children).flatMap (toList h) = _
      rw [← List.flatMap_append, ← e2, List.flatMap_append]
    · show a.keys.dropLast.length + 1 = a.keys.length
      simp; omega
    · intro x hx; exact (List.dropLast_sublist _).subset hx
    · intro x hx
      have hx' : x ∈ mc :: c.children := hx
      rcases List.mem_cons.1 hx' with rfl | hx'
      · exact Or.inl (List.mem_of_getLast? hmc)
      · exact Or.inr hx'

theorem branchBorrowRight_spec (h : Nat) (c r : Branch K (Tree K V h)) (lo hi : Option Int) (sep : K)
    (hc : Ordered (h+1) c lo (some (ord sep))) (hr : Ordered (h+1) r (some (ord sep)) hi) (hsep : InB lo hi (ord sep))
    (hr2 : 2 ≤ r.keys.length) (hch : ∀ x ∈ r.children, 1 ≤ nkeys h x) :
    ∃ c' r' mk, branchBorrowRight c r sep = some (c', r', mk) ∧
      Ordered (h+1) c' lo (some (ord mk)) ∧ Ordered (h+1) r' (some (ord mk)) hi ∧ InB lo hi (ord mk) ∧
      toList (h+1) c' ++ toList (h+1) r' = toList (h+1) c ++ toList (h+1) r ∧
      r'.keys.length + 1 = r.keys.length ∧ c'.keys.length = c.keys.length + 1 ∧
      (∀ x ∈ r'.children, x ∈ r.children) ∧ (∀ x ∈ c'.children, x ∈ c.children ∨ x ∈ r.children) ∧
      c'.id = c.id ∧ r'.id = r.id := by
  have hrl : r.children.length = r.keys.length + 1 := hr.2.1
  have hcl : c.children.length = c.keys.length + 1 := hc.2.1
  cases hrk : r.keys with
  | nil => simp [hrk] at hr2
  | cons mk ks =>
    cases hrc : r.children with
    | nil => rw [hrc] at hrl; simp at hrl
    | cons mc cs =>
      refine ⟨{ c with keys := c.keys ++ [sep], children := c.children ++ [mc] }, { r with keys := ks, children := cs }, mk, ?_, ?_⟩
      · simp [branchBorrowRight, hrk, hrc]
      · have hstrict := keys_above_lo h r (ord sep) hi hr hch
        have hg := branch_glue h c.keys r.keys c.children r.children lo hi sep c.id r.id 0 hc hr hsep hstrict
        have e1 : c.keys ++ sep :: r.keys = (c.keys ++ [sep]) ++ mk :: ks := by rw [hrk]; simp
        have e2 : c.children ++ r.children = (c.children ++ [mc]) ++ cs := by rw [hrc]; simp
        rw [e1, e2] at hg
        have dl : (c.children ++ [mc]).length = (c.keys ++ [sep]).length + 1 := by simp [hcl]
        obtain ⟨h1, h2, h3⟩ := branch_cut_append h (c.keys ++ [sep]) ks (c.children ++ [mc]) cs lo hi mk 0 c.id r.id hg dl
        refine ⟨h1, h2, h3, ?_, ?_, by simp, ?_, ?_, rfl, rfl⟩
        · simp only [toList_succ]
          show (c.children ++ [mc]).flatMap (toList h) ++ cs.flatMap (toList h) = _
          rw [← List.flatMap_append, ← e2, List.flatMap_append]
        · show ks.length + 1 = (mk :: ks).length
          simp
        · intro x hx
          have hx' : x ∈ cs := hx
          exact List.mem_cons_of_mem _ hx'
        · intro x hx
          have hx' : x ∈ c.children ++ [mc] := hx
          rcases List.mem_append.1 hx' with hx' | hx'
          · exact Or.inl hx'
          · simp only [List.mem_singleton] at hx'
            subst hx'
            exact Or.inr List.mem_cons_self

theorem branchMergeNodes_spec (cap h : Nat) (a c : Branch K (Tree K V h)) (lo hi : Option Int) (sep : K)
    (ha : Ordered (h+1) a lo (some (ord sep))) (hc : Ordered (h+1) c (some (ord sep)) hi) (hsep : InB lo hi (ord sep))
    (hch : ∀ x ∈ c.children, 1 ≤ nkeys h x) (hfit : a.keys.length + 1 + c.keys.length ≤ cap) :
    ∃ m, branchMergeNodes cap a c sep = some m ∧ Ordered (h+1) m lo hi ∧
      toList (h+1) m = toList (h+1) a ++ toList (h+1) c ∧ m.keys.length = a.keys.length + 1 + c.keys.length ∧
      (∀ x ∈ m.children, x ∈ a.children ∨ x ∈ c.children) ∧ m.id = a.id := by
  have hal : a.children.length = a.keys.length + 1 := ha.2.1
  have hcl : c.children.length = c.keys.length + 1 := hc.2.1
  refine ⟨{ a with keys := a.keys ++ sep :: c.keys, children := a.children ++ c.children }, ?_, ?_, ?_, by simp; omega, ?_, rfl⟩
  · unfold branchMergeNodes
    have : a.keys.length + 1 + c.keys.length ≤ cap ∧ a.children.length + c.children.length ≤ cap + 1 := ⟨hfit, by omega⟩
    simp [this]
  · exact branch_glue h a.keys c.keys a.children c.children lo hi sep a.id c.id a.id ha hc hsep (keys_above_lo h c (ord sep) hi hc hch)
  · simp only [toList_succ]
    show (a.children ++ c.children).flatMap (toList h) = _
    rw [List.flatMap_append]
  · intro x hx
    have hx' : x ∈ a.children ++ c.children := hx
    exact List.mem_append.1 hx'

end BPT.Rust

namespace BPT.Rust
open BPT Tree
variable {K V : Type} [Keyed K]

theorem sized_children_nkeys (cap h : Nat) (hcap : 4 ≤ cap) (c : Branch K (Tree K V h)) (m : Nat)
    (hs : Sized cap (h+1) (c : Tree K V (h+1)) m) : ∀ x ∈ c.children, 1 ≤ nkeys h x := by
  intro x hx
  have := (Sized.nkeys cap h x _ (hs.2.2 x hx)).1
  omega

theorem branchBorrowLeftAt_spec (cap h : Nat) (b : Branch K (Branch K (Tree K V h))) (j : Nat) (al : Allocs) (lo hi : Option Int)
    (a c : Branch K (Tree K V h))
    (hp : RebPre cap (h+1) (b : Branch K (Tree K V (h+1))) (j+1) lo hi) (ha : b.children[j]? = some a) (hc : b.children[j+1]? = some c)
    (hdon : cap / 2 < a.keys.length) :
    ∃ b2, branchBorrowLeftAt b (j+1) al a c = some (b2, al) ∧ RebPost cap (h+1) (b : Branch K (Tree K V (h+1))) b2 lo hi := by
  obtain ⟨hcap, hb, hnk, hidx, hsz, hun⟩ := hp
  obtain ⟨sep, hsep, hoa, hoc, hj1, hjk⟩ := two_children (h+1) b lo hi j a c hb ha hc
  have hclen : c.keys.length = cap / 2 - 1 := hun c hc
  have hasz := hsz j a ha
  simp only [show j ≠ j + 1 by omega, if_false] at hasz
  have hcsz := hsz (j+1) c hc
  simp only [if_true] at hcsz
  have hsepe : sep = b.keys[j] := by rw [List.getElem?_eq_getElem hjk] at hsep; exact (Option.some.inj hsep).symm
  have hsin := sep_inB b.keys lo hi j hb.1 hb.2.2.1 hjk
  rw [← hsepe] at hsin
  obtain ⟨a', c', mk, he, h1, h2, h3, h4, h5, h6, h7, h8, _⟩ :=
    branchBorrowLeft_spec h a c _ _ sep hoa hoc hsin (by omega) (sized_children_nkeys cap h hcap c _ hcsz)
  refine ⟨branchReplace2 b j a' c' mk, ?_, ?_⟩
  · simp [branchBorrowLeftAt, hsep, he]
  · apply recut_post cap (h+1) b lo hi j a c a' c' mk hb ha hc h1 h2 h3
    · show 1 ≤ (a' : Branch K (Tree K V h)).keys.length; omega
    · exact h4
    · refine ⟨by show cap / 2 ≤ (a' : Branch K (Tree K V h)).keys.length; omega,
              by show (a' : Branch K (Tree K V h)).keys.length ≤ cap; have := hasz.2.1; omega, ?_⟩
      intro x hx; exact hasz.2.2 x (h7 x hx)
    · refine ⟨by show cap / 2 ≤ (c' : Branch K (Tree K V h)).keys.length; omega,
              by show (c' : Branch K (Tree K V h)).keys.length ≤ cap; omega, ?_⟩
      intro x hx
      rcases h8 x hx with hx | hx
      · exact hasz.2.2 x hx
      · exact hcsz.2.2 x hx
    · intro n x hx hn1 hn2
      have := hsz n x hx
      simp only [hn2, if_false] at this; exact this

theorem branchBorrowRightAt_spec (cap h : Nat) (b : Branch K (Branch K (Tree K V h))) (i : Nat) (al : Allocs) (lo hi : Option Int)
    (c r : Branch K (Tree K V h))
    (hp : RebPre cap (h+1) (b : Branch K (Tree K V (h+1))) i lo hi) (hc : b.children[i]? = some c) (hr : b.children[i+1]? = some r)
    (hdon : cap / 2 < r.keys.length) :
    ∃ b2, branchBorrowRightAt b i al c r = some (b2, al) ∧ RebPost cap (h+1) (b : Branch K (Tree K V (h+1))) b2 lo hi := by
  obtain ⟨hcap, hb, hnk, hidx, hsz, hun⟩ := hp
  obtain ⟨sep, hsep, hoc, hor, hj1, hjk⟩ := two_children (h+1) b lo hi i c r hb hc hr
  have hclen : c.keys.length = cap / 2 - 1 := hun c hc
  have hrsz := hsz (i+1) r hr
  simp only [show i + 1 ≠ i by omega, if_false] at hrsz
  have hcsz := hsz i c hc
  simp only [if_true] at hcsz
  have hsepe : sep = b.keys[i] := by rw [List.getElem?_eq_getElem hjk] at hsep; exact (Option.some.inj hsep).symm
  have hsin := sep_inB b.keys lo hi i hb.1 hb.2.2.1 hjk
  rw [← hsepe] at hsin
  obtain ⟨c', r', mk, he, h1, h2, h3, h4, h5, h6, h7, h8, _⟩ :=
    branchBorrowRight_spec h c r _ _ sep hoc hor hsin (by omega) (sized_children_nkeys cap h hcap r _ hrsz)
  refine ⟨branchReplace2 b i c' r' mk, ?_, ?_⟩
  · simp [branchBorrowRightAt, hsep, he]
  · apply recut_post cap (h+1) b lo hi i c r c' r' mk hb hc hr h1 h2 h3
    · show 1 ≤ (c' : Branch K (Tree K V h)).keys.length; omega
    · exact h4
    · refine ⟨by show cap / 2 ≤ (c' : Branch K (Tree K V h)).keys.length; omega,
              by show (c' : Branch K (Tree K V h)).keys.length ≤ cap; omega, ?_⟩
      intro x hx
      rcases h8 x hx with hx | hx
      · exact hcsz.2.2 x hx
      · exact hrsz.2.2 x hx
    · refine ⟨by show cap / 2 ≤ (r' : Branch K (Tree K V h)).keys.length; omega,
              by show (r' : Branch K (Tree K V h)).keys.length ≤ cap; have := hrsz.2.1; omega, ?_⟩
      intro x hx; exact hrsz.2.2 x (h7 x hx)
    · intro n x hx hn1 hn2
      have := hsz n x hx
      simp only [hn1, if_false] at this; exact this

theorem branchMergeLeftAt_spec (cap h : Nat) (b : Branch K (Branch K (Tree K V h))) (j : Nat) (al : Allocs) (lo hi : Option Int)
    (a c : Branch K (Tree K V h))
    (hp : RebPre cap (h+1) (b : Branch K (Tree K V (h+1))) (j+1) lo hi) (ha : b.children[j]? = some a) (hc : b.children[j+1]? = some c)
    (hnd : ¬ cap / 2 < a.keys.length) :
    ∃ b2 al2, branchMergeLeftAt cap b (j+1) al a c = some (b2, al2) ∧ RebPost cap (h+1) (b : Branch K (Tree K V (h+1))) b2 lo hi := by
  obtain ⟨hcap, hb, hnk, hidx, hsz, hun⟩ := hp
  obtain ⟨sep, hsep, hoa, hoc, hj1, hjk⟩ := two_children (h+1) b lo hi j a c hb ha hc
  have hclen : c.keys.length = cap / 2 - 1 := hun c hc
  have hasz := hsz j a ha
  simp only [show j ≠ j + 1 by omega, if_false] at hasz
  have hcsz := hsz (j+1) c hc
  simp only [if_true] at hcsz
  have halen : a.keys.length = cap / 2 := by have := hasz.1; omega
  have hsepe : sep = b.keys[j] := by rw [List.getElem?_eq_getElem hjk] at hsep; exact (Option.some.inj hsep).symm
  have hsin := sep_inB b.keys lo hi j hb.1 hb.2.2.1 hjk
  rw [← hsepe] at hsin
  obtain ⟨m, he, h1, h2, h3, h4, _⟩ := branchMergeNodes_spec cap h a c _ _ sep hoa hoc hsin
    (sized_children_nkeys cap h hcap c _ hcsz) (by omega)
  refine ⟨branchMerge2 b j m, { al with branch := al.branch.dealloc c.id }, ?_, ?_⟩
  · simp [branchMergeLeftAt, hsep, he]
  · apply merge_post cap (h+1) b lo hi j a c m hb ha hc h1 h2
    · refine ⟨by show cap / 2 ≤ (m : Branch K (Tree K V h)).keys.length; omega,
              by show (m : Branch K (Tree K V h)).keys.length ≤ cap; omega, ?_⟩
      intro x hx
      rcases h4 x hx with hx | hx
      · exact hasz.2.2 x hx
      · exact hcsz.2.2 x hx
    · intro n x hx hn1 hn2
      have := hsz n x hx
      simp only [hn2, if_false] at this; exact this

theorem branchMergeRightAt_spec (cap h : Nat) (b : Branch K (Branch K (Tree K V h))) (i : Nat) (al : Allocs) (lo hi : Option Int)
    (c r : Branch K (Tree K V h))
    (hp : RebPre cap (h+1) (b : Branch K (Tree K V (h+1))) i lo hi) (hc : b.children[i]? = some c) (hr : b.children[i+1]? = some r)
    (hnd : ¬ cap / 2 < r.keys.length) :
    ∃ b2 al2, branchMergeRightAt cap b i al c r = some (b2, al2) ∧ RebPost cap (h+1) (b : Branch K (Tree K V (h+1))) b2 lo hi := by
  obtain ⟨hcap, hb, hnk, hidx, hsz, hun⟩ := hp
  obtain ⟨sep, hsep, hoc, hor, hj1, hjk⟩ := two_children (h+1) b lo hi i c r hb hc hr
  have hclen : c.keys.length = cap / 2 - 1 := hun c hc
  have hrsz := hsz (i+1) r hr
  simp only [show i + 1 ≠ i by omega, if_false] at hrsz
  have hcsz := hsz i c hc
  simp only [if_true] at hcsz
  have hrlen : r.keys.length = cap / 2 := by have := hrsz.1; omega
  have hsepe : sep = b.keys[i] := by rw [List.getElem?_eq_getElem hjk] at hsep; exact (Option.some.inj hsep).symm
  have hsin := sep_inB b.keys lo hi i hb.1 hb.2.2.1 hjk
  rw [← hsepe] at hsin
  obtain ⟨m, he, h1, h2, h3, h4, _⟩ := branchMergeNodes_spec cap h c r _ _ sep hoc hor hsin
    (sized_children_nkeys cap h hcap r _ hrsz) (by omega)
  refine ⟨branchMerge2 b i m, { al with branch := al.branch.dealloc r.id }, ?_, ?_⟩
  · simp [branchMergeRightAt, hsep, he]
  · apply merge_post cap (h+1) b lo hi i c r m hb hc hr h1 h2
    · refine ⟨by show cap / 2 ≤ (m : Branch K (Tree K V h)).keys.length; omega,
              by show (m : Branch K (Tree K V h)).keys.length ≤ cap; omega, ?_⟩
      intro x hx
      rcases h4 x hx with hx | hx
      · exact hcsz.2.2 x hx
      · exact hrsz.2.2 x hx
    · intro n x hx hn1 hn2
      have := hsz n x hx
      simp only [hn1, if_false] at this; exact this

theorem rebalanceBranch_spec (cap h : Nat) (b : Branch K (Branch K (Tree K V h))) (i : Nat) (al : Allocs) (lo hi : Option Int)
    (hp : RebPre cap (h+1) (b : Branch K (Tree K V (h+1))) i lo hi) :
    ∃ b2 al2, rebalanceBranch cap b i al = some (b2, al2) ∧ RebPost cap (h+1) (b : Branch K (Tree K V (h+1))) b2 lo hi := by
  have hp' := hp
  obtain ⟨hcap, hb, hnk, hidx, hsz, hun⟩ := hp
  have hlen : b.children.length = b.keys.length + 1 := hb.2.1
  have hci : b.children[i]? = some b.children[i] := List.getElem?_eq_getElem hidx
  generalize b.children[i] = c at hci
  unfold rebalanceBranch
  simp only [hci]
  by_cases hi0 : i > 0
  · obtain ⟨j, rfl⟩ : ∃ j, i = j + 1 := ⟨i - 1, by omega⟩
    have haj : b.children[j]? = some b.children[j] := List.getElem?_eq_getElem (by omega)
    generalize b.children[j] = a at haj
    have hjk : j < b.keys.length := by omega
    simp only [hi0, if_true, Nat.add_sub_cancel, haj, hjk, decide_true]
    by_cases hr : j + 1 + 1 < b.children.length
    · have hrj : b.children[j+1+1]? = some b.children[j+1+1] := List.getElem?_eq_getElem hr
      generalize b.children[j+1+1] = r at hrj
      have hjk1 : j + 1 < b.keys.length := by omega
      simp only [hr, if_true, hrj, hjk1, decide_true, and_self]
      unfold rebalanceBranchWith
      by_cases hdon : cap / 2 < a.keys.length
      · have : canDonate cap a.keys.length = true := by simp [canDonate, minKeys, hdon]
        simp only [this, if_true]
        obtain ⟨b2, he, hpost⟩ := branchBorrowLeftAt_spec cap h b j al lo hi a c hp' haj hci hdon
        exact ⟨b2, al, he, hpost⟩
      · have : canDonate cap a.keys.length = false := by simp [canDonate, minKeys]; omega
        simp only [this, Bool.false_eq_true, if_false]
        by_cases hdr : cap / 2 < r.keys.length
        · have : canDonate cap r.keys.length = true := by simp [canDonate, minKeys, hdr]
          simp only [this, if_true]
          obtain ⟨b2, he, hpost⟩ := branchBorrowRightAt_spec cap h b (j+1) al lo hi c r hp' hci hrj hdr
          exact ⟨b2, al, he, hpost⟩
        · have : canDonate cap r.keys.length = false := by simp [canDonate, minKeys]; omega
          simp only [this, Bool.false_eq_true, if_false]
          exact branchMergeLeftAt_spec cap h b j al lo hi a c hp' haj hci hdon
    · simp only [hr, if_false, and_self, if_true]
      unfold rebalanceBranchWith
      by_cases hdon : cap / 2 < a.keys.length
      · have : canDonate cap a.keys.length = true := by simp [canDonate, minKeys, hdon]
        simp only [this, if_true]
        obtain ⟨b2, he, hpost⟩ := branchBorrowLeftAt_spec cap h b j al lo hi a c hp' haj hci hdon
        exact ⟨b2, al, he, hpost⟩
      · have : canDonate cap a.keys.length = false := by simp [canDonate, minKeys]; omega
        simp only [this, Bool.false_eq_true, if_false]
        exact branchMergeLeftAt_spec cap h b j al lo hi a c hp' haj hci hdon
  · have hi0' : i = 0 := by omega
    subst hi0'
    have hr : 0 + 1 < b.children.length := by omega
    have hrj : b.children[0+1]? = some b.children[0+1] := List.getElem?_eq_getElem hr
    generalize b.children[0+1] = r at hrj
    have hk0 : 0 < b.keys.length := by omega
    simp only [Nat.lt_irrefl, if_false, hr, if_true, hrj, hk0, decide_true, and_self]
    unfold rebalanceBranchWith
    by_cases hdr : cap / 2 < r.keys.length
    · have : canDonate cap r.keys.length = true := by simp [canDonate, minKeys, hdr]
      simp only [this, if_true]
      obtain ⟨b2, he, hpost⟩ := branchBorrowRightAt_spec cap h b 0 al lo hi c r hp' hci hrj hdr
      exact ⟨b2, al, he, hpost⟩
    · have : canDonate cap r.keys.length = false := by simp [canDonate, minKeys]; omega
      simp only [this, Bool.false_eq_true, if_false]
      exact branchMergeRightAt_spec cap h b 0 al lo hi c r hp' hci hrj hdr

/-- `rebalance_child` at any height -/
theorem rebalance_spec (cap : Nat) : ∀ (h : Nat) (b : Branch K (Tree K V h)) (i : Nat) (al : Allocs) (lo hi : Option Int),
    RebPre cap h b i lo hi → ∃ b2 al2, rebalance cap h b i al = some (b2, al2) ∧ RebPost cap h b b2 lo hi
  | 0, b, i, al, lo, hi, hp => rebalanceLeaf_spec cap b i al lo hi hp
  | h+1, b, i, al, lo, hi, hp => rebalanceBranch_spec cap h b i al lo hi hp

end BPT.Rust
