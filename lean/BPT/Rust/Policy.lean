/-
  Occupancy policy of the Rust implementation (node.rs, insert_operations.rs):
  the arithmetic the model uses.  BPT/Generated/Tie.lean proves each of these
  equal to the expression regenerated from the current sources.  Import-free.
-/
namespace BPT.Rust

def minCapacity : Nat := 4
def defaultCapacity : Nat := 16

/-- `min_keys()` of leaves and branches -/
def minKeys (cap : Nat) : Nat := cap / 2
def isFull (cap n : Nat) : Bool := decide (n ≥ cap)
def isUnderfull (cap n : Nat) : Bool := decide (n < minKeys cap)
def canDonate (cap n : Nat) : Bool := decide (n > minKeys cap)

/-- split point of a leaf holding `n` keys -/
def leafSplitMid (cap n : Nat) : Nat := min (max ((n + 1) / 2) (minKeys cap)) (n - minKeys cap)
/-- index of the key a splitting branch promotes -/
def branchSplitMid (cap : Nat) : Nat := minKeys cap
/-- after a leaf split at `mid`, an entry with insertion index `i` goes to the left half -/
def goesLeft (i mid : Nat) : Bool := decide (i ≤ mid)

end BPT.Rust
