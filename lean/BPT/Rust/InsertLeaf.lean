import BPT.Core.ListOps2
import BPT.Core.Surgery2
import BPT.Rust.Model
namespace BPT.Rust
open BPT Tree
variable {K V : Type} [Keyed K]

/-- when the key at the lower bound is not `k`, everything from the lower bound on is strictly above `k` -/
theorem lowerBound_strict (ks : List K) (k : K) (hs : KSorted ks)
    (hnf : ∀ k', ks[lowerBound ks k]? = some k' → ord k' ≠ ord k) :
    ∀ x ∈ ks.drop (lowerBound ks k), ord k < ord x := by
  intro x hx
  have hge := (lowerBound_spec ks k hs).2 x hx
  rcases Nat.lt_or_ge (lowerBound ks k) ks.length with hlt | hge'
  · have hd : ks.drop (lowerBound ks k) = ks[lowerBound ks k] :: ks.drop (lowerBound ks k + 1) :=
      List.drop_eq_getElem_cons hlt
    have hne := hnf _ (List.getElem?_eq_getElem hlt)
    rw [hd] at hx
    rcases List.mem_cons.1 hx with rfl | hx'
    · omega
    · have hsd : KSorted (ks.drop (lowerBound ks k)) := hs.sublist (List.drop_sublist _ _)
      rw [hd] at hsd
      have := (List.pairwise_cons.1 hsd).1 x hx'
      have := (lowerBound_spec ks k hs).2 (ks[lowerBound ks k]) (by rw [hd]; exact List.mem_cons_self)
      omega
  · rw [List.drop_eq_nil_of_le hge'] at hx; simp at hx

theorem ksorted_insert_lb (ks : List K) (k : K) (hs : KSorted ks)
    (hnf : ∀ k', ks[lowerBound ks k]? = some k' → ord k' ≠ ord k) :
    KSorted (insertAt ks (lowerBound ks k) k) :=
  ksorted_insertAt _ _ _ hs (lowerBound_spec ks k hs).1 (lowerBound_strict ks k hs hnf)

/-- a sorted list cut in two: each half sorted, left below right -/
theorem ksorted_take_drop (E : List K) (m : Nat) (hs : KSorted E) :
    KSorted (E.take m) ∧ KSorted (E.drop m) ∧ ∀ x ∈ E.take m, ∀ y ∈ E.drop m, ord x < ord y := by
  have : KSorted (E.take m ++ E.drop m) := by rw [List.take_append_drop]; exact hs
  unfold KSorted at this
  rw [List.pairwise_append] at this
  exact this

end BPT.Rust
