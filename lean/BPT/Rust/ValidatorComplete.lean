import BPT.Rust.Introspect
import BPT.Rust.ValidatorSound
import BPT.Core.Sorted
/-
  Completeness of the validators on valid states: on the arena view of every state
  satisfying `SInv`, `check_invariants()` returns true and
  `check_invariants_detailed()` / `validate()` return Ok.
-/
namespace BPT.Rust
open BPT Tree
open BPT.Rust.RawMap (strictlySorted allRes sortNat)
variable {K V : Type} [Keyed K]

theorem ksorted_strictlySorted : ∀ (ks : List K), KSorted ks → strictlySorted ks = true
  | [], _ => rfl
  | [_], _ => rfl
  | a :: b :: rest, hs => by
    have h := List.pairwise_cons.1 hs
    have hab := h.1 b List.mem_cons_self
    simp only [strictlySorted, hab, decide_true, Bool.true_and]
    exact ksorted_strictlySorted (b :: rest) h.2

theorem allRes_of_all {α : Type} (p : α → Res Bool) : ∀ (l : List α), (∀ a ∈ l, p a = .ok true) → allRes p l = .ok true := by
  intro l
  induction l with
  | nil => intro _; rfl
  | cons a as ih =>
    intro h
    simp only [allRes, h a List.mem_cons_self, Res.bind_ok, if_true]
    exact ih (fun x hx => h x (List.mem_cons_of_mem _ hx))

theorem sized_nkeys (cap : Nat) : ∀ (h : Nat) (t : Tree K V h) (m : Nat), Sized cap h t m → m ≤ nkeys h t ∧ nkeys h t ≤ cap
  | 0, _, _, hs => hs
  | _+1, _, _, hs => ⟨hs.1, hs.2.1⟩

theorem lo_check_false (ks : List K) (lo : Option K) : (∀ k ∈ ks, ∀ mn, lo = some mn → ord mn ≤ ord k) →
    (match lo, ks.head? with | some mn, some fk => decide (ord fk < ord mn) | _, _ => false) = false := by
  intro h
  cases lo with
  | none => rfl
  | some mn =>
    cases hh : ks.head? with
    | none => rfl
    | some fk =>
      have := h fk (List.mem_of_mem_head? hh) mn rfl
      simp; omega

theorem hi_check_false (ks : List K) (hi : Option K) : (∀ k ∈ ks, ∀ mx, hi = some mx → ord k < ord mx) →
    (match hi, ks.getLast? with | some mx, some lk => decide (ord lk ≥ ord mx) | _, _ => false) = false := by
  intro h
  cases hi with
  | none => rfl
  | some mx =>
    cases hh : ks.getLast? with
    | none => rfl
    | some lk =>
      have := h lk (List.mem_of_getLast? hh) mx rfl
      simp; omega

theorem checkNode_complete (m : RawMap K V) (cap : Nat) (hm : m.cap = cap) :
    ∀ (h : Nat) (t : Tree K V h) (f : Nat) (lo hi : Option K) (isRoot : Bool),
      Embeds m cap h t → h < f → Ordered h t (lo.map ord) (hi.map ord) →
      Sized cap h t (if isRoot then 0 else cap / 2) →
      m.checkNode Cfg.repaired f (ref h t) lo hi isRoot = .ok true := by
  intro h
  induction h with
  | zero =>
    intro t f lo hi isRoot he hf ho hsz
    obtain ⟨f', rfl⟩ : ∃ f', f = f' + 1 := ⟨f - 1, by omega⟩
    obtain ⟨hs, hl, hb⟩ := ho
    have hsz' : (if isRoot then 0 else cap / 2) ≤ (t : Leaf K V).keys.length ∧ (t : Leaf K V).keys.length ≤ cap := hsz
    rw [ref_zero]
    unfold RawMap.checkNode
    have he' : m.getLeaf (t : Leaf K V).id = some (leafToRaw cap (t : Leaf K V)) := he
    simp only [he', leafToRaw]
    have c1 : ¬ ((t : Leaf K V).keys.length ≠ (t : Leaf K V).vals.length) := by simp [hl]
    have c2 : ¬ (¬ strictlySorted (t : Leaf K V).keys = true) := by simp [ksorted_strictlySorted _ hs]
    have c3 : ¬ ((t : Leaf K V).keys.length > m.cap) := by rw [hm]; omega
    have c4 : ¬ ((Cfg.repaired.validatorChecksEmpty = true ∨ ¬ (t : Leaf K V).keys.isEmpty = true) ∧
        isUnderfull cap (t : Leaf K V).keys.length = true ∧ ¬ isRoot = true) := by
      intro ⟨_, hu, hr⟩
      have : isRoot = false := by simpa using hr
      subst this
      simp only [Bool.false_eq_true, if_false] at hsz'
      have hu' : (t : Leaf K V).keys.length < cap / 2 := by unfold isUnderfull minKeys at hu; exact of_decide_eq_true hu
      omega
    simp only [c1, c2, c3, c4, if_false]
    have hlo : ∀ mn fk, lo = some mn → (t : Leaf K V).keys.head? = some fk → ¬ ord fk < ord mn := by
      intro mn fk h1 h2
      have := (hb fk (List.mem_of_mem_head? h2)).1 (ord mn) (by rw [h1]; rfl)
      omega
    have hhi : ∀ mx lk, hi = some mx → (t : Leaf K V).keys.getLast? = some lk → ¬ ord lk ≥ ord mx := by
      intro mx lk h1 h2
      have := (hb lk (List.mem_of_getLast? h2)).2 (ord mx) (by rw [h1]; rfl)
      omega
    cases hl1 : lo with
    | none =>
      cases hl2 : hi with
      | none => simp
      | some mx =>
        cases hg : (t : Leaf K V).keys.getLast? with
        | none => simp
        | some lk => have := hhi mx lk hl2 hg; simp [this]
    | some mn =>
      cases hh : (t : Leaf K V).keys.head? with
      | none =>
        cases hl2 : hi with
        | none => simp
        | some mx =>
          cases hg : (t : Leaf K V).keys.getLast? with
          | none => simp
          | some lk => have := hhi mx lk hl2 hg; simp [this]
      | some fk =>
        have h5 := hlo mn fk hl1 hh
        cases hl2 : hi with
        | none => simp [h5]
        | some mx =>
          cases hg : (t : Leaf K V).keys.getLast? with
          | none => simp [h5]
          | some lk => have := hhi mx lk hl2 hg; simp [this, h5]
  | succ h ih =>
    intro t f lo hi isRoot he hf ho hsz
    obtain ⟨f', rfl⟩ : ∃ f', f = f' + 1 := ⟨f - 1, by omega⟩
    obtain ⟨hs, hlen, hkb, hc⟩ := ho
    obtain ⟨hz1, hz2, hz3⟩ := hsz
    rw [ref_succ]
    unfold RawMap.checkNode
    simp only [he.1, rawOfBranch, List.length_map]
    have c1 : ¬ ((Branch.keys t).length + 1 ≠ (Branch.children t).length) := by omega
    have c2 : ¬ (¬ strictlySorted (Branch.keys t) = true) := by simp [ksorted_strictlySorted _ hs]
    have c3 : ¬ ((Branch.keys t).length > m.cap) := by rw [hm]; omega
    have c4 : ¬ ((Cfg.repaired.validatorChecksEmpty = true ∨ ¬ (Branch.keys t).isEmpty = true) ∧
        isUnderfull cap (Branch.keys t).length = true ∧ ¬ isRoot = true) := by
      intro ⟨_, hu, hr⟩
      have : isRoot = false := by simpa using hr
      subst this
      simp only [Bool.false_eq_true, if_false] at hz1
      have hu' : (Branch.keys t).length < cap / 2 := by unfold isUnderfull minKeys at hu; exact of_decide_eq_true hu
      omega
    have c5 : ¬ (((Branch.children t).map (ref h)).isEmpty = true) := by
      simp only [List.isEmpty_iff, List.map_eq_nil_iff]
      intro hn; rw [hn] at hlen; simp at hlen
    simp only [c1, c2, c3, c4, c5, if_false]
    apply allRes_of_all
    intro p hp
    obtain ⟨i, r⟩ := p
    rw [List.mem_iff_getElem?] at hp
    obtain ⟨j, hj⟩ := hp
    rw [List.getElem?_zip_eq_some] at hj
    obtain ⟨h1, h2⟩ := hj
    have hjlt : j < (Branch.children t).length := by
      have := lt_of_getElem?_eq_some h2; simpa using this
    have hij : i = j := by
      rw [List.getElem?_range hjlt] at h1
      exact (Option.some.inj h1).symm
    subst hij
    rw [List.getElem?_map, List.getElem?_eq_getElem hjlt] at h2
    simp only [Option.map_some, Option.some.injEq] at h2
    subst h2
    have hci : (Branch.children t)[i]? = some (Branch.children t)[i] := List.getElem?_eq_getElem hjlt
    have hco := hc i _ hci
    have hmem : (Branch.children t)[i] ∈ Branch.children t := List.getElem_mem hjlt
    simp only []
    apply ih _ f' _ _ false (he.2 _ hmem) (by omega)
    · -- the bounds handed to the child are its `loAt` / `hiAt`
      have e1 : (if i = 0 then lo else (Branch.keys t)[i - 1]?).map ord = loAt (Branch.keys t) (lo.map ord) i := by
        unfold loAt; split <;> rfl
      have e2 : (if i = (Branch.keys t).length then hi else (Branch.keys t)[i]?).map ord = hiAt (Branch.keys t) (hi.map ord) i := by
        unfold hiAt; split <;> rfl
      rw [e1, e2]; exact hco
    · simpa using hz3 _ hmem

/-- `check_invariants()` accepts every reachable state -/
theorem view_checkInvariants (s : RState K V) (hs : SInv s) (hsm : Small s) :
    (view s).checkInvariants Cfg.repaired = .ok true := by
  unfold RawMap.checkInvariants
  rw [view_root]
  apply checkNode_complete (view s) s.cap (view_cap s) s.height s.root _ none none true (view_embeds s hs hsm) (fuel_ok s hs)
  · exact hs.inv.ord
  · simp only [if_true]
    exact Sized.mono s.cap s.height s.root _ 0 (Nat.zero_le _) hs.inv.sz

end BPT.Rust

namespace BPT.Rust
open BPT Tree
open BPT.Rust.RawMap (strictlySorted allRes sortNat)
variable {K V : Type} [Keyed K]

/-- the chain walk of `check_leaf_linked_list_completeness` over a stored, linked list of leaves collects their ids in order -/
theorem chainIds_of_rawChain (m : RawMap K V) (cap : Nat) : ∀ (L : List (Leaf K V)) (x : Nat) (f : Nat),
    RawChain m cap L x → L.length + 1 ≤ f →
    m.chainIds f (if x ≠ nullId then some x else none) = .ok (L.map (·.id)) := by
  intro L
  induction L with
  | nil =>
    intro x f hch hf
    obtain ⟨f', rfl⟩ : ∃ f', f = f' + 1 := ⟨f - 1, by omega⟩
    cases hch
    simp [RawMap.chainIds]
  | cons l rest ih =>
    intro x f hch hf
    obtain ⟨f', rfl⟩ : ∃ f', f = f' + 1 := ⟨f - 1, by simp at hf; omega⟩
    have hx : x = l.id := by cases hch; rfl
    subst hx
    obtain ⟨h1, _, h3, h4⟩ := RawChain.inv_cons hch
    simp only [h3, ne_eq, not_false_eq_true, if_true]
    unfold RawMap.chainIds
    simp only [h1, leafToRaw]
    have := ih l.next f' h4 (by simp at hf ⊢; omega)
    simp only [ne_eq] at this
    rw [this]
    rfl

theorem sorted_keys_of_sorted (m : List (K × V)) (h : SMap.Sorted m) : KSorted (m.map (·.1)) := by
  unfold KSorted SMap.Sorted at *
  rw [List.pairwise_map]
  exact h

/-- `check_invariants_detailed()` / `validate()` accept every reachable state -/
theorem view_checkDetailed (s : RState K V) (hs : SInv s) (hsm : Small s) :
    (view s).checkDetailed Cfg.repaired = .ok none := by
  have hsorted : SMap.Sorted (abs s) := toList_sorted s.height s.root none none hs.inv.ord
  have hks : strictlySorted ((abs s).map (·.1)) = true := ksorted_strictlySorted _ (sorted_keys_of_sorted _ hsorted)
  obtain ⟨_, _, ha1, ha2⟩ := view_arenas s hs hsm
  have hfirst : (view s).firstLeaf = .ok ((leaves s.height s.root).head?.map (·.id)) := by
    unfold RawMap.firstLeaf
    rw [view_root, firstLeafFrom_spec (view s) s.cap s.height s.root _ (view_embeds s hs hsm) (fuel_ok s hs),
        firstLeafOf_head s.height s.root none none hs.inv.ord]
  have hch := view_chain s hs hsm
  have hlen_le : (leaves s.height s.root).length + 1 ≤ (view s).fuel := by
    have fl := hs.leafIds.facts.1
    rw [leafIds_eq_leaves] at fl
    simp only [List.length_map] at fl
    unfold RawMap.fuel view viewLeaves
    simp only [List.length_map, List.length_range]
    omega
  have hchain : (view s).chainIds (view s).fuel ((leaves s.height s.root).head?.map (·.id)) = .ok ((leaves s.height s.root).map (·.id)) := by
    have := chainIds_of_rawChain (view s) s.cap (leaves s.height s.root) _ (view s).fuel hch hlen_le
    rw [← this]
    congr 1
    unfold links
    cases hl : leaves s.height s.root with
    | nil => simp [firstOf]
    | cons l rest =>
      have hne : l.id ≠ nullId := by
        rw [hl] at hch
        exact (RawChain.inv_cons hch).2.2.1
      simp [firstOf, link, hne]
  have hkeys : (view s).keys Cfg.repaired = .ok ((abs s).map (·.1)) := by
    simp [RawMap.keys, view_items Cfg.repaired s hs hsm]
  unfold RawMap.checkDetailed
  simp only [view_checkInvariants s hs hsm, Res.bind_ok, not_true_eq_false, if_false, hkeys, hks,
    view_len s hs hsm, List.length_map, ne_eq, view_countNodes s hs hsm, ha1, ha2,
    view_leafIds s hs hsm, hfirst, hchain]

end BPT.Rust
