import BPT.Rust.ChainWalk
/-
  Soundness of `check_invariants_detailed` beyond the node level, for EVERY raw
  map whose per-node capacity fields are intact: if all five stages pass, the walk
  along `next` from the leftmost leaf lists exactly the tree's leaves, in tree
  order, and every allocated leaf slot is one of them.
-/
namespace BPT.Rust
open BPT RawMap
variable {K V : Type} [Keyed K]

/-! ### the sorted-ids comparison is a permutation test -/

theorem insertSorted_perm (x : Nat) : ∀ (l : List Nat), (insertSorted x l).Perm (x :: l)
  | [] => List.Perm.refl _
  | y :: ys => by
    unfold insertSorted
    by_cases h : x ≤ y
    · rw [if_pos h]
    · rw [if_neg h]
      exact ((insertSorted_perm x ys).cons y).trans (List.Perm.swap x y ys)

theorem sortNat_perm : ∀ (l : List Nat), (sortNat l).Perm l
  | [] => List.Perm.refl _
  | x :: xs => by
    show (insertSorted x (sortNat xs)).Perm (x :: xs)
    exact (insertSorted_perm x _).trans ((sortNat_perm xs).cons x)

theorem perm_of_sortNat_eq (a b : List Nat) (h : sortNat a = sortNat b) : a.Perm b :=
  (sortNat_perm a).symm.trans (h ▸ sortNat_perm b)

/-! ### pigeonhole on duplicate-free lists -/

theorem subset_of_nodup_length : ∀ (A B : List Nat), A.Nodup → (∀ a ∈ A, a ∈ B) → B.length ≤ A.length → ∀ b ∈ B, b ∈ A := by
  intro A
  induction A with
  | nil =>
    intro B _ _ hlen b hb
    have : B = [] := List.eq_nil_of_length_eq_zero (by simpa using hlen)
    subst this; cases hb
  | cons a A ih =>
    intro B hnd hsub hlen b hb
    have ha := hsub a List.mem_cons_self
    have hnd' := List.nodup_cons.1 hnd
    by_cases hba : b = a
    · subst hba; exact List.mem_cons_self
    · have hsub' : ∀ x ∈ A, x ∈ B.erase a := by
        intro x hx
        have hxa : x ≠ a := by intro he; exact hnd'.1 (he ▸ hx)
        exact (List.mem_erase_of_ne hxa).2 (hsub x (List.mem_cons_of_mem _ hx))
      have hlen' : (B.erase a).length ≤ A.length := by
        rw [List.length_erase_of_mem ha]
        simp only [List.length_cons] at hlen
        omega
      exact List.mem_cons_of_mem _ (ih (B.erase a) hnd'.2 hsub' hlen' b ((List.mem_erase_of_ne hba).2 hb))

theorem maskAt_lt {T : Type} (a : Arena T) (i : Nat) (h : a.maskAt i = true) : i < a.mask.length := by
  unfold Arena.maskAt at h
  by_cases hi : i < a.mask.length
  · exact hi
  · rw [List.getElem?_eq_none (by omega)] at h
    simp at h

theorem mask_eq_map {T : Type} (a : Arena T) : a.mask = (List.range a.mask.length).map (fun i => a.maskAt i) := by
  apply List.ext_getElem
  · simp
  · intro i h1 h2
    simp [Arena.maskAt, List.getElem?_eq_getElem h1]

/-- a duplicate-free list of allocated slots as long as the allocated count lists every allocated slot -/
theorem covers_allocated {T : Type} (a : Arena T) (ids : List Nat) (hnd : ids.Nodup) (hall : ∀ i ∈ ids, a.maskAt i = true)
    (hlen : ids.length = a.len) : ∀ i, a.maskAt i = true → i ∈ ids := by
  intro i hi
  let B := (List.range a.mask.length).filter (fun i => a.maskAt i)
  have hB : B.length = a.len := by
    unfold Arena.len
    conv => rhs; rw [mask_eq_map a]
    rw [count_true_map]
  have hsub : ∀ x ∈ ids, x ∈ B := by
    intro x hx
    exact List.mem_filter.2 ⟨List.mem_range.2 (maskAt_lt a x (hall x hx)), hall x hx⟩
  exact subset_of_nodup_length ids B hnd hsub (by omega) i (List.mem_filter.2 ⟨List.mem_range.2 (maskAt_lt a i hi), hi⟩)

/-! ### the two tree walks agree on the number of leaves -/

theorem Res.bind_eq_ok {α β : Type} {r : Res α} {g : α → Res β} {b : β} (h : r.bind g = .ok b) : ∃ a, r = .ok a ∧ g a = .ok b := by
  cases r with
  | ok a => exact ⟨a, rfl, h⟩
  | panic => simp at h
  | diverge => simp at h
  | ub => simp at h

theorem sum_map_length_flatten {α : Type} (Ls : List (List α)) : Ls.flatten.length = (Ls.map List.length).sum := by
  induction Ls with
  | nil => rfl
  | cons l Ls ih => simp [ih]

theorem countNodes_leafIds (m : RawMap K V) : ∀ (f : Nat) (n : NodeRef) (c : Nat × Nat) (L : List Nat),
    m.countNodesFrom f n = .ok c → m.leafIdsFrom f n = .ok L → c.1 = L.length := by
  intro f
  induction f with
  | zero => intro n c L h; simp [countNodesFrom] at h
  | succ f ih =>
    intro n c L h1 h2
    cases n with
    | leaf id =>
      simp only [countNodesFrom, Res.ok.injEq] at h1
      simp only [leafIdsFrom, Res.ok.injEq] at h2
      subst h1; subst h2; rfl
    | branch id =>
      simp only [countNodesFrom] at h1
      simp only [leafIdsFrom] at h2
      cases hg : m.getBranch id with
      | none =>
        rw [hg] at h1 h2
        simp only [Res.ok.injEq] at h1 h2
        subst h1; subst h2; rfl
      | some b =>
        rw [hg] at h1 h2
        simp only at h1 h2
        obtain ⟨ls, hls, h1'⟩ := Res.bind_eq_ok h1
        obtain ⟨bs, _, rfl⟩ := Res.map_eq_ok h1'
        obtain ⟨ns, hns, rfl⟩ := sumRes_inv _ _ hls
        obtain ⟨Ls, hLs, rfl⟩ := concatRes_inv _ _ h2
        show ns.sum = Ls.flatten.length
        rw [sum_map_length_flatten]
        congr 1
        have hl1 : ns.length = b.children.length := by
          have := congrArg List.length hns; simpa using this.symm
        have hl2 : Ls.length = b.children.length := by
          have := congrArg List.length hLs; simpa using this.symm
        apply List.ext_getElem
        · simp; omega
        · intro i hi1 hi2
          have hic : i < b.children.length := by omega
          obtain ⟨_, e1⟩ := map_ok_getElem _ ns hns i (by simpa using hic)
          obtain ⟨_, e2⟩ := map_ok_getElem _ Ls hLs i (by simpa using hic)
          simp only [List.getElem_map] at e1 e2
          obtain ⟨c', hc', hn⟩ := Res.map_eq_ok e1
          have := ih _ _ _ hc' e2
          simp only [List.getElem_map]
          rw [hn, this]

theorem countNodes_leafIds_top (m : RawMap K V) (c : Nat × Nat) (L : List Nat)
    (h1 : m.countNodes = .ok c) (h2 : m.leafIds = .ok L) : c.1 = L.length := by
  unfold RawMap.countNodes at h1
  unfold RawMap.leafIds at h2
  cases hr : m.root with
  | leaf id =>
    rw [hr] at h1 h2
    simp only [Res.ok.injEq] at h1
    have : m.fuel = (m.fuel - 1) + 1 := by unfold RawMap.fuel; omega
    rw [this] at h2
    simp only [leafIdsFrom, Res.ok.injEq] at h2
    subst h1; subst h2; rfl
  | branch id =>
    rw [hr] at h1 h2
    exact countNodes_leafIds m _ _ _ _ h1 h2

/-! ### chain order = tree order -/

theorem map_fst_zip_eq {α β : Type} (ks : List α) (vs : List β) (h : ks.length = vs.length) : (ks.zip vs).map (·.1) = ks := by
  induction ks generalizing vs with
  | nil => simp
  | cons k ks ih =>
    cases vs with
    | nil => simp at h
    | cons v vs => simp only [List.zip_cons_cons, List.map_cons, List.length_cons] at h ⊢; rw [ih vs (by omega)]

theorem keys_of_entries (Ls : List (Leaf K V)) (h : ∀ l ∈ Ls, l.keys.length = l.vals.length) :
    (Ls.flatMap Leaf.entries).map (·.1) = Ls.flatMap (·.keys) := by
  induction Ls with
  | nil => rfl
  | cons l Ls ih =>
    simp only [List.flatMap_cons, List.map_append]
    rw [ih (fun x hx => h x (List.mem_cons_of_mem _ hx))]
    congr 1
    exact map_fst_zip_eq _ _ (h l List.mem_cons_self)

/-- the facts the five stages of `check_invariants_detailed` establish imply that the chain lists the tree's
    leaves in tree order, and that no allocated leaf is left out -/
theorem chain_eq_tree (m : RawMap K V) (hcap : ∀ id l, m.getLeaf id = some l → l.cap = m.cap) (h2 : 2 ≤ m.cap)
    (hroot : NodeOK m m.root none none true)
    (ks : List K) (hks : m.keys Cfg.repaired = .ok ks) (hsorted : strictlySorted ks = true)
    (cnt : Nat × Nat) (hcnt : m.countNodes = .ok cnt) (hcl : cnt.1 = m.leaves.len)
    (tids cids : List Nat) (first : Option Nat) (htids : m.leafIds = .ok tids) (hfirst : m.firstLeaf = .ok first)
    (hchain : m.chainIds m.fuel first = .ok cids) (hsort : sortNat tids = sortNat cids) :
    cids = tids ∧ tids.Nodup ∧ tids.Pairwise (Before m) ∧ (∀ i, m.leaves.maskAt i = true → i ∈ tids) := by
  have hc : CapsOK m := fun id l hg => by rw [hcap id l hg]; exact h2
  have hperm := perm_of_sortNat_eq tids cids hsort
  have hok := leafIdsFrom_ok m hc m.fuel m.root none none true tids htids hroot
  have hndc := chainIds_nodup m _ _ _ hchain
  have hndt : tids.Nodup := hperm.symm.nodup hndc
  have hallc : ∀ id ∈ cids, ∃ l, m.getLeaf id = some l ∧ l.keys.length = l.vals.length ∧ l.cap = m.cap := by
    intro id hid
    obtain ⟨l, a1, a2, _, _⟩ := hok.good id (hperm.symm.subset hid)
    exact ⟨l, a1, a2, hcap id l a1⟩
  have heq : cids = tids := by
    cases hr : m.root with
    | leaf rid =>
      -- a root leaf: one leaf on both sides
      have : tids = [rid] := by
        unfold RawMap.leafIds at htids
        rw [hr] at htids
        have hf : m.fuel = (m.fuel - 1) + 1 := by unfold RawMap.fuel; omega
        rw [hf] at htids
        simp only [leafIdsFrom, Res.ok.injEq] at htids
        exact htids.symm
      rw [this] at hperm ⊢
      exact List.perm_singleton.1 hperm.symm
    | branch rid =>
      have hstrict : LeavesOK m none none True tids :=
        ⟨hok.ne, fun x hx => by
            obtain ⟨l, a1, a2, a3, a4⟩ := hok.good x hx
            exact ⟨l, a1, a2, a3, fun _ => a4 (Or.inr ⟨rid, hr⟩)⟩,
          hok.pw, hok.lob, hok.hib⟩
      obtain ⟨Ls, e1, e2, e3⟩ := items_along_chain Cfg.repaired m first cids hfirst hchain hallc
      -- the key list the validator inspected is the concatenation of the chain's leaves
      have hkeys : ks = Ls.flatMap (·.keys) := by
        unfold RawMap.keys at hks
        rw [e3] at hks
        simp only [Res.map_ok, Res.ok.injEq] at hks
        rw [← hks]
        exact keys_of_entries Ls (fun l hl => (e2 l hl).2)
      have hsk : KSorted (Ls.flatMap (·.keys)) := hkeys ▸ strictlySorted_iff ks hsorted
      have hpwL := (List.pairwise_flatMap.1 hsk).2
      have hpwc : cids.Pairwise (Before m) := by
        rw [← e1, List.pairwise_map]
        refine hpwL.imp_of_mem ?_
        intro a b ha hb hab x hx y hy
        rw [(e2 a ha).1] at hx
        rw [(e2 b hb).1] at hy
        exact hab x hx y hy
      refine (List.Perm.eq_of_pairwise ?_ hstrict.pw hpwc hperm).symm
      intro a b ha hb hab hba
      obtain ⟨ka, hka⟩ := hstrict.exists_key hc a ha
      obtain ⟨kb, hkb⟩ := hstrict.exists_key hc b (hperm.symm.subset hb)
      have := hab ka hka kb hkb
      have := hba kb hkb ka hka
      omega
  refine ⟨heq, hndt, hok.pw, ?_⟩
  have hlen : tids.length = m.leaves.len := by rw [← hcl]; exact (countNodes_leafIds_top m cnt tids hcnt htids).symm
  exact covers_allocated m.leaves tids hndt (fun i hi => by
    obtain ⟨l, a1, _⟩ := hok.good i hi
    exact (arena_get_some _ _ _ a1).2.2.1) hlen

end BPT.Rust
