import BPT.Rust.ChainTree
import BPT.Rust.ViewArena
/-
  Chain side of the detailed validator's soundness, for EVERY raw map: the walk
  `check_leaf_linked_list_completeness` makes along `next` never lists an id twice
  (a repeated id means the real loop never returns), the leaves it lists form a
  stored chain, and `items()` yields exactly their entries in that order.
-/
namespace BPT.Rust
open BPT RawMap
variable {K V : Type} [Keyed K]

theorem Res.map_eq_ok {α β : Type} {g : α → β} {r : Res α} {b : β} (h : r.map g = .ok b) : ∃ a, r = .ok a ∧ b = g a := by
  cases r with
  | ok a => simp only [Res.map_ok, Res.ok.injEq] at h; exact ⟨a, rfl, h.symm⟩
  | panic => simp [Res.map] at h
  | diverge => simp [Res.map] at h
  | ub => simp [Res.map] at h

theorem arena_get_some {T : Type} (a : Arena T) (id : Nat) (x : T) (h : a.get id = some x) :
    id ≠ nullId ∧ id < a.storage.length ∧ a.maskAt id = true ∧ a.storage[id]? = some x := by
  unfold Arena.get at h
  by_cases h1 : id = nullId
  · simp [h1] at h
  · rw [if_neg h1] at h
    by_cases h2 : id < a.storage.length ∧ a.maskAt id = true
    · rw [if_pos h2] at h
      exact ⟨h1, h2.1, h2.2, h⟩
    · rw [if_neg h2] at h; cases h

theorem getLeaf_null (m : RawMap K V) : m.getLeaf nullId = none := by
  unfold getLeaf Arena.get; simp

/-! ### the walk along `next` -/

theorem chainIds_det (m : RawMap K V) : ∀ (f f' : Nat) (x : Option Nat) (l l' : List Nat),
    m.chainIds f x = .ok l → m.chainIds f' x = .ok l' → l = l' := by
  intro f
  induction f with
  | zero => intro f' x l l' h _; simp [chainIds] at h
  | succ f ih =>
    intro f' x l l' h h'
    cases f' with
    | zero => simp [chainIds] at h'
    | succ f' =>
      cases x with
      | none =>
        simp only [chainIds, Res.ok.injEq] at h h'
        rw [← h, ← h']
      | some id =>
        simp only [chainIds] at h h'
        cases hg : m.getLeaf id with
        | none =>
          rw [hg] at h h'
          simp only [Res.ok.injEq] at h h'
          rw [← h, ← h']
        | some lf =>
          rw [hg] at h h'
          simp only at h h'
          obtain ⟨a, ha, rfl⟩ := Res.map_eq_ok h
          obtain ⟨a', ha', rfl⟩ := Res.map_eq_ok h'
          rw [ih _ _ _ _ ha ha']

theorem chainIds_suffix (m : RawMap K V) : ∀ (f : Nat) (x : Option Nat) (l : List Nat), m.chainIds f x = .ok l →
    ∀ (i : Nat) (hi : i < l.length), ∃ f', m.chainIds f' (some l[i]) = .ok (l.drop i) := by
  intro f
  induction f with
  | zero => intro x l h; simp [chainIds] at h
  | succ f ih =>
    intro x l h i hi
    cases x with
    | none =>
      simp only [chainIds, Res.ok.injEq] at h
      subst h; simp at hi
    | some id =>
      have h0 := h
      simp only [chainIds] at h
      cases hg : m.getLeaf id with
      | none =>
        rw [hg] at h
        simp only [Res.ok.injEq] at h
        subst h
        have : i = 0 := by simp at hi; omega
        subst this
        exact ⟨f+1, by simpa using h0⟩
      | some lf =>
        rw [hg] at h
        simp only at h
        obtain ⟨a, ha, rfl⟩ := Res.map_eq_ok h
        cases i with
        | zero => exact ⟨f+1, by simpa using h0⟩
        | succ i =>
          simp only [List.length_cons] at hi
          obtain ⟨f', hf'⟩ := ih _ a ha i (by omega)
          exact ⟨f', by simpa using hf'⟩

/-- a terminating walk never lists an id twice -/
theorem chainIds_nodup (m : RawMap K V) (f : Nat) (x : Option Nat) (l : List Nat) (h : m.chainIds f x = .ok l) : l.Nodup := by
  unfold List.Nodup
  rw [List.pairwise_iff_getElem]
  intro i j hi hj hij heq
  obtain ⟨f1, h1⟩ := chainIds_suffix m f x l h i hi
  obtain ⟨f2, h2⟩ := chainIds_suffix m f x l h j hj
  rw [← heq] at h2
  have := chainIds_det m f1 f2 _ _ _ h1 h2
  have := congrArg List.length this
  simp only [List.length_drop] at this
  omega

/-! ### the listed leaves as a stored chain -/

def leafOfRaw (id : Nat) (l : RLeaf K V) : Leaf K V := { id := id, keys := l.keys, vals := l.vals, next := l.next }

theorem chain_rawChain (m : RawMap K V) (cap : Nat) : ∀ (f : Nat) (x : Option Nat) (cids : List Nat),
    m.chainIds f x = .ok cids →
    (∀ id ∈ cids, ∃ l, m.getLeaf id = some l ∧ l.keys.length = l.vals.length ∧ l.cap = cap) →
    ∃ Ls : List (Leaf K V), Ls.map (·.id) = cids ∧ (∀ l ∈ Ls, keysOf m l.id = l.keys ∧ l.keys.length = l.vals.length) ∧
      RawChain m cap Ls (x.getD nullId) := by
  intro f
  induction f with
  | zero => intro x cids h; simp [chainIds] at h
  | succ f ih =>
    intro x cids h hall
    cases x with
    | none =>
      simp only [chainIds, Res.ok.injEq] at h
      subst h
      exact ⟨[], rfl, by simp, RawChain.nil⟩
    | some id =>
      simp only [chainIds] at h
      obtain ⟨lf, hg, hlens, hcap⟩ := hall id (by
        cases hg : m.getLeaf id with
        | none => rw [hg] at h; simp only [Res.ok.injEq] at h; rw [← h]; exact List.mem_cons_self
        | some lf =>
          rw [hg] at h; simp only at h
          obtain ⟨a, _, rfl⟩ := Res.map_eq_ok h
          exact List.mem_cons_self)
      rw [hg] at h
      simp only at h
      obtain ⟨a, ha, rfl⟩ := Res.map_eq_ok h
      obtain ⟨Ls, h1, h2, h3⟩ := ih _ a ha (fun y hy => hall y (List.mem_cons_of_mem _ hy))
      have hnn := (arena_get_some _ _ _ hg).1
      have hraw : leafToRaw cap (leafOfRaw id lf) = lf := by
        cases lf; simp only [leafToRaw, leafOfRaw] at hcap ⊢; subst hcap; rfl
      refine ⟨leafOfRaw id lf :: Ls, by simp [leafOfRaw, h1], ?_, ?_⟩
      · intro l hl
        rcases List.mem_cons.1 hl with rfl | hl
        · exact ⟨keysOf_some m _ lf hg, hlens⟩
        · exact h2 l hl
      · have hnx : (if lf.next ≠ nullId then some lf.next else none).getD nullId = lf.next := by
          by_cases hn : lf.next = nullId
          · simp [hn]
          · simp [hn]
        rw [hnx] at h3
        exact RawChain.cons (leafOfRaw id lf) Ls lf.next (by rw [hraw]; exact hg) hlens hnn rfl h3

/-! ### `items()` along a stored chain -/

theorem takeWhile_noEnd (cfg : Cfg) (lf : Option (RLeaf K V)) (L : List (K × V)) :
    L.takeWhile (fun kv => ! beyondEnd cfg ({ leaf := lf, idx := 0 } : ItState K V) kv.1) = L := by
  have hfun : (fun (kv : K × V) => ! beyondEnd cfg ({ leaf := lf, idx := 0 } : ItState K V) kv.1) = fun _ => true := by
    funext kv; simp [beyondEnd]
  rw [hfun]
  induction L with
  | nil => rfl
  | cons x xs ih => simp [ih]

theorem drain_chain (cfg : Cfg) (m : RawMap K V) (cap : Nat) (Ls : List (Leaf K V)) (x : Nat)
    (hch : RawChain m cap Ls x) (hfuel : Ls.length + 1 ≤ m.fuel) (hbound : (Ls.flatMap Leaf.entries).length < m.itemBound) :
    drain (itemNext cfg m m.fuel) m.itemBound ({ leaf := m.getLeaf x, idx := 0 } : ItState K V) = .ok (Ls.flatMap Leaf.entries) := by
  cases hch with
  | nil =>
    rw [getLeaf_null]
    have hpos : Pos m cap ({ leaf := none, idx := 0 } : ItState K V) [] 0 := Pos.done _ _ rfl
    have := drain_pos cfg m cap m.fuel m.itemBound _ _ 0 hpos (by unfold RawMap.fuel; omega) (by simpa using hbound)
    simpa using this
  | cons l0 rest nxt hget hlens hne hnx hrest =>
    rw [hget]
    have hpos : Pos m cap ({ leaf := some (leafToRaw cap l0), idx := 0 } : ItState K V)
        (l0.entries.drop 0 ++ rest.flatMap Leaf.entries) rest.length :=
      Pos.at _ l0 rest nxt rest.length rfl hlens hrest hnx (Nat.zero_le _) rfl
    have hR : l0.entries.drop 0 ++ rest.flatMap Leaf.entries = (l0 :: rest).flatMap Leaf.entries := by simp
    rw [hR] at hpos
    have := drain_pos cfg m cap m.fuel m.itemBound _ _ rest.length hpos (by simp only [List.length_cons] at hfuel; omega) (by
      rw [takeWhile_noEnd]; exact hbound)
    rw [this, takeWhile_noEnd]

theorem nodup_lt_length (ids : List Nat) (n : Nat) (hnd : ids.Nodup) (hlt : ∀ x ∈ ids, x < n) : ids.length ≤ n := by
  have h1 := filter_mem_length ids n hnd hlt
  have h2 : ((List.range n).filter (fun i => decide (i ∈ ids))).length ≤ (List.range n).length := List.length_filter_le _ _
  simp only [List.length_range] at h2
  omega

theorem map_via_range {α : Type} (l : List α) (w : Option α → Nat) :
    l.map (fun a => w (some a)) = (List.range l.length).map (fun i => w l[i]?) := by
  apply List.ext_getElem
  · simp
  · intro i h1 h2
    simp only [List.length_map] at h1
    simp [List.getElem?_eq_getElem h1]

/-- weight of an arena slot in `itemBound` -/
def slotWeight : Option (RLeaf K V) → Nat
  | some a => a.keys.length + 1
  | none => 0

/-- the drain bound exceeds the number of entries of any duplicate-free list of stored leaves -/
theorem itemBound_chain (m : RawMap K V) (Ls : List (Leaf K V)) (hnd : (Ls.map (·.id)).Nodup)
    (hall : ∀ l ∈ Ls, ∃ rl, m.getLeaf l.id = some rl ∧ rl.keys = l.keys) :
    (Ls.flatMap Leaf.entries).length < m.itemBound := by
  let g : Nat → Nat := fun i => slotWeight m.leaves.storage[i]?
  have hstorage : m.itemBound = ((List.range m.leaves.storage.length).map g).sum + 1 := by
    unfold RawMap.itemBound
    have h2 : m.leaves.storage.map (fun l => l.keys.length + 1) = m.leaves.storage.map (fun a => slotWeight (some a)) := rfl
    rw [h2, map_via_range m.leaves.storage (slotWeight (K := K) (V := V))]
  have hleaves : (Ls.flatMap Leaf.entries).length ≤ ((Ls.map (·.id)).map g).sum := by
    rw [List.length_flatMap, List.map_map]
    apply sum_le_sum_pointwise
    intro l hl
    obtain ⟨rl, hg, hk⟩ := hall l hl
    have := (arena_get_some _ _ _ hg).2.2.2
    show l.entries.length ≤ g l.id
    simp only [g, this, hk, slotWeight]
    simp [Leaf.entries, List.length_zip]; omega
  have hsum := sum_le_of_nodup_subset g (Ls.map (·.id)) (List.range m.leaves.storage.length) hnd (by
    intro a ha
    obtain ⟨l, hl, rfl⟩ := List.mem_map.1 ha
    obtain ⟨rl, hg, _⟩ := hall l hl
    exact List.mem_range.2 (arena_get_some _ _ _ hg).2.1)
  omega

/-- **chain side**: `items()` yields the entries of the leaves the walk lists, in that order -/
theorem items_along_chain (cfg : Cfg) (m : RawMap K V) (first : Option Nat) (cids : List Nat)
    (hfirst : m.firstLeaf = .ok first) (hchain : m.chainIds m.fuel first = .ok cids)
    (hall : ∀ id ∈ cids, ∃ l, m.getLeaf id = some l ∧ l.keys.length = l.vals.length ∧ l.cap = m.cap) :
    ∃ Ls : List (Leaf K V), Ls.map (·.id) = cids ∧ (∀ l ∈ Ls, keysOf m l.id = l.keys ∧ l.keys.length = l.vals.length) ∧
      m.items cfg = .ok (Ls.flatMap Leaf.entries) := by
  obtain ⟨Ls, h1, h2, h3⟩ := chain_rawChain m m.cap m.fuel first cids hchain hall
  have hnd := chainIds_nodup m _ _ _ hchain
  have hstored : ∀ l ∈ Ls, ∃ rl, m.getLeaf l.id = some rl ∧ rl.keys = l.keys := by
    intro l hl
    obtain ⟨rl, hg, _, _⟩ := hall l.id (by rw [← h1]; exact List.mem_map_of_mem hl)
    exact ⟨rl, hg, by rw [← (h2 l hl).1, keysOf_some m _ rl hg]⟩
  refine ⟨Ls, h1, h2, ?_⟩
  unfold RawMap.items RawMap.itemsStart
  rw [hfirst]
  simp only [Res.map_ok, Res.bind_ok]
  have hleaf : first.bind m.getLeaf = m.getLeaf (first.getD nullId) := by
    cases first with
    | none => simp [getLeaf_null]
    | some x => rfl
  rw [hleaf]
  apply drain_chain cfg m m.cap Ls _ h3
  · have : Ls.length ≤ m.leaves.storage.length := by
      have := nodup_lt_length cids m.leaves.storage.length hnd (by
        intro x hx
        obtain ⟨rl, hg, _⟩ := hall x hx
        exact (arena_get_some _ _ _ hg).2.1)
      rw [← h1, List.length_map] at this
      exact this
    unfold RawMap.fuel; omega
  · exact itemBound_chain m Ls (by rw [h1]; exact hnd) hstored

end BPT.Rust
