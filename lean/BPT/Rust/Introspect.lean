import BPT.Rust.Iter2
import BPT.Rust.ViewArena
/-
  Introspection readers on the arena view of a typed tree (`len`, `leaf_count`,
  `count_nodes_in_tree`, `leaf_sizes`, `collect_leaf_ids`): on an embedded tree each
  of them computes the corresponding function of the tree.
-/
namespace BPT.Rust
open BPT Tree
open BPT.Rust.RawMap (sumRes concatRes)
variable {K V : Type} [Keyed K]

theorem sumRes_ok {α : Type} (r : α → Res Nat) (g : α → Nat) : ∀ (l : List α), (∀ a ∈ l, r a = .ok (g a)) →
    sumRes (l.map r) = .ok (l.map g).sum := by
  intro l
  induction l with
  | nil => intro _; rfl
  | cons a as ih =>
    intro h
    simp only [List.map_cons, sumRes, h a List.mem_cons_self, Res.bind_ok, ih (fun x hx => h x (List.mem_cons_of_mem _ hx)),
      Res.map_ok, List.sum_cons]

theorem concatRes_ok {α β : Type} (r : α → Res (List β)) (g : α → List β) : ∀ (l : List α), (∀ a ∈ l, r a = .ok (g a)) →
    concatRes (l.map r) = .ok (l.flatMap g) := by
  intro l
  induction l with
  | nil => intro _; rfl
  | cons a as ih =>
    intro h
    simp only [List.map_cons, concatRes, h a List.mem_cons_self, Res.bind_ok, ih (fun x hx => h x (List.mem_cons_of_mem _ hx)),
      Res.map_ok, List.flatMap_cons]

theorem sum_flatMap {α : Type} (f : α → List Nat) (L : List α) : (L.flatMap f).sum = (L.map (fun a => (f a).sum)).sum := by
  induction L with
  | nil => rfl
  | cons a L ih => simp [List.flatMap_cons, List.sum_append, ih]

/-- number of keys held by the leaves of `t` -/
def keyCount (h : Nat) (t : Tree K V h) : Nat := ((Tree.leaves h t).map (fun l => l.keys.length)).sum

theorem lenFrom_spec (m : RawMap K V) (cap : Nat) : ∀ (h : Nat) (t : Tree K V h) (f : Nat),
    Embeds m cap h t → h < f → m.lenFrom f (ref h t) = .ok (keyCount h t) := by
  intro h
  induction h with
  | zero =>
    intro t f he hf
    obtain ⟨f', rfl⟩ : ∃ f', f = f' + 1 := ⟨f - 1, by omega⟩
    rw [ref_zero]
    unfold RawMap.lenFrom
    have he' : m.getLeaf (t : Leaf K V).id = some (leafToRaw cap (t : Leaf K V)) := he
    simp [he', leafToRaw, keyCount, Tree.leaves]
  | succ h ih =>
    intro t f he hf
    obtain ⟨f', rfl⟩ : ∃ f', f = f' + 1 := ⟨f - 1, by omega⟩
    rw [ref_succ]
    unfold RawMap.lenFrom
    simp only [he.1, rawOfBranch, List.map_map]
    rw [sumRes_ok (m.lenFrom f' ∘ ref h) (keyCount h) (Branch.children t)
      (fun c hc => ih c f' (he.2 c hc) (by omega))]
    congr 1
    simp only [keyCount, Tree.leaves, List.map_flatMap, sum_flatMap]
    rfl

theorem leafCountFrom_spec (m : RawMap K V) (cap : Nat) : ∀ (h : Nat) (t : Tree K V h) (f : Nat),
    Embeds m cap h t → h < f → m.leafCountFrom f (ref h t) = .ok (Tree.leaves h t).length := by
  intro h
  induction h with
  | zero =>
    intro t f _ hf
    obtain ⟨f', rfl⟩ : ∃ f', f = f' + 1 := ⟨f - 1, by omega⟩
    rfl
  | succ h ih =>
    intro t f he hf
    obtain ⟨f', rfl⟩ : ∃ f', f = f' + 1 := ⟨f - 1, by omega⟩
    rw [ref_succ]
    unfold RawMap.leafCountFrom
    simp only [he.1, rawOfBranch, List.map_map]
    rw [sumRes_ok (m.leafCountFrom f' ∘ ref h) (fun c => (Tree.leaves h c).length) (Branch.children t)
      (fun c hc => ih c f' (he.2 c hc) (by omega))]
    congr 1
    simp only [Tree.leaves, List.length_flatMap]

theorem leafSizesFrom_spec (m : RawMap K V) (cap : Nat) : ∀ (h : Nat) (t : Tree K V h) (f : Nat),
    Embeds m cap h t → h < f → m.leafSizesFrom f (ref h t) = .ok ((Tree.leaves h t).map (fun l => l.keys.length)) := by
  intro h
  induction h with
  | zero =>
    intro t f he hf
    obtain ⟨f', rfl⟩ : ∃ f', f = f' + 1 := ⟨f - 1, by omega⟩
    rw [ref_zero]
    unfold RawMap.leafSizesFrom
    have he' : m.getLeaf (t : Leaf K V).id = some (leafToRaw cap (t : Leaf K V)) := he
    simp [he', leafToRaw, Tree.leaves]
  | succ h ih =>
    intro t f he hf
    obtain ⟨f', rfl⟩ : ∃ f', f = f' + 1 := ⟨f - 1, by omega⟩
    rw [ref_succ]
    unfold RawMap.leafSizesFrom
    simp only [he.1, rawOfBranch, List.map_map]
    rw [concatRes_ok (m.leafSizesFrom f' ∘ ref h) (fun c => (Tree.leaves h c).map (fun (l : Leaf K V) => l.keys.length)) (Branch.children t)
      (fun c hc => ih c f' (he.2 c hc) (by omega))]
    congr 1
    simp only [Tree.leaves, List.map_flatMap]

theorem leafIdsFrom_spec (m : RawMap K V) (cap : Nat) : ∀ (h : Nat) (t : Tree K V h) (f : Nat),
    Embeds m cap h t → h < f → m.leafIdsFrom f (ref h t) = .ok ((Tree.leaves h t).map (·.id)) := by
  intro h
  induction h with
  | zero =>
    intro t f _ hf
    obtain ⟨f', rfl⟩ : ∃ f', f = f' + 1 := ⟨f - 1, by omega⟩
    rfl
  | succ h ih =>
    intro t f he hf
    obtain ⟨f', rfl⟩ : ∃ f', f = f' + 1 := ⟨f - 1, by omega⟩
    rw [ref_succ]
    unfold RawMap.leafIdsFrom
    simp only [he.1, rawOfBranch, List.map_map]
    rw [concatRes_ok (m.leafIdsFrom f' ∘ ref h) (fun c => (Tree.leaves h c).map (fun (l : Leaf K V) => l.id)) (Branch.children t)
      (fun c hc => ih c f' (he.2 c hc) (by omega))]
    congr 1
    simp only [Tree.leaves, List.map_flatMap]

theorem countNodesFrom_spec (m : RawMap K V) (cap : Nat) : ∀ (h : Nat) (t : Tree K V h) (f : Nat),
    Embeds m cap h t → h < f → m.countNodesFrom f (ref h t) = .ok ((Tree.leaves h t).length, (bids h t).length) := by
  intro h
  induction h with
  | zero =>
    intro t f _ hf
    obtain ⟨f', rfl⟩ : ∃ f', f = f' + 1 := ⟨f - 1, by omega⟩
    rfl
  | succ h ih =>
    intro t f he hf
    obtain ⟨f', rfl⟩ : ∃ f', f = f' + 1 := ⟨f - 1, by omega⟩
    rw [ref_succ]
    unfold RawMap.countNodesFrom
    simp only [he.1, rawOfBranch, List.map_map]
    rw [sumRes_ok ((fun c => Res.map (fun x => x.fst) (m.countNodesFrom f' c)) ∘ ref h) (fun c => (Tree.leaves h c).length) (Branch.children t)
      (fun c hc => by simp [ih c f' (he.2 c hc) (by omega)])]
    simp only [Res.bind_ok]
    rw [sumRes_ok ((fun c => Res.map (fun x => x.snd) (m.countNodesFrom f' c)) ∘ ref h) (fun c => (bids h c).length) (Branch.children t)
      (fun c hc => by simp [ih c f' (he.2 c hc) (by omega)])]
    simp only [Res.map_ok, Tree.leaves, bids_succ, List.length_flatMap, List.length_cons]

/-! ### on the view of a reachable state -/

theorem keyCount_eq_len : ∀ (h : Nat) (t : Tree K V h) (lo hi : Option Int), Ordered h t lo hi →
    keyCount h t = (toList h t).length := by
  intro h t lo hi ho
  have hp := leaves_lens h t lo hi ho
  unfold keyCount toList
  generalize leaves h t = L at hp
  induction L with
  | nil => rfl
  | cons l L ih =>
    simp only [List.map_cons, List.sum_cons, List.flatMap_cons, List.length_append]
    rw [ih (fun x hx => hp x (List.mem_cons_of_mem _ hx))]
    have := hp l List.mem_cons_self
    simp [Leaf.entries, this]

theorem view_len (s : RState K V) (hs : SInv s) (hsm : Small s) : (view s).len = .ok (abs s).length := by
  unfold RawMap.len
  rw [view_root, lenFrom_spec (view s) s.cap s.height s.root _ (view_embeds s hs hsm) (fuel_ok s hs),
      keyCount_eq_len s.height s.root none none hs.inv.ord]
  rfl

theorem view_leafCount (s : RState K V) (hs : SInv s) (hsm : Small s) :
    (view s).leafCount = .ok (Tree.leaves s.height s.root).length := by
  unfold RawMap.leafCount
  rw [view_root, leafCountFrom_spec (view s) s.cap s.height s.root _ (view_embeds s hs hsm) (fuel_ok s hs)]

theorem view_leafSizes (s : RState K V) (hs : SInv s) (hsm : Small s) :
    (view s).leafSizes = .ok ((Tree.leaves s.height s.root).map (fun l => l.keys.length)) := by
  unfold RawMap.leafSizes
  rw [view_root, leafSizesFrom_spec (view s) s.cap s.height s.root _ (view_embeds s hs hsm) (fuel_ok s hs)]

theorem view_leafIds (s : RState K V) (hs : SInv s) (hsm : Small s) :
    (view s).leafIds = .ok ((Tree.leaves s.height s.root).map (·.id)) := by
  unfold RawMap.leafIds
  rw [view_root, leafIdsFrom_spec (view s) s.cap s.height s.root _ (view_embeds s hs hsm) (fuel_ok s hs)]

theorem view_countNodes (s : RState K V) (hs : SInv s) (hsm : Small s) :
    (view s).countNodes = .ok ((Tree.leaves s.height s.root).length, (bids s.height s.root).length) := by
  unfold RawMap.countNodes
  obtain ⟨cap, height, root, al⟩ := s
  cases height with
  | zero => simp [view, ref, Tree.leaves, bids]
  | succ h =>
    have := countNodesFrom_spec (view ⟨cap, h+1, root, al⟩) cap (h+1) root _ (view_embeds _ hs hsm) (fuel_ok _ hs)
    rw [view_root]
    simp only [ref, Nat.succ_ne_zero, if_false] at this ⊢
    exact this

theorem view_isLeafRoot (s : RState K V) : (view s).isLeafRoot = decide (s.height = 0) := by
  unfold RawMap.isLeafRoot
  rw [view_root]
  unfold ref
  by_cases h : s.height = 0 <;> simp [h]

end BPT.Rust
