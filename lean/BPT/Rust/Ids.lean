import BPT.Rust.RemoveLinks
/-
  Node-id bookkeeping.  `Bal ids ids' a a'`: the multiset of ids in use and the
  allocator moved together (an id handed out entered `ids'`, a released id left it).
  `IdsOK ids a`: every slot `< a.len` is either in use exactly once or on the free list exactly once.
-/
namespace BPT.Rust
open BPT Tree
variable {K V : Type} [Keyed K]

def IdsOK (ids : List Nat) (a : Alloc) : Prop := ∀ i, ids.count i + a.free.count i = if i < a.len then 1 else 0

def Bal (ids ids' : List Nat) (a a' : Alloc) : Prop :=
  ∀ i, ids'.count i + a'.free.count i + (if i < a.len then 1 else 0) = ids.count i + a.free.count i + (if i < a'.len then 1 else 0)

theorem Bal.refl (ids : List Nat) (a : Alloc) : Bal ids ids a a := fun _ => rfl

theorem Bal.trans {i1 i2 i3 : List Nat} {a1 a2 a3 : Alloc} (h1 : Bal i1 i2 a1 a2) (h2 : Bal i2 i3 a2 a3) : Bal i1 i3 a1 a3 := by
  intro i; have := h1 i; have := h2 i; omega

theorem Bal.ctx {ids ids' : List Nat} {a a' : Alloc} (P Q : List Nat) (h : Bal ids ids' a a') :
    Bal (P ++ ids ++ Q) (P ++ ids' ++ Q) a a' := by
  intro i; have := h i; simp only [List.count_append]; omega

theorem Bal.of_count_eq {ids ids' : List Nat} {a : Alloc} (h : ∀ i, ids'.count i = ids.count i) : Bal ids ids' a a := by
  intro i; rw [h i]

theorem IdsOK.step {ids ids' : List Nat} {a a' : Alloc} (h : IdsOK ids a) (hb : Bal ids ids' a a') : IdsOK ids' a' := by
  intro i; have := h i; have := hb i; omega

/-- handing out an id -/
theorem bal_alloc (ids : List Nat) (a : Alloc) : Bal ids (a.alloc.1 :: ids) a a.alloc.2 := by
  intro i
  unfold Alloc.alloc
  cases hf : a.free with
  | nil =>
    simp only [List.count_cons, List.count_nil]
    by_cases h : a.len = i
    · subst h; simp
    · have hb : (a.len == i) = false := by simp [h]
      by_cases h1 : i < a.len
      · have h2 : i < a.len + 1 := by omega
        simp [hb, h1, h2]
      · have h2 : ¬ i < a.len + 1 := by omega
        simp [hb, h1, h2]
  | cons x rest =>
    simp only [List.count_cons]
    omega

/-- releasing an id that is in use -/
theorem bal_dealloc (ids ids' : List Nat) (a : Alloc) (x : Nat)
    (h : ∀ i, ids.count i = ids'.count i + (if i = x then 1 else 0)) : Bal ids ids' a (a.dealloc x) := by
  intro i
  have := h i
  simp only [Alloc.dealloc, List.count_cons]
  by_cases hx : i = x
  · subst hx
    simp only [if_true] at this
    by_cases h1 : i < a.len <;> simp [h1, this] <;> omega
  · have hb : (x == i) = false := by simp; omega
    simp only [hx, if_false, Nat.add_zero] at this
    by_cases h1 : i < a.len <;> simp [h1, this, hb]

theorem idsOK_fresh_leaf : IdsOK [0] { len := 1, free := [] } := by
  intro i
  by_cases h : i = 0
  · subst h; simp
  · have : (0 == i) = false := by simp; omega
    simp [List.count_cons, this]; omega

theorem idsOK_fresh_branch : IdsOK [] { len := 0, free := [] } := by
  intro i; simp

/-! ### leaf ids, from the links -/

def leafIdsOf (L : List (Nat × Nat)) : List Nat := L.map (·.1)

theorem linkIns_bal {L L' : List (Nat × Nat)} {a a' : Alloc} (h : LinkIns L L' a a') : Bal (leafIdsOf L) (leafIdsOf L') a a' := by
  cases h with
  | same h1 h2 => rw [h1, h2]; exact Bal.refl _ _
  | split A B i n h1 h2 h3 =>
    rw [h1, h2, h3]
    have := bal_alloc (leafIdsOf (A ++ [(i, n)] ++ B)) a
    intro j
    have := this j
    simp only [leafIdsOf, List.map_append, List.map_cons, List.map_nil, List.count_append, List.count_cons, List.count_nil] at this ⊢
    omega

theorem linkRem_bal {L L' : List (Nat × Nat)} {a a' : Alloc} (h : LinkRem L L' a a') : Bal (leafIdsOf L) (leafIdsOf L') a a' := by
  cases h with
  | same h1 h2 => rw [h1, h2]; exact Bal.refl _ _
  | merge A B ia na ib nb h1 h2 h3 =>
    rw [h1, h2, h3]
    apply bal_dealloc
    intro j
    simp only [leafIdsOf, List.map_append, List.map_cons, List.map_nil, List.count_append, List.count_cons, List.count_nil]
    by_cases hj : j = ib
    · subst hj; simp; omega
    · have : (ib == j) = false := by simp; omega
      simp [hj, this]

theorem linkIns_chain {L L' : List (Nat × Nat)} {a a' : Alloc} (h : LinkIns L L' a a') (nxt : Nat) (hc : ChainL L nxt) :
    ChainL L' nxt ∧ firstOf L' nxt = firstOf L nxt := by
  cases h with
  | same h1 h2 => rw [h1]; exact ⟨hc, rfl⟩
  | split A B i n h1 h2 h3 => rw [h1] at hc; rw [h1, h2]; exact chainL_split A B i n _ nxt hc

theorem linkRem_chain {L L' : List (Nat × Nat)} {a a' : Alloc} (h : LinkRem L L' a a') (nxt : Nat) (hc : ChainL L nxt) :
    ChainL L' nxt ∧ firstOf L' nxt = firstOf L nxt := by
  cases h with
  | same h1 h2 => rw [h1]; exact ⟨hc, rfl⟩
  | merge A B ia na ib nb h1 h2 h3 => rw [h1] at hc; rw [h1, h2]; exact chainL_merge A B ia na ib nb nxt hc

end BPT.Rust

namespace BPT.Rust
open BPT Tree
variable {K V : Type} [Keyed K]

/-! ### branch ids -/

def bids : (h : Nat) → Tree K V h → List Nat
  | 0, _ => []
  | h+1, (b : Branch K (Tree K V h)) => b.id :: b.children.flatMap (bids h)

theorem bids_succ (h : Nat) (b : Branch K (Tree K V h)) : bids (h+1) (b : Tree K V (h+1)) = b.id :: b.children.flatMap (bids h) := rfl

theorem Bal.congr_right {ids ids1 ids2 : List Nat} {a a' : Alloc} (h : Bal ids ids1 a a') (he : ∀ i, ids2.count i = ids1.count i) :
    Bal ids ids2 a a' := by
  intro i; have := h i; rw [he i]; exact this

theorem Bal.congr_left {ids0 ids ids1 : List Nat} {a a' : Alloc} (h : Bal ids ids1 a a') (he : ∀ i, ids0.count i = ids.count i) :
    Bal ids0 ids1 a a' := by
  intro i; have := h i; rw [he i]; exact this

def InsRes.bids {h : Nat} : InsRes K V h → List Nat
  | .updated t _ => Rust.bids h t
  | .split a b _ _ => Rust.bids h a ++ Rust.bids h b

theorem insertRec_bids (cap : Nat) :
    ∀ (h : Nat) (t : Tree K V h) (k : K) (v : V) (al : Allocs) (res : InsRes K V h) (al' : Allocs),
      insertRec cap h t k v al = some (res, al') → Bal (bids h t) res.bids al.branch al'.branch := by
  intro h
  induction h with
  | zero =>
    intro t k v al res al' he
    have := (insertLeaf_links cap (t : Leaf K V) k v al res al' he).2
    rw [this]
    cases res <;> exact Bal.refl _ _
  | succ h ih =>
    intro t k v al res al' he
    unfold insertRec at he
    simp only [] at he
    cases hci : (Branch.children t)[upperBound (Branch.keys t) k]? with
    | none =>
      simp only [hci, Option.some.injEq, Prod.mk.injEq] at he
      rw [← he.1, ← he.2]; exact Bal.refl _ _
    | some c =>
      simp only [hci] at he
      have hic : upperBound (Branch.keys t) k < (Branch.children t).length := lt_of_getElem?_eq_some hci
      cases hrec : insertRec cap h c k v al with
      | none => rw [hrec] at he; simp at he
      | some p =>
        obtain ⟨cres, al1⟩ := p
        have hl := ih c k v al cres al1 hrec
        rw [hrec] at he
        have hsplit := flatMap_split (bids h) (Branch.children t) _ c hci
        have hctx := (hl.ctx ((Branch.id t) :: ((Branch.children t).take (upperBound (Branch.keys t) k)).flatMap (bids h))
          (((Branch.children t).drop (upperBound (Branch.keys t) k + 1)).flatMap (bids h)))
        have e0 : Branch.id t :: List.flatMap (bids h) (List.take (upperBound (Branch.keys t) k) (Branch.children t)) ++ bids h c ++
            List.flatMap (bids h) (List.drop (upperBound (Branch.keys t) k + 1) (Branch.children t)) = bids (h+1) t := by
          rw [bids_succ, hsplit]; simp
        rw [e0] at hctx
        cases cres with
        | updated c' old =>
          simp only [Option.some.injEq, Prod.mk.injEq] at he
          rw [← he.1, ← he.2]
          refine hctx.congr_right ?_
          intro i
          show (bids (h+1) _).count i = _
          rw [bids_succ]
          show ((Branch.id t) :: (setAt (Branch.children t) _ c').flatMap (bids h)).count i = _
          rw [flatMap_setAt]
          simp [InsRes.bids, List.count_append, List.count_cons]
        | split l r sep old =>
          have hb1 : (branchSplit1 (t : Branch K (Tree K V h)) (upperBound (Branch.keys t) k) l r sep).children.flatMap (bids h) =
              ((Branch.children t).take (upperBound (Branch.keys t) k)).flatMap (bids h) ++ (bids h l ++ bids h r) ++
              ((Branch.children t).drop (upperBound (Branch.keys t) k + 1)).flatMap (bids h) := by
            show (insertAt (setAt (Branch.children t) _ l) _ r).flatMap (bids h) = _
            rw [insertAt_setAt_eq _ _ _ _ hic]
            simp [List.flatMap_append]
          simp only [] at he
          split at he
          · split at he
            · simp at he
            · simp only [Option.some.injEq, Prod.mk.injEq] at he
              rw [← he.1, ← he.2]
              have hal := bal_alloc (Branch.id t :: (branchSplit1 (t : Branch K (Tree K V h)) (upperBound (Branch.keys t) k) l r sep).children.flatMap (bids h)) al1.branch
              refine (hctx.trans (hal.congr_left ?_)).congr_right ?_
              · intro i; rw [hb1]; simp [InsRes.bids, List.count_append, List.count_cons]
              · intro i
                show (bids (h+1) _ ++ bids (h+1) _).count i = _
                rw [bids_succ, bids_succ]
                show ((Branch.id t :: (List.take _ _).flatMap (bids h)) ++ (al1.branch.alloc.1 :: (List.drop _ _).flatMap (bids h))).count i = _
                conv => rhs; rw [← List.take_append_drop (branchSplitMid cap + 1) (branchSplit1 (t : Branch K (Tree K V h)) (upperBound (Branch.keys t) k) l r sep).children]
                simp only [List.flatMap_append, List.count_append, List.count_cons]
                omega
          · simp only [Option.some.injEq, Prod.mk.injEq] at he
            rw [← he.1, ← he.2]
            refine hctx.congr_right ?_
            intro i
            show (bids (h+1) _).count i = _
            rw [bids_succ, hb1]
            show ((Branch.id t) :: _).count i = _
            simp [InsRes.bids, List.count_append, List.count_cons]

end BPT.Rust

namespace BPT.Rust
open BPT Tree
variable {K V : Type} [Keyed K]

theorem bids_two (h : Nat) (b : Branch K (Tree K V h)) (j : Nat) (x y : Tree K V h)
    (hx : b.children[j]? = some x) (hy : b.children[j+1]? = some y) :
    bids (h+1) (b : Tree K V (h+1)) =
      b.id :: ((b.children.take j).flatMap (bids h) ++ (bids h x ++ bids h y) ++ (b.children.drop (j+2)).flatMap (bids h)) := by
  rw [bids_succ]
  conv => lhs; rw [eq_take_cons_cons_drop b.children j x y hx hy]
  simp [List.flatMap_append]

theorem bids_replace2 (h : Nat) (b : Branch K (Tree K V h)) (j : Nat) (y x' y' : Tree K V h) (sep : K)
    (hy : b.children[j+1]? = some y) :
    bids (h+1) (branchReplace2 b j x' y' sep : Tree K V (h+1)) =
      b.id :: ((b.children.take j).flatMap (bids h) ++ (bids h x' ++ bids h y') ++ (b.children.drop (j+2)).flatMap (bids h)) := by
  have hj1 : j + 1 < b.children.length := lt_of_getElem?_eq_some hy
  rw [bids_succ]
  show b.id :: (setAt (setAt b.children j x') (j+1) y').flatMap (bids h) = _
  rw [setAt_setAt_succ _ _ _ _ hj1]
  simp [List.flatMap_append]

theorem bids_merge2 (h : Nat) (b : Branch K (Tree K V h)) (j : Nat) (y m : Tree K V h)
    (hy : b.children[j+1]? = some y) :
    bids (h+1) (branchMerge2 b j m : Tree K V (h+1)) =
      b.id :: ((b.children.take j).flatMap (bids h) ++ bids h m ++ (b.children.drop (j+2)).flatMap (bids h)) := by
  have hj1 : j + 1 < b.children.length := lt_of_getElem?_eq_some hy
  rw [bids_succ]
  show b.id :: (removeAt (setAt b.children j m) (j+1)).flatMap (bids h) = _
  rw [removeAt_setAt_succ _ _ _ hj1]
  simp [List.flatMap_append]

theorem branchBorrowLeft_bids (h : Nat) (a c a' c' : Branch K (Tree K V h)) (sep mk : K)
    (hb : branchBorrowLeft a c sep = some (a', c', mk)) :
    ∀ i, (bids (h+1) (a' : Tree K V (h+1)) ++ bids (h+1) (c' : Tree K V (h+1))).count i =
      (bids (h+1) (a : Tree K V (h+1)) ++ bids (h+1) (c : Tree K V (h+1))).count i := by
  unfold branchBorrowLeft at hb
  cases hk : a.keys.getLast? with
  | none => simp [hk] at hb
  | some k0 =>
    cases hc : a.children.getLast? with
    | none => simp [hk, hc] at hb
    | some mc =>
      simp only [hk, hc, Option.some.injEq, Prod.mk.injEq] at hb
      rw [← hb.1, ← hb.2.1]
      intro i
      simp only [bids_succ]
      show ((a.id :: (a.children.dropLast).flatMap (bids h)) ++ (c.id :: (mc :: c.children).flatMap (bids h))).count i = _
      conv => rhs; rw [dropLast_append_of_getLast? a.children mc hc]
      simp only [List.flatMap_append, List.flatMap_cons, List.flatMap_nil, List.count_append, List.count_cons, List.append_nil]
      omega

theorem branchBorrowRight_bids (h : Nat) (c r c' r' : Branch K (Tree K V h)) (sep mk : K)
    (hb : branchBorrowRight c r sep = some (c', r', mk)) :
    ∀ i, (bids (h+1) (c' : Tree K V (h+1)) ++ bids (h+1) (r' : Tree K V (h+1))).count i =
      (bids (h+1) (c : Tree K V (h+1)) ++ bids (h+1) (r : Tree K V (h+1))).count i := by
  unfold branchBorrowRight at hb
  cases hk : r.keys with
  | nil => simp [hk] at hb
  | cons k0 ks =>
    cases hc : r.children with
    | nil => simp [hk, hc] at hb
    | cons mc cs =>
      simp only [hk, hc, Option.some.injEq, Prod.mk.injEq] at hb
      rw [← hb.1, ← hb.2.1]
      intro i
      simp only [bids_succ]
      show ((c.id :: (c.children ++ [mc]).flatMap (bids h)) ++ (r.id :: cs.flatMap (bids h))).count i = _
      rw [hc]
      simp only [List.flatMap_append, List.flatMap_cons, List.flatMap_nil, List.count_append, List.count_cons, List.append_nil]
      omega

theorem branchMergeNodes_bids (cap h : Nat) (a c m : Branch K (Tree K V h)) (sep : K)
    (hb : branchMergeNodes cap a c sep = some m) :
    ∀ i, (bids (h+1) (a : Tree K V (h+1)) ++ bids (h+1) (c : Tree K V (h+1))).count i =
      (bids (h+1) (m : Tree K V (h+1))).count i + (if i = c.id then 1 else 0) := by
  unfold branchMergeNodes at hb
  split at hb
  · simp only [Option.some.injEq] at hb
    rw [← hb]
    intro i
    simp only [bids_succ]
    show _ = ((a.id :: (a.children ++ c.children).flatMap (bids h))).count i + _
    simp only [List.flatMap_append, List.count_append, List.count_cons]
    by_cases hi : i = c.id
    · subst hi; simp; omega
    · have : (c.id == i) = false := by simp; omega
      simp [hi, this]; omega
  · simp at hb

theorem count_cons_ctx (x : Nat) (P M M' Q : List Nat) (i : Nat) (h : M'.count i = M.count i) :
    (x :: (P ++ M' ++ Q)).count i = (x :: (P ++ M ++ Q)).count i := by
  simp only [List.count_cons, List.count_append, h]

theorem rebalanceBranch_bids (cap h : Nat) (b : Branch K (Branch K (Tree K V h))) (i : Nat) (al : Allocs)
    (b2 : Branch K (Branch K (Tree K V h))) (al2 : Allocs) (he : rebalanceBranch cap b i al = some (b2, al2)) :
    Bal (bids (h+2) (b : Tree K V (h+2))) (bids (h+2) (b2 : Tree K V (h+2))) al.branch al2.branch := by
  unfold rebalanceBranch at he
  cases hci : b.children[i]? with
  | none => simp [hci] at he
  | some c =>
    simp only [hci] at he
    replace he := ite_none_eq_some he
    have bl : ∀ j a, i = j + 1 → b.children[j]? = some a → branchBorrowLeftAt b i al a c = some (b2, al2) →
        Bal (bids (h+2) (b : Tree K V (h+2))) (bids (h+2) (b2 : Tree K V (h+2))) al.branch al2.branch := by
      intro j a hij ha he
      subst hij
      unfold branchBorrowLeftAt at he
      simp only [Nat.add_sub_cancel] at he
      cases hs : b.keys[j]? with
      | none => simp [hs] at he
      | some sep =>
        simp only [hs] at he
        cases hb : branchBorrowLeft a c sep with
        | none => simp [hb] at he
        | some p =>
          obtain ⟨a', c', mk⟩ := p
          simp only [hb, Option.some.injEq, Prod.mk.injEq] at he
          rw [← he.1, ← he.2]
          apply Bal.of_count_eq
          intro x
          rw [bids_replace2 (h+1) b j c a' c' mk hci, bids_two (h+1) b j a c ha hci]
          exact count_cons_ctx _ _ _ _ _ x (branchBorrowLeft_bids h a c a' c' sep mk hb x)
    have br : ∀ r, b.children[i+1]? = some r → branchBorrowRightAt b i al c r = some (b2, al2) →
        Bal (bids (h+2) (b : Tree K V (h+2))) (bids (h+2) (b2 : Tree K V (h+2))) al.branch al2.branch := by
      intro r hr he
      unfold branchBorrowRightAt at he
      cases hs : b.keys[i]? with
      | none => simp [hs] at he
      | some sep =>
        simp only [hs] at he
        cases hb : branchBorrowRight c r sep with
        | none => simp [hb] at he
        | some p =>
          obtain ⟨c', r', mk⟩ := p
          simp only [hb, Option.some.injEq, Prod.mk.injEq] at he
          rw [← he.1, ← he.2]
          apply Bal.of_count_eq
          intro x
          rw [bids_replace2 (h+1) b i r c' r' mk hr, bids_two (h+1) b i c r hci hr]
          exact count_cons_ctx _ _ _ _ _ x (branchBorrowRight_bids h c r c' r' sep mk hb x)
    have ml : ∀ j a, i = j + 1 → b.children[j]? = some a → branchMergeLeftAt cap b i al a c = some (b2, al2) →
        Bal (bids (h+2) (b : Tree K V (h+2))) (bids (h+2) (b2 : Tree K V (h+2))) al.branch al2.branch := by
      intro j a hij ha he
      subst hij
      unfold branchMergeLeftAt at he
      simp only [Nat.add_sub_cancel] at he
      cases hs : b.keys[j]? with
      | none => simp [hs] at he
      | some sep =>
        simp only [hs] at he
        cases hb : branchMergeNodes cap a c sep with
        | none => simp [hb] at he
        | some m =>
          simp only [hb, Option.some.injEq, Prod.mk.injEq] at he
          rw [← he.1, ← he.2]
          apply bal_dealloc
          intro x
          rw [bids_merge2 (h+1) b j c m hci, bids_two (h+1) b j a c ha hci]
          have := branchMergeNodes_bids cap h a c m sep hb x
          simp only [List.count_cons, List.count_append] at this ⊢
          omega
    have mr : ∀ r, b.children[i+1]? = some r → branchMergeRightAt cap b i al c r = some (b2, al2) →
        Bal (bids (h+2) (b : Tree K V (h+2))) (bids (h+2) (b2 : Tree K V (h+2))) al.branch al2.branch := by
      intro r hr he
      unfold branchMergeRightAt at he
      cases hs : b.keys[i]? with
      | none => simp [hs] at he
      | some sep =>
        simp only [hs] at he
        cases hb : branchMergeNodes cap c r sep with
        | none => simp [hb] at he
        | some m =>
          simp only [hb, Option.some.injEq, Prod.mk.injEq] at he
          rw [← he.1, ← he.2]
          apply bal_dealloc
          intro x
          rw [bids_merge2 (h+1) b i r m hr, bids_two (h+1) b i c r hci hr]
          have := branchMergeNodes_bids cap h c r m sep hb x
          simp only [List.count_cons, List.count_append] at this ⊢
          omega
    by_cases hi0 : i > 0
    · obtain ⟨j, rfl⟩ : ∃ j, i = j + 1 := ⟨i - 1, by omega⟩
      simp only [hi0, if_true, Nat.add_sub_cancel] at he
      cases haj : b.children[j]? with
      | none =>
        have : j < b.children.length := by have := lt_of_getElem?_eq_some hci; omega
        simp [List.getElem?_eq_getElem this] at haj
      | some a =>
        simp only [haj] at he
        by_cases hr : j + 1 + 1 < b.children.length
        · have hrj : b.children[j+1+1]? = some b.children[j+1+1] := List.getElem?_eq_getElem hr
          generalize b.children[j+1+1] = r at hrj
          simp only [hr, if_true, hrj, rebalanceBranchWith_some_some] at he
          by_cases hd1 : canDonate cap a.keys.length = true
          · rw [if_pos hd1] at he; exact bl j a rfl haj he
          · rw [if_neg hd1] at he
            by_cases hd2 : canDonate cap r.keys.length = true
            · rw [if_pos hd2] at he; exact br r hrj he
            · rw [if_neg hd2] at he; exact ml j a rfl haj he
        · simp only [hr, if_false, rebalanceBranchWith_some_none] at he
          by_cases hd1 : canDonate cap a.keys.length = true
          · rw [if_pos hd1] at he; exact bl j a rfl haj he
          · rw [if_neg hd1] at he; exact ml j a rfl haj he
    · have hi0' : i = 0 := by omega
      subst hi0'
      simp only [Nat.lt_irrefl, if_false] at he
      by_cases hr : 0 + 1 < b.children.length
      · have hrj : b.children[0+1]? = some b.children[0+1] := List.getElem?_eq_getElem hr
        generalize b.children[0+1] = r at hrj
        simp only [hr, if_true, hrj, rebalanceBranchWith_none_some] at he
        by_cases hd2 : canDonate cap r.keys.length = true
        · rw [if_pos hd2] at he; exact br r hrj he
        · rw [if_neg hd2] at he; exact mr r hrj he
      · simp only [hr, if_false, rebalanceBranchWith_none_none, Option.some.injEq, Prod.mk.injEq] at he
        rw [← he.1, ← he.2]; exact Bal.refl _ _

/-- a branch over leaves has exactly its own id -/
theorem bids_one (b : Branch K (Leaf K V)) : bids 1 (b : Tree K V 1) = [b.id] := by
  rw [bids_succ]
  have : b.children.flatMap (bids 0) = [] := by
    rw [List.flatMap_eq_nil_iff]; intro _ _; rfl
  rw [this]

theorem rebalanceLeaf_id (cap : Nat) (b : Branch K (Leaf K V)) (i : Nat) (al : Allocs) (b2 : Branch K (Leaf K V)) (al2 : Allocs)
    (he : rebalanceLeaf cap b i al = some (b2, al2)) : b2.id = b.id := by
  unfold rebalanceLeaf at he
  cases hci : b.children[i]? with
  | none => simp [hci] at he
  | some c =>
    simp only [hci] at he
    have h1 : ∀ a, leafBorrowLeftAt b i al a c = some (b2, al2) → b2.id = b.id := by
      intro a he; unfold leafBorrowLeftAt at he
      split at he
      · simp at he
      · split at he
        · simp only [Option.some.injEq, Prod.mk.injEq] at he; rw [← he.1]; rfl
        · simp at he
    have h2 : ∀ r, leafBorrowRightAt b i al c r = some (b2, al2) → b2.id = b.id := by
      intro r he; unfold leafBorrowRightAt at he
      split at he
      · simp at he
      · split at he
        · simp only [Option.some.injEq, Prod.mk.injEq] at he; rw [← he.1]; rfl
        · simp at he
      · simp only [Option.some.injEq, Prod.mk.injEq] at he; rw [← he.1]
    have h3 : ∀ a, leafMergeLeftAt cap b i al a c = some (b2, al2) → b2.id = b.id := by
      intro a he; unfold leafMergeLeftAt at he
      split at he
      · simp at he
      · split at he
        · simp only [Option.some.injEq, Prod.mk.injEq] at he; rw [← he.1]; rfl
        · simp at he
    have h4 : ∀ r, leafMergeRightAt cap b i al c r = some (b2, al2) → b2.id = b.id := by
      intro r he; unfold leafMergeRightAt at he
      split at he
      · simp at he
      · split at he
        · simp only [Option.some.injEq, Prod.mk.injEq] at he; rw [← he.1]; rfl
        · simp at he
    cases hl : (if i > 0 then b.children[i-1]? else none) with
    | none =>
      cases hr : (if i + 1 < b.children.length then b.children[i+1]? else none) with
      | none =>
        rw [hl, hr, rebalanceLeafWith_none_none] at he
        simp only [Option.some.injEq, Prod.mk.injEq] at he; rw [← he.1]
      | some r =>
        rw [hl, hr, rebalanceLeafWith_none_some] at he
        split at he
        · exact h2 r he
        · exact h4 r he
    | some a =>
      cases hr : (if i + 1 < b.children.length then b.children[i+1]? else none) with
      | none =>
        rw [hl, hr, rebalanceLeafWith_some_none] at he
        split at he
        · exact h1 a he
        · exact h3 a he
      | some r =>
        rw [hl, hr, rebalanceLeafWith_some_some] at he
        split at he
        · exact h1 a he
        · split at he
          · exact h2 r he
          · exact h3 a he

theorem rebalance_bids (cap : Nat) : ∀ (h : Nat) (b : Branch K (Tree K V h)) (i : Nat) (al : Allocs)
    (b2 : Branch K (Tree K V h)) (al2 : Allocs), rebalance cap h b i al = some (b2, al2) →
    Bal (bids (h+1) (b : Tree K V (h+1))) (bids (h+1) (b2 : Tree K V (h+1))) al.branch al2.branch
  | 0, b, i, al, b2, al2, he => by
    have h1 := rebalanceLeaf_id cap b i al b2 al2 he
    have h2 := (rebalanceLeaf_links cap b i al b2 al2 he).2
    rw [bids_one, bids_one, h1, h2]; exact Bal.refl _ _
  | h+1, b, i, al, b2, al2, he => rebalanceBranch_bids cap h b i al b2 al2 he

theorem removeRec_bids (cap : Nat) :
    ∀ (h : Nat) (t : Tree K V h) (k : K) (al : Allocs) (r : RemOut K V h) (al' : Allocs),
      removeRec cap h t k al = some (r, al') → Bal (bids h t) (bids h r.t) al.branch al'.branch := by
  intro h
  induction h with
  | zero =>
    intro t k al r al' he
    unfold removeRec at he
    cases hr : removeLeaf cap (t : Leaf K V) k with
    | none => simp [hr] at he
    | some r0 =>
      simp only [hr, Option.map_some, Option.some.injEq, Prod.mk.injEq] at he
      rw [← he.2]; exact Bal.refl _ _
  | succ h ih =>
    intro t k al r al' he
    unfold removeRec at he
    simp only [] at he
    cases hci : (Branch.children t)[upperBound (Branch.keys t) k]? with
    | none =>
      simp only [hci, Option.some.injEq, Prod.mk.injEq] at he
      rw [← he.1, ← he.2]; exact Bal.refl _ _
    | some c =>
      simp only [hci] at he
      cases hrec : removeRec cap h c k al with
      | none => simp [hrec] at he
      | some p =>
        obtain ⟨rc, al1⟩ := p
        have hl := ih c k al rc al1 hrec
        simp only [hrec] at he
        have hsplit := flatMap_split (bids h) (Branch.children t) _ c hci
        have hctx := (hl.ctx ((Branch.id t) :: ((Branch.children t).take (upperBound (Branch.keys t) k)).flatMap (bids h))
          (((Branch.children t).drop (upperBound (Branch.keys t) k + 1)).flatMap (bids h)))
        have e0 : Branch.id t :: List.flatMap (bids h) (List.take (upperBound (Branch.keys t) k) (Branch.children t)) ++ bids h c ++
            List.flatMap (bids h) (List.drop (upperBound (Branch.keys t) k + 1) (Branch.children t)) = bids (h+1) t := by
          rw [bids_succ, hsplit]; simp
        have e1 : Branch.id t :: List.flatMap (bids h) (List.take (upperBound (Branch.keys t) k) (Branch.children t)) ++ bids h rc.t ++
            List.flatMap (bids h) (List.drop (upperBound (Branch.keys t) k + 1) (Branch.children t)) =
            bids (h+1) (({ (t : Branch K (Tree K V h)) with children := setAt (Branch.children t) (upperBound (Branch.keys t) k) rc.t } : Branch K (Tree K V h)) : Tree K V (h+1)) := by
          rw [bids_succ]
          show _ = Branch.id t :: (setAt (Branch.children t) _ rc.t).flatMap (bids h)
          rw [flatMap_setAt]; simp
        rw [e0, e1] at hctx
        split at he
        · split at he
          · simp at he
          · rename_i b2 al2 hreb
            simp only [Option.some.injEq, Prod.mk.injEq] at he
            rw [← he.1, ← he.2]
            exact hctx.trans (rebalance_bids cap h _ _ al1 b2 al2 hreb)
        · simp only [Option.some.injEq, Prod.mk.injEq] at he
          rw [← he.1, ← he.2]
          exact hctx

end BPT.Rust
