import BPT.Rust.IdsFacts
import BPT.Rust.RemoveLinks
import BPT.Rust.Bridge
/-
  Arena growth under churn: an arena's storage only grows when its free list is
  empty, so the number of slots never exceeds the largest number of nodes that were
  live at the same time since construction (or the last `clear`).
-/
namespace BPT.Rust
open BPT Tree
variable {K V : Type} [Keyed K]

/-- what a sequence of `allocate` calls does to an allocator -/
def AllocGrow (a a' : Alloc) : Prop :=
  a.len ≤ a'.len ∧ (a.len < a'.len → a'.free = []) ∧ (a.free = [] → a'.free = [])

theorem AllocGrow.refl (a : Alloc) : AllocGrow a a := ⟨Nat.le_refl _, fun h => absurd h (Nat.lt_irrefl _), id⟩

theorem AllocGrow.alloc (a : Alloc) : AllocGrow a a.alloc.2 := by
  unfold Alloc.alloc
  cases hf : a.free with
  | nil => exact ⟨by simp, fun _ => rfl, fun _ => rfl⟩
  | cons i rest => exact ⟨by simp, fun h => by simp at h, fun h => by rw [hf] at h; cases h⟩

theorem AllocGrow.trans {a b c : Alloc} (h1 : AllocGrow a b) (h2 : AllocGrow b c) : AllocGrow a c := by
  refine ⟨Nat.le_trans h1.1 h2.1, ?_, fun h => h2.2.2 (h1.2.2 h)⟩
  intro hlt
  by_cases hbc : b.len < c.len
  · exact h2.2.1 hbc
  · have : a.len < b.len := by have := h2.1; omega
    exact h2.2.2 (h1.2.1 this)

/-- insert only allocates -/
theorem insertRec_grow (cap : Nat) :
    ∀ (h : Nat) (t : Tree K V h) (k : K) (v : V) (al : Allocs) (res : InsRes K V h) (al' : Allocs),
      insertRec cap h t k v al = some (res, al') → AllocGrow al.leaf al'.leaf ∧ AllocGrow al.branch al'.branch := by
  intro h
  induction h with
  | zero =>
    intro t k v al res al' he
    have h1 := insertLeaf_links cap (t : Leaf K V) k v al res al' he
    rw [h1.2]
    refine ⟨?_, AllocGrow.refl _⟩
    cases h1.1 with
    | same _ h2 => rw [h2]; exact AllocGrow.refl _
    | split _ _ _ _ _ _ h3 => rw [h3]; exact AllocGrow.alloc _
  | succ h ih =>
    intro t k v al res al' he
    unfold insertRec at he
    simp only [] at he
    cases hci : (Branch.children t)[upperBound (Branch.keys t) k]? with
    | none =>
      simp only [hci, Option.some.injEq, Prod.mk.injEq] at he
      rw [← he.2]; exact ⟨AllocGrow.refl _, AllocGrow.refl _⟩
    | some c =>
      simp only [hci] at he
      cases hrec : insertRec cap h c k v al with
      | none => rw [hrec] at he; simp at he
      | some p =>
        obtain ⟨cres, al1⟩ := p
        have hg := ih c k v al cres al1 hrec
        rw [hrec] at he
        cases cres with
        | updated c' old =>
          simp only [Option.some.injEq, Prod.mk.injEq] at he
          rw [← he.2]; exact hg
        | split l r sep old =>
          simp only [] at he
          split at he
          · split at he
            · simp at he
            · simp only [Option.some.injEq, Prod.mk.injEq] at he
              rw [← he.2]
              exact ⟨hg.1, hg.2.trans (AllocGrow.alloc _)⟩
          · simp only [Option.some.injEq, Prod.mk.injEq] at he
            rw [← he.2]; exact hg

theorem insert_grow (s s' : RState K V) (k : K) (v : V) (old : Option V) (he : insert s k v = some (s', old)) :
    AllocGrow s.al.leaf s'.al.leaf ∧ AllocGrow s.al.branch s'.al.branch := by
  unfold insert at he
  cases hrec : insertRec s.cap s.height s.root k v s.al with
  | none => simp [hrec] at he
  | some p =>
    obtain ⟨res, al'⟩ := p
    have hg := insertRec_grow s.cap s.height s.root k v s.al res al' hrec
    rw [hrec] at he
    cases res with
    | updated t o =>
      simp only [Option.some.injEq, Prod.mk.injEq] at he
      rw [← he.1]; exact hg
    | split l r sep o =>
      simp only [Option.some.injEq, Prod.mk.injEq] at he
      rw [← he.1]
      exact ⟨hg.1, hg.2.trans (AllocGrow.alloc _)⟩

/-- number of live leaves / branches of a state -/
def liveLeaves (s : RState K V) : Nat := (leaves s.height s.root).length
def liveBranches (s : RState K V) : Nat := (bids s.height s.root).length

theorem live_plus_free (s : RState K V) (hs : SInv s) :
    liveLeaves s + s.al.leaf.free.length = s.al.leaf.len ∧ liveBranches s + s.al.branch.free.length = s.al.branch.len := by
  have h1 := hs.leafIds.facts.1
  have h2 := hs.branchIds.facts.1
  rw [leafIds_eq_leaves] at h1
  simp only [List.length_map] at h1
  exact ⟨h1, h2⟩

/-- **an insert never makes an arena larger than the number of nodes live after it, unless it did not grow at all** -/
theorem insert_len_le (s s' : RState K V) (k : K) (v : V) (old : Option V) (hs : SInv s)
    (he : insert s k v = some (s', old)) :
    s'.al.leaf.len ≤ max s.al.leaf.len (liveLeaves s') ∧ s'.al.branch.len ≤ max s.al.branch.len (liveBranches s') := by
  have hs' := insert_sinv s k v hs s' old he
  obtain ⟨g1, g2⟩ := insert_grow s s' k v old he
  obtain ⟨l1, l2⟩ := live_plus_free s' hs'
  constructor
  · by_cases h : s.al.leaf.len < s'.al.leaf.len
    · have := g1.2.1 h
      rw [this] at l1; simp at l1; omega
    · have := g1.1; omega
  · by_cases h : s.al.branch.len < s'.al.branch.len
    · have := g2.2.1 h
      rw [this] at l2; simp at l2; omega
    · have := g2.1; omega

end BPT.Rust

namespace BPT.Rust
open BPT Tree
variable {K V : Type} [Keyed K]

def sameLens (al al' : Allocs) : Prop := al'.leaf.len = al.leaf.len ∧ al'.branch.len = al.branch.len

theorem sameLens.refl (al : Allocs) : sameLens al al := ⟨rfl, rfl⟩
theorem sameLens.trans {a b c : Allocs} (h1 : sameLens a b) (h2 : sameLens b c) : sameLens a c :=
  ⟨h2.1.trans h1.1, h2.2.trans h1.2⟩

theorem leafBorrowLeftAt_lens (b : Branch K (Leaf K V)) (i : Nat) (al : Allocs) (a c : Leaf K V) (b2 : Branch K (Leaf K V)) (al2 : Allocs)
    (he : leafBorrowLeftAt b i al a c = some (b2, al2)) : sameLens al al2 := by
  unfold leafBorrowLeftAt at he
  split at he
  · cases he
  · split at he
    · simp only [Option.some.injEq, Prod.mk.injEq] at he; rw [← he.2]; exact sameLens.refl _
    · cases he

theorem leafBorrowRightAt_lens (b : Branch K (Leaf K V)) (i : Nat) (al : Allocs) (c r : Leaf K V) (b2 : Branch K (Leaf K V)) (al2 : Allocs)
    (he : leafBorrowRightAt b i al c r = some (b2, al2)) : sameLens al al2 := by
  unfold leafBorrowRightAt at he
  split at he
  · cases he
  · split at he
    · simp only [Option.some.injEq, Prod.mk.injEq] at he; rw [← he.2]; exact sameLens.refl _
    · cases he
  · simp only [Option.some.injEq, Prod.mk.injEq] at he; rw [← he.2]; exact sameLens.refl _

theorem leafMergeLeftAt_lens (cap : Nat) (b : Branch K (Leaf K V)) (i : Nat) (al : Allocs) (a c : Leaf K V) (b2 : Branch K (Leaf K V)) (al2 : Allocs)
    (he : leafMergeLeftAt cap b i al a c = some (b2, al2)) : sameLens al al2 := by
  unfold leafMergeLeftAt at he
  split at he
  · cases he
  · split at he
    · simp only [Option.some.injEq, Prod.mk.injEq] at he; rw [← he.2]; exact ⟨rfl, rfl⟩
    · cases he

theorem leafMergeRightAt_lens (cap : Nat) (b : Branch K (Leaf K V)) (i : Nat) (al : Allocs) (c r : Leaf K V) (b2 : Branch K (Leaf K V)) (al2 : Allocs)
    (he : leafMergeRightAt cap b i al c r = some (b2, al2)) : sameLens al al2 := by
  unfold leafMergeRightAt at he
  split at he
  · cases he
  · split at he
    · simp only [Option.some.injEq, Prod.mk.injEq] at he; rw [← he.2]; exact ⟨rfl, rfl⟩
    · cases he

theorem rebalanceLeafWith_lens (cap : Nat) (b : Branch K (Leaf K V)) (i : Nat) (al : Allocs) (c : Leaf K V)
    (left right : Option (Leaf K V)) (b2 : Branch K (Leaf K V)) (al2 : Allocs)
    (he : rebalanceLeafWith cap b i al c left right = some (b2, al2)) : sameLens al al2 := by
  cases left with
  | some a =>
    cases right with
    | some r =>
      rw [rebalanceLeafWith_some_some] at he
      by_cases h1 : canDonate cap a.keys.length = true
      · rw [if_pos h1] at he; exact leafBorrowLeftAt_lens b i al a c b2 al2 he
      · rw [if_neg h1] at he
        by_cases h2 : canDonate cap r.keys.length = true
        · rw [if_pos h2] at he; exact leafBorrowRightAt_lens b i al c r b2 al2 he
        · rw [if_neg h2] at he; exact leafMergeLeftAt_lens cap b i al a c b2 al2 he
    | none =>
      rw [rebalanceLeafWith_some_none] at he
      by_cases h1 : canDonate cap a.keys.length = true
      · rw [if_pos h1] at he; exact leafBorrowLeftAt_lens b i al a c b2 al2 he
      · rw [if_neg h1] at he; exact leafMergeLeftAt_lens cap b i al a c b2 al2 he
  | none =>
    cases right with
    | some r =>
      rw [rebalanceLeafWith_none_some] at he
      by_cases h2 : canDonate cap r.keys.length = true
      · rw [if_pos h2] at he; exact leafBorrowRightAt_lens b i al c r b2 al2 he
      · rw [if_neg h2] at he; exact leafMergeRightAt_lens cap b i al c r b2 al2 he
    | none =>
      rw [rebalanceLeafWith_none_none] at he
      simp only [Option.some.injEq, Prod.mk.injEq] at he; rw [← he.2]; exact sameLens.refl _

theorem rebalanceLeaf_lens (cap : Nat) (b : Branch K (Leaf K V)) (i : Nat) (al : Allocs) (b2 : Branch K (Leaf K V)) (al2 : Allocs)
    (he : rebalanceLeaf cap b i al = some (b2, al2)) : sameLens al al2 := by
  unfold rebalanceLeaf at he
  cases hci : b.children[i]? with
  | none => rw [hci] at he; cases he
  | some c => rw [hci] at he; exact rebalanceLeafWith_lens cap b i al c _ _ b2 al2 he

theorem branchBorrowLeftAt_lens {α : Type} (b : Branch K (Branch K α)) (i : Nat) (al : Allocs) (a c : Branch K α) (b2 : Branch K (Branch K α)) (al2 : Allocs)
    (he : branchBorrowLeftAt b i al a c = some (b2, al2)) : sameLens al al2 := by
  unfold branchBorrowLeftAt at he
  cases hk : b.keys[i-1]? with
  | none => rw [hk] at he; cases he
  | some sep =>
    rw [hk] at he
    simp only [] at he
    cases hb : branchBorrowLeft a c sep with
    | none => rw [hb] at he; cases he
    | some q => rw [hb] at he; simp only [Option.some.injEq, Prod.mk.injEq] at he; rw [← he.2]; exact sameLens.refl _

theorem branchBorrowRightAt_lens {α : Type} (b : Branch K (Branch K α)) (i : Nat) (al : Allocs) (c r : Branch K α) (b2 : Branch K (Branch K α)) (al2 : Allocs)
    (he : branchBorrowRightAt b i al c r = some (b2, al2)) : sameLens al al2 := by
  unfold branchBorrowRightAt at he
  cases hk : b.keys[i]? with
  | none => rw [hk] at he; cases he
  | some sep =>
    rw [hk] at he
    simp only [] at he
    cases hb : branchBorrowRight c r sep with
    | none => rw [hb] at he; cases he
    | some q => rw [hb] at he; simp only [Option.some.injEq, Prod.mk.injEq] at he; rw [← he.2]; exact sameLens.refl _

theorem branchMergeLeftAt_lens (cap : Nat) {α : Type} (b : Branch K (Branch K α)) (i : Nat) (al : Allocs) (a c : Branch K α) (b2 : Branch K (Branch K α)) (al2 : Allocs)
    (he : branchMergeLeftAt cap b i al a c = some (b2, al2)) : sameLens al al2 := by
  unfold branchMergeLeftAt at he
  cases hk : b.keys[i-1]? with
  | none => rw [hk] at he; cases he
  | some sep =>
    rw [hk] at he
    simp only [] at he
    cases hb : branchMergeNodes cap a c sep with
    | none => rw [hb] at he; cases he
    | some q => rw [hb] at he; simp only [Option.some.injEq, Prod.mk.injEq] at he; rw [← he.2]; exact ⟨rfl, rfl⟩

theorem branchMergeRightAt_lens (cap : Nat) {α : Type} (b : Branch K (Branch K α)) (i : Nat) (al : Allocs) (c r : Branch K α) (b2 : Branch K (Branch K α)) (al2 : Allocs)
    (he : branchMergeRightAt cap b i al c r = some (b2, al2)) : sameLens al al2 := by
  unfold branchMergeRightAt at he
  cases hk : b.keys[i]? with
  | none => rw [hk] at he; cases he
  | some sep =>
    rw [hk] at he
    simp only [] at he
    cases hb : branchMergeNodes cap c r sep with
    | none => rw [hb] at he; cases he
    | some q => rw [hb] at he; simp only [Option.some.injEq, Prod.mk.injEq] at he; rw [← he.2]; exact ⟨rfl, rfl⟩

theorem rebalanceBranchWith_lens (cap : Nat) {α : Type} (b : Branch K (Branch K α)) (i : Nat) (al : Allocs) (c : Branch K α)
    (left right : Option (Branch K α)) (b2 : Branch K (Branch K α)) (al2 : Allocs)
    (he : rebalanceBranchWith cap b i al c left right = some (b2, al2)) : sameLens al al2 := by
  cases left with
  | some a =>
    cases right with
    | some r =>
      rw [rebalanceBranchWith_some_some] at he
      by_cases h1 : canDonate cap a.keys.length = true
      · rw [if_pos h1] at he; exact branchBorrowLeftAt_lens b i al a c b2 al2 he
      · rw [if_neg h1] at he
        by_cases h2 : canDonate cap r.keys.length = true
        · rw [if_pos h2] at he; exact branchBorrowRightAt_lens b i al c r b2 al2 he
        · rw [if_neg h2] at he; exact branchMergeLeftAt_lens cap b i al a c b2 al2 he
    | none =>
      rw [rebalanceBranchWith_some_none] at he
      by_cases h1 : canDonate cap a.keys.length = true
      · rw [if_pos h1] at he; exact branchBorrowLeftAt_lens b i al a c b2 al2 he
      · rw [if_neg h1] at he; exact branchMergeLeftAt_lens cap b i al a c b2 al2 he
  | none =>
    cases right with
    | some r =>
      rw [rebalanceBranchWith_none_some] at he
      by_cases h2 : canDonate cap r.keys.length = true
      · rw [if_pos h2] at he; exact branchBorrowRightAt_lens b i al c r b2 al2 he
      · rw [if_neg h2] at he; exact branchMergeRightAt_lens cap b i al c r b2 al2 he
    | none =>
      rw [rebalanceBranchWith_none_none] at he
      simp only [Option.some.injEq, Prod.mk.injEq] at he; rw [← he.2]; exact sameLens.refl _

theorem rebalanceBranch_lens (cap : Nat) {α : Type} (b : Branch K (Branch K α)) (i : Nat) (al : Allocs) (b2 : Branch K (Branch K α)) (al2 : Allocs)
    (he : rebalanceBranch cap b i al = some (b2, al2)) : sameLens al al2 := by
  unfold rebalanceBranch at he
  cases hci : b.children[i]? with
  | none => rw [hci] at he; cases he
  | some c =>
    rw [hci] at he
    simp only [] at he
    have he' := Rust.ite_none_eq_some he
    exact rebalanceBranchWith_lens cap b i al c _ _ b2 al2 he'

theorem rebalance_lens (cap : Nat) : ∀ (h : Nat) (b : Branch K (Tree K V h)) (i : Nat) (al : Allocs) (b2 : Branch K (Tree K V h)) (al2 : Allocs),
    rebalance cap h b i al = some (b2, al2) → sameLens al al2
  | 0, b, i, al, b2, al2, he => rebalanceLeaf_lens cap b i al b2 al2 he
  | _+1, b, i, al, b2, al2, he => rebalanceBranch_lens cap b i al b2 al2 he

/-- remove only releases slots: no arena grows -/
theorem removeRec_lens (cap : Nat) : ∀ (h : Nat) (t : Tree K V h) (k : K) (al : Allocs) (r : RemOut K V h) (al' : Allocs),
    removeRec cap h t k al = some (r, al') → sameLens al al' := by
  intro h
  induction h with
  | zero =>
    intro t k al r al' he
    unfold removeRec at he
    cases hr : removeLeaf cap (t : Leaf K V) k with
    | none => rw [hr] at he; simp at he
    | some r0 =>
      rw [hr] at he
      simp only [Option.map_some, Option.some.injEq, Prod.mk.injEq] at he
      rw [← he.2]; exact sameLens.refl _
  | succ h ih =>
    intro t k al r al' he
    unfold removeRec at he
    simp only [] at he
    cases hci : (Branch.children t)[upperBound (Branch.keys t) k]? with
    | none =>
      simp only [hci, Option.some.injEq, Prod.mk.injEq] at he
      rw [← he.2]; exact sameLens.refl _
    | some c =>
      simp only [hci] at he
      cases hrec : removeRec cap h c k al with
      | none => rw [hrec] at he; simp at he
      | some p =>
        obtain ⟨r1, al1⟩ := p
        have h1 := ih c k al r1 al1 hrec
        rw [hrec] at he
        simp only [] at he
        split at he
        · cases hreb : rebalance cap h { (t : Branch K (Tree K V h)) with children := setAt (Branch.children t) (upperBound (Branch.keys t) k) r1.t }
              (upperBound (Branch.keys t) k) al1 with
          | none => rw [hreb] at he; simp at he
          | some q =>
            obtain ⟨b2, al2⟩ := q
            rw [hreb] at he
            simp only [Option.some.injEq, Prod.mk.injEq] at he
            rw [← he.2]
            exact h1.trans (rebalance_lens cap h _ _ al1 b2 al2 hreb)
        · simp only [Option.some.injEq, Prod.mk.injEq] at he
          rw [← he.2]; exact h1

theorem collapse_lens : ∀ (h : Nat) (t : Tree K V h) (al : Allocs) (lo hi : Option Int), Ordered h t lo hi →
    sameLens al (collapse h t al).2
  | 0, t, al, _, _, _ => sameLens.refl _
  | h+1, t, al, lo, hi, ho => by
    obtain ⟨hks, hlen, hkb, hc⟩ := ho
    cases hch : (Branch.children t) with
    | nil => rw [hch] at hlen; simp at hlen
    | cons c rest =>
      cases rest with
      | nil =>
        have e : collapse (h+1) t al = collapse h c { al with branch := al.branch.dealloc (Branch.id t) } := by
          simp [collapse, hch]
        rw [e]
        have hco := hc 0 c (by rw [hch]; rfl)
        have := collapse_lens h c { al with branch := al.branch.dealloc (Branch.id t) } _ _ hco
        exact ⟨this.1, this.2⟩
      | cons c2 rest2 =>
        have e : collapse (h+1) t al = (⟨h+1, t⟩, al) := by simp [collapse, hch]
        rw [e]; exact sameLens.refl _

theorem remove_lens (s s' : RState K V) (k : K) (old : Option V) (hs : SInv s) (he : remove s k = some (s', old)) :
    sameLens s.al s'.al := by
  obtain ⟨hcap, ho, hsz⟩ := hs.inv
  obtain ⟨r0, al0, he0, hp⟩ := removeRec_spec s.cap hcap s.height s.root none none k s.al (rootMin s.height) ho hsz
    (by unfold rootMin; by_cases h : s.height = 0 <;> simp [h])
  have h1 := removeRec_lens s.cap s.height s.root k s.al r0 al0 he0
  unfold remove at he
  rw [he0] at he
  simp only [] at he
  by_cases hsome : r0.old.isSome = true
  · rw [if_pos hsome] at he
    simp only [Option.some.injEq, Prod.mk.injEq] at he
    rw [← he.1]
    exact h1.trans (collapse_lens s.height r0.t al0 none none hp.ord)
  · rw [if_neg hsome] at he
    simp only [Option.some.injEq, Prod.mk.injEq] at he
    rw [← he.1]; exact h1

end BPT.Rust
