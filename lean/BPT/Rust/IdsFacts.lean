import BPT.Rust.SInv
/- Consequences of `IdsOK`: counts, distinctness, bounds. -/
namespace BPT.Rust
open BPT

theorem length_of_count_char (n : Nat) : ∀ (L : List Nat), (∀ i, L.count i = if i < n then 1 else 0) → L.length = n := by
  induction n with
  | zero =>
    intro L h
    cases L with
    | nil => rfl
    | cons x xs => have := h x; simp at this
  | succ n ih =>
    intro L h
    have hn : L.count n = 1 := by have := h n; simpa using this
    have hmem : n ∈ L := List.count_pos_iff.1 (by omega)
    have := ih (L.erase n) (by
      intro i
      by_cases hi : i = n
      · subst hi; rw [List.count_erase_self, hn]; simp
      · rw [List.count_erase_of_ne hi, h i]
        by_cases h1 : i < n
        · have : i < n + 1 := by omega
          simp [h1, this]
        · have : ¬ i < n + 1 := by omega
          simp [h1, this])
    rw [List.length_erase_of_mem hmem] at this
    have : 0 < L.length := List.length_pos_of_mem hmem
    omega

theorem IdsOK.facts {ids : List Nat} {a : Alloc} (h : IdsOK ids a) :
    ids.length + a.free.length = a.len ∧ (ids ++ a.free).Nodup ∧ (∀ x ∈ ids ++ a.free, x < a.len) ∧
    (∀ x ∈ ids, x ∉ a.free) := by
  have hc : ∀ i, (ids ++ a.free).count i = if i < a.len then 1 else 0 := by
    intro i; rw [List.count_append]; exact h i
  refine ⟨?_, ?_, ?_, ?_⟩
  · have := length_of_count_char a.len (ids ++ a.free) hc
    simpa using this
  · rw [List.nodup_iff_count]
    intro x; rw [hc x]; split <;> omega
  · intro x hx
    have := hc x
    have hp : 0 < (ids ++ a.free).count x := List.count_pos_iff.2 hx
    by_cases hl : x < a.len
    · exact hl
    · rw [if_neg hl] at this; omega
  · intro x hx hf
    have := h x
    have h1 : 0 < ids.count x := List.count_pos_iff.2 hx
    have h2 : 0 < a.free.count x := List.count_pos_iff.2 hf
    split at this <;> omega

end BPT.Rust
