import BPT.Rust.Ids
/-
  The full structural invariant of a Rust map state and its preservation by
  every mutator: order + occupancy (`Inv`), the leaf chain, and the id
  bookkeeping of both arenas.
-/
namespace BPT.Rust
open BPT Tree
variable {K V : Type} [Keyed K]

structure SInv (s : RState K V) : Prop where
  inv : Inv s
  chain : ChainL (links s.height s.root) nullId
  leafIds : IdsOK (leafIdsOf (links s.height s.root)) s.al.leaf
  branchIds : IdsOK (bids s.height s.root) s.al.branch

theorem sinv_fresh (cap : Nat) (hcap : 4 ≤ cap) : SInv (freshState cap : RState K V) := by
  refine ⟨(inv_fresh cap hcap).1, ?_, ?_, ?_⟩
  · show ChainL [(0, nullId)] nullId
    exact ⟨rfl, trivial⟩
  · exact idsOK_fresh_leaf
  · exact idsOK_fresh_branch

theorem insert_sinv (s : RState K V) (k : K) (v : V) (hs : SInv s) (s' : RState K V) (old : Option V)
    (he : insert s k v = some (s', old)) : SInv s' := by
  obtain ⟨s1, old1, he1, hinv, _⟩ := insert_spec s k v hs.inv
  rw [he] at he1
  simp only [Option.some.injEq, Prod.mk.injEq] at he1
  obtain ⟨rfl, rfl⟩ := he1
  unfold insert at he
  cases hrec : insertRec s.cap s.height s.root k v s.al with
  | none => simp [hrec] at he
  | some p =>
    obtain ⟨res, al'⟩ := p
    have hl := insertRec_links s.cap s.height s.root k v s.al res al' hrec
    have hb := insertRec_bids s.cap s.height s.root k v s.al res al' hrec
    rw [hrec] at he
    cases res with
    | updated t old' =>
      simp only [Option.some.injEq, Prod.mk.injEq] at he
      obtain ⟨rfl, _⟩ := he
      exact ⟨hinv, (linkIns_chain hl nullId hs.chain).1, hs.leafIds.step (linkIns_bal hl), hs.branchIds.step hb⟩
    | split l r sep old' =>
      simp only [Option.some.injEq, Prod.mk.injEq] at he
      obtain ⟨rfl, _⟩ := he
      have hlinks : links (s.height + 1) (({ id := al'.branch.alloc.1, keys := [sep], children := [l, r] } : Branch K (Tree K V s.height)) : Tree K V (s.height+1)) =
          links s.height l ++ links s.height r := by
        rw [links_succ]; simp
      refine ⟨hinv, ?_, ?_, ?_⟩
      · show ChainL (links (s.height + 1) _) nullId
        rw [hlinks]; exact (linkIns_chain hl nullId hs.chain).1
      · show IdsOK (leafIdsOf (links (s.height + 1) _)) _
        rw [hlinks]; exact hs.leafIds.step (linkIns_bal hl)
      · show IdsOK (bids (s.height + 1) _) al'.branch.alloc.2
        have : bids (s.height + 1) (({ id := al'.branch.alloc.1, keys := [sep], children := [l, r] } : Branch K (Tree K V s.height)) : Tree K V (s.height+1)) =
            al'.branch.alloc.1 :: (bids s.height l ++ bids s.height r) := by
          rw [bids_succ]; simp
        rw [this]
        exact (hs.branchIds.step hb).step (bal_alloc _ _)

/-- root collapse keeps the links and gives the collapsed roots' ids back -/
theorem collapse_struct : ∀ (h : Nat) (t : Tree K V h) (al : Allocs) (lo hi : Option Int), Ordered h t lo hi →
    links (collapse h t al).1.1 (collapse h t al).1.2 = links h t ∧ (collapse h t al).2.leaf = al.leaf ∧
    Bal (bids h t) (bids (collapse h t al).1.1 (collapse h t al).1.2) al.branch (collapse h t al).2.branch
  | 0, t, al, _, _, _ => ⟨rfl, rfl, Bal.refl _ _⟩
  | h+1, t, al, lo, hi, ho => by
    obtain ⟨hks, hlen, hkb, hc⟩ := ho
    cases hch : (Branch.children t) with
    | nil => rw [hch] at hlen; simp at hlen
    | cons c rest =>
      cases rest with
      | nil =>
        have e : collapse (h+1) t al = collapse h c { al with branch := al.branch.dealloc (Branch.id t) } := by
          simp [collapse, hch]
        rw [e]
        have hco := hc 0 c (by rw [hch]; rfl)
        have := collapse_struct h c { al with branch := al.branch.dealloc (Branch.id t) } _ _ hco
        refine ⟨?_, this.2.1, ?_⟩
        · rw [this.1, links_succ, hch]; simp
        · have hb : Bal (bids (h+1) t) (bids h c) al.branch (al.branch.dealloc (Branch.id t)) := by
            apply bal_dealloc
            intro i
            rw [bids_succ, hch]
            simp only [List.flatMap_cons, List.flatMap_nil, List.append_nil, List.count_cons]
            by_cases hi' : i = Branch.id t
            · subst hi'; simp
            · have : (Branch.id t == i) = false := by simp; omega
              simp [hi', this]
          exact hb.trans this.2.2
      | cons c2 rest2 =>
        have e : collapse (h+1) t al = (⟨h+1, t⟩, al) := by simp [collapse, hch]
        rw [e]
        exact ⟨rfl, rfl, Bal.refl _ _⟩

theorem remove_sinv (s : RState K V) (k : K) (hs : SInv s) (s' : RState K V) (old : Option V)
    (he : remove s k = some (s', old)) : SInv s' := by
  obtain ⟨s1, old1, he1, hinv, _⟩ := remove_spec s k hs.inv
  rw [he] at he1
  simp only [Option.some.injEq, Prod.mk.injEq] at he1
  obtain ⟨rfl, rfl⟩ := he1
  obtain ⟨hcap, ho, hsz⟩ := hs.inv
  obtain ⟨r0, al0, he0, hp⟩ := removeRec_spec s.cap hcap s.height s.root none none k s.al (rootMin s.height) ho hsz
    (by unfold rootMin; by_cases h : s.height = 0 <;> simp [h])
  unfold remove at he
  rw [he0] at he
  have hl := removeRec_links s.cap s.height s.root k s.al r0 al0 he0
  have hb := removeRec_bids s.cap s.height s.root k s.al r0 al0 he0
  by_cases hsome : r0.old.isSome = true
  · simp only [hsome, if_true, Option.some.injEq, Prod.mk.injEq] at he
    obtain ⟨rfl, _⟩ := he
    obtain ⟨c1, c2, c3⟩ := collapse_struct s.height r0.t al0 none none hp.ord
    refine ⟨hinv, ?_, ?_, ?_⟩
    · show ChainL (links _ _) nullId
      rw [c1]; exact (linkRem_chain hl nullId hs.chain).1
    · show IdsOK (leafIdsOf (links _ _)) _
      rw [c1, c2]; exact hs.leafIds.step (linkRem_bal hl)
    · exact (hs.branchIds.step hb).step c3
  · simp only [hsome, if_false, Option.some.injEq, Prod.mk.injEq] at he
    obtain ⟨rfl, _⟩ := he
    exact ⟨hinv, (linkRem_chain hl nullId hs.chain).1, hs.leafIds.step (linkRem_bal hl), hs.branchIds.step hb⟩

theorem links_setRec : ∀ (h : Nat) (t : Tree K V h) (k : K) (v : V), links h (setRec h t k v) = links h t ∧ bids h (setRec h t k v) = bids h t := by
  intro h
  induction h with
  | zero =>
    intro t k v
    refine ⟨?_, rfl⟩
    unfold setRec
    simp only []
    split
    · split <;> rfl
    · rfl
  | succ h ih =>
    intro t k v
    unfold setRec
    simp only []
    cases hci : (Branch.children t)[upperBound (Branch.keys t) k]? with
    | none => exact ⟨rfl, rfl⟩
    | some c =>
      simp only []
      constructor
      · rw [links_succ, links_succ]
        show (setAt (Branch.children t) _ _).flatMap (links h) = _
        rw [flatMap_setAt, (ih c k v).1]
        exact (flatMap_split (links h) (Branch.children t) _ c hci).symm
      · rw [bids_succ, bids_succ]
        show Branch.id t :: (setAt (Branch.children t) _ _).flatMap (bids h) = _
        rw [flatMap_setAt, (ih c k v).2]
        rw [← flatMap_split (bids h) (Branch.children t) _ c hci]

theorem getMutWrite_sinv (s : RState K V) (k : K) (v : V) (hs : SInv s) : SInv (getMutWrite s k v).1 := by
  have hinv := (getMutWrite_spec s k v hs.inv).1
  unfold getMutWrite at hinv ⊢
  cases hget : get s k with
  | none => exact hs
  | some p =>
    rw [hget] at hinv
    obtain ⟨e1, e2⟩ := links_setRec s.height s.root k v
    refine ⟨hinv, ?_, ?_, ?_⟩
    · show ChainL (links s.height (setRec s.height s.root k v)) nullId
      rw [e1]; exact hs.chain
    · show IdsOK (leafIdsOf (links s.height (setRec s.height s.root k v))) s.al.leaf
      rw [e1]; exact hs.leafIds
    · show IdsOK (bids s.height (setRec s.height s.root k v)) s.al.branch
      rw [e2]; exact hs.branchIds

end BPT.Rust
