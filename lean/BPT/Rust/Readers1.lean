import BPT.Rust.Bridge
/-
  Raw readers on a map that embeds a typed tree: navigation (`get_first_leaf_id`,
  `find_leaf_for_key*`), `get`, `len`.
-/
namespace BPT.Rust
open BPT Tree
variable {K V : Type} [Keyed K]

/-- the leaf a key is routed to -/
def routeLeaf : (h : Nat) → Tree K V h → K → Option (Leaf K V)
  | 0, (l : Leaf K V), _ => some l
  | h+1, (b : Branch K (Tree K V h)), k =>
    match b.children[upperBound b.keys k]? with
    | some c => routeLeaf h c k
    | none => none

/-- the leftmost leaf -/
def firstLeafOf : (h : Nat) → Tree K V h → Option (Leaf K V)
  | 0, (l : Leaf K V) => some l
  | h+1, (b : Branch K (Tree K V h)) =>
    match b.children with
    | c :: _ => firstLeafOf h c
    | [] => none

theorem ref_zero (l : Leaf K V) : ref 0 (l : Tree K V 0) = .leaf l.id := rfl
theorem ref_succ (h : Nat) (b : Branch K (Tree K V h)) : ref (h+1) (b : Tree K V (h+1)) = .branch b.id := rfl

theorem firstLeafFrom_spec (m : RawMap K V) (cap : Nat) : ∀ (h : Nat) (t : Tree K V h) (f : Nat),
    Embeds m cap h t → h < f → m.firstLeafFrom f (ref h t) = .ok ((firstLeafOf h t).map (·.id)) := by
  intro h
  induction h with
  | zero =>
    intro t f _ hf
    obtain ⟨f', rfl⟩ : ∃ f', f = f' + 1 := ⟨f - 1, by omega⟩
    rfl
  | succ h ih =>
    intro t f he hf
    obtain ⟨f', rfl⟩ : ∃ f', f = f' + 1 := ⟨f - 1, by omega⟩
    rw [ref_succ]
    unfold RawMap.firstLeafFrom
    simp only [he.1, rawOfBranch]
    cases hch : (Branch.children t) with
    | nil => simp [firstLeafOf, hch]
    | cons c rest =>
      simp only [List.map_cons, firstLeafOf, hch]
      exact ih c f' (he.2 c (by rw [hch]; exact List.mem_cons_self)) (by omega)

theorem findLeafFrom_spec (m : RawMap K V) (cap : Nat) : ∀ (h : Nat) (t : Tree K V h) (k : K) (f : Nat),
    Embeds m cap h t → h < f →
    m.findLeafFrom k f (ref h t) = .ok ((routeLeaf h t k).map (fun l =>
      (l.id, lowerBound l.keys k, (match l.keys[lowerBound l.keys k]? with | some k' => decide (ord k' = ord k) | none => false)))) := by
  intro h
  induction h with
  | zero =>
    intro t k f he hf
    obtain ⟨f', rfl⟩ : ∃ f', f = f' + 1 := ⟨f - 1, by omega⟩
    rw [ref_zero]
    unfold RawMap.findLeafFrom
    have he' : m.getLeaf (t : Leaf K V).id = some (leafToRaw cap t) := he
    simp only [he', leafToRaw, routeLeaf, Option.map_some]
    rfl
  | succ h ih =>
    intro t k f he hf
    obtain ⟨f', rfl⟩ : ∃ f', f = f' + 1 := ⟨f - 1, by omega⟩
    rw [ref_succ]
    unfold RawMap.findLeafFrom
    simp only [he.1, rawOfBranch, List.getElem?_map]
    cases hci : (Branch.children t)[upperBound (Branch.keys t) k]? with
    | none => simp [routeLeaf, hci]
    | some c =>
      simp only [Option.map_some, routeLeaf, hci]
      exact ih c k f' (he.2 c (List.mem_of_getElem? hci)) (by omega)

/-- the routed leaf is embedded too -/
theorem routeLeaf_embeds (m : RawMap K V) (cap : Nat) : ∀ (h : Nat) (t : Tree K V h) (k : K) (l : Leaf K V),
    Embeds m cap h t → routeLeaf h t k = some l → m.getLeaf l.id = some (leafToRaw cap l) := by
  intro h
  induction h with
  | zero => intro t k l he hr; simp only [routeLeaf, Option.some.injEq] at hr; subst hr; exact he
  | succ h ih =>
    intro t k l he hr
    simp only [routeLeaf] at hr
    cases hci : (Branch.children t)[upperBound (Branch.keys t) k]? with
    | none => simp [hci] at hr
    | some c => rw [hci] at hr; exact ih c k l (he.2 c (List.mem_of_getElem? hci)) hr

theorem getRec_route : ∀ (h : Nat) (t : Tree K V h) (k : K), getRec h t k =
    (routeLeaf h t k).bind (fun l => match l.keys[lowerBound l.keys k]? with
      | some k' => if ord k' = ord k then (l.vals[lowerBound l.keys k]?).map (fun v => (k', v)) else none
      | none => none) := by
  intro h
  induction h with
  | zero => intro t k; rfl
  | succ h ih =>
    intro t k
    simp only [getRec, routeLeaf]
    cases hci : (Branch.children t)[upperBound (Branch.keys t) k]? with
    | none => rfl
    | some c => exact ih c k

/-- height is bounded by the number of branch slots, so the descent fuel suffices -/
theorem height_le_bids : ∀ (h : Nat) (t : Tree K V h) (lo hi : Option Int), Ordered h t lo hi → h ≤ (bids h t).length := by
  intro h
  induction h with
  | zero => intro _ _ _ _; exact Nat.zero_le _
  | succ h ih =>
    intro t lo hi ho
    obtain ⟨_, hlen, _, hc⟩ := ho
    have h0 : 0 < (Branch.children t).length := by omega
    have hc0 : (Branch.children t)[0]? = some (Branch.children t)[0] := List.getElem?_eq_getElem h0
    generalize (Branch.children t)[0] = c0 at hc0
    have := ih _ _ _ (hc 0 c0 hc0)
    rw [bids_succ]
    have hsub : (bids h c0).length ≤ ((Branch.children t).flatMap (bids h)).length := by
      rw [flatMap_split (bids h) (Branch.children t) 0 c0 hc0]
      simp only [List.length_append]; omega
    simp only [List.length_cons]; omega

theorem fuel_ok (s : RState K V) (hs : SInv s) : s.height < (view s).fuel := by
  have h1 := height_le_bids s.height s.root none none hs.inv.ord
  have h2 := hs.branchIds.facts.1
  unfold RawMap.fuel view viewLeaves viewBranches
  simp only [List.length_map, List.length_range]
  omega

/-- **`get` on the arena view is the typed `get`.** -/
theorem view_get (s : RState K V) (k : K) (hs : SInv s) (hsm : Small s) : (view s).get k = .ok (get s k) := by
  have he := view_embeds s hs hsm
  have hf := fuel_ok s hs
  unfold RawMap.get RawMap.findLeaf
  rw [view_root, findLeafFrom_spec (view s) s.cap s.height s.root k _ he hf]
  unfold get
  rw [getRec_route]
  cases hr : routeLeaf s.height s.root k with
  | none => rfl
  | some l =>
    have hl := routeLeaf_embeds (view s) s.cap s.height s.root k l he hr
    simp only [Option.map_some, Option.bind_some]
    cases hk : l.keys[lowerBound l.keys k]? with
    | none => rfl
    | some k' =>
      by_cases heq : ord k' = ord k
      · simp only [heq, decide_true, hl, leafToRaw, hk, if_true]
        cases hv : l.vals[lowerBound l.keys k]? <;> rfl
      · simp only [heq, decide_false, if_false]

end BPT.Rust
