import BPT.Rust.Iter2
/-
  `FastItemIterator` (items_fast()): on the arena view of a valid state it yields
  exactly the abstraction, like `ItemIterator`.
-/
namespace BPT.Rust
open BPT Tree RawMap
variable {K V : Type} [Keyed K]

/-- fast-iterator state `st` is positioned so that exactly `R` remains, with `n` leaves still ahead -/
inductive FPos (m : RawMap K V) (cap : Nat) : FastState K V → List (K × V) → Nat → Prop where
  | done (st : FastState K V) (n : Nat) : (st.finished = true ∨ st.leaf = none) → FPos m cap st [] n
  | at (st : FastState K V) (l : Leaf K V) (rest : List (Leaf K V)) (nxt n : Nat) :
      st.finished = false → st.leaf = some (leafToRaw cap l) → l.keys.length = l.vals.length → RawChain m cap rest nxt → l.next = nxt →
      st.idx ≤ l.keys.length → rest.length = n →
      FPos m cap st (l.entries.drop st.idx ++ rest.flatMap Leaf.entries) n

/-- one `next()` call of the fast iterator from a positioned state (repaired code: checked leaf lookups) -/
theorem fastNext_pos (m : RawMap K V) (cap : Nat) :
    ∀ (n : Nat) (st : FastState K V) (R : List (K × V)) (fuel : Nat), FPos m cap st R n → n + 1 ≤ fuel →
      ∃ out st', fastNext Cfg.repaired m fuel st = .ok (out, st') ∧
        match R with
        | [] => out = none ∧ FPos m cap st' [] 0
        | kv :: R' => out = some kv ∧ ∃ n', FPos m cap st' R' n' ∧ n' ≤ n := by
  intro n
  induction n with
  | zero =>
    intro st R fuel hp hf
    obtain ⟨f, rfl⟩ : ∃ f, fuel = f + 1 := ⟨fuel - 1, by omega⟩
    rcases hp with ⟨_, hdone⟩ | ⟨l, rest, nxt, _, hfin, hleaf, hl, hch, hnx, hidx, hm⟩
    · rcases hdone with hfin | hnone
      · exact ⟨none, st, by simp [fastNext, hfin], rfl, FPos.done _ _ (Or.inl hfin)⟩
      · by_cases hfin : st.finished = true
        · exact ⟨none, st, by simp [fastNext, hfin], rfl, FPos.done _ _ (Or.inl hfin)⟩
        · exact ⟨none, { st with finished := true }, by simp [fastNext, hfin, hnone], rfl, FPos.done _ _ (Or.inl rfl)⟩
    · have hrest : rest = [] := List.eq_nil_of_length_eq_zero hm
      subst hrest
      by_cases hi : st.idx < l.keys.length
      · have hv : st.idx < l.vals.length := by omega
        have hR : l.entries.drop st.idx ++ ([] : List (Leaf K V)).flatMap Leaf.entries =
            (l.keys[st.idx], l.vals[st.idx]) :: l.entries.drop (st.idx+1) := by
          simp only [List.flatMap_nil, List.append_nil, Leaf.entries]
          exact zip_drop_cons _ _ _ hi hl
        rw [hR]
        refine ⟨some (l.keys[st.idx], l.vals[st.idx]), { st with idx := st.idx + 1 }, ?_, rfl, 0, ?_, Nat.le_refl _⟩
        · unfold fastNext
          simp only [hfin, Bool.false_eq_true, if_false, hleaf, leafToRaw, hi, if_true,
            List.getElem?_eq_getElem hi, List.getElem?_eq_getElem hv]
        · have := FPos.at (m := m) (cap := cap) { st with idx := st.idx + 1 } l [] nxt 0 hfin hleaf hl hch hnx (by show st.idx + 1 ≤ _; omega) rfl
          simpa using this
      · have hnull : l.next = nullId := by cases hch; exact hnx
        have hdrop : l.entries.drop st.idx = [] := by
          apply List.drop_eq_nil_of_le; simp [Leaf.entries]; omega
        refine ⟨none, { st with finished := true }, ?_, ?_⟩
        · unfold fastNext
          simp [hfin, hleaf, leafToRaw, hi, hnull]
        · rw [hdrop]
          exact ⟨rfl, FPos.done _ _ (Or.inl rfl)⟩
  | succ n ih =>
    intro st R fuel hp hf
    obtain ⟨f, rfl⟩ : ∃ f, fuel = f + 1 := ⟨fuel - 1, by omega⟩
    rcases hp with ⟨_, hdone⟩ | ⟨l, rest, nxt, _, hfin, hleaf, hl, hch, hnx, hidx, hm⟩
    · rcases hdone with hfin | hnone
      · exact ⟨none, st, by simp [fastNext, hfin], rfl, FPos.done _ _ (Or.inl hfin)⟩
      · by_cases hfin : st.finished = true
        · exact ⟨none, st, by simp [fastNext, hfin], rfl, FPos.done _ _ (Or.inl hfin)⟩
        · exact ⟨none, { st with finished := true }, by simp [fastNext, hfin, hnone], rfl, FPos.done _ _ (Or.inl rfl)⟩
    · by_cases hi : st.idx < l.keys.length
      · have hv : st.idx < l.vals.length := by omega
        have hR : l.entries.drop st.idx ++ rest.flatMap Leaf.entries =
            (l.keys[st.idx], l.vals[st.idx]) :: (l.entries.drop (st.idx+1) ++ rest.flatMap Leaf.entries) := by
          simp only [Leaf.entries]
          rw [zip_drop_cons _ _ _ hi hl]; rfl
        rw [hR]
        refine ⟨some (l.keys[st.idx], l.vals[st.idx]), { st with idx := st.idx + 1 }, ?_, rfl, n+1, ?_, Nat.le_refl _⟩
        · unfold fastNext
          simp only [hfin, Bool.false_eq_true, if_false, hleaf, leafToRaw, hi, if_true,
            List.getElem?_eq_getElem hi, List.getElem?_eq_getElem hv]
        · exact FPos.at (m := m) (cap := cap) { st with idx := st.idx + 1 } l rest nxt (n+1) hfin hleaf hl hch hnx (by show st.idx + 1 ≤ _; omega) hm
      · -- end of this leaf: follow `next` through the checked lookup
        have hdrop : l.entries.drop st.idx = [] := by
          apply List.drop_eq_nil_of_le; simp [Leaf.entries]; omega
        cases hch with
        | nil => simp at hm
        | cons l' rest' nxt2 hget hl' hne hnx2 hrest =>
          have hstep : fastNext Cfg.repaired m (f+1) st = fastNext Cfg.repaired m f { st with leaf := some (leafToRaw cap l'), idx := 0 } := by
            conv => lhs; unfold fastNext
            simp only [hfin, Bool.false_eq_true, if_false, hleaf, leafToRaw, hi, hnx, ne_eq, hne, not_false_eq_true, if_true, Cfg.repaired]
            simp only [leafToRaw] at hget
            rw [hget]
          have hlen : rest'.length = n := by simpa using hm
          have hp' := FPos.at (m := m) (cap := cap) { st with leaf := some (leafToRaw cap l'), idx := 0 } l' rest' nxt2 n hfin rfl hl' hrest hnx2 (Nat.zero_le _) hlen
          obtain ⟨out, st', he, hres⟩ := ih _ _ f hp' (by omega)
          refine ⟨out, st', by rw [hstep, he], ?_⟩
          simp only [hdrop, List.nil_append, List.flatMap_cons, List.drop_zero] at hres ⊢
          cases hR : l'.entries ++ rest'.flatMap Leaf.entries with
          | nil => rw [hR] at hres; exact hres
          | cons kv R' =>
            rw [hR] at hres
            obtain ⟨h1, n', h2, h3⟩ := hres
            exact ⟨h1, n', h2, by omega⟩

theorem fastDrain_pos (m : RawMap K V) (cap : Nat) (fuel : Nat) :
    ∀ (N : Nat) (st : FastState K V) (R : List (K × V)) (n : Nat), FPos m cap st R n → n + 1 ≤ fuel → R.length < N →
      drain (fastNext Cfg.repaired m fuel) N st = .ok R := by
  intro N
  induction N with
  | zero => intro st R n _ _ hN; omega
  | succ N ih =>
    intro st R n hp hf hN
    obtain ⟨out, st', he, hres⟩ := fastNext_pos m cap n st R fuel hp hf
    unfold drain
    rw [he]
    cases R with
    | nil =>
      simp only [] at hres
      rw [hres.1]
    | cons kv R' =>
      simp only [] at hres
      obtain ⟨h1, n', h2, h3⟩ := hres
      rw [h1]
      simp only [List.length_cons] at hN
      have := ih st' R' n' h2 (by omega) (by omega)
      simp only [this, Res.map_ok]

/-- **`items_fast()` on the arena view yields exactly the abstraction** -/
theorem view_itemsFast (s : RState K V) (hs : SInv s) (hsm : Small s) : (view s).itemsFast Cfg.repaired = .ok (abs s) := by
  have he := view_embeds s hs hsm
  have hf := fuel_ok s hs
  have hch := view_chain s hs hsm
  have hfl := firstLeafOf_head s.height s.root none none hs.inv.ord
  unfold RawMap.itemsFast RawMap.fastStart RawMap.firstLeaf
  rw [view_root, firstLeafFrom_spec (view s) s.cap s.height s.root _ he hf, hfl]
  cases hL : Tree.leaves s.height s.root with
  | nil =>
    exfalso
    have := links_ne_nil s.height s.root none none hs.inv.ord
    unfold links at this; rw [hL] at this; exact this rfl
  | cons l0 rest =>
    simp only [List.head?_cons, Option.map_some, Res.bind_ok, Cfg.repaired, if_true]
    rw [hL] at hch
    have hch0 := hch
    obtain ⟨hget, hl0, _, hrest⟩ := RawChain.inv_cons hch
    rw [hget]
    have hleaves_le : rest.length + 1 ≤ (view s).fuel := by
      have fl := hs.leafIds.facts.1
      rw [leafIds_eq_leaves, hL] at fl
      simp only [List.map_cons, List.length_cons, List.length_map] at fl
      unfold RawMap.fuel view viewLeaves
      simp only [List.length_map, List.length_range]
      omega
    have hpos : FPos (view s) s.cap ({ leaf := some (leafToRaw s.cap l0), idx := 0, finished := false } : FastState K V)
        (l0.entries.drop 0 ++ rest.flatMap Leaf.entries) rest.length :=
      FPos.at _ l0 rest l0.next rest.length rfl rfl hl0 hrest rfl (Nat.zero_le _) rfl
    have habs : abs s = l0.entries.drop 0 ++ rest.flatMap Leaf.entries := by
      simp only [abs, toList, hL, List.flatMap_cons, List.drop_zero]
    rw [habs]
    exact fastDrain_pos (view s) s.cap (view s).fuel (view s).itemBound _ _ rest.length hpos hleaves_le (by
      rw [← habs]; exact itemBound_ok s hs hsm)

end BPT.Rust
