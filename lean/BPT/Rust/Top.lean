import BPT.Rust.Remove4
/-
  Map-level theorems: the invariant `Inv` (order + occupancy), `new`, `insert`,
  `remove` (with root collapse), `get`, `get_mut` write, `len`, `clear` against
  the sorted-association-list specification `SMap`.
-/
namespace BPT.Rust
open BPT Tree
variable {K V : Type} [Keyed K]

/-- abstraction: the in-order entry list -/
def abs (s : RState K V) : List (K × V) := toList s.height s.root

/-- minimum number of keys the root node must hold -/
def rootMin (h : Nat) : Nat := if h = 0 then 0 else 1

structure Inv (s : RState K V) : Prop where
  cap4 : 4 ≤ s.cap
  ord : Ordered s.height s.root none none
  sz : Sized s.cap s.height s.root (rootMin s.height)

theorem inB_none (x : Int) : InB none none x := by
  unfold InB
  constructor <;> intro _ h <;> cases h

/-! ### what insert returns -/

def InsRes.old {h : Nat} : InsRes K V h → Option V
  | .updated _ o => o
  | .split _ _ _ o => o

theorem insertLeaf_old (cap : Nat) (l : Leaf K V) (lo hi : Option Int) (k : K) (v : V) (al : Allocs)
    (ho : Ordered 0 (l : Tree K V 0) lo hi) (res : InsRes K V 0) (al' : Allocs)
    (he : insertLeaf cap l k v al = some (res, al')) :
    res.old = (SMap.lookup l.entries k).map (·.2) := by
  obtain ⟨hs, hl, hb⟩ := ho
  have hlook := SMap.lookup_zip l.keys l.vals k hs hl
  unfold insertLeaf at he
  simp only [] at he
  have absent : ∀ i, insertLeafAbsent cap l k v al i = some (res, al') → res.old = none := by
    intro i he
    unfold insertLeafAbsent at he
    by_cases h1 : ¬ isFull cap l.keys.length = true
    · rw [if_pos h1] at he
      simp only [Option.some.injEq, Prod.mk.injEq] at he
      rw [← he.1]; rfl
    · rw [if_neg h1] at he
      by_cases h2 : l.keys.length < minKeys cap
      · simp [h2] at he
      · simp only [h2, if_false] at he
        unfold splitLeafAt at he
        simp only [] at he
        by_cases hg : goesLeft i (leafSplitMid cap l.keys.length) = true
        · simp only [hg, if_true] at he
          split at he
          · simp at he
          · simp only [Option.some.injEq, Prod.mk.injEq] at he; rw [← he.1]; rfl
        · simp only [hg, if_false] at he
          split at he
          · simp at he
          · simp only [Option.some.injEq, Prod.mk.injEq] at he; rw [← he.1]; rfl
  cases hk' : l.keys[lowerBound l.keys k]? with
  | none =>
    rw [hk'] at he hlook
    simp only [Bool.false_eq_true, if_false] at he
    rw [absent _ he]; simp only [Leaf.entries]; rw [hlook]; rfl
  | some k' =>
    rw [hk'] at he hlook
    have hlt : lowerBound l.keys k < l.keys.length := lt_of_getElem?_eq_some hk'
    have hltv : lowerBound l.keys k < l.vals.length := by omega
    rw [List.getElem?_eq_getElem hltv] at hlook
    by_cases heq : ord k' = ord k
    · simp only [heq, decide_true, if_true, List.getElem?_eq_getElem hltv, Option.some.injEq, Prod.mk.injEq] at he
      rw [← he.1]
      simp only [Leaf.entries]; rw [hlook]; simp [heq, InsRes.old]
    · simp only [heq, decide_false, Bool.false_eq_true, if_false] at he
      rw [absent _ he]; simp only [Leaf.entries]; rw [hlook]; simp [heq]

theorem insertRec_old (cap : Nat) :
    ∀ (h : Nat) (t : Tree K V h) (lo hi : Option Int) (k : K) (v : V) (al : Allocs),
      Ordered h t lo hi → ∀ (res : InsRes K V h) (al' : Allocs), insertRec cap h t k v al = some (res, al') →
      res.old = (SMap.lookup (toList h t) k).map (·.2) := by
  intro h
  induction h with
  | zero =>
    intro t lo hi k v al ho res al' he
    rw [toList_zero]
    exact insertLeaf_old cap (t : Leaf K V) lo hi k v al ho res al' he
  | succ h ih =>
    intro t lo hi k v al ho res al' he
    have ho' := ho
    obtain ⟨hs, hlen, hkb, hc⟩ := ho
    have hle := upperBound_le (Branch.keys t) k
    have hic : upperBound (Branch.keys t) k < (Branch.children t).length := by omega
    have hci : (Branch.children t)[upperBound (Branch.keys t) k]? = some (Branch.children t)[upperBound (Branch.keys t) k] :=
      List.getElem?_eq_getElem hic
    generalize hcdef : (Branch.children t)[upperBound (Branch.keys t) k] = c at hci
    have hco := hc _ c hci
    have hsplit := flatMap_split (toList h) (Branch.children t) _ c hci
    have hA := left_lt h t lo hi ho' k
    have hB := right_gt h t lo hi ho' k
    have hlook : SMap.lookup (toList (h+1) t) k = SMap.lookup (toList h c) k := by
      rw [toList_succ, hsplit, List.append_assoc, SMap.lookup_append_left _ _ _ hA, SMap.lookup_append_right _ _ _ hB]
    unfold insertRec at he
    simp only [hci] at he
    cases hrec : insertRec cap h c k v al with
    | none => rw [hrec] at he; simp at he
    | some p =>
      obtain ⟨cres, al1⟩ := p
      have := ih c _ _ k v al hco cres al1 hrec
      rw [hrec] at he
      rw [hlook, ← this]
      cases cres with
      | updated c' old =>
        simp only [Option.some.injEq, Prod.mk.injEq] at he
        rw [← he.1]; rfl
      | split l r sep old =>
        simp only [] at he
        split at he
        · split at he
          · simp at he
          · simp only [Option.some.injEq, Prod.mk.injEq] at he
            rw [← he.1]; rfl
        · simp only [Option.some.injEq, Prod.mk.injEq] at he
          rw [← he.1]; rfl

/-! ### new / clear -/

theorem inv_fresh (cap : Nat) (hcap : 4 ≤ cap) : Inv (freshState cap : RState K V) ∧ abs (freshState cap : RState K V) = [] := by
  refine ⟨⟨hcap, ?_, ?_⟩, ?_⟩
  · exact ⟨List.Pairwise.nil, rfl, fun _ h => by cases h⟩
  · exact ⟨Nat.zero_le _, Nat.zero_le _⟩
  · simp [abs, freshState, toList, leaves, emptyLeaf, Leaf.entries]

theorem new_spec (cap : Nat) :
    (cap < 4 → (new cap : Option (RState K V)) = none) ∧
    (4 ≤ cap → ∃ s, (new cap : Option (RState K V)) = some s ∧ Inv s ∧ abs s = [] ∧ s.cap = cap) := by
  constructor
  · intro h; simp [new, minCapacity, h]
  · intro h
    have : ¬ cap < minCapacity := by simp [minCapacity]; omega
    exact ⟨freshState cap, by simp [new, this], (inv_fresh cap h).1, (inv_fresh cap h).2, rfl⟩

theorem clear_spec (s : RState K V) (hi : Inv s) : Inv (clear s) ∧ abs (clear s) = [] ∧ (clear s).cap = s.cap :=
  ⟨(inv_fresh s.cap hi.cap4).1, (inv_fresh s.cap hi.cap4).2, rfl⟩

/-! ### insert -/

theorem insert_spec (s : RState K V) (k : K) (v : V) (hi : Inv s) :
    ∃ s' old, insert s k v = some (s', old) ∧ Inv s' ∧ abs s' = SMap.insert (abs s) k v ∧
      old = (SMap.lookup (abs s) k).map (·.2) ∧ s'.cap = s.cap := by
  obtain ⟨hcap, ho, hsz⟩ := hi
  obtain ⟨res, al', he, hok⟩ := insertRec_spec s.cap hcap s.height s.root none none k v s.al ho (inB_none _)
    (sized_leafSized s.cap s.height s.root _ hsz)
  have hsized := insertRec_sized s.cap hcap s.height s.root none none k v s.al (rootMin s.height) ho (inB_none _) hsz
    (by unfold rootMin; split <;> omega) res al' he
  have hold := insertRec_old s.cap s.height s.root none none k v s.al ho res al' he
  unfold insert
  rw [he]
  cases res with
  | updated t old =>
    exact ⟨_, _, rfl, ⟨hcap, hok.1, hsized⟩, hok.2, hold, rfl⟩
  | split l r sep old =>
    obtain ⟨hl, hr, _, _, hlist⟩ := hok
    refine ⟨_, _, rfl, ⟨hcap, ?_, ?_⟩, ?_, hold, rfl⟩
    · -- the new root
      refine ⟨by simp [KSorted], rfl, ?_, ?_⟩
      · intro x _; exact inB_none _
      · intro j c hj
        match j, hj with
        | 0, hj => simp at hj; subst hj; simpa [loAt, hiAt] using hl
        | 1, hj => simp at hj; subst hj; simpa [loAt, hiAt] using hr
        | j+2, hj => simp at hj
    · refine ⟨by simp [rootMin], by show 1 ≤ s.cap; omega, ?_⟩
      intro c hc
      have hc' : c ∈ [l, r] := hc
      simp only [List.mem_cons, List.not_mem_nil, or_false] at hc'
      rcases hc' with rfl | rfl
      · exact hsized.1
      · exact hsized.2
    · show toList (s.height + 1) _ = _
      rw [toList_succ]
      show [l, r].flatMap (toList s.height) = _
      simp [abs, hlist]

/-! ### remove -/

theorem collapse_spec (cap : Nat) (hcap : 4 ≤ cap) : ∀ (h : Nat) (t : Tree K V h) (al : Allocs),
    Ordered h t none none → Sized cap h t 0 →
    Ordered (collapse h t al).1.1 (collapse h t al).1.2 none none ∧
    Sized cap (collapse h t al).1.1 (collapse h t al).1.2 (rootMin (collapse h t al).1.1) ∧
    toList (collapse h t al).1.1 (collapse h t al).1.2 = toList h t
  | 0, t, al, ho, hs => ⟨ho, by simpa [collapse, rootMin] using hs, rfl⟩
  | h+1, t, al, ho, hs => by
    obtain ⟨hks, hlen, hkb, hc⟩ := ho
    cases hch : (Branch.children t) with
    | nil => rw [hch] at hlen; simp at hlen
    | cons c rest =>
      cases rest with
      | nil =>
        have e : collapse (h+1) t al = collapse h c { al with branch := al.branch.dealloc (Branch.id t) } := by
          simp [collapse, hch]
        rw [e]
        have hk0 : (Branch.keys t) = [] := by
          have h1 := hlen
          rw [hch] at h1
          simp only [List.length_cons, List.length_nil] at h1
          exact List.eq_nil_of_length_eq_zero (by omega)
        have hco := hc 0 c (by rw [hch]; rfl)
        simp only [loAt, hiAt, hk0, List.length_nil, if_true] at hco
        have hcs : Sized cap h c (cap/2) := hs.2.2 c (by rw [hch]; exact List.mem_cons_self)
        have := collapse_spec cap hcap h c { al with branch := al.branch.dealloc (Branch.id t) } hco (Sized.mono cap h c _ 0 (Nat.zero_le _) hcs)
        refine ⟨this.1, this.2.1, ?_⟩
        rw [this.2.2, toList_succ, hch]; simp
      | cons c2 rest2 =>
        have e : collapse (h+1) t al = (⟨h+1, t⟩, al) := by
          simp [collapse, hch]
        rw [e]
        refine ⟨⟨hks, hlen, hkb, hc⟩, ?_, rfl⟩
        refine ⟨?_, hs.2.1, hs.2.2⟩
        show rootMin (h+1) ≤ (Branch.keys t).length
        have : (c :: c2 :: rest2).length = (Branch.keys t).length + 1 := by rw [← hch]; exact hlen
        simp only [List.length_cons] at this
        simp only [rootMin]
        have hne : ¬ (h + 1 = 0) := by omega
        simp only [hne, if_false]
        omega

theorem remove_spec (s : RState K V) (k : K) (hi : Inv s) :
    ∃ s' old, remove s k = some (s', old) ∧ Inv s' ∧ abs s' = SMap.erase (abs s) k ∧
      old = (SMap.lookup (abs s) k).map (·.2) ∧ s'.cap = s.cap := by
  obtain ⟨hcap, ho, hsz⟩ := hi
  obtain ⟨r, al', he, hp⟩ := removeRec_spec s.cap hcap s.height s.root none none k s.al (rootMin s.height) ho hsz
    (by unfold rootMin; by_cases h : s.height = 0 <;> simp [h])
  unfold remove
  rw [he]
  cases hold : r.old with
  | none =>
    simp only [hold, Option.isSome_none, Bool.false_eq_true, if_false]
    have := hp.same hold
    refine ⟨_, _, rfl, ⟨hcap, hp.ord, ?_⟩, hp.list, ?_, rfl⟩
    · show Sized s.cap s.height r.t (rootMin s.height)
      rw [this.1]; exact hsz
    · rw [← hold]; exact hp.old
  | some v =>
    simp only [hold, Option.isSome_some, if_true]
    have hc := collapse_spec s.cap hcap s.height r.t al' hp.ord (Sized.mono s.cap s.height r.t _ 0 (Nat.zero_le _) hp.sz)
    refine ⟨_, _, rfl, ⟨hcap, hc.1, hc.2.1⟩, ?_, ?_, rfl⟩
    · show toList _ _ = _
      rw [hc.2.2]; exact hp.list
    · rw [← hold]; exact hp.old

end BPT.Rust
