import BPT.Rust.InsertRec4
/-
  Occupancy invariant and its preservation by insert.
-/
namespace BPT.Rust
open BPT Tree
variable {K V : Type} [Keyed K]

/-- `Sized cap h t m`: every node of `t` holds at most `cap` keys, every node
    below `t` at least `cap/2`, and `t` itself at least `m`. -/
def Sized (cap : Nat) : (h : Nat) → Tree K V h → Nat → Prop
  | 0, (l : Leaf K V), m => m ≤ l.keys.length ∧ l.keys.length ≤ cap
  | h+1, (b : Branch K (Tree K V h)), m =>
      m ≤ b.keys.length ∧ b.keys.length ≤ cap ∧ ∀ c ∈ b.children, Sized cap h c (cap / 2)

theorem Sized.mono (cap : Nat) : ∀ (h : Nat) (t : Tree K V h) (m m' : Nat), m' ≤ m → Sized cap h t m → Sized cap h t m'
  | 0, _, _, _, hm, hs => ⟨Nat.le_trans hm hs.1, hs.2⟩
  | _+1, _, _, _, hm, hs => ⟨Nat.le_trans hm hs.1, hs.2.1, hs.2.2⟩

theorem mem_setAt {α : Type} (l : List α) (i : Nat) (x y : α) (h : y ∈ setAt l i x) : y = x ∨ y ∈ l := by
  unfold setAt at h
  rcases List.mem_append.1 h with h | h
  · exact Or.inr (List.mem_of_mem_take h)
  · rcases List.mem_cons.1 h with h | h
    · exact Or.inl h
    · exact Or.inr (List.mem_of_mem_drop h)

def InsSized (cap : Nat) (h : Nat) (m : Nat) : InsRes K V h → Prop
  | .updated t' _ => Sized cap h t' m
  | .split a b _ _ => Sized cap h a (cap / 2) ∧ Sized cap h b (cap / 2)

theorem sized_leafSized (cap : Nat) : ∀ (h : Nat) (t : Tree K V h) (m : Nat), Sized cap h t m → LeafSized cap h t
  | 0, t, m, hs => by
    intro l hl
    simp only [leaves, List.mem_singleton] at hl
    subst hl; exact hs.2
  | h+1, t, m, hs => by
    intro l hl
    simp only [leaves, List.mem_flatMap] at hl
    obtain ⟨c, hc, hl⟩ := hl
    exact sized_leafSized cap h c _ (hs.2.2 c hc) l hl

theorem insertLeaf_sized (cap : Nat) (hcap : 4 ≤ cap) (l : Leaf K V) (lo hi : Option Int) (k : K) (v : V) (al : Allocs) (m : Nat)
    (ho : Ordered 0 (l : Tree K V 0) lo hi) (hk : InB lo hi (ord k)) (hsz : Sized cap 0 (l : Tree K V 0) m)
    (res : InsRes K V 0) (al' : Allocs) (he : insertLeaf cap l k v al = some (res, al')) :
    InsSized cap 0 m res := by
  have ho' := ho
  obtain ⟨hs, hl, hb⟩ := ho
  obtain ⟨hm1, hm2⟩ := hsz
  unfold insertLeaf at he
  simp only [] at he
  -- not-found branch, shared by both `keys[i]?` cases
  have absent : (∀ k', l.keys[lowerBound l.keys k]? = some k' → ord k' ≠ ord k) →
      insertLeafAbsent cap l k v al (lowerBound l.keys k) = some (res, al') → InsSized cap 0 m res := by
    intro hnf he
    unfold insertLeafAbsent at he
    simp only [isFull, minKeys, decide_eq_true_eq] at he
    by_cases hfull : l.keys.length < cap
    · have hfull' : ¬ (l.keys.length ≥ cap) := by omega
      simp only [hfull', not_false_eq_true, if_true, Option.some.injEq, Prod.mk.injEq] at he
      obtain ⟨rfl, _⟩ := he
      show m ≤ (insertAt l.keys _ k).length ∧ (insertAt l.keys _ k).length ≤ cap
      rw [length_insertAt _ _ _ (lowerBound_le l.keys k)]; omega
    · have hn : l.keys.length = cap := by omega
      have hmin : ¬ (l.keys.length < cap / 2) := by omega
      have hfull' : l.keys.length ≥ cap := by omega
      simp only [hfull', not_true_eq_false, if_false, hmin] at he
      have hmid := leafSplitMid_bounds cap l.keys.length hcap hn
      obtain ⟨a, b, sep, he2, _, _, _, _, _, _, _, _, _, hsum, hlo, hhi, _⟩ :=
        splitLeafAt_spec l lo hi k v al (leafSplitMid cap l.keys.length) ho' hk hnf hmid.1 hmid.2.1
      rw [he2] at he
      simp only [Option.some.injEq, Prod.mk.injEq] at he
      obtain ⟨rfl, _⟩ := he
      show (cap / 2 ≤ (a : Leaf K V).keys.length ∧ a.keys.length ≤ cap) ∧ (cap / 2 ≤ (b : Leaf K V).keys.length ∧ b.keys.length ≤ cap)
      omega
  cases hk' : l.keys[lowerBound l.keys k]? with
  | some k' =>
    rw [hk'] at he
    by_cases heq : ord k' = ord k
    · simp only [heq, decide_true, if_true] at he
      cases hv : l.vals[lowerBound l.keys k]? with
      | some old =>
        rw [hv] at he
        simp only [Option.some.injEq, Prod.mk.injEq] at he
        obtain ⟨rfl, _⟩ := he
        exact ⟨hm1, hm2⟩
      | none =>
        rw [hv] at he
        simp only [Option.some.injEq, Prod.mk.injEq] at he
        obtain ⟨rfl, _⟩ := he
        exact ⟨hm1, hm2⟩
    · simp only [heq, decide_false, Bool.false_eq_true, if_false] at he
      exact absent (by intro k'' h; rw [hk'] at h; cases h; exact heq) he
  | none =>
    rw [hk'] at he
    simp only [Bool.false_eq_true, if_false] at he
    exact absent (by intro k'' h; rw [hk'] at h; cases h) he

theorem insertRec_sized (cap : Nat) (hcap : 4 ≤ cap) :
    ∀ (h : Nat) (t : Tree K V h) (lo hi : Option Int) (k : K) (v : V) (al : Allocs) (m : Nat),
      Ordered h t lo hi → InB lo hi (ord k) → Sized cap h t m → m ≤ cap / 2 →
      ∀ (res : InsRes K V h) (al' : Allocs), insertRec cap h t k v al = some (res, al') → InsSized cap h m res := by
  intro h
  induction h with
  | zero =>
    intro t lo hi k v al m ho hk hsz _ res al' he
    exact insertLeaf_sized cap hcap (t : Leaf K V) lo hi k v al m ho hk hsz res al' he
  | succ h ih =>
    intro t lo hi k v al m ho hk hsz hm res al' he
    obtain ⟨hs, hlen, hkb, hc⟩ := ho
    obtain ⟨hz1, hz2, hz3⟩ := hsz
    have hle := upperBound_le (Branch.keys t) k
    have hic : upperBound (Branch.keys t) k < (Branch.children t).length := by omega
    have hci : (Branch.children t)[upperBound (Branch.keys t) k]? = some (Branch.children t)[upperBound (Branch.keys t) k] :=
      List.getElem?_eq_getElem hic
    generalize hcdef : (Branch.children t)[upperBound (Branch.keys t) k] = c at hci
    have hcm : c ∈ Branch.children t := List.mem_of_getElem? hci
    have hco := hc _ c hci
    have hkc := route_inB (Branch.keys t) lo hi k hs hk
    unfold insertRec at he
    simp only [hci] at he
    cases hrec : insertRec cap h c k v al with
    | none => rw [hrec] at he; simp at he
    | some p =>
      obtain ⟨cres, al1⟩ := p
      have hcs := ih c _ _ k v al (cap/2) hco hkc (hz3 c hcm) (Nat.le_refl _) cres al1 hrec
      rw [hrec] at he
      cases cres with
      | updated c' old =>
        simp only [Option.some.injEq, Prod.mk.injEq] at he
        obtain ⟨rfl, _⟩ := he
        refine ⟨hz1, hz2, ?_⟩
        intro x hx
        rcases mem_setAt _ _ _ _ hx with rfl | hx
        · exact hcs
        · exact hz3 x hx
      | split l r sep old =>
        have hmemb1 : ∀ x ∈ (branchSplit1 (t : Branch K (Tree K V h)) (upperBound (Branch.keys t) k) l r sep).children,
            Sized cap h x (cap/2) := by
          intro x hx
          rcases (mem_insertAt _ _ _ _).1 hx with rfl | hx
          · exact hcs.2
          · rcases mem_setAt _ _ _ _ hx with rfl | hx
            · exact hcs.1
            · exact hz3 x hx
        have hb1len : (insertAt (Branch.keys t) (upperBound (Branch.keys t) k) sep).length = (Branch.keys t).length + 1 :=
          length_insertAt _ _ _ hle
        simp only [isFull, branchSplitMid, minKeys, decide_eq_true_eq] at he
        by_cases hfull : (Branch.keys t).length ≥ cap
        · simp only [hfull, if_true] at he
          cases hpk : (branchSplit1 (t : Branch K (Tree K V h)) (upperBound (Branch.keys t) k) l r sep).keys[cap / 2]? with
          | none => rw [hpk] at he; simp at he
          | some pk =>
            rw [hpk] at he
            simp only [Option.some.injEq, Prod.mk.injEq] at he
            obtain ⟨rfl, _⟩ := he
            refine ⟨⟨?_, ?_, ?_⟩, ⟨?_, ?_, ?_⟩⟩
            · show cap / 2 ≤ (List.take (cap/2) (insertAt (Branch.keys t) _ sep)).length
              rw [List.length_take, hb1len]; omega
            · show (List.take (cap/2) (insertAt (Branch.keys t) _ sep)).length ≤ cap
              rw [List.length_take, hb1len]; omega
            · intro x hx; exact hmemb1 x (List.mem_of_mem_take hx)
            · show cap / 2 ≤ (List.drop (cap/2+1) (insertAt (Branch.keys t) _ sep)).length
              rw [List.length_drop, hb1len]; omega
            · show (List.drop (cap/2+1) (insertAt (Branch.keys t) _ sep)).length ≤ cap
              rw [List.length_drop, hb1len]; omega
            · intro x hx; exact hmemb1 x (List.mem_of_mem_drop hx)
        · simp only [hfull, if_false, Option.some.injEq, Prod.mk.injEq] at he
          obtain ⟨rfl, _⟩ := he
          refine ⟨?_, ?_, hmemb1⟩
          · show m ≤ (insertAt (Branch.keys t) _ sep).length
            rw [hb1len]; omega
          · show (insertAt (Branch.keys t) _ sep).length ≤ cap
            rw [hb1len]; omega

end BPT.Rust
