import BPT.Rust.IdsFacts
import BPT.Rust.Raw
/-
  The raw arena view of a state that satisfies the structural invariant contains
  the typed tree: every node is found in its slot (`Embeds`).  Reader proofs are
  then inductions over the typed tree with the raw reader unfolded one level at
  a time, for any raw map that embeds the tree.
-/
namespace BPT.Rust
open BPT Tree
variable {K V : Type} [Keyed K]

/-- reference to the root node of a subtree, as the parent branch stores it -/
def ref (h : Nat) (t : Tree K V h) : NodeRef := if h = 0 then .leaf (rootId h t) else .branch (rootId h t)

def rawOfBranch (cap h : Nat) (b : Branch K (Tree K V h)) : RBranch K :=
  { cap := cap, keys := b.keys, children := b.children.map (ref h) }

/-- the raw map `m` stores every node of `t` in the slot named by its id -/
def Embeds (m : RawMap K V) (cap : Nat) : (h : Nat) → Tree K V h → Prop
  | 0, (l : Leaf K V) => m.getLeaf l.id = some (leafToRaw cap l)
  | h+1, (b : Branch K (Tree K V h)) =>
      m.getBranch b.id = some (rawOfBranch cap h b) ∧ ∀ c ∈ b.children, Embeds m cap h c

theorem find?_of_nodup {α : Type} (f : α → Nat) (l : List α) (x : α) (hx : x ∈ l) (hnd : (l.map f).Nodup) :
    l.find? (fun y => f y == f x) = some x := by
  induction l with
  | nil => cases hx
  | cons a as ih =>
    simp only [List.map_cons, List.nodup_cons] at hnd
    rcases List.mem_cons.1 hx with rfl | hx'
    · simp
    · have hne : f a ≠ f x := by
        intro he; exact hnd.1 (he ▸ List.mem_map_of_mem hx')
      have : (f a == f x) = false := by simp [hne]
      rw [List.find?_cons, this]
      exact ih hx' hnd.2

theorem find?_none_of_not_mem {α : Type} (f : α → Nat) (l : List α) (i : Nat) (h : i ∉ l.map f) :
    l.find? (fun y => f y == i) = none := by
  rw [List.find?_eq_none]
  intro y hy
  have : f y ≠ i := by intro he; exact h (he ▸ List.mem_map_of_mem hy)
  simp [this]

/-- lookup in a viewed leaf arena -/
theorem viewLeaves_get (cap : Nat) (ls : List (Leaf K V)) (a : Alloc) (hnd : (ls.map (·.id)).Nodup)
    (hlt : ∀ l ∈ ls, l.id < a.len) (hsmall : a.len ≤ nullId) :
    (∀ l ∈ ls, (viewLeaves cap ls a).get l.id = some (leafToRaw cap l)) ∧
    (∀ i, i ∉ ls.map (·.id) → (viewLeaves cap ls a).get i = none) := by
  constructor
  · intro l hl
    have hi := hlt l hl
    have hne : l.id ≠ nullId := by omega
    have hf := find?_of_nodup (fun (x : Leaf K V) => x.id) ls l hl hnd
    unfold Arena.get Arena.maskAt viewLeaves
    simp only [hne, if_false, List.length_map, List.length_range, hi, true_and]
    simp [List.getElem?_map, List.getElem?_range hi, hf]
  · intro i hi
    have hf := find?_none_of_not_mem (fun (x : Leaf K V) => x.id) ls i hi
    unfold Arena.get Arena.maskAt viewLeaves
    by_cases hn : i = nullId
    · simp [hn]
    · simp only [hn, if_false, List.length_map, List.length_range]
      by_cases hl : i < a.len
      · simp [hl, List.getElem?_map, List.getElem?_range hl, hf]
      · simp [hl]

theorem viewBranches_get (cap : Nat) (bs : List (BranchRec K)) (a : Alloc) (hnd : (bs.map (·.id)).Nodup)
    (hlt : ∀ b ∈ bs, b.id < a.len) (hsmall : a.len ≤ nullId) :
    (∀ b ∈ bs, (viewBranches cap bs a).get b.id = some (branchToRaw cap b)) ∧
    (∀ i, i ∉ bs.map (·.id) → (viewBranches cap bs a).get i = none) := by
  constructor
  · intro b hb
    have hi := hlt b hb
    have hne : b.id ≠ nullId := by omega
    have hf := find?_of_nodup (fun (x : BranchRec K) => x.id) bs b hb hnd
    unfold Arena.get Arena.maskAt viewBranches
    simp only [hne, if_false, List.length_map, List.length_range, hi, true_and]
    simp [List.getElem?_map, List.getElem?_range hi, hf]
  · intro i hi
    have hf := find?_none_of_not_mem (fun (x : BranchRec K) => x.id) bs i hi
    unfold Arena.get Arena.maskAt viewBranches
    by_cases hn : i = nullId
    · simp [hn]
    · simp only [hn, if_false, List.length_map, List.length_range]
      by_cases hl : i < a.len
      · simp [hl, List.getElem?_map, List.getElem?_range hl, hf]
      · simp [hl]

theorem bids_eq_branches : ∀ (h : Nat) (t : Tree K V h), bids h t = (branches h t).map (·.id) := by
  intro h
  induction h with
  | zero => intro t; rfl
  | succ h ih =>
    intro t
    rw [bids_succ]
    simp only [branches, List.map_cons, List.map_flatMap]
    congr 1
    have : ∀ (cs : List (Tree K V h)), cs.flatMap (bids h) = cs.flatMap (fun a => (branches h a).map (·.id)) := by
      intro cs
      induction cs with
      | nil => rfl
      | cons c cs ihc => simp only [List.flatMap_cons, ih c, ihc]
    exact this _

theorem leafIds_eq_leaves (h : Nat) (t : Tree K V h) : leafIdsOf (links h t) = (leaves h t).map (·.id) := by
  simp [leafIdsOf, links, link, List.map_map, Function.comp_def]

theorem embeds_of_lookup (m : RawMap K V) (cap : Nat) : ∀ (h : Nat) (t : Tree K V h),
    (∀ l ∈ leaves h t, m.getLeaf l.id = some (leafToRaw cap l)) →
    (∀ br ∈ branches h t, m.getBranch br.id = some (branchToRaw cap br)) → Embeds m cap h t := by
  intro h
  induction h with
  | zero => intro t hl _; exact hl t (by simp [leaves])
  | succ h ih =>
    intro t hl hb
    refine ⟨?_, ?_⟩
    · have := hb _ (by simp only [branches]; exact List.mem_cons_self)
      rw [this]
      simp only [branchToRaw, rawOfBranch, ref, List.map_map]
      congr 2
      apply List.map_congr_left
      intro c _
      by_cases h0 : h = 0 <;> simp [h0, Function.comp_def, ref]
    · intro c hc
      apply ih c
      · intro l hl'
        apply hl
        simp only [leaves, List.mem_flatMap]
        exact ⟨c, hc, hl'⟩
      · intro br hbr
        apply hb
        simp only [branches, List.mem_cons, List.mem_flatMap]
        exact Or.inr ⟨c, hc, hbr⟩

/-- arenas small enough for `u32` handles (the tree-level theorems assume it; C16 treats the limit itself) -/
def Small (s : RState K V) : Prop := s.al.leaf.len ≤ nullId ∧ s.al.branch.len ≤ nullId

theorem view_embeds (s : RState K V) (hs : SInv s) (hsm : Small s) : Embeds (view s) s.cap s.height s.root := by
  have fl := hs.leafIds.facts
  have fb := hs.branchIds.facts
  rw [leafIds_eq_leaves] at fl
  rw [bids_eq_branches] at fb
  apply embeds_of_lookup
  · intro l hl
    have := (viewLeaves_get s.cap (leaves s.height s.root) s.al.leaf
      (List.Nodup.sublist (List.sublist_append_left _ _) fl.2.1)
      (fun l hl => fl.2.2.1 _ (List.mem_append_left _ (List.mem_map_of_mem hl))) hsm.1).1 l hl
    exact this
  · intro br hbr
    have := (viewBranches_get s.cap (branches s.height s.root) s.al.branch
      (List.Nodup.sublist (List.sublist_append_left _ _) fb.2.1)
      (fun b hb => fb.2.2.1 _ (List.mem_append_left _ (List.mem_map_of_mem hb))) hsm.2).1 br hbr
    exact this

theorem view_root (s : RState K V) : (view s).root = ref s.height s.root := rfl
theorem view_cap (s : RState K V) : (view s).cap = s.cap := rfl

end BPT.Rust
