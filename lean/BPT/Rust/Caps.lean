import BPT.Rust.Bridge
/-
  Per-node capacity fields.  Every `LeafNode` / `BranchNode` of the crate carries its own `capacity`, and the
  node-level policy (`is_full`, `min_keys`, `is_underfull`) reads that field, not the map's.  The typed model
  has one capacity per map; its arena view gives every stored node that capacity.  The lemma below records the
  consequence (every node the view hands out has the map's capacity); what ties the *convention* to the code is
  the structural dump of the correspondence run, which prints each stored node's own field
  (`0:[cap=4 keys=…]`): a constructor, `clear()` or split that builds a node with another capacity shows up as a
  dump difference at the first dump after it.
-/
namespace BPT.Rust
open BPT

variable {K V : Type} [Keyed K]

omit [Keyed K] in
theorem viewLeaves_get_cap (cap : Nat) (ls : List (Leaf K V)) (a : Alloc) (id : Nat) (l : RLeaf K V)
    (h : (viewLeaves cap ls a).get id = some l) : l.cap = cap := by
  unfold Arena.get Arena.maskAt viewLeaves at h
  split at h
  · cases h
  · split at h
    · rename_i hc
      simp only [List.length_map, List.length_range] at hc
      obtain ⟨hlt, hm⟩ := hc
      cases hf : ls.find? (fun l => l.id == id) with
      | none => simp [List.getElem?_map, List.getElem?_range hlt, hf] at hm
      | some l' =>
        simp [List.getElem?_map, List.getElem?_range hlt, hf] at h
        rw [← h]; rfl
    · cases h

omit [Keyed K] in
theorem view_getLeaf_cap (s : RState K V) (id : Nat) (l : RLeaf K V) (h : (view s).getLeaf id = some l) :
    l.cap = (view s).cap :=
  viewLeaves_get_cap s.cap _ _ id l h

end BPT.Rust
