import BPT.Core.Glue
import BPT.Core.SpecErase
import BPT.Rust.Sized
/-
  Remove, part 1: list identities for two-child surgery, the leaf removal step,
  and "a separator that fits between children j and j+1".
-/
namespace BPT.Rust
open BPT Tree
variable {K V : Type} [Keyed K]

/-! ### list identities -/

theorem eq_take_cons_cons_drop {α : Type} (l : List α) (j : Nat) (x y : α) (hx : l[j]? = some x) (hy : l[j+1]? = some y) :
    l = l.take j ++ x :: y :: l.drop (j+2) := by
  have h1 := eq_take_cons_drop l j x hx
  have hy' : (l.drop (j+1))[0]? = some y := by rw [List.getElem?_drop]; simpa using hy
  have h2 := eq_take_cons_drop (l.drop (j+1)) 0 y hy'
  simp only [List.take_zero, List.nil_append, List.drop_drop] at h2
  rw [h2] at h1
  have : j + 1 + (0 + 1) = j + 2 := by omega
  rw [this] at h1
  exact h1

theorem setAt_setAt_succ {α : Type} (l : List α) (j : Nat) (x y : α) (h : j + 1 < l.length) :
    setAt (setAt l j x) (j+1) y = l.take j ++ x :: y :: l.drop (j+2) := by
  apply List.ext_getElem?
  intro n
  have hj : j < l.length := by omega
  rw [getElem?_setAt _ _ _ _ (by rw [length_setAt _ _ _ hj]; exact h), getElem?_setAt _ _ _ _ hj]
  rw [List.getElem?_append]
  simp only [List.length_take, Nat.min_eq_left (Nat.le_of_lt hj), List.getElem?_take]
  by_cases h1 : n < j
  · have : n ≠ j + 1 := by omega
    have : n ≠ j := by omega
    simp [*]
  · by_cases h2 : n = j
    · subst h2; simp
    · by_cases h3 : n = j + 1
      · subst h3
        have e0 : j + 1 - j = 0 + 1 := by omega
        simp only [h1, if_true, if_false, e0, List.getElem?_cons_succ, List.getElem?_cons_zero]
      · have e2 : n - j = (n - j - 2) + 1 + 1 := by omega
        simp only [h1, h2, h3, if_false]
        rw [e2, List.getElem?_cons_succ, List.getElem?_cons_succ, List.getElem?_drop]
        congr 1; omega

theorem removeAt_setAt_succ {α : Type} (l : List α) (j : Nat) (m : α) (h : j + 1 < l.length) :
    removeAt (setAt l j m) (j+1) = l.take j ++ m :: l.drop (j+2) := by
  apply List.ext_getElem?
  intro n
  have hj : j < l.length := by omega
  rw [getElem?_removeAt _ _ _ (by rw [length_setAt _ _ _ hj]; exact h)]
  simp only [getElem?_setAt _ _ _ _ hj]
  rw [List.getElem?_append]
  simp only [List.length_take, Nat.min_eq_left (Nat.le_of_lt hj), List.getElem?_take]
  by_cases h1 : n < j
  · have : n < j + 1 := by omega
    have : n ≠ j := by omega
    simp [*]
  · by_cases h2 : n = j
    · subst h2; simp
    · have e1 : ¬ n < j + 1 := by omega
      have e2 : n - j = (n - j - 1) + 1 := by omega
      have e3 : ¬ (n + 1 = j) := by omega
      simp only [h1, e1, e3, if_false]
      rw [e2, List.getElem?_cons_succ, List.getElem?_drop]
      congr 1; omega

theorem dropLast_append_of_getLast? {α : Type} (l : List α) (x : α) (h : l.getLast? = some x) : l = l.dropLast ++ [x] := by
  have hne : l ≠ [] := by intro hn; simp [hn] at h
  have := List.dropLast_concat_getLast hne
  rw [List.getLast?_eq_some_getLast hne] at h
  simp only [Option.some.injEq] at h
  rw [h] at this
  exact this.symm

theorem zip_append_of_length {α β : Type} (a1 a2 : List α) (b1 b2 : List β) (h : a1.length = b1.length) :
    (a1 ++ a2).zip (b1 ++ b2) = a1.zip b1 ++ a2.zip b2 := List.zip_append h

/-! ### a new separator between children `j` and `j+1` -/

theorem sep_fits (ks : List K) (lo hi : Option Int) (j : Nat) (s : Int) (hs : KSorted ks)
    (hkb : ∀ k ∈ ks, InB lo hi (ord k)) (hj : j < ks.length)
    (hin : InB (loAt ks lo j) (hiAt ks hi (j+1)) s) (hstrict : ∀ x, loAt ks lo j = some x → x < s) :
    (∀ x ∈ ks.take j, ord x < s) ∧ (∀ x ∈ ks.drop (j+1), s < ord x) ∧ InB lo hi s := by
  refine ⟨keys_take_lt_of_lo ks lo j s hs (by omega) hstrict,
          keys_drop_gt_of_hi ks hi (j+1) s hs (fun x hx => hin.2 x hx), ?_, ?_⟩
  · intro l hl
    by_cases h0 : j = 0
    · exact hin.1 l (by unfold loAt; rw [if_pos h0]; exact hl)
    · have hlt : j - 1 < ks.length := by omega
      have := hin.1 (ord ks[j-1]) (by unfold loAt; rw [if_neg h0, List.getElem?_eq_getElem hlt]; rfl)
      have := (hkb _ (List.getElem_mem hlt)).1 l hl
      omega
  · intro u hu
    by_cases h0 : j + 1 = ks.length
    · exact hin.2 u (by unfold hiAt; rw [if_pos h0]; exact hu)
    · have hlt : j + 1 < ks.length := by omega
      have := hin.2 (ord ks[j+1]) (by unfold hiAt; rw [if_neg h0, List.getElem?_eq_getElem hlt]; rfl)
      have := (hkb _ (List.getElem_mem hlt)).2 u hu
      omega

/-! ### removing from a leaf -/

theorem removeLeaf_spec (cap : Nat) (l : Leaf K V) (lo hi : Option Int) (k : K)
    (ho : Ordered 0 (l : Tree K V 0) lo hi) :
    ∃ r, removeLeaf cap l k = some r ∧
      r.old = (SMap.lookup l.entries k).map (·.2) ∧
      Leaf.entries (r.t : Leaf K V) = SMap.erase l.entries k ∧
      Ordered 0 r.t lo hi ∧
      (r.old = none → r.t = (l : Tree K V 0) ∧ r.under = false) ∧
      (r.old.isSome → (r.t : Leaf K V).keys.length + 1 = l.keys.length ∧
          r.under = decide ((r.t : Leaf K V).keys.length < cap / 2)) ∧
      (r.t : Leaf K V).id = l.id ∧ (r.t : Leaf K V).next = l.next := by
  obtain ⟨hs, hl, hb⟩ := ho
  have hlook := SMap.lookup_zip l.keys l.vals k hs hl
  have herase := SMap.erase_zip l.keys l.vals k hs hl
  unfold removeLeaf
  simp only []
  cases hk' : l.keys[lowerBound l.keys k]? with
  | none =>
    rw [hk'] at hlook herase
    simp only [Option.map_none] at herase
    simp only [Bool.false_eq_true, if_false]
    refine ⟨_, rfl, ?_, ?_, ⟨hs, hl, hb⟩, fun _ => ⟨rfl, rfl⟩, ?_, rfl, rfl⟩
    · simp only [Leaf.entries]; rw [hlook]; rfl
    · simp only [Leaf.entries]; rw [herase]; simp
    · intro h; simp at h
  | some k' =>
    have hlt : lowerBound l.keys k < l.keys.length := by
      rcases Nat.lt_or_ge (lowerBound l.keys k) l.keys.length with h | h
      · exact h
      · simp [List.getElem?_eq_none h] at hk'
    have hltv : lowerBound l.keys k < l.vals.length := by omega
    rw [hk'] at hlook herase
    rw [List.getElem?_eq_getElem hltv] at hlook
    by_cases heq : ord k' = ord k
    · simp only [heq, decide_true, if_true, List.getElem?_eq_getElem hltv]
      simp only [Option.map_some, heq, if_true] at herase hlook
      refine ⟨_, rfl, ?_, ?_, ?_, ?_, ?_, rfl, rfl⟩
      · simp only [Leaf.entries]; rw [hlook]; rfl
      · simp only [Leaf.entries]; rw [herase]
      · refine ⟨ksorted_removeAt _ _ hs, ?_, ?_⟩
        · show (removeAt l.keys _).length = (removeAt l.vals _).length
          rw [length_removeAt _ _ hlt, length_removeAt _ _ hltv, hl]
        · intro x hx; exact hb x (mem_of_mem_removeAt _ _ _ hx)
      · intro h; simp at h
      · intro _
        have e : (removeAt l.keys (lowerBound l.keys k)).length = l.keys.length - 1 := length_removeAt _ _ hlt
        refine ⟨by show (removeAt l.keys _).length + 1 = _; omega, ?_⟩
        show isUnderfull cap (l.keys.length - 1) = decide ((removeAt l.keys _).length < cap / 2)
        rw [e]; rfl
    · simp only [heq, decide_false, Bool.false_eq_true, if_false]
      have hne : ¬ (some (ord k') = some (ord k)) := by simpa using heq
      simp only [Option.map_some, hne, if_false, heq] at herase hlook
      refine ⟨_, rfl, ?_, ?_, ⟨hs, hl, hb⟩, fun _ => ⟨rfl, rfl⟩, ?_, rfl, rfl⟩
      · simp only [Leaf.entries]; rw [hlook]; rfl
      · simp only [Leaf.entries]; rw [herase]
      · intro h; simp at h

end BPT.Rust
