import BPT.Core.BranchCut
import BPT.Rust.InsertLeaf3
namespace BPT.Rust
open BPT Tree
variable {K V : Type} [Keyed K]

theorem upperBound_cons (a : K) (ks : List K) (k : K) :
    upperBound (a :: ks) k = if ord a ≤ ord k then upperBound ks k + 1 else 0 := by
  unfold upperBound
  by_cases h : ord a ≤ ord k <;> simp [List.takeWhile_cons, h]

theorem upperBound_le (ks : List K) (k : K) : upperBound ks k ≤ ks.length := by
  induction ks with
  | nil => simp [upperBound]
  | cons a as ih => rw [upperBound_cons]; split <;> simp <;> omega

theorem upperBound_spec (ks : List K) (k : K) (hs : KSorted ks) :
    (∀ x ∈ ks.take (upperBound ks k), ord x ≤ ord k) ∧ (∀ x ∈ ks.drop (upperBound ks k), ord k < ord x) := by
  induction ks with
  | nil => simp [upperBound]
  | cons a as ih =>
    have hs' := List.pairwise_cons.1 hs
    have ih := ih hs'.2
    rw [upperBound_cons]
    by_cases h : ord a ≤ ord k
    · simp only [h, if_true, List.take_succ_cons, List.drop_succ_cons, List.mem_cons]
      refine ⟨?_, ih.2⟩
      rintro x (rfl | hx)
      · exact h
      · exact ih.1 x hx
    · simp only [h, if_false, List.take_zero, List.drop_zero, List.mem_cons]
      refine ⟨by simp, ?_⟩
      rintro x (rfl | hx)
      · omega
      · have := hs'.1 x hx; omega

/-- `k` routed to child `i = upperBound keys k` lies within that child's bounds -/
theorem route_inB (ks : List K) (lo hi : Option Int) (k : K) (hs : KSorted ks) (hk : InB lo hi (ord k)) :
    InB (loAt ks lo (upperBound ks k)) (hiAt ks hi (upperBound ks k)) (ord k) := by
  have hsp := upperBound_spec ks k hs
  have hle := upperBound_le ks k
  constructor
  · intro l hl
    unfold loAt at hl
    split at hl
    · exact hk.1 l hl
    · have hlt : upperBound ks k - 1 < ks.length := by omega
      rw [List.getElem?_eq_getElem hlt] at hl
      simp at hl; subst hl
      apply hsp.1
      rw [List.mem_take_iff_getElem]
      exact ⟨upperBound ks k - 1, by omega, rfl⟩
  · intro u hu
    unfold hiAt at hu
    split at hu
    · exact hk.2 u hu
    · have hlt : upperBound ks k < ks.length := by omega
      rw [List.getElem?_eq_getElem hlt] at hu
      simp at hu; subst hu
      apply hsp.2
      rw [List.mem_drop_iff_getElem]
      exact ⟨0, by omega, by simp⟩

end BPT.Rust
