import BPT.Rust.InsertRec
namespace BPT.Rust
open BPT Tree
variable {K V : Type} [Keyed K]

theorem left_lt (h : Nat) (b : Branch K (Tree K V h)) (lo hi : Option Int) (hb : Ordered (h+1) b lo hi) (k : K) :
    ∀ p ∈ (b.children.take (upperBound b.keys k)).flatMap (toList h), ord p.1 < ord k := by
  obtain ⟨hs, hlen, hkb, hc⟩ := hb
  have hsp := upperBound_spec b.keys k hs
  have hle := upperBound_le b.keys k
  intro p hp
  rw [List.mem_flatMap] at hp
  obtain ⟨c, hcm, hpc⟩ := hp
  rw [List.mem_take_iff_getElem] at hcm
  obtain ⟨j, hj, rfl⟩ := hcm
  have hj1 : j < upperBound b.keys k := by omega
  have hj2 : j < b.children.length := by omega
  have hjk : j < b.keys.length := by omega
  have hord := hc j b.children[j] (List.getElem?_eq_getElem hj2)
  have := (toList_inB h _ _ _ hord p hpc).2 (ord b.keys[j]) (by
    unfold hiAt
    rw [if_neg (by omega), List.getElem?_eq_getElem hjk]; rfl)
  have h2 := hsp.1 b.keys[j] (by rw [List.mem_take_iff_getElem]; exact ⟨j, by omega, rfl⟩)
  omega

theorem right_gt (h : Nat) (b : Branch K (Tree K V h)) (lo hi : Option Int) (hb : Ordered (h+1) b lo hi) (k : K) :
    ∀ p ∈ (b.children.drop (upperBound b.keys k + 1)).flatMap (toList h), ord k < ord p.1 := by
  obtain ⟨hs, hlen, hkb, hc⟩ := hb
  have hsp := upperBound_spec b.keys k hs
  have hle := upperBound_le b.keys k
  intro p hp
  rw [List.mem_flatMap] at hp
  obtain ⟨c, hcm, hpc⟩ := hp
  rw [List.mem_drop_iff_getElem] at hcm
  obtain ⟨j, hj, rfl⟩ := hcm
  have hj2 : upperBound b.keys k + 1 + j < b.children.length := by omega
  have hjk : upperBound b.keys k + j < b.keys.length := by omega
  have hord := hc _ b.children[upperBound b.keys k + 1 + j] (List.getElem?_eq_getElem hj2)
  have := (toList_inB h _ _ _ hord p hpc).1 (ord b.keys[upperBound b.keys k + j]) (by
    unfold loAt
    rw [if_neg (by omega)]
    have : upperBound b.keys k + 1 + j - 1 = upperBound b.keys k + j := by omega
    rw [this, List.getElem?_eq_getElem hjk]; rfl)
  have h2 := hsp.2 b.keys[upperBound b.keys k + j] (by rw [List.mem_drop_iff_getElem]; exact ⟨j, by omega, rfl⟩)
  omega

/-- separators left of the routed child are `≤ k`-side: strictly below any `sep` that is `> lo` of that child -/
theorem keys_take_lt_of_lo (ks : List K) (lo : Option Int) (i : Nat) (s : Int) (hs : KSorted ks) (hi : i ≤ ks.length)
    (h : ∀ x, loAt ks lo i = some x → x < s) : ∀ x ∈ ks.take i, ord x < s := by
  intro x hx
  rw [List.mem_take_iff_getElem] at hx
  obtain ⟨j, hj, rfl⟩ := hx
  have hj' : j < i := by omega
  have hi1 : i - 1 < ks.length := by omega
  have hlast := h (ord ks[i-1]) (by unfold loAt; rw [if_neg (by omega), List.getElem?_eq_getElem hi1]; rfl)
  by_cases hje : j = i - 1
  · subst hje; exact hlast
  · have := List.pairwise_iff_getElem.1 hs j (i-1) (by omega) hi1 (by omega)
    omega

theorem keys_drop_gt_of_hi (ks : List K) (hi' : Option Int) (i : Nat) (s : Int) (hs : KSorted ks)
    (h : ∀ x, hiAt ks hi' i = some x → s < x) : ∀ x ∈ ks.drop i, s < ord x := by
  intro x hx
  rw [List.mem_drop_iff_getElem] at hx
  obtain ⟨j, hj, rfl⟩ := hx
  have hi1 : i < ks.length := by omega
  have hfirst := h (ord ks[i]) (by unfold hiAt; rw [if_neg (by omega), List.getElem?_eq_getElem hi1]; rfl)
  by_cases hje : j = 0
  · subst hje; simpa using hfirst
  · have := List.pairwise_iff_getElem.1 hs i (i+j) hi1 (by omega) (by omega)
    omega
end BPT.Rust
