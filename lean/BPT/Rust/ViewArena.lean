import BPT.Rust.Bridge
import BPT.Arena.Proofs
/-
  The arenas of the view are well-formed `CompactArena`s (`AInv`), and their
  allocated-slot counts are the numbers of reachable leaves and branches.
-/
namespace BPT.Rust
open BPT Tree
variable {K V : Type} [Keyed K]

theorem filter_mem_length (ids : List Nat) (n : Nat) (hnd : ids.Nodup) (hlt : ∀ x ∈ ids, x < n) :
    ((List.range n).filter (fun i => decide (i ∈ ids))).length = ids.length := by
  apply List.Perm.length_eq
  rw [List.perm_ext_iff_of_nodup (List.Nodup.sublist List.filter_sublist List.nodup_range) hnd]
  intro a
  simp only [List.mem_filter, List.mem_range, decide_eq_true_eq]
  constructor
  · exact fun h => h.2
  · exact fun h => ⟨hlt a h, h⟩

theorem count_true_map (p : Nat → Bool) (l : List Nat) : (l.map p).count true = (l.filter p).length := by
  induction l with
  | nil => rfl
  | cons a l ih => cases h : p a <;> simp [List.filter_cons, h, ih]

theorem find_isSome_eq {α : Type} (f : α → Nat) (ls : List α) (i : Nat) :
    (ls.find? (fun l => f l == i)).isSome = decide (i ∈ ls.map f) := by
  induction ls with
  | nil => simp
  | cons a ls ih =>
    by_cases h : f a = i
    · simp [List.find?_cons, h]
    · have : (f a == i) = false := by simp [h]
      rw [List.find?_cons, this, ih]
      have hne : ¬ i = f a := fun he => h he.symm
      simp [hne]

/-- mask of a viewed arena: slot `i` is allocated iff `i` is the id of a listed node -/
theorem view_mask_count {α : Type} (f : α → Nat) (ls : List α) (n : Nat) (hnd : (ls.map f).Nodup) (hlt : ∀ x ∈ ls.map f, x < n) :
    ((List.range n).map (fun i => (ls.find? (fun l => f l == i)).isSome)).count true = ls.length := by
  rw [count_true_map]
  have : (List.range n).filter (fun i => (ls.find? (fun l => f l == i)).isSome) =
      (List.range n).filter (fun i => decide (i ∈ ls.map f)) := by
    apply List.filter_congr
    intro i _
    exact find_isSome_eq f ls i
  rw [this, filter_mem_length _ _ hnd hlt, List.length_map]

theorem view_arena_ainv {α β : Type} (f : α → Nat) (g : Option α → β) (ls : List α) (a : Alloc)
    (hok : IdsOK (ls.map f) a) (hsmall : a.len ≤ nullId) :
    Arena.AInv ({ storage := (List.range a.len).map (fun i => g (ls.find? (fun l => f l == i))),
                  mask := (List.range a.len).map (fun i => (ls.find? (fun l => f l == i)).isSome),
                  free := a.free } : Arena β) ∧
    ({ storage := (List.range a.len).map (fun i => g (ls.find? (fun l => f l == i))),
       mask := (List.range a.len).map (fun i => (ls.find? (fun l => f l == i)).isSome),
       free := a.free } : Arena β).len = ls.length := by
  have fc := hok.facts
  have hnd : (ls.map f).Nodup := List.Nodup.sublist (List.sublist_append_left _ _) fc.2.1
  have hlt : ∀ x ∈ ls.map f, x < a.len := fun x hx => fc.2.2.1 x (List.mem_append_left _ hx)
  have hcnt := view_mask_count f ls a.len hnd hlt
  refine ⟨⟨by simp, List.Nodup.sublist (List.sublist_append_right _ _) fc.2.1, ?_, ?_, by simpa using hsmall⟩, hcnt⟩
  · intro i
    simp only [List.getElem?_map]
    by_cases hi : i < a.len
    · rw [List.getElem?_range hi]
      simp only [Option.map_some, Option.some.injEq]
      have h1 := hok i
      simp only [hi, if_true] at h1
      rw [find_isSome_eq]
      simp only [decide_eq_false_iff_not]
      constructor
      · intro hf hm
        have h2 : 0 < a.free.count i := List.count_pos_iff.2 hf
        have h3 : 0 < (ls.map f).count i := List.count_pos_iff.2 hm
        omega
      · intro hnm
        have hz : (ls.map f).count i = 0 := List.count_eq_zero.2 hnm
        exact List.count_pos_iff.1 (by omega)
    · have hge : a.len ≤ i := by omega
      have hnone : (List.range a.len)[i]? = none := List.getElem?_eq_none (by simpa using hge)
      rw [hnone]
      simp only [Option.map_none, reduceCtorEq, iff_false]
      intro hf
      have := fc.2.2.1 i (List.mem_append_right _ hf)
      omega
  · show a.free.length + _ = _
    rw [hcnt]
    simp only [List.length_map, List.length_range]
    have := fc.1
    simp only [List.length_map] at this
    omega

/-- both arenas of the view of a valid state are well-formed, and their allocated counts are the
    numbers of leaves and branches reachable from the root -/
theorem view_arenas (s : RState K V) (hs : SInv s) (hsm : Small s) :
    Arena.AInv (view s).leaves ∧ Arena.AInv (view s).branches ∧
    (view s).leaves.len = (leaves s.height s.root).length ∧ (view s).branches.len = (bids s.height s.root).length := by
  have hl := hs.leafIds
  rw [leafIds_eq_leaves] at hl
  have hb := hs.branchIds
  rw [bids_eq_branches] at hb
  have h1 := view_arena_ainv (fun (l : Leaf K V) => l.id)
    (fun o => match o with | some l => leafToRaw s.cap l | none => (dfltLeaf : RLeaf K V)) (leaves s.height s.root) s.al.leaf hl hsm.1
  have h2 := view_arena_ainv (fun (b : BranchRec K) => b.id)
    (fun o => match o with | some b => branchToRaw s.cap b | none => (dfltBranch : RBranch K)) (branches s.height s.root) s.al.branch hb hsm.2
  refine ⟨h1.1, h2.1, h1.2, ?_⟩
  rw [bids_eq_branches, List.length_map]; exact h2.2

end BPT.Rust
