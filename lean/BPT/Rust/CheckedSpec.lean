import BPT.Rust.Checked
import BPT.Rust.ValidatorComplete
import BPT.Rust.Churn
/-
  The checked / bulk API on states built through the map-level API: the validations
  they run always pass, so each wrapper has exactly the effect and result of the
  basic call it wraps; KeyNotFound exactly when the key is absent.
-/
namespace BPT.Rust
open BPT
variable {K V : Type} [Keyed K]

theorem validOk_of_sinv (s : RState K V) (hs : SInv s) (hsm : Small s) : validOk Cfg.repaired s = true := by
  unfold validOk checkedEntry; rw [view_checkDetailed s hs hsm]; rfl

theorem small_of_sameLens (s s' : RState K V) (h : sameLens s.al s'.al) (hsm : Small s) : Small s' := by
  unfold Small at *; unfold sameLens at h; omega

/-- `try_insert` on an API-built map = `insert`, wrapped in `Ok` -/
theorem tryInsert_spec (s s' : RState K V) (k : K) (v : V) (old : Option V) (hs : SInv s) (hsm : Small s)
    (he : insert s k v = some (s', old)) (hsm' : Small s') :
    tryInsert Cfg.repaired s k v = some (s', .ok old) := by
  unfold tryInsert
  rw [validOk_of_sinv s hs hsm, if_pos rfl, he]
  simp only []
  rw [validOk_of_sinv s' (insert_sinv s k v hs s' old he) hsm', if_pos rfl]

/-- `try_insert` panics exactly when `insert` does (arena exhausted) -/
theorem tryInsert_none (s : RState K V) (k : K) (v : V) (hs : SInv s) (hsm : Small s) (he : insert s k v = none) :
    tryInsert Cfg.repaired s k v = none := by
  unfold tryInsert
  rw [validOk_of_sinv s hs hsm, if_pos rfl, he]

/-- `try_remove` on an API-built map = `remove(k).ok_or(KeyNotFound)` -/
theorem tryRemove_spec (s s' : RState K V) (k : K) (r : Option V) (hs : SInv s) (hsm : Small s)
    (he : remove s k = some (s', r)) :
    tryRemove Cfg.repaired s k = some (s', okOrKeyNotFound r) := by
  unfold tryRemove
  rw [validOk_of_sinv s hs hsm, if_pos rfl, he]
  have hv := validOk_of_sinv s' (remove_sinv s k hs s' _ he) (small_of_sameLens s s' (remove_lens s s' k _ hs he) hsm)
  cases r with
  | none => rfl
  | some old =>
    simp only [okOrKeyNotFound]
    rw [hv, if_pos rfl]

theorem removeItem_spec (s s' : RState K V) (k : K) (r : Option V) (he : remove s k = some (s', r)) :
    removeItem s k = some (s', okOrKeyNotFound r) := by
  unfold removeItem; rw [he]; rfl

/-- results of the two removing wrappers in terms of the abstract map: KeyNotFound exactly when absent -/
theorem tryRemove_abs (s : RState K V) (k : K) (hs : SInv s) (hsm : Small s) :
    ∃ s', tryRemove Cfg.repaired s k = some (s', okOrKeyNotFound ((SMap.lookup (abs s) k).map (·.2))) ∧
      removeItem s k = some (s', okOrKeyNotFound ((SMap.lookup (abs s) k).map (·.2))) ∧
      SInv s' ∧ abs s' = SMap.erase (abs s) k := by
  obtain ⟨s', old, he, _, habs, hold, _⟩ := remove_spec s k hs.inv
  refine ⟨s', ?_, ?_, remove_sinv s k hs s' old he, habs⟩
  · rw [tryRemove_spec s s' k old hs hsm he, hold]
  · rw [removeItem_spec s s' k old he, hold]

/-- `try_get` / `get_item` -/
theorem tryGet_spec (s : RState K V) (k : K) (hi : Inv s) :
    tryGet s k = okOrKeyNotFound ((SMap.lookup (abs s) k).map (·.2)) := by
  unfold tryGet; rw [get_spec s k hi]

/-- `KeyNotFound` exactly when the key is absent -/
theorem okOr_keyNotFound_iff {α β : Type} (o : Option α) (f : α → β) :
    okOrKeyNotFound (o.map f) = .error .keyNotFound ↔ o = none := by
  cases o <;> simp [okOrKeyNotFound]

/-- `get_many`: fails (KeyNotFound) iff some requested key is absent, otherwise the values in request order -/
theorem getManyE_spec (s : RState K V) (hi : Inv s) : ∀ (ks : List K),
    ((∃ k ∈ ks, SMap.lookup (abs s) k = none) → getManyE s ks = .error .keyNotFound) ∧
    ((∀ k ∈ ks, SMap.lookup (abs s) k ≠ none) →
      getManyE s ks = .ok (ks.filterMap (fun k => (SMap.lookup (abs s) k).map (·.2))) ∧
      (ks.filterMap (fun k => (SMap.lookup (abs s) k).map (·.2))).length = ks.length) := by
  intro ks
  induction ks with
  | nil => exact ⟨fun h => (by obtain ⟨_, h, _⟩ := h; cases h), fun _ => ⟨rfl, rfl⟩⟩
  | cons k ks ih =>
    unfold getManyE
    rw [tryGet_spec s k hi]
    cases hl : SMap.lookup (abs s) k with
    | none =>
      refine ⟨fun _ => rfl, fun h => ?_⟩
      exact absurd hl (h k List.mem_cons_self)
    | some p =>
      simp only [Option.map_some, okOrKeyNotFound]
      refine ⟨?_, ?_⟩
      · intro ⟨k', hk', hn⟩
        rcases List.mem_cons.1 hk' with rfl | hk'
        · rw [hl] at hn; cases hn
        · rw [ih.1 ⟨k', hk', hn⟩]
      · intro h
        obtain ⟨h1, h2⟩ := ih.2 (fun k' hk' => h k' (List.mem_cons_of_mem _ hk'))
        rw [h1]
        simp [hl, h2]

/-- every state `batch_insert` passes through stays within the `u32` handle range -/
def SmallRun : RState K V → List (K × V) → Prop
  | s, [] => Small s
  | s, (k, v) :: rest => Small s ∧ ∀ s' old, insert s k v = some (s', old) → SmallRun s' rest

theorem batchInsertLoop_spec : ∀ (items : List (K × V)) (s : RState K V) (inserted : List K) (acc : List (Option V)),
    SInv s → SmallRun s items →
    batchInsertLoop Cfg.repaired items s inserted acc = (insertAll s items).map fun r => (r.1, .ok (acc.reverse ++ r.2)) := by
  intro items
  induction items with
  | nil => intro s ins acc _ _; simp [batchInsertLoop, insertAll]
  | cons kv rest ih =>
    intro s ins acc hs hsm
    obtain ⟨k, v⟩ := kv
    obtain ⟨hsm0, hrest⟩ := hsm
    unfold batchInsertLoop insertAll
    cases he : insert s k v with
    | none => rw [tryInsert_none s k v hs hsm0 he]; rfl
    | some p =>
      obtain ⟨s', old⟩ := p
      have hsm' : Small s' := by
        have := hrest s' old he
        cases rest with
        | nil => exact this
        | cons _ _ => exact this.1
      rw [tryInsert_spec s s' k v old hs hsm0 he hsm']
      simp only []
      rw [ih s' _ _ (insert_sinv s k v hs s' old he) (hrest s' old he)]
      cases insertAll s' rest with
      | none => rfl
      | some r => simp

/-- **`batch_insert` = the same inserts one by one, results in order, never an error on an API-built map** -/
theorem batchInsert_spec (s : RState K V) (items : List (K × V)) (hs : SInv s) (hsm : SmallRun s items) :
    batchInsert Cfg.repaired s items = (insertAll s items).map fun r => (r.1, .ok r.2) := by
  unfold batchInsert
  rw [batchInsertLoop_spec items s [] [] hs hsm]
  simp

/-- `validate_for_operation` / `validate` succeed on every API-built map -/
theorem validateForOperation_ok (s : RState K V) (hs : SInv s) (hsm : Small s) :
    validateForOperation Cfg.repaired s = .ok () := by
  unfold validateForOperation; rw [validOk_of_sinv s hs hsm, if_pos rfl]

/-- whenever the detailed validation rejects the current state, every checked mutator refuses with a
    data-integrity error and leaves the map exactly as it was (`batch_insert`: nothing was inserted, the rollback loop is empty) -/
theorem refuse_unchanged (cfg : Cfg) (s : RState K V) (h : validOk cfg s = false) (k : K) (v : V) (rest : List (K × V)) :
    tryInsert cfg s k v = some (s, .error .dataIntegrity) ∧ tryRemove cfg s k = some (s, .error .dataIntegrity) ∧
    batchInsert cfg s ((k, v) :: rest) = some (s, .error .dataIntegrity) ∧ validateForOperation cfg s = .error .dataIntegrity := by
  have hi : tryInsert cfg s k v = some (s, .error .dataIntegrity) := by unfold tryInsert; simp [h]
  refine ⟨hi, by unfold tryRemove; simp [h], ?_, by unfold validateForOperation; simp [h]⟩
  unfold batchInsert batchInsertLoop
  rw [hi]
  rfl

/-- on ANY arena state the detailed validation rejects, the checked mutators return a data-integrity error at their first statement -/
theorem checkedEntry_refuses (cfg : Cfg) (m : RawMap K V) (h : m.checkDetailed cfg ≠ .ok none) :
    checkedEntry cfg m = some .dataIntegrity := by
  unfold checkedEntry
  cases hc : m.checkDetailed cfg with
  | ok o => cases o with
    | none => exact absurd hc h
    | some _ => rfl
  | panic => rfl
  | diverge => rfl
  | ub => rfl

end BPT.Rust
