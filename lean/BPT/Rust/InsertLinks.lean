import BPT.Rust.Links
/- Effect of insert on the leaf links and on the leaf allocator. -/
namespace BPT.Rust
open BPT Tree
variable {K V : Type} [Keyed K]

def InsRes.links {h : Nat} : InsRes K V h → List (Nat × Nat)
  | .updated t _ => Rust.links h t
  | .split a b _ _ => Rust.links h a ++ Rust.links h b

/-- what an insert does to the links: nothing, or one link `(i, n)` becomes `(i, new), (new, n)`
    where `new` is the id the leaf allocator hands out -/
inductive LinkIns (L L' : List (Nat × Nat)) (a a' : Alloc) : Prop where
  | same (h1 : L' = L) (h2 : a' = a)
  | split (A B : List (Nat × Nat)) (i n : Nat) (h1 : L = A ++ [(i, n)] ++ B)
      (h2 : L' = A ++ [(i, a.alloc.1), (a.alloc.1, n)] ++ B) (h3 : a' = a.alloc.2)

theorem LinkIns.ctx {L L' : List (Nat × Nat)} {a a' : Alloc} (P Q : List (Nat × Nat)) (h : LinkIns L L' a a') :
    LinkIns (P ++ L ++ Q) (P ++ L' ++ Q) a a' := by
  cases h with
  | same h1 h2 => exact .same (by rw [h1]) h2
  | split A B i n h1 h2 h3 =>
    exact .split (P ++ A) (B ++ Q) i n (by rw [h1]; simp only [List.append_assoc]) (by rw [h2]; simp only [List.append_assoc]) h3

theorem insertLeaf_links (cap : Nat) (l : Leaf K V) (k : K) (v : V) (al : Allocs) (res : InsRes K V 0) (al' : Allocs)
    (he : insertLeaf cap l k v al = some (res, al')) :
    LinkIns (links 0 (l : Tree K V 0)) res.links al.leaf al'.leaf ∧ al'.branch = al.branch := by
  unfold insertLeaf at he
  simp only [] at he
  have absent : ∀ i, insertLeafAbsent cap l k v al i = some (res, al') →
      LinkIns (links 0 (l : Tree K V 0)) res.links al.leaf al'.leaf ∧ al'.branch = al.branch := by
    intro i he
    unfold insertLeafAbsent at he
    by_cases h1 : ¬ isFull cap l.keys.length = true
    · rw [if_pos h1] at he
      simp only [Option.some.injEq, Prod.mk.injEq] at he
      rw [← he.1, ← he.2]; exact ⟨.same rfl rfl, rfl⟩
    · rw [if_neg h1] at he
      by_cases h2 : l.keys.length < minKeys cap
      · simp [h2] at he
      · simp only [h2, if_false] at he
        unfold splitLeafAt at he
        simp only [] at he
        have hsplit : ∀ (a b : Leaf K V) (sep : K), a.id = l.id → a.next = al.leaf.alloc.1 → b.id = al.leaf.alloc.1 → b.next = l.next →
            LinkIns (links 0 (l : Tree K V 0)) (InsRes.split (h := 0) a b sep (none : Option V) : InsRes K V 0).links al.leaf al.leaf.alloc.2 := by
          intro a b sep e1 e2 e3 e4
          refine .split [] [] l.id l.next rfl ?_ rfl
          show links 0 (a : Tree K V 0) ++ links 0 (b : Tree K V 0) = _
          rw [links_zero, links_zero, e1, e2, e3, e4]; rfl
        by_cases hg : goesLeft i (leafSplitMid cap l.keys.length) = true
        · simp only [hg, if_true] at he
          split at he
          · simp at he
          · simp only [Option.some.injEq, Prod.mk.injEq] at he
            rw [← he.1, ← he.2]; exact ⟨hsplit _ _ _ rfl rfl rfl rfl, rfl⟩
        · simp only [hg, if_false] at he
          split at he
          · simp at he
          · simp only [Option.some.injEq, Prod.mk.injEq] at he
            rw [← he.1, ← he.2]; exact ⟨hsplit _ _ _ rfl rfl rfl rfl, rfl⟩
  cases hk' : l.keys[lowerBound l.keys k]? with
  | none =>
    rw [hk'] at he
    simp only [Bool.false_eq_true, if_false] at he
    exact absent _ he
  | some k' =>
    rw [hk'] at he
    by_cases heq : ord k' = ord k
    · simp only [heq, decide_true, if_true] at he
      cases hv : l.vals[lowerBound l.keys k]? with
      | some old =>
        rw [hv] at he
        simp only [Option.some.injEq, Prod.mk.injEq] at he
        rw [← he.1, ← he.2]; exact ⟨.same rfl rfl, rfl⟩
      | none =>
        rw [hv] at he
        simp only [Option.some.injEq, Prod.mk.injEq] at he
        rw [← he.1, ← he.2]; exact ⟨.same rfl rfl, rfl⟩
    · simp only [heq, decide_false, Bool.false_eq_true, if_false] at he
      exact absent _ he

theorem insertRec_links (cap : Nat) :
    ∀ (h : Nat) (t : Tree K V h) (k : K) (v : V) (al : Allocs) (res : InsRes K V h) (al' : Allocs),
      insertRec cap h t k v al = some (res, al') → LinkIns (links h t) res.links al.leaf al'.leaf := by
  intro h
  induction h with
  | zero => intro t k v al res al' he; exact (insertLeaf_links cap (t : Leaf K V) k v al res al' he).1
  | succ h ih =>
    intro t k v al res al' he
    unfold insertRec at he
    simp only [] at he
    cases hci : (Branch.children t)[upperBound (Branch.keys t) k]? with
    | none =>
      simp only [hci, Option.some.injEq, Prod.mk.injEq] at he
      rw [← he.1, ← he.2]; exact .same rfl rfl
    | some c =>
      simp only [hci] at he
      have hic : upperBound (Branch.keys t) k < (Branch.children t).length := lt_of_getElem?_eq_some hci
      cases hrec : insertRec cap h c k v al with
      | none => rw [hrec] at he; simp at he
      | some p =>
        obtain ⟨cres, al1⟩ := p
        have hl := ih c k v al cres al1 hrec
        rw [hrec] at he
        have hsplit := flatMap_split (links h) (Branch.children t) _ c hci
        -- in every case the links of the result are those of `t` with the child's part replaced
        have key : res.links = ((Branch.children t).take (upperBound (Branch.keys t) k)).flatMap (links h) ++ cres.links ++
            ((Branch.children t).drop (upperBound (Branch.keys t) k + 1)).flatMap (links h) ∧ al'.leaf = al1.leaf := by
          cases cres with
          | updated c' old =>
            simp only [Option.some.injEq, Prod.mk.injEq] at he
            rw [← he.1, ← he.2]
            refine ⟨?_, rfl⟩
            show links (h+1) _ = _
            rw [links_succ]
            show (setAt (Branch.children t) _ c').flatMap (links h) = _
            rw [flatMap_setAt]; rfl
          | split l r sep old =>
            have hb1 : (branchSplit1 (t : Branch K (Tree K V h)) (upperBound (Branch.keys t) k) l r sep).children.flatMap (links h) =
                ((Branch.children t).take (upperBound (Branch.keys t) k)).flatMap (links h) ++ (links h l ++ links h r) ++
                ((Branch.children t).drop (upperBound (Branch.keys t) k + 1)).flatMap (links h) := by
              show (insertAt (setAt (Branch.children t) _ l) _ r).flatMap (links h) = _
              rw [insertAt_setAt_eq _ _ _ _ hic]
              simp [List.flatMap_append]
            simp only [] at he
            split at he
            · split at he
              · simp at he
              · simp only [Option.some.injEq, Prod.mk.injEq] at he
                rw [← he.1, ← he.2]
                refine ⟨?_, rfl⟩
                show links (h+1) _ ++ links (h+1) _ = _
                rw [links_succ, links_succ]
                show (List.take _ _).flatMap (links h) ++ (List.drop _ _).flatMap (links h) = _
                rw [← List.flatMap_append, List.take_append_drop, hb1]; rfl
            · simp only [Option.some.injEq, Prod.mk.injEq] at he
              rw [← he.1, ← he.2]
              refine ⟨?_, rfl⟩
              show links (h+1) _ = _
              rw [links_succ, hb1]; rfl
        rw [key.1, key.2, links_succ, hsplit]
        exact hl.ctx _ _

end BPT.Rust
