import BPT.Core.Tree
import BPT.Core.Res
import BPT.Arena.Model
import BPT.Rust.Policy
/-
  Executable model of the Rust map's mutators and typed readers
  (rust/src/{construction,insert_operations,delete_operations,get_operations,
  tree_structure,node}.rs).  Import-free apart from BPT core files.

  * the tree is height-indexed (`Tree K V h`); node ids and `next` links are data;
  * `Alloc` is the id allocator of a `CompactArena` (storage length + free list);
    ids are allocated in the code's order, so the model predicts every slot;
  * `none` = the Rust code panics at this point (index out of range, `unwrap` on
    `None`, `debug_assert!`, usize underflow).
-/
namespace BPT.Rust
open BPT

structure Alloc where
  len : Nat
  free : List Nat      -- head = most recently freed (what `free_list.pop()` returns)
deriving Repr

def Alloc.alloc (a : Alloc) : Nat × Alloc :=
  match a.free with
  | i :: rest => (i, { a with free := rest })
  | [] => (a.len, { a with len := a.len + 1 })

def Alloc.dealloc (a : Alloc) (i : Nat) : Alloc := { a with free := i :: a.free }

structure Allocs where
  leaf : Alloc
  branch : Alloc
deriving Repr

variable {K V : Type} [Keyed K]

/-! ## insert -/

inductive InsRes (K V : Type) (h : Nat) where
  | updated (t : Tree K V h) (old : Option V)
  | split (l r : Tree K V h) (sep : K) (old : Option V)

/-- replace child `i` by `(l, r)` separated by `sep` (same as `Branch.split1`) -/
def branchSplit1 (b : Branch K α) (i : Nat) (l r : α) (sep : K) : Branch K α :=
  { b with keys := insertAt b.keys i sep, children := insertAt (setAt b.children i l) (i+1) r }

/-- split the full leaf `l` at `mid` and put `(k, v)` (insertion index `i`) into the proper half -/
def splitLeafAt (l : Leaf K V) (k : K) (v : V) (al : Allocs) (i mid : Nat) : Option (InsRes K V 0 × Allocs) :=
  let newId := al.leaf.alloc.1
  let lk := l.keys.take mid
  let lv := l.vals.take mid
  let rk := l.keys.drop mid
  let rv := l.vals.drop mid
  let left : Leaf K V :=
    if goesLeft i mid then { id := l.id, keys := insertAt lk i k, vals := insertAt lv i v, next := newId }
    else { id := l.id, keys := lk, vals := lv, next := newId }
  let right : Leaf K V :=
    if goesLeft i mid then { id := newId, keys := rk, vals := rv, next := l.next }
    else { id := newId, keys := insertAt rk (i - mid) k, vals := insertAt rv (i - mid) v, next := l.next }
  match right.keys.head? with
  | none => none                            -- `first_key().unwrap()`
  | some sep => some (.split (left : Leaf K V) (right : Leaf K V) sep none, { al with leaf := al.leaf.alloc.2 })

/-- `insert_into_leaf`, key absent, `i` = insertion index -/
def insertLeafAbsent (cap : Nat) (l : Leaf K V) (k : K) (v : V) (al : Allocs) (i : Nat) : Option (InsRes K V 0 × Allocs) :=
  if ¬ isFull cap l.keys.length then
    some (.updated ({ l with keys := insertAt l.keys i k, vals := insertAt l.vals i v } : Leaf K V) none, al)
  else if l.keys.length < minKeys cap then none       -- `total_keys - min_keys` underflows
  else splitLeafAt l k v al i (leafSplitMid cap l.keys.length)

def insertLeaf (cap : Nat) (l : Leaf K V) (k : K) (v : V) (al : Allocs) : Option (InsRes K V 0 × Allocs) :=
  let i := lowerBound l.keys k
  let found : Bool := match l.keys[i]? with
    | some k' => ord k' = ord k
    | none => false
  if found then
    match l.vals[i]? with
    | some old => some (.updated ({ l with vals := setAt l.vals i v } : Leaf K V) (some old), al)
    | none => some (.updated (l : Leaf K V) none, al)
  else insertLeafAbsent cap l k v al i

def insertRec (cap : Nat) : (h : Nat) → Tree K V h → K → V → Allocs → Option (InsRes K V h × Allocs)
  | 0, (l : Leaf K V), k, v, al => insertLeaf cap l k v al
  | h+1, (b : Branch K (Tree K V h)), k, v, al =>
    let i := upperBound b.keys k
    match b.children[i]? with
    | none => some (.updated (b : Branch K (Tree K V h)) none, al)
    | some c =>
      match insertRec cap h c k v al with
      | none => none
      | some (.updated c' old, al') =>
          some (.updated ({ b with children := setAt b.children i c' } : Branch K (Tree K V h)) old, al')
      | some (.split l r sep old, al') =>
          let b1 := branchSplit1 b i l r sep
          if isFull cap b.keys.length then
            let mid := branchSplitMid cap
            match b1.keys[mid]? with
            | none => none                    -- `self.keys[mid]`
            | some pk =>
              let right : Branch K (Tree K V h) := { id := al'.branch.alloc.1, keys := b1.keys.drop (mid+1), children := b1.children.drop (mid+1) }
              let left : Branch K (Tree K V h) := { id := b.id, keys := b1.keys.take mid, children := b1.children.take (mid+1) }
              some (.split left right pk old, { al' with branch := al'.branch.alloc.2 })
          else some (.updated (b1 : Branch K (Tree K V h)) old, al')

/-! ## remove -/

structure RemOut (K V : Type) (h : Nat) where
  t : Tree K V h
  old : Option V
  under : Bool

/-- `LeafNode::remove` -/
def removeLeaf (cap : Nat) (l : Leaf K V) (k : K) : Option (RemOut K V 0) :=
  let i := lowerBound l.keys k
  let found : Bool := match l.keys[i]? with
    | some k' => ord k' = ord k
    | none => false
  if found then
    match l.vals[i]? with
    | none => none                            -- `self.values.remove(index)` out of range
    | some old =>
      let l' : Leaf K V := { l with keys := removeAt l.keys i, vals := removeAt l.vals i }
      some { t := l', old := some old, under := isUnderfull cap (l.keys.length - 1) }
  else some { t := (l : Leaf K V), old := none, under := false }

/-- rotate the last entry of leaf `a` into the front of leaf `c`; new separator = moved key -/
def leafBorrowLeft (a c : Leaf K V) : Option (Leaf K V × Leaf K V × K) :=
  match a.keys.getLast?, a.vals.getLast? with
  | some k, some v =>
    some ({ a with keys := a.keys.dropLast, vals := a.vals.dropLast },
          { c with keys := k :: c.keys, vals := v :: c.vals }, k)
  | _, _ => none
/-- rotate the first entry of leaf `r` to the end of leaf `c`; new separator = `r`'s new first key -/
def leafBorrowRight (c r : Leaf K V) : Option (Leaf K V × Leaf K V × Option K) :=
  match r.keys, r.vals with
  | k :: ks, v :: vs =>
    some ({ c with keys := c.keys ++ [k], vals := c.vals ++ [v] }, { r with keys := ks, vals := vs }, ks.head?)
  | _, _ => none
/-- `a` absorbs `b` (its right neighbour) -/
def leafMerge (cap : Nat) (a b : Leaf K V) : Option (Leaf K V) :=
  if a.keys.length + b.keys.length ≤ cap ∧ a.vals.length + b.vals.length ≤ cap then   -- debug_assert!
    some { a with keys := a.keys ++ b.keys, vals := a.vals ++ b.vals, next := b.next }
  else none

/-- children `i, i+1` and the separator between them replaced (borrow / rotate) -/
def branchReplace2 (b : Branch K α) (i : Nat) (l r : α) (sep : K) : Branch K α :=
  { b with keys := setAt b.keys i sep, children := setAt (setAt b.children i l) (i+1) r }
/-- children `i, i+1` merged into `m`, the separator between them dropped -/
def branchMerge2 (b : Branch K α) (i : Nat) (m : α) : Branch K α :=
  { b with keys := removeAt b.keys i, children := removeAt (setAt b.children i m) (i+1) }

/-- borrow the last entry of the left sibling `a` (child `i-1`) into child `c` (child `i`) -/
def leafBorrowLeftAt (b : Branch K (Leaf K V)) (i : Nat) (al : Allocs) (a c : Leaf K V) : Option (Branch K (Leaf K V) × Allocs) :=
  match leafBorrowLeft a c with
  | none => none
  | some (a', c', sep) =>
    if i - 1 < b.keys.length then some (branchReplace2 b (i-1) a' c' sep, al) else none   -- `parent.keys[child_index - 1] = sep`

/-- borrow the first entry of the right sibling `r` (child `i+1`) into child `c` (child `i`) -/
def leafBorrowRightAt (b : Branch K (Leaf K V)) (i : Nat) (al : Allocs) (c r : Leaf K V) : Option (Branch K (Leaf K V) × Allocs) :=
  match leafBorrowRight c r with
  | none => none
  | some (c', r', some sep) =>
    if i < b.keys.length then some (branchReplace2 b i c' r' sep, al) else none
  | some (c', r', none) =>
    -- the code leaves the separator alone and reports failure (unreachable: a donor keeps ≥ 1 key)
    some ({ b with children := setAt (setAt b.children i c') (i+1) r' }, al)

/-- merge child `c` (child `i`) into its left sibling `a`; `c`'s slot is released -/
def leafMergeLeftAt (cap : Nat) (b : Branch K (Leaf K V)) (i : Nat) (al : Allocs) (a c : Leaf K V) : Option (Branch K (Leaf K V) × Allocs) :=
  match leafMerge cap a c with
  | none => none
  | some m =>
    if i - 1 < b.keys.length then some (branchMerge2 b (i-1) m, { al with leaf := al.leaf.dealloc c.id }) else none

/-- merge the right sibling `r` (child `i+1`) into child `c`; `r`'s slot is released -/
def leafMergeRightAt (cap : Nat) (b : Branch K (Leaf K V)) (i : Nat) (al : Allocs) (c r : Leaf K V) : Option (Branch K (Leaf K V) × Allocs) :=
  match leafMerge cap c r with
  | none => none
  | some m =>
    if i < b.keys.length then some (branchMerge2 b i m, { al with leaf := al.leaf.dealloc r.id }) else none

/-- the strategy of `rebalance_leaf`: borrow (prefer left), else merge (prefer left) -/
def rebalanceLeafWith (cap : Nat) (b : Branch K (Leaf K V)) (i : Nat) (al : Allocs) (c : Leaf K V) :
    Option (Leaf K V) → Option (Leaf K V) → Option (Branch K (Leaf K V) × Allocs)
  | some a, right =>
    if canDonate cap a.keys.length then leafBorrowLeftAt b i al a c
    else
      match right with
      | some r => if canDonate cap r.keys.length then leafBorrowRightAt b i al c r else leafMergeLeftAt cap b i al a c
      | none => leafMergeLeftAt cap b i al a c
  | none, some r =>
    if canDonate cap r.keys.length then leafBorrowRightAt b i al c r else leafMergeRightAt cap b i al c r
  | none, none => some (b, al)                 -- no sibling: nothing happens

/-- `rebalance_leaf`: child `i` of `b` is an underfull leaf -/
def rebalanceLeaf (cap : Nat) (b : Branch K (Leaf K V)) (i : Nat) (al : Allocs) : Option (Branch K (Leaf K V) × Allocs) :=
  match b.children[i]? with
  | none => none                               -- `parent_branch.children[child_index]`
  | some c =>
    rebalanceLeafWith cap b i al c (if i > 0 then b.children[i-1]? else none)
      (if i + 1 < b.children.length then b.children[i+1]? else none)

/-- rotate the last key/child of branch `a` through separator `sep` into the front of `c` -/
def branchBorrowLeft (a c : Branch K α) (sep : K) : Option (Branch K α × Branch K α × K) :=
  match a.keys.getLast?, a.children.getLast? with
  | some mk, some mc =>
    some ({ a with keys := a.keys.dropLast, children := a.children.dropLast },
          { c with keys := sep :: c.keys, children := mc :: c.children }, mk)
  | _, _ => none
def branchBorrowRight (c r : Branch K α) (sep : K) : Option (Branch K α × Branch K α × K) :=
  match r.keys, r.children with
  | mk :: ks, mc :: cs =>
    some ({ c with keys := c.keys ++ [sep], children := c.children ++ [mc] },
          { r with keys := ks, children := cs }, mk)
  | _, _ => none
def branchMergeNodes (cap : Nat) (a b : Branch K α) (sep : K) : Option (Branch K α) :=
  if a.keys.length + 1 + b.keys.length ≤ cap ∧ a.children.length + b.children.length ≤ cap + 1 then  -- debug_assert!
    some { a with keys := a.keys ++ sep :: b.keys, children := a.children ++ b.children }
  else none

def branchBorrowLeftAt (b : Branch K (Branch K α)) (i : Nat) (al : Allocs) (a c : Branch K α) : Option (Branch K (Branch K α) × Allocs) :=
  match b.keys[i-1]? with
  | none => none
  | some sep =>
    match branchBorrowLeft a c sep with
    | none => none
    | some (a', c', mk) => some (branchReplace2 b (i-1) a' c' mk, al)

def branchBorrowRightAt (b : Branch K (Branch K α)) (i : Nat) (al : Allocs) (c r : Branch K α) : Option (Branch K (Branch K α) × Allocs) :=
  match b.keys[i]? with
  | none => none
  | some sep =>
    match branchBorrowRight c r sep with
    | none => none
    | some (c', r', mk) => some (branchReplace2 b i c' r' mk, al)

def branchMergeLeftAt (cap : Nat) (b : Branch K (Branch K α)) (i : Nat) (al : Allocs) (a c : Branch K α) : Option (Branch K (Branch K α) × Allocs) :=
  match b.keys[i-1]? with
  | none => none
  | some sep =>
    match branchMergeNodes cap a c sep with
    | none => none
    | some m => some (branchMerge2 b (i-1) m, { al with branch := al.branch.dealloc c.id })

def branchMergeRightAt (cap : Nat) (b : Branch K (Branch K α)) (i : Nat) (al : Allocs) (c r : Branch K α) : Option (Branch K (Branch K α) × Allocs) :=
  match b.keys[i]? with
  | none => none
  | some sep =>
    match branchMergeNodes cap c r sep with
    | none => none
    | some m => some (branchMerge2 b i m, { al with branch := al.branch.dealloc r.id })

def rebalanceBranchWith (cap : Nat) (b : Branch K (Branch K α)) (i : Nat) (al : Allocs) (c : Branch K α) :
    Option (Branch K α) → Option (Branch K α) → Option (Branch K (Branch K α) × Allocs)
  | some a, right =>
    if canDonate cap a.keys.length then branchBorrowLeftAt b i al a c
    else
      match right with
      | some r => if canDonate cap r.keys.length then branchBorrowRightAt b i al c r else branchMergeLeftAt cap b i al a c
      | none => branchMergeLeftAt cap b i al a c
  | none, some r =>
    if canDonate cap r.keys.length then branchBorrowRightAt b i al c r else branchMergeRightAt cap b i al c r
  | none, none => some (b, al)

/-- `rebalance_branch`: child `i` of `b` is an underfull branch -/
def rebalanceBranch (cap : Nat) (b : Branch K (Branch K α)) (i : Nat) (al : Allocs) : Option (Branch K (Branch K α) × Allocs) :=
  match b.children[i]? with
  | none => none
  | some c =>
    let left : Option (Branch K α) := if i > 0 then b.children[i-1]? else none
    let right : Option (Branch K α) := if i + 1 < b.children.length then b.children[i+1]? else none
    -- `parent.keys[child_index - 1].clone()` / `parent.keys[child_index].clone()` are read whenever the sibling exists
    let leftSepOk : Bool := match left with | some _ => decide (i - 1 < b.keys.length) | none => true
    let rightSepOk : Bool := match right with | some _ => decide (i < b.keys.length) | none => true
    if leftSepOk ∧ rightSepOk then rebalanceBranchWith cap b i al c left right else none

/-- `rebalance_child` -/
def rebalance (cap : Nat) : (h : Nat) → Branch K (Tree K V h) → Nat → Allocs → Option (Branch K (Tree K V h) × Allocs)
  | 0, b, i, al => rebalanceLeaf cap b i al
  | _+1, b, i, al => rebalanceBranch cap b i al

def removeRec (cap : Nat) : (h : Nat) → Tree K V h → K → Allocs → Option (RemOut K V h × Allocs)
  | 0, (l : Leaf K V), k, al => (removeLeaf cap l k).map (fun r => (r, al))
  | h+1, (b : Branch K (Tree K V h)), k, al =>
    let i := upperBound b.keys k
    match b.children[i]? with
    | none => some ({ t := (b : Branch K (Tree K V h)), old := none, under := false }, al)
    | some c =>
      match removeRec cap h c k al with
      | none => none
      | some (r, al') =>
        let b1 : Branch K (Tree K V h) := { b with children := setAt b.children i r.t }
        if r.old.isSome ∧ r.under then
          match rebalance cap h b1 i al' with
          | none => none
          | some (b2, al'') =>
            some ({ t := (b2 : Branch K (Tree K V h)), old := r.old, under := isUnderfull cap b2.keys.length }, al'')
        else
          some ({ t := (b1 : Branch K (Tree K V h)), old := r.old,
                  under := if r.old.isSome then isUnderfull cap b1.keys.length else false }, al')

/-! ## map state and top-level operations -/

structure RState (K V : Type) where
  cap : Nat
  height : Nat
  root : Tree K V height
  al : Allocs

def emptyLeaf (id : Nat) : Leaf K V := { id := id, keys := [], vals := [], next := nullId }

def freshState (cap : Nat) : RState K V :=
  { cap := cap, height := 0, root := (emptyLeaf 0 : Leaf K V),
    al := { leaf := { len := 1, free := [] }, branch := { len := 0, free := [] } } }

/-- `BPlusTreeMap::new` / `empty`: `none` = `Err(InvalidCapacity)` -/
def new (cap : Nat) : Option (RState K V) :=
  if cap < minCapacity then none else some (freshState cap)

/-- `clear`: both arenas cleared, a fresh root leaf allocated -/
def clear (s : RState K V) : RState K V := freshState s.cap

def insert (s : RState K V) (k : K) (v : V) : Option (RState K V × Option V) :=
  match insertRec s.cap s.height s.root k v s.al with
  | none => none
  | some (.updated t old, al) => some ({ s with root := t, al := al }, old)
  | some (.split l r sep old, al) =>
    let root : Branch K (Tree K V s.height) := { id := al.branch.alloc.1, keys := [sep], children := [l, r] }
    some ({ cap := s.cap, height := s.height + 1, root := root, al := { al with branch := al.branch.alloc.2 } }, old)

/-- `collapse_root_if_needed` -/
def collapse : (h : Nat) → Tree K V h → Allocs → (Σ h', Tree K V h') × Allocs
  | 0, (l : Leaf K V), al => (⟨0, l⟩, al)
  | h+1, (b : Branch K (Tree K V h)), al =>
    match b.children with
    | [c] => collapse h c { al with branch := al.branch.dealloc b.id }
    | [] =>
      let lid := al.leaf.alloc.1
      (⟨0, (emptyLeaf lid : Leaf K V)⟩, { leaf := al.leaf.alloc.2, branch := al.branch.dealloc b.id })
    | _ :: _ :: _ => (⟨h+1, b⟩, al)

def remove (s : RState K V) (k : K) : Option (RState K V × Option V) :=
  match removeRec s.cap s.height s.root k s.al with
  | none => none
  | some (r, al) =>
    if r.old.isSome then
      let c := collapse s.height r.t al
      some ({ cap := s.cap, height := c.1.1, root := c.1.2, al := c.2 }, r.old)
    else some ({ s with root := r.t, al := al }, none)

/-! ## typed readers -/

/-- `get` (returns the stored key object too, for the "first key object kept" clause) -/
def getRec : (h : Nat) → Tree K V h → K → Option (K × V)
  | 0, (l : Leaf K V), k =>
    let i := lowerBound l.keys k
    match l.keys[i]? with
    | some k' => if ord k' = ord k then (l.vals[i]?).map (fun v => (k', v)) else none
    | none => none
  | h+1, (b : Branch K (Tree K V h)), k =>
    match b.children[upperBound b.keys k]? with
    | none => none
    | some c => getRec h c k

def get (s : RState K V) (k : K) : Option (K × V) := getRec s.height s.root k

/-- a write through `get_mut` -/
def setRec : (h : Nat) → Tree K V h → K → V → Tree K V h
  | 0, (l : Leaf K V), k, v =>
    let i := lowerBound l.keys k
    match l.keys[i]? with
    | some k' => if ord k' = ord k ∧ i < l.vals.length then ({ l with vals := setAt l.vals i v } : Leaf K V) else l
    | none => l
  | h+1, (b : Branch K (Tree K V h)), k, v =>
    let i := upperBound b.keys k
    match b.children[i]? with
    | none => b
    | some c => ({ b with children := setAt b.children i (setRec h c k v) } : Branch K (Tree K V h))

def getMutWrite (s : RState K V) (k : K) (v : V) : RState K V × Option V :=
  match get s k with
  | some (_, old) => ({ s with root := setRec s.height s.root k v }, some old)
  | none => (s, none)

/-- `len_recursive` -/
def lenRec : (h : Nat) → Tree K V h → Nat
  | 0, (l : Leaf K V) => l.keys.length
  | h+1, (b : Branch K (Tree K V h)) => (b.children.map (lenRec h)).sum

def len (s : RState K V) : Nat := lenRec s.height s.root

/-! ## structure listings (for `view`, the dump, and the id invariants) -/

/-- id of the node at the root of a subtree -/
def rootId : (h : Nat) → Tree K V h → Nat
  | 0, (l : Leaf K V) => l.id
  | _+1, (b : Branch K (Tree K V _)) => b.id

/-- a branch as the arena stores it: capacity-free record with child references -/
structure BranchRec (K : Type) where
  id : Nat
  keys : List K
  childIds : List Nat
  childrenAreLeaves : Bool

def branches : (h : Nat) → Tree K V h → List (BranchRec K)
  | 0, _ => []
  | h+1, (b : Branch K (Tree K V h)) =>
    { id := b.id, keys := b.keys, childIds := b.children.map (rootId h), childrenAreLeaves := decide (h = 0) }
      :: b.children.flatMap (branches h)

end BPT.Rust
