import BPT.Core.Tree
/-
  Executable model of rust/src/{insert_operations,node}.rs (insert path) — spike.
  `none` = panic.
-/
namespace BPT.Rust
open BPT

def nullId : Nat := 4294967295

structure Alloc where
  len : Nat
  free : List Nat      -- head = most recently freed (Vec::pop takes it first)
deriving Repr

def Alloc.alloc (a : Alloc) : Nat × Alloc :=
  match a.free with
  | i :: rest => (i, { a with free := rest })
  | [] => (a.len, { a with len := a.len + 1 })

def Alloc.dealloc (a : Alloc) (i : Nat) : Alloc := { a with free := i :: a.free }

structure Allocs where
  leaf : Alloc
  branch : Alloc
deriving Repr

variable {K V : Type} [Keyed K]

inductive InsRes (K V : Type) (h : Nat) where
  | updated (t : Tree K V h) (old : Option V)
  | split (l r : Tree K V h) (sep : K) (old : Option V)

/-- `split1` of the core library, restated on raw fields so this file stays import-light -/
def branchSplit1 (b : Branch K α) (i : Nat) (l r : α) (sep : K) : Branch K α :=
  { b with keys := insertAt b.keys i sep, children := insertAt (setAt b.children i l) (i+1) r }

/-- key absent from the leaf, `i` = insertion index -/
def insertLeafAbsent (cap : Nat) (l : Leaf K V) (k : K) (v : V) (al : Allocs) (i : Nat) : Option (InsRes K V 0 × Allocs) :=
  if l.keys.length < cap then
    some (.updated ({ l with keys := insertAt l.keys i k, vals := insertAt l.vals i v } : Leaf K V) none, al)
  else
    let minK := cap / 2
    let n := l.keys.length
    if n < minK then none else
    let mid := min (max ((n + 1) / 2) minK) (n - minK)
    let newId := al.leaf.alloc.1
    let lk := l.keys.take mid
    let lv := l.vals.take mid
    let rk := l.keys.drop mid
    let rv := l.vals.drop mid
    let left : Leaf K V :=
      if i ≤ mid then { id := l.id, keys := insertAt lk i k, vals := insertAt lv i v, next := newId }
      else { id := l.id, keys := lk, vals := lv, next := newId }
    let right : Leaf K V :=
      if i ≤ mid then { id := newId, keys := rk, vals := rv, next := l.next }
      else { id := newId, keys := insertAt rk (i - mid) k, vals := insertAt rv (i - mid) v, next := l.next }
    match right.keys.head? with
    | none => none
    | some sep => some (.split (left : Leaf K V) (right : Leaf K V) sep none, { al with leaf := al.leaf.alloc.2 })

def insertLeaf (cap : Nat) (l : Leaf K V) (k : K) (v : V) (al : Allocs) : Option (InsRes K V 0 × Allocs) :=
  let i := lowerBound l.keys k
  let found : Bool := match l.keys[i]? with
    | some k' => ord k' = ord k
    | none => false
  if found then
    match l.vals[i]? with
    | some old => some (.updated ({ l with vals := setAt l.vals i v } : Leaf K V) (some old), al)
    | none => some (.updated (l : Leaf K V) none, al)
  else insertLeafAbsent cap l k v al i

def insertRec (cap : Nat) : (h : Nat) → Tree K V h → K → V → Allocs → Option (InsRes K V h × Allocs)
  | 0, (l : Leaf K V), k, v, al => insertLeaf cap l k v al
  | h+1, (b : Branch K (Tree K V h)), k, v, al =>
    let i := upperBound b.keys k
    match b.children[i]? with
    | none => some (.updated (b : Branch K (Tree K V h)) none, al)
    | some c =>
      match insertRec cap h c k v al with
      | none => none
      | some (.updated c' old, al') =>
          some (.updated ({ b with children := setAt b.children i c' } : Branch K (Tree K V h)) old, al')
      | some (.split l r sep old, al') =>
          let b1 := branchSplit1 b i l r sep
          if b.keys.length ≥ cap then
            let mid := cap / 2
            match b1.keys[mid]? with
            | none => none
            | some pk =>
              let right : Branch K (Tree K V h) := { id := al'.branch.alloc.1, keys := b1.keys.drop (mid+1), children := b1.children.drop (mid+1) }
              let left : Branch K (Tree K V h) := { id := b.id, keys := b1.keys.take mid, children := b1.children.take (mid+1) }
              some (.split left right pk old, { al' with branch := al'.branch.alloc.2 })
          else some (.updated (b1 : Branch K (Tree K V h)) old, al')

end BPT.Rust
