import BPT.C.Top
/-
  The C extension's part in CPython's cyclic garbage collection: `BPlusTree_traverse` / `BPlusTree_clear`, both through
  `node_gc_op(node, visit, arg, clear)` (bplustree_module.c).

  The collector's contract for `tp_traverse` is exact: it must call `visit` once for every reference the object
  owns — a reference that is not reported keeps a dead cycle alive (a leak), one that is reported without being owned
  (or reported twice) makes the collector subtract a reference that does not exist and tear down an object that is
  still in use.  `tp_clear` must drop each of those references once.

  `node_gc_op` is transcribed with its loops as they are written — by index, `i < num_keys` for the key and value
  slots and `i <= num_keys` for the children, reading whatever the arrays hold at those indices — *not* as "all keys,
  all values, all children".  That the two coincide is the theorem, and it needs the shape part of the invariant.
-/
namespace BPT.C
open BPT Tree

variable {K V : Type} [Keyed K]

/-- `for (i = 0; i < n; i++) visit(xs[i])` -/
def visitSlots {α β : Type} (n : Nat) (xs : List α) (f : α → β) : List β :=
  (List.range n).filterMap fun i => (xs[i]?).map f

/-- `for (i = 0; i <= n; i++) if (child_i) recurse(child_i)` -/
def visitChildren {α β : Type} (n : Nat) (cs : List α) (g : α → List β) : List β :=
  (List.range (n + 1)).flatMap fun i => match cs[i]? with | some c => g c | none => []

/-- `node_gc_op(node, visit, arg, 0)`: the objects `visit` is called on, in call order -/
def gcVisit : (h : Nat) → Tree K V h → List (Obj K V)
  | 0, (l : Leaf K V) =>
      visitSlots l.keys.length l.keys Obj.key ++ visitSlots l.keys.length l.vals Obj.val
  | h+1, (b : Branch K (Tree K V h)) =>
      visitSlots b.keys.length b.keys Obj.key ++ visitChildren b.keys.length b.children (gcVisit h)

/-- `BPlusTree_traverse` (the root pointer of a constructed tree is never NULL) -/
def gcTraverse (s : CState K V) : List (Obj K V) := gcVisit s.height s.root

/-- `BPlusTree_clear`: `Py_CLEAR` on the same slots in the same order — one DECREF each, no INCREF -/
def gcClear (s : CState K V) : Evs K V := { dec := gcVisit s.height s.root }

/-! ### the loops visit exactly the arrays when the counts are right -/

theorem filterMap_range'_append {α β : Type} (f : α → β) (xs pre : List α) :
    (List.range' pre.length xs.length).filterMap (fun i => ((pre ++ xs)[i]?).map f) = xs.map f := by
  induction xs generalizing pre with
  | nil => simp
  | cons x xs ih =>
    have h := ih (pre ++ [x])
    simp only [List.length_append, List.length_cons, List.length_nil, List.append_assoc, List.cons_append,
      List.nil_append] at h
    simp only [List.length_cons, List.range'_succ, List.filterMap_cons, List.map_cons]
    have hx : (pre ++ x :: xs)[pre.length]? = some x := by simp
    rw [hx]
    simp only [Option.map_some]
    have h1 : pre.length + 0 + 1 = pre.length + 1 := by omega
    simpa [h1] using h

theorem visitSlots_all {α β : Type} (xs : List α) (f : α → β) : visitSlots xs.length xs f = xs.map f := by
  have h := filterMap_range'_append f xs []
  simpa [visitSlots, List.range_eq_range'] using h

theorem flatMap_range'_append {α β : Type} (g : α → List β) (cs pre : List α) :
    (List.range' pre.length cs.length).flatMap (fun i => match (pre ++ cs)[i]? with | some c => g c | none => []) =
      cs.flatMap g := by
  induction cs generalizing pre with
  | nil => simp
  | cons c cs ih =>
    have h := ih (pre ++ [c])
    simp only [List.length_append, List.length_cons, List.length_nil, List.append_assoc, List.cons_append,
      List.nil_append] at h
    simp only [List.length_cons, List.range'_succ, List.flatMap_cons]
    have hx : (pre ++ c :: cs)[pre.length]? = some c := by simp
    rw [hx]
    have h1 : pre.length + 0 + 1 = pre.length + 1 := by omega
    simpa [h1] using h

theorem visitChildren_all {α β : Type} (n : Nat) (cs : List α) (g : α → List β) (h : cs.length = n + 1) :
    visitChildren n cs g = cs.flatMap g := by
  have := flatMap_range'_append g cs []
  unfold visitChildren
  rw [← h]
  simpa [List.range_eq_range'] using this

theorem flatMap_congr_mem {α β : Type} (cs : List α) (g g' : α → List β) (h : ∀ c ∈ cs, g c = g' c) :
    cs.flatMap g = cs.flatMap g' := by
  induction cs with
  | nil => rfl
  | cons c cs ih =>
    simp only [List.flatMap_cons]
    rw [h c (by simp), ih (fun c hc => h c (by simp [hc]))]

/-- **the traverse loop reports exactly the slots**: on a well-shaped subtree, `visit` is called on every key slot,
    every separator slot and every value slot exactly once, and on nothing else -/
theorem gcVisit_eq_slotsOf : ∀ (h : Nat) (t : Tree K V h) (lo hi : Option Int), Ordered h t lo hi →
    gcVisit h t = slotsOf h t
  | 0, (l : Leaf K V), lo, hi, ho => by
    obtain ⟨_, hlen, _⟩ := ho
    show visitSlots l.keys.length l.keys Obj.key ++ visitSlots l.keys.length l.vals Obj.val = _
    rw [visitSlots_all, hlen, visitSlots_all]
    rfl
  | h+1, (b : Branch K (Tree K V h)), lo, hi, ho => by
    obtain ⟨_, hlen, _, hch⟩ := ho
    show visitSlots b.keys.length b.keys Obj.key ++ visitChildren b.keys.length b.children (gcVisit h) = _
    rw [visitSlots_all, visitChildren_all _ _ _ hlen]
    have : b.children.flatMap (gcVisit h) = b.children.flatMap (slotsOf h) := by
      apply flatMap_congr_mem
      intro c hc
      obtain ⟨i, hi', hget⟩ := List.getElem_of_mem hc
      have hget' : b.children[i]? = some c := by rw [List.getElem?_eq_getElem hi', hget]
      exact gcVisit_eq_slotsOf h c _ _ (hch i c hget')
    rw [this]
    rfl

theorem gcTraverse_eq_slots (s : CState K V) (hi : CInv s) : gcTraverse s = slots s :=
  gcVisit_eq_slotsOf s.height s.root none none hi.ord

theorem gcClear_eq_dealloc (s : CState K V) (hi : CInv s) : gcClear s = dealloc s := by
  unfold gcClear dealloc
  rw [show gcVisit s.height s.root = slots s from gcTraverse_eq_slots s hi]

/-- what goes wrong when the count and the array disagree (the reason the shape invariant is needed): a leaf whose
    `num_keys` says 2 but whose value array holds one object — the second value slot is never reported -/
theorem gcVisit_needs_shape :
    gcVisit 0 ({ id := 1, keys := [1, 2], vals := [10], next := noneId } : Leaf Int Nat) ≠
      slotsOf 0 ({ id := 1, keys := [1, 2], vals := [10], next := noneId } : Leaf Int Nat) ∨
    gcVisit 0 ({ id := 1, keys := [1], vals := [10, 20], next := noneId } : Leaf Int Nat) ≠
      slotsOf 0 ({ id := 1, keys := [1], vals := [10, 20], next := noneId } : Leaf Int Nat) := by
  right
  decide

end BPT.C
