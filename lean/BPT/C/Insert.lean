import BPT.Py.Top
import BPT.C.Model
/-
  `tree_insert_recursive` / `node_insert_leaf` / `node_insert_branch` of the C
  extension: on an ordered tree whose nodes hold at most `cap` keys the model never
  reaches an out-of-bounds slot (`Res.ub`), and the result is ordered, within
  capacity, refines `SMap.insert` and changes the leaf chain by at most one split.
  (The proof scheme is the one used for the pure-Python map; the shared lemmas live
  in BPT/Core, BPT/Rust and BPT/Py.)
-/
namespace BPT.C
open BPT Tree
open BPT.Rust (links links_succ links_zero ChainL firstOf)
open BPT.Py (PLinkIns lowerBound_take lowerBound_drop)
variable {K V : Type} [Keyed K]

/-- no node above `cap` keys (the C tree has no lower occupancy bound: deletions never rebalance) -/
def CSized (cap : Nat) : (h : Nat) → Tree K V h → Prop
  | 0, (l : Leaf K V) => l.keys.length ≤ cap
  | h+1, (b : Branch K (Tree K V h)) => b.keys.length ≤ cap ∧ ∀ c ∈ b.children, CSized cap h c

/-- "lower bound, then step right on an equal key" is `bisect_right` on a sorted list -/
theorem routePos_eq (ks : List K) (k : K) (hs : KSorted ks) : routePos ks k = upperBound ks k := by
  induction ks with
  | nil => simp [routePos, lowerBound_nil, upperBound]
  | cons a as ih =>
    have hs' := List.pairwise_cons.1 hs
    have ih := ih hs'.2
    unfold routePos at ih ⊢
    rw [lowerBound_cons, Rust.upperBound_cons]
    by_cases h1 : ord a < ord k
    · have h2 : ord a ≤ ord k := by omega
      simp only [h1, h2, if_true, List.getElem?_cons_succ]
      simp only [] at ih
      cases hk : as[lowerBound as k]? with
      | none => rw [hk] at ih; simp only [] at ih ⊢; omega
      | some k' =>
        rw [hk] at ih
        simp only [] at ih ⊢
        split
        · rename_i he; simp only [he, if_true] at ih; omega
        · rename_i he; simp only [he, if_false] at ih; omega
    · simp only [h1, if_false, List.getElem?_cons_zero]
      by_cases h2 : ord a = ord k
      · have h3 : ord a ≤ ord k := by omega
        -- every later key is above `a = k`
        have hub : upperBound as k = 0 := by
          cases as with
          | nil => simp [upperBound]
          | cons b bs =>
            rw [Rust.upperBound_cons]
            have := hs'.1 b List.mem_cons_self
            have : ¬ ord b ≤ ord k := by omega
            simp [this]
        rw [if_pos h2, if_pos h3, hub]
      · have h3 : ¬ ord a ≤ ord k := by omega
        simp [h2, h3]

def InsRes.links {h : Nat} : InsRes K V h → List (Nat × Nat)
  | .updated t => Rust.links h t
  | .inserted t => Rust.links h t
  | .split a b _ => Rust.links h a ++ Rust.links h b

/-- postcondition of the insert recursion on a subtree `t` -/
def InsPost (cap h : Nat) (lo hi : Option Int) (t : Tree K V h) (k : K) (v : V) : InsRes K V h → Prop
  | .updated t' => Ordered h t' lo hi ∧ toList h t' = SMap.insert (toList h t) k v ∧ CSized cap h t' ∧
      (SMap.lookup (toList h t) k).isSome
  | .inserted t' => Ordered h t' lo hi ∧ toList h t' = SMap.insert (toList h t) k v ∧ CSized cap h t' ∧
      SMap.lookup (toList h t) k = none
  | .split a b sep => Ordered h a lo (some (ord sep)) ∧ Ordered h b (some (ord sep)) hi ∧ InB lo hi (ord sep) ∧
      (∀ x, lo = some x → x < ord sep) ∧ toList h a ++ toList h b = SMap.insert (toList h t) k v ∧
      CSized cap h a ∧ CSized cap h b ∧ SMap.lookup (toList h t) k = none

theorem insertLeaf_spec (cfg : Cfg) (cap : Nat) (hcap : 4 ≤ cap) (l : Leaf K V) (lo hi : Option Int) (k : K) (v : V) (nid : Nat)
    (ho : Ordered 0 (l : Tree K V 0) lo hi) (hk : InB lo hi (ord k)) (hsz : l.keys.length ≤ cap) :
    ∃ res ev, insertLeaf cfg cap l k v nid = .ok (res, ev) ∧ InsPost cap 0 lo hi (l : Tree K V 0) k v res ∧
      PLinkIns (links 0 (l : Tree K V 0)) res.links nid (match res with | .split _ _ _ => nid + 1 | _ => nid) := by
  have ho' := ho
  obtain ⟨hs, hl, hb⟩ := ho
  have hzip := SMap.insert_zip l.keys l.vals k v hs hl
  have hlook := SMap.lookup_zip l.keys l.vals k hs hl
  have hi_le := lowerBound_le l.keys k
  have hiv_le : lowerBound l.keys k ≤ l.vals.length := by omega
  have htl : toList 0 (l : Tree K V 0) = l.keys.zip l.vals := toList_zero _
  -- the key-absent part, shared by the two shapes of `keys[i]?`
  have absent : (∀ k', l.keys[lowerBound l.keys k]? = some k' → ord k' ≠ ord k) →
      ∃ res ev, insertLeafAbsent cfg cap l k v nid (lowerBound l.keys k) = .ok (res, ev) ∧
        InsPost cap 0 lo hi (l : Tree K V 0) k v res ∧
        PLinkIns (links 0 (l : Tree K V 0)) res.links nid (match res with | .split _ _ _ => nid + 1 | _ => nid) := by
    intro hnf
    have hcond : ¬ (Option.map ord l.keys[lowerBound l.keys k]? = some (ord k)) := by
      cases hk' : l.keys[lowerBound l.keys k]? with
      | none => simp
      | some k' => simpa using hnf k' hk'
    rw [if_neg hcond] at hzip
    have hnone : SMap.lookup (l.keys.zip l.vals) k = none := by
      rw [hlook]
      cases hk' : l.keys[lowerBound l.keys k]? with
      | none => rfl
      | some k' =>
        cases hv' : l.vals[lowerBound l.keys k]? with
        | none => rfl
        | some v' => simp [hnf k' hk']
    have hE := Rust.ksorted_insert_lb l.keys k hs hnf
    have hEb : ∀ x ∈ insertAt l.keys (lowerBound l.keys k) k, InB lo hi (ord x) := by
      intro x hx
      rcases (mem_insertAt _ _ _ _).1 hx with rfl | hx
      · exact hk
      · exact hb x hx
    have hEl : (insertAt l.keys (lowerBound l.keys k) k).length = (insertAt l.vals (lowerBound l.keys k) v).length := by
      rw [length_insertAt _ _ _ hi_le, length_insertAt _ _ _ hiv_le, hl]
    have hElen : (insertAt l.keys (lowerBound l.keys k) k).length = l.keys.length + 1 := length_insertAt _ _ _ hi_le
    unfold insertLeafAbsent
    by_cases hfull : l.keys.length ≥ cap
    · have hn : l.keys.length = cap := by omega
      simp only [hfull, if_true]
      unfold splitLeaf
      simp only []
      have g1 : ¬ ((insertAt l.keys (lowerBound l.keys k) k).length > cap + 1 ∨ (insertAt l.vals (lowerBound l.keys k) v).length > cap + 1) := by
        rw [← hEl, hElen]; omega
      have g2 : ¬ (cap / 2 > cap ∨ cap + 1 - cap / 2 > cap) := by omega
      have g3 : ¬ (cap / 2 + (cap + 1 - cap / 2) > (insertAt l.keys (lowerBound l.keys k) k).length ∨
          cap / 2 + (cap + 1 - cap / 2) > (insertAt l.vals (lowerBound l.keys k) v).length) := by
        rw [← hEl, hElen]; omega
      simp only [g1, g2, g3, if_false]
      -- the right half is everything from `mid` on
      have hrk : ((insertAt l.keys (lowerBound l.keys k) k).drop (cap / 2)).take (cap + 1 - cap / 2) =
          (insertAt l.keys (lowerBound l.keys k) k).drop (cap / 2) := by
        apply List.take_of_length_le; rw [List.length_drop, hElen]; omega
      have hrv : ((insertAt l.vals (lowerBound l.keys k) v).drop (cap / 2)).take (cap + 1 - cap / 2) =
          (insertAt l.vals (lowerBound l.keys k) v).drop (cap / 2) := by
        apply List.take_of_length_le; rw [List.length_drop, ← hEl, hElen]; omega
      rw [hrk, hrv]
      cases hh : ((insertAt l.keys (lowerBound l.keys k) k).drop (cap / 2)).head? with
      | none =>
        exfalso
        have : (insertAt l.keys (lowerBound l.keys k) k).drop (cap / 2) = [] := by simpa using hh
        have := congrArg List.length this
        rw [List.length_drop, hElen] at this
        simp at this; omega
      | some sep =>
        simp only []
        have hcut := Rust.leaf_cut_spec _ _ (cap / 2) lo hi sep hE hEl hEb hh l.id nid nid l.next
        refine ⟨_, _, rfl, ⟨hcut.1, hcut.2.1, hcut.2.2, ?_, ?_, ?_, ?_, by rw [htl]; exact hnone⟩, ?_⟩
        · intro x hx
          obtain ⟨_, _, hab⟩ := hcut.1
          have hne : (insertAt l.keys (lowerBound l.keys k) k).take (cap / 2) ≠ [] := by
            intro hnil
            have := congrArg List.length hnil
            rw [List.length_take, hElen] at this
            simp at this; omega
          obtain ⟨a0, ha0⟩ := List.exists_mem_of_ne_nil _ hne
          have := hab a0 ha0
          have h6' := this.1 x hx
          have h7' := this.2 (ord sep) rfl
          omega
        · rw [htl, toList_zero, toList_zero]
          simp only [Leaf.entries]
          rw [Rust.entries_split, hzip]
        · show ((insertAt l.keys (lowerBound l.keys k) k).take (cap / 2)).length ≤ cap
          rw [List.length_take, hElen]; omega
        · show ((insertAt l.keys (lowerBound l.keys k) k).drop (cap / 2)).length ≤ cap
          rw [List.length_drop, hElen]; omega
        · exact .split [] [] l.id l.next rfl rfl rfl
    · simp only [hfull, if_false]
      refine ⟨_, _, rfl, ⟨⟨hE, hEl, hEb⟩, ?_, ?_, by rw [htl]; exact hnone⟩, .same rfl rfl⟩
      · rw [htl, toList_zero]; simp only [Leaf.entries]; exact hzip.symm
      · show (insertAt l.keys _ k).length ≤ cap
        rw [hElen]; omega
  unfold insertLeaf
  simp only []
  cases hk' : l.keys[lowerBound l.keys k]? with
  | some k' =>
    by_cases heq : ord k' = ord k
    · have hlt : lowerBound l.keys k < l.keys.length := lt_of_getElem?_eq_some hk'
      have hltv : lowerBound l.keys k < l.vals.length := by omega
      simp only [heq, decide_true, if_true, List.getElem?_eq_getElem hltv]
      refine ⟨_, _, rfl, ⟨⟨hs, by simp [length_setAt _ _ _ hltv, hl], hb⟩, ?_, hsz, ?_⟩, .same rfl rfl⟩
      · rw [htl, toList_zero]
        simp only [Leaf.entries]
        rw [hzip, hk']; simp [heq]
      · rw [htl, hlook, hk', List.getElem?_eq_getElem hltv]; simp [heq]
    · simp only [heq, decide_false, Bool.false_eq_true, if_false]
      exact absent (by intro k'' h; rw [hk'] at h; cases h; exact heq)
  | none =>
    simp only [Bool.false_eq_true, if_false]
    exact absent (by intro k'' h; rw [hk'] at h; cases h)

/-- the position `node_insert_branch` finds for a separator lying strictly between the bounds of child `i` is `i` -/
theorem lowerBound_sep (ks : List K) (lo hi : Option Int) (i : Nat) (sep : K) (hs : KSorted ks) (hi' : i ≤ ks.length)
    (h1 : ∀ x ∈ ks.take i, ord x < ord sep) (h2 : ∀ x ∈ ks.drop i, ord sep < ord x) : lowerBound ks sep = i := by
  induction ks generalizing i with
  | nil => simp at hi'; subst hi'; simp [lowerBound_nil]
  | cons a as ih =>
    have hs' := List.pairwise_cons.1 hs
    rw [lowerBound_cons]
    cases i with
    | zero =>
      have := h2 a (by simp)
      have : ¬ ord a < ord sep := by omega
      simp [this]
    | succ i =>
      have := h1 a (by simp)
      simp only [this, if_true]
      rw [ih i hs'.2 (by simpa using hi') (by intro x hx; exact h1 x (by simp [hx])) (by intro x hx; exact h2 x (by simpa using hx))]

theorem insertRec_spec (cfg : Cfg) (cap : Nat) (hcap : 4 ≤ cap) :
    ∀ (h : Nat) (t : Tree K V h) (lo hi : Option Int) (k : K) (v : V) (nid : Nat),
      Ordered h t lo hi → InB lo hi (ord k) → CSized cap h t →
      ∃ res ev nid', insertRec cfg cap h t k v nid = .ok (res, ev, nid') ∧ InsPost cap h lo hi t k v res ∧
        PLinkIns (links h t) res.links nid nid' := by
  intro h
  induction h with
  | zero =>
    intro t lo hi k v nid ho hk hsz
    obtain ⟨res, ev, he, hp, hlk⟩ := insertLeaf_spec cfg cap hcap (t : Leaf K V) lo hi k v nid ho hk hsz
    refine ⟨res, ev, _, ?_, hp, hlk⟩
    unfold insertRec
    rw [he]; rfl
  | succ h ih =>
    intro t lo hi k v nid ho hk hsz
    have ho' := ho
    obtain ⟨hs, hlen, hkb, hc⟩ := ho
    obtain ⟨hz2, hz3⟩ := hsz
    have hle := Rust.upperBound_le (Branch.keys t) k
    have hic : upperBound (Branch.keys t) k < (Branch.children t).length := by omega
    have hci : (Branch.children t)[upperBound (Branch.keys t) k]? = some (Branch.children t)[upperBound (Branch.keys t) k] :=
      List.getElem?_eq_getElem hic
    generalize hcdef : (Branch.children t)[upperBound (Branch.keys t) k] = c at hci
    have hcm : c ∈ Branch.children t := List.mem_of_getElem? hci
    have hco := hc _ c hci
    have hkc := Rust.route_inB (Branch.keys t) lo hi k hs hk
    obtain ⟨cres, cev, nid1, he, hr, hlk⟩ := ih c _ _ k v nid hco hkc (hz3 c hcm)
    have hsplit := flatMap_split (toList h) (Branch.children t) _ c hci
    have hlsplit := flatMap_split (links h) (Branch.children t) _ c hci
    have hA := Rust.left_lt h t lo hi ho' k
    have hB := Rust.right_gt h t lo hi ho' k
    have hins : ∀ M, SMap.insert (((Branch.children t).take (upperBound (Branch.keys t) k)).flatMap (toList h) ++ M ++
          ((Branch.children t).drop (upperBound (Branch.keys t) k + 1)).flatMap (toList h)) k v =
        ((Branch.children t).take (upperBound (Branch.keys t) k)).flatMap (toList h) ++ SMap.insert M k v ++
          ((Branch.children t).drop (upperBound (Branch.keys t) k + 1)).flatMap (toList h) := by
      intro M
      rw [List.append_assoc, SMap.insert_append_left _ _ _ _ hA, SMap.insert_append_right _ _ _ _ hB, List.append_assoc]
    have hlook : SMap.lookup (toList (h+1) t) k = SMap.lookup (toList h c) k := by
      rw [toList_succ, hsplit, List.append_assoc, SMap.lookup_append_left _ _ _ hA, SMap.lookup_append_right _ _ _ hB]
    unfold insertRec
    simp only [routePos_eq _ _ hs, hci, he, Res.bind_ok]
    -- replacing the routed child by an updated one
    have replaced : ∀ c', Ordered h c' (loAt (Branch.keys t) lo (upperBound (Branch.keys t) k)) (hiAt (Branch.keys t) hi (upperBound (Branch.keys t) k)) →
        toList h c' = SMap.insert (toList h c) k v → CSized cap h c' →
        Ordered (h+1) ({ (t : Branch K (Tree K V h)) with children := setAt (Branch.children t) (upperBound (Branch.keys t) k) c' } : Branch K (Tree K V h)) lo hi ∧
        toList (h+1) ({ (t : Branch K (Tree K V h)) with children := setAt (Branch.children t) (upperBound (Branch.keys t) k) c' } : Branch K (Tree K V h)) = SMap.insert (toList (h+1) t) k v ∧
        CSized cap (h+1) ({ (t : Branch K (Tree K V h)) with children := setAt (Branch.children t) (upperBound (Branch.keys t) k) c' } : Branch K (Tree K V h)) := by
      intro c' h1 h2 h3
      refine ⟨ordered_replace1 h t lo hi _ c' ho' hic h1, ?_, hz2, ?_⟩
      · rw [toList_succ, toList_succ]
        show (setAt (Branch.children t) _ c').flatMap (toList h) = _
        rw [flatMap_setAt, hsplit, hins, h2]
      · intro x hx
        rcases Py.mem_setAt' _ _ _ _ hx with rfl | hx
        · exact h3
        · exact hz3 x hx
    have replacedLinks : ∀ c', PLinkIns (links h c) (links h c') nid nid1 →
        PLinkIns (links (h+1) t) (links (h+1) ({ (t : Branch K (Tree K V h)) with children := setAt (Branch.children t) (upperBound (Branch.keys t) k) c' } : Branch K (Tree K V h))) nid nid1 := by
      intro c' hl
      rw [links_succ, links_succ]
      show PLinkIns _ ((setAt (Branch.children t) _ c').flatMap (links h)) nid nid1
      rw [flatMap_setAt, hlsplit]
      exact hl.ctx _ _
    cases cres with
    | updated c' =>
      obtain ⟨hr1, hr2, hr3, hr4⟩ := hr
      obtain ⟨g1, g2, g3⟩ := replaced c' hr1 hr2 hr3
      exact ⟨_, _, _, rfl, ⟨g1, g2, g3, by rw [hlook]; exact hr4⟩, replacedLinks c' hlk⟩
    | inserted c' =>
      obtain ⟨hr1, hr2, hr3, hr4⟩ := hr
      obtain ⟨g1, g2, g3⟩ := replaced c' hr1 hr2 hr3
      exact ⟨_, _, _, rfl, ⟨g1, g2, g3, by rw [hlook]; exact hr4⟩, replacedLinks c' hlk⟩
    | split l r sep =>
      obtain ⟨hl, hr', hsepB, hstrict, hlr, hsl, hsr, hnone⟩ := hr
      have h1 := Rust.keys_take_lt_of_lo (Branch.keys t) lo _ (ord sep) hs hle hstrict
      have h2 := Rust.keys_drop_gt_of_hi (Branch.keys t) hi _ (ord sep) hs (fun x hx => hsepB.2 x hx)
      have hpos : lowerBound (Branch.keys t) sep = upperBound (Branch.keys t) k :=
        lowerBound_sep (Branch.keys t) lo hi _ sep hs hle h1 h2
      have hsepB' : InB lo hi (ord sep) := by
        constructor
        · intro x hx
          by_cases h0 : upperBound (Branch.keys t) k = 0
          · exact hsepB.1 x (by unfold loAt; rw [if_pos h0]; exact hx)
          · have hlt : upperBound (Branch.keys t) k - 1 < (Branch.keys t).length := by omega
            have hk1 := (hkb _ (List.getElem_mem hlt)).1 x hx
            have := hsepB.1 (ord (Branch.keys t)[upperBound (Branch.keys t) k - 1]) (by
              unfold loAt; rw [if_neg h0, List.getElem?_eq_getElem hlt]; rfl)
            omega
        · intro x hx
          by_cases h0 : upperBound (Branch.keys t) k = (Branch.keys t).length
          · exact hsepB.2 x (by unfold hiAt; rw [if_pos h0]; exact hx)
          · have hlt : upperBound (Branch.keys t) k < (Branch.keys t).length := by omega
            have hk1 := (hkb _ (List.getElem_mem hlt)).2 x hx
            have := hsepB.2 (ord (Branch.keys t)[upperBound (Branch.keys t) k]) (by
              unfold hiAt; rw [if_neg h0, List.getElem?_eq_getElem hlt]; rfl)
            omega
      have hb1 : Ordered (h+1) ((t : Branch K (Tree K V h)).split1 (upperBound (Branch.keys t) k) l r sep) lo hi :=
        ordered_split1 h t lo hi _ l r sep ho' hic hl hr' h1 h2 hsepB'
      have hb1ch : insertAt (setAt (Branch.children t) (upperBound (Branch.keys t) k) l) (upperBound (Branch.keys t) k + 1) r =
          (Branch.children t).take (upperBound (Branch.keys t) k) ++ l :: r :: (Branch.children t).drop (upperBound (Branch.keys t) k + 1) :=
        insertAt_setAt_eq _ _ _ _ hic
      have hb1list : (insertAt (setAt (Branch.children t) (upperBound (Branch.keys t) k) l) (upperBound (Branch.keys t) k + 1) r).flatMap (toList h) =
          SMap.insert (toList (h+1) t) k v := by
        rw [toList_succ, hsplit, hins, ← hlr, hb1ch]
        simp [List.flatMap_append]
      have hb1links : (insertAt (setAt (Branch.children t) (upperBound (Branch.keys t) k) l) (upperBound (Branch.keys t) k + 1) r).flatMap (links h) =
          ((Branch.children t).take (upperBound (Branch.keys t) k)).flatMap (links h) ++ (links h l ++ links h r) ++
          ((Branch.children t).drop (upperBound (Branch.keys t) k + 1)).flatMap (links h) := by
        rw [hb1ch]; simp [List.flatMap_append]
      have hmemb1 : ∀ x ∈ insertAt (setAt (Branch.children t) (upperBound (Branch.keys t) k) l) (upperBound (Branch.keys t) k + 1) r,
          CSized cap h x := by
        intro x hx
        rcases (mem_insertAt _ _ _ _).1 hx with rfl | hx
        · exact hsr
        · rcases Py.mem_setAt' _ _ _ _ hx with rfl | hx
          · exact hsl
          · exact hz3 x hx
      have hb1len : (insertAt (Branch.keys t) (upperBound (Branch.keys t) k) sep).length = (Branch.keys t).length + 1 :=
        length_insertAt _ _ _ hle
      have hb1clen : (insertAt (setAt (Branch.children t) (upperBound (Branch.keys t) k) l) (upperBound (Branch.keys t) k + 1) r).length = (Branch.children t).length + 1 := by
        rw [length_insertAt _ _ _ (by rw [length_setAt _ _ _ hic]; omega), length_setAt _ _ _ hic]
      have hlinks_t : PLinkIns ((Branch.children t).flatMap (links h))
          (((Branch.children t).take (upperBound (Branch.keys t) k)).flatMap (links h) ++ (links h l ++ links h r) ++
            ((Branch.children t).drop (upperBound (Branch.keys t) k + 1)).flatMap (links h)) nid nid1 := by
        rw [hlsplit]
        exact hlk.ctx _ _
      have hnone' : SMap.lookup (toList (h+1) t) k = none := by rw [hlook]; exact hnone
      unfold insertBranch
      simp only [hpos]
      by_cases hfull : (Branch.keys t).length ≥ cap
      · have hn : (Branch.keys t).length = cap := by omega
        simp only [hfull, if_true]
        have g1 : ¬ ((insertAt (Branch.keys t) (upperBound (Branch.keys t) k) sep).length > cap + 1 ∨
            (insertAt (setAt (Branch.children t) (upperBound (Branch.keys t) k) l) (upperBound (Branch.keys t) k + 1) r).length > cap + 2) := by
          rw [hb1len, hb1clen]; omega
        have g2 : ¬ (cap / 2 + 1 + (cap - cap / 2) > (insertAt (Branch.keys t) (upperBound (Branch.keys t) k) sep).length ∨
            cap / 2 + 1 + (cap - cap / 2) + 1 > (insertAt (setAt (Branch.children t) (upperBound (Branch.keys t) k) l) (upperBound (Branch.keys t) k + 1) r).length) := by
          rw [hb1len, hb1clen]; omega
        simp only [g1, g2, if_false]
        cases hpk : (insertAt (Branch.keys t) (upperBound (Branch.keys t) k) sep)[cap / 2]? with
        | none =>
          exfalso
          have := List.getElem?_eq_none_iff.1 hpk
          omega
        | some pk =>
          simp only [Res.map_ok]
          have hrk : ((insertAt (Branch.keys t) (upperBound (Branch.keys t) k) sep).drop (cap / 2 + 1)).take (cap - cap / 2) =
              (insertAt (Branch.keys t) (upperBound (Branch.keys t) k) sep).drop (cap / 2 + 1) := by
            apply List.take_of_length_le; rw [List.length_drop, hb1len]; omega
          have hrc : ((insertAt (setAt (Branch.children t) (upperBound (Branch.keys t) k) l) (upperBound (Branch.keys t) k + 1) r).drop (cap / 2 + 1)).take (cap - cap / 2 + 1) =
              (insertAt (setAt (Branch.children t) (upperBound (Branch.keys t) k) l) (upperBound (Branch.keys t) k + 1) r).drop (cap / 2 + 1) := by
            apply List.take_of_length_le; rw [List.length_drop, hb1clen]; omega
          rw [hrk, hrc]
          obtain ⟨hL, hR, hpkB⟩ := branch_cut_spec h _ lo hi (cap / 2) pk (Branch.id t) 0 hb1 hpk
          refine ⟨_, _, _, rfl, ⟨hL, hR, hpkB, ?_, ?_, ⟨?_, ?_⟩, ⟨?_, ?_⟩, hnone'⟩, ?_⟩
          · intro x hx
            obtain ⟨_, _, hLk, _⟩ := hL
            have hne : (insertAt (Branch.keys t) (upperBound (Branch.keys t) k) sep).take (cap / 2) ≠ [] := by
              intro hnil
              have := congrArg List.length hnil
              rw [List.length_take, hb1len, List.length_nil] at this
              omega
            obtain ⟨k0, hk0⟩ := List.exists_mem_of_ne_nil _ hne
            have := hLk k0 hk0
            have h6 := this.1 x hx
            have h7 := this.2 (ord pk) rfl
            omega
          · rw [toList_succ, toList_succ, ← hb1list]
            show List.flatMap (toList h) (List.take _ _) ++ List.flatMap (toList h) (List.drop _ _) = _
            rw [← List.flatMap_append, List.take_append_drop]
          · show (List.take _ (insertAt (Branch.keys t) _ sep)).length ≤ cap
            rw [List.length_take, hb1len]; omega
          · intro x hx; exact hmemb1 x (List.mem_of_mem_take hx)
          · show (List.drop _ (insertAt (Branch.keys t) _ sep)).length ≤ cap
            rw [List.length_drop, hb1len]; omega
          · intro x hx; exact hmemb1 x (List.mem_of_mem_drop hx)
          · simp only [InsRes.links, links_succ]
            rw [← List.flatMap_append, List.take_append_drop, hb1links]
            exact hlinks_t
      · have g3 : ¬ (upperBound (Branch.keys t) k + 1 > cap) := by omega
        simp only [hfull, if_false, g3, Res.map_ok]
        refine ⟨_, _, _, rfl, ⟨hb1, ?_, ⟨?_, hmemb1⟩, hnone'⟩, ?_⟩
        · rw [toList_succ]; exact hb1list
        · show (insertAt (Branch.keys t) _ sep).length ≤ cap
          rw [hb1len]; omega
        · simp only [InsRes.links, links_succ]
          rw [hb1links]
          exact hlinks_t

end BPT.C
