import BPT.Core.Spec
/-
  Glue of the C extension that the tree model abstracts:

  * `node_find_position` is a hand-written binary search; the tree model uses
    `lowerBound` (a left-to-right count).  On a strictly ascending key array (which
    `CInv` guarantees for every node) the two agree — `nodeFindPosition_eq`.
  * `fast_compare_lt` / `fast_compare_eq` take a C-`long` fast path for exact ints and
    fall back to rich comparison when either operand does not fit; both paths give the
    mathematical order — `fastLtInt_eq`, `fastEqInt_eq`.
-/
namespace BPT.C
open BPT
variable {K : Type} [Keyed K]

/-- the loop of `node_find_position`: `left`, `right` as in the source, fuel = iterations left -/
def findPositionLoop (lt : K → K → Bool) (ks : List K) (k : K) : Nat → Nat → Nat → Nat
  | 0, left, _ => left
  | f+1, left, right =>
    if left < right then
      let mid := (left + right) / 2
      match ks[mid]? with
      | some mk => if lt mk k then findPositionLoop lt ks k f (mid + 1) right else findPositionLoop lt ks k f left mid
      | none => left            -- not reachable: mid < right ≤ num_keys
    else left

/-- `node_find_position(node, key)` over the node's keys -/
def nodeFindPosition (lt : K → K → Bool) (ks : List K) (k : K) : Nat :=
  findPositionLoop lt ks k (ks.length + 1) 0 ks.length

/-- the lower bound is the only cut with everything before it below `k` and everything from it on at or above `k` -/
theorem lowerBound_unique (ks : List K) (k : K) (hs : KSorted ks) (p : Nat) (hp : p ≤ ks.length)
    (hlo : ∀ (i : Nat) (h : i < ks.length), i < p → ord ks[i] < ord k)
    (hhi : ∀ (i : Nat) (h : i < ks.length), p ≤ i → ord k ≤ ord ks[i]) : lowerBound ks k = p := by
  obtain ⟨h1, h2⟩ := lowerBound_spec ks k hs
  have hq := lowerBound_le ks k
  by_cases hlt : lowerBound ks k < p
  · -- ks[q] is in the dropped part, hence ≥ k, but q < p says < k
    have hql : lowerBound ks k < ks.length := by omega
    have hm : ks[lowerBound ks k] ∈ ks.drop (lowerBound ks k) := by
      rw [List.mem_drop_iff_getElem]
      exact ⟨0, by simpa using hql, by simp⟩
    have := h2 _ hm
    have := hlo _ hql hlt
    omega
  · by_cases hgt : p < lowerBound ks k
    · have hpl : p < ks.length := by omega
      have hm : ks[p] ∈ ks.take (lowerBound ks k) := by
        rw [List.mem_take_iff_getElem]
        exact ⟨p, by omega, rfl⟩
      have := h1 _ hm
      have := hhi p hpl (Nat.le_refl _)
      omega
    · omega

theorem findPositionLoop_eq (lt : K → K → Bool) (hlt : ∀ a b, lt a b = decide (ord a < ord b)) (ks : List K) (k : K) (hs : KSorted ks) :
    ∀ (f left right : Nat), left ≤ right → right ≤ ks.length → right - left < f →
      (∀ (i : Nat) (h : i < ks.length), i < left → ord ks[i] < ord k) →
      (∀ (i : Nat) (h : i < ks.length), right ≤ i → ord k ≤ ord ks[i]) →
      findPositionLoop lt ks k f left right = lowerBound ks k := by
  have hsorted := List.pairwise_iff_getElem.1 hs
  intro f
  induction f with
  | zero => intro left right _ _ hf; omega
  | succ f ih =>
    intro left right hlr hrl hf hlo hhi
    unfold findPositionLoop
    by_cases hc : left < right
    · rw [if_pos hc]
      have hmid1 : left ≤ (left + right) / 2 := by omega
      have hmid2 : (left + right) / 2 < right := by omega
      have hml : (left + right) / 2 < ks.length := by omega
      simp only [List.getElem?_eq_getElem hml]
      rw [hlt]
      by_cases hb : ord ks[(left + right) / 2] < ord k
      · simp only [hb, decide_true, if_true]
        apply ih _ _ (by omega) hrl (by omega) _ hhi
        intro i hi hil
        by_cases he : i = (left + right) / 2
        · subst he; exact hb
        · have := hsorted i ((left + right) / 2) hi hml (by omega)
          omega
      · simp only [hb, decide_false, Bool.false_eq_true, if_false]
        apply ih _ _ hmid1 (by omega) (by omega) hlo
        intro i hi hmi
        by_cases he : i = (left + right) / 2
        · subst he; omega
        · have := hsorted ((left + right) / 2) i hml hi (by omega)
          omega
    · rw [if_neg hc]
      have : left = right := by omega
      subst this
      exact (lowerBound_unique ks k hs left hrl hlo hhi).symm

/-- **`node_find_position` = lower bound** on a strictly ascending key array -/
theorem nodeFindPosition_eq (lt : K → K → Bool) (hlt : ∀ a b, lt a b = decide (ord a < ord b)) (ks : List K) (k : K) (hs : KSorted ks) :
    nodeFindPosition lt ks k = lowerBound ks k :=
  findPositionLoop_eq lt hlt ks k hs _ 0 ks.length (Nat.zero_le _) (Nat.le_refl _) (by omega)
    (fun i _ hi => by omega) (fun i h hi => by omega)

/-! ### comparison fast paths for exact ints -/

/-- `PyLong_AsLong`: the value if it fits a 64-bit C `long`, otherwise OverflowError is set (`none`) -/
def asLong (n : Int) : Option Int := if -9223372036854775808 ≤ n ∧ n ≤ 9223372036854775807 then some n else none

/-- the int branch of `fast_compare_lt`: both conversions, then `!PyErr_Occurred()`; otherwise clear the error and fall
    through to `PyObject_RichCompareBool(a, b, Py_LT)` -/
def fastLtInt (a b : Int) : Bool :=
  match asLong a, asLong b with
  | some x, some y => decide (x < y)
  | _, _ => decide (a < b)

def fastEqInt (a b : Int) : Bool :=
  match asLong a, asLong b with
  | some x, some y => decide (x = y)
  | _, _ => decide (a = b)

theorem asLong_some (n x : Int) (h : asLong n = some x) : x = n := by
  unfold asLong at h
  split at h
  · cases h; rfl
  · cases h

/-- the fast path and the fallback give the same answer: the order of the integers, whatever their size -/
theorem fastLtInt_eq (a b : Int) : fastLtInt a b = decide (a < b) := by
  unfold fastLtInt
  cases ha : asLong a with
  | none => rfl
  | some x =>
    cases hb : asLong b with
    | none => rfl
    | some y => simp only []; rw [asLong_some a x ha, asLong_some b y hb]

theorem fastEqInt_eq (a b : Int) : fastEqInt a b = decide (a = b) := by
  unfold fastEqInt
  cases ha : asLong a with
  | none => rfl
  | some x =>
    cases hb : asLong b with
    | none => rfl
    | some y => simp only []; rw [asLong_some a x ha, asLong_some b y hb]

/-! ### the exact-str branch -/

/-- the str branch of `fast_compare_lt`: `result = PyUnicode_Compare(a, b)` (−1, 0 or 1; −1 *with* an error set on failure);
    `if (result != -1 || !PyErr_Occurred()) return result < 0`; otherwise clear the error and fall through -/
def fastLtStr (result : Int) (errSet : Bool) (fallback : Bool) : Bool :=
  if result ≠ -1 ∨ errSet = false then decide (result < 0) else fallback

def fastEqStr (result : Int) (errSet : Bool) (fallback : Bool) : Bool :=
  if result ≠ -1 ∨ errSet = false then decide (result = 0) else fallback

/-- without an error the branch answers by the sign `PyUnicode_Compare` returned — in particular a genuine −1 ("less")
    is not mistaken for a failure — and with an error it defers to rich comparison -/
theorem fastLtStr_spec (result : Int) (fallback : Bool) :
    fastLtStr result false fallback = decide (result < 0) ∧ fastEqStr result false fallback = decide (result = 0) ∧
    fastLtStr (-1) true fallback = fallback ∧ fastEqStr (-1) true fallback = fallback := by
  refine ⟨by simp [fastLtStr], by simp [fastEqStr], by simp [fastLtStr], by simp [fastEqStr]⟩

/-- both regimes occur: a small and a huge operand -/
example : asLong 5 = some 5 ∧ asLong (2 ^ 64) = none ∧ fastLtInt 5 (2 ^ 64) = true ∧ fastLtInt (2 ^ 64) 5 = false ∧
    fastLtInt (-1) (2 ^ 64) = true := by decide

end BPT.C
