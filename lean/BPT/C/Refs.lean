import BPT.C.Top
/-
  Reference-count balance of the C extension model (with D9 repaired): for every
  call, as multisets,

      slots after  ++  DECREFs   =   slots before  ++  INCREFs

  where the slots are all key / value references held by tree nodes (leaf keys,
  separator copies, values).  Hence every occupied slot owns exactly one
  reference, and `dealloc` releases exactly what is owned.
-/
namespace BPT.C
open BPT Tree
variable {K V : Type} [Keyed K]

theorem perm_insertAt {α : Type} (l : List α) (i : Nat) (x : α) : (insertAt l i x).Perm (x :: l) := by
  unfold insertAt
  have h1 : (l.take i ++ x :: l.drop i).Perm (x :: (l.take i ++ l.drop i)) := List.perm_middle
  rw [List.take_append_drop] at h1
  exact h1

theorem perm_setAt {α : Type} (l : List α) (i : Nat) (x old : α) (h : l[i]? = some old) :
    (old :: setAt l i x).Perm (x :: l) := by
  have hl := eq_take_cons_drop l i old h
  unfold setAt
  have h1 : (l.take i ++ x :: l.drop (i+1)).Perm (x :: (l.take i ++ l.drop (i+1))) := List.perm_middle
  have h2 : l.Perm (old :: (l.take i ++ l.drop (i+1))) := by
    conv => lhs; rw [hl]
    exact List.perm_middle
  calc (old :: (l.take i ++ x :: l.drop (i+1))).Perm (old :: x :: (l.take i ++ l.drop (i+1))) := List.Perm.cons _ h1
    _ |>.Perm (x :: old :: (l.take i ++ l.drop (i+1))) := List.Perm.swap _ _ _
    _ |>.Perm (x :: l) := List.Perm.cons _ h2.symm

theorem perm_removeAt {α : Type} (l : List α) (i : Nat) (old : α) (h : l[i]? = some old) :
    (old :: removeAt l i).Perm l := by
  have hl := eq_take_cons_drop l i old h
  unfold removeAt
  conv => rhs; rw [hl]
  exact List.perm_middle.symm

def InsRes.slots {h : Nat} : InsRes K V h → List (Obj K V)
  | .updated t => slotsOf h t
  | .inserted t => slotsOf h t
  | .split a b sep => slotsOf h a ++ slotsOf h b ++ [Obj.key (V := V) sep]      -- `sep` is an owned reference in transit

theorem slotsOf_zero (l : Leaf K V) : slotsOf 0 (l : Tree K V 0) = l.keys.map (Obj.key (V := V)) ++ l.vals.map (Obj.val (K := K)) := rfl
theorem slotsOf_succ (h : Nat) (b : Branch K (Tree K V h)) :
    slotsOf (h+1) (b : Tree K V (h+1)) = b.keys.map (Obj.key (V := V)) ++ b.children.flatMap (slotsOf h) := rfl

theorem perm_kv (ks : List K) (vs : List V) (ks' : List K) (vs' : List V) (k : K) (v : V)
    (hk : ks'.Perm (k :: ks)) (hv : vs'.Perm (v :: vs)) :
    (ks'.map (Obj.key (V := V)) ++ vs'.map (Obj.val (K := K))).Perm (ks.map (Obj.key (V := V)) ++ vs.map (Obj.val (K := K)) ++ [Obj.key k, Obj.val v]) := by
  have hk' := hk.map (Obj.key (V := V))
  have hv' := hv.map (Obj.val (K := K))
  simp only [List.map_cons] at hk' hv'
  refine (List.Perm.append hk' hv').trans ?_
  simp only [List.cons_append]
  refine (List.Perm.cons _ List.perm_middle).trans ?_
  exact (List.perm_append_comm (l₁ := [Obj.key k, Obj.val v]) (l₂ := ks.map (Obj.key (V := V)) ++ vs.map (Obj.val (K := K))))

/-- the split path (repaired): both halves plus the separator copy own what the leaf owned plus the three new references -/
theorem splitLeaf_refs (cap : Nat) (hcap : 4 ≤ cap) (l : Leaf K V) (k : K) (v : V) (nid pos : Nat) (res : InsRes K V 0) (ev : Evs K V)
    (hl : l.keys.length = l.vals.length) (hn : l.keys.length = cap) (hpos : pos ≤ l.keys.length)
    (he : splitLeaf Cfg.repaired cap l k v nid pos = .ok (res, ev)) :
    (res.slots ++ ev.dec).Perm (slotsOf 0 (l : Tree K V 0) ++ ev.inc) := by
  have hklen : (insertAt l.keys pos k).length = l.keys.length + 1 := length_insertAt _ _ _ hpos
  have hvlen : (insertAt l.vals pos v).length = l.vals.length + 1 := length_insertAt _ _ _ (by omega)
  have hrk : ((insertAt l.keys pos k).drop (cap / 2)).take (cap + 1 - cap / 2) = (insertAt l.keys pos k).drop (cap / 2) := by
    apply List.take_of_length_le; rw [List.length_drop, hklen]; omega
  have hrv : ((insertAt l.vals pos v).drop (cap / 2)).take (cap + 1 - cap / 2) = (insertAt l.vals pos v).drop (cap / 2) := by
    apply List.take_of_length_le; rw [List.length_drop, hvlen]; omega
  have g1 : ¬ ((insertAt l.keys pos k).length > cap + 1 ∨ (insertAt l.vals pos v).length > cap + 1) := by rw [hklen, hvlen]; omega
  have g2 : ¬ (cap / 2 > cap ∨ cap + 1 - cap / 2 > cap) := by omega
  have g3 : ¬ (cap / 2 + (cap + 1 - cap / 2) > (insertAt l.keys pos k).length ∨ cap / 2 + (cap + 1 - cap / 2) > (insertAt l.vals pos v).length) := by
    rw [hklen, hvlen]; omega
  unfold splitLeaf at he
  simp only [g1, g2, g3, if_false, hrk, hrv] at he
  cases hh : ((insertAt l.keys pos k).drop (cap / 2)).head? with
  | none => rw [hh] at he; cases he
  | some sep =>
    rw [hh] at he
    simp only [Cfg.repaired, Bool.false_eq_true, if_false, Res.ok.injEq, Prod.mk.injEq] at he
    obtain ⟨rfl, rfl⟩ := he
    show ((((insertAt l.keys pos k).take (cap/2)).map (Obj.key (V := V)) ++ ((insertAt l.vals pos v).take (cap/2)).map (Obj.val (K := K))) ++
          (((insertAt l.keys pos k).drop (cap/2)).map (Obj.key (V := V)) ++ ((insertAt l.vals pos v).drop (cap/2)).map (Obj.val (K := K))) ++ [Obj.key (V := V) sep] ++ []).Perm
         (l.keys.map (Obj.key (V := V)) ++ l.vals.map (Obj.val (K := K)) ++ ([Obj.key (V := V) k, Obj.val (K := K) v] ++ [Obj.key (V := V) sep]))
    rw [List.append_nil]
    -- regroup: keys of both halves, then values of both halves
    have e1 : ((((insertAt l.keys pos k).take (cap/2)).map (Obj.key (V := V)) ++ ((insertAt l.vals pos v).take (cap/2)).map (Obj.val (K := K))) ++
          (((insertAt l.keys pos k).drop (cap/2)).map (Obj.key (V := V)) ++ ((insertAt l.vals pos v).drop (cap/2)).map (Obj.val (K := K)))).Perm
        ((insertAt l.keys pos k).map (Obj.key (V := V)) ++ (insertAt l.vals pos v).map (Obj.val (K := K))) := by
      conv => rhs; rw [← List.take_append_drop (cap/2) (insertAt l.keys pos k), ← List.take_append_drop (cap/2) (insertAt l.vals pos v)]
      simp only [List.map_append, List.append_assoc]
      apply List.Perm.append_left
      rw [← List.append_assoc, ← List.append_assoc]
      apply List.Perm.append_right
      exact List.perm_append_comm
    have e2 := perm_kv l.keys l.vals _ _ k v (perm_insertAt l.keys pos k) (perm_insertAt l.vals pos v)
    have := (e1.trans e2).append_right [Obj.key (V := V) sep]
    simpa [List.append_assoc] using this

/-- `node_insert_leaf` (repaired): balance -/
theorem insertLeaf_refs (cap : Nat) (hcap : 4 ≤ cap) (l : Leaf K V) (k : K) (v : V) (nid : Nat) (res : InsRes K V 0) (ev : Evs K V)
    (hl : l.keys.length = l.vals.length) (hsz : l.keys.length ≤ cap)
    (he : insertLeaf Cfg.repaired cap l k v nid = .ok (res, ev)) :
    (res.slots ++ ev.dec).Perm (slotsOf 0 (l : Tree K V 0) ++ ev.inc) := by
  have hi_le := lowerBound_le l.keys k
  have absent : insertLeafAbsent Cfg.repaired cap l k v nid (lowerBound l.keys k) = .ok (res, ev) →
      (res.slots ++ ev.dec).Perm (slotsOf 0 (l : Tree K V 0) ++ ev.inc) := by
    intro he
    unfold insertLeafAbsent at he
    by_cases hfull : l.keys.length ≥ cap
    · simp only [hfull, if_true] at he
      exact splitLeaf_refs cap hcap l k v nid _ res ev hl (by omega) hi_le he
    · simp only [hfull, if_false, Res.ok.injEq, Prod.mk.injEq] at he
      obtain ⟨rfl, rfl⟩ := he
      show ((insertAt l.keys _ k).map (Obj.key (V := V)) ++ (insertAt l.vals _ v).map (Obj.val (K := K)) ++ []).Perm (l.keys.map (Obj.key (V := V)) ++ l.vals.map (Obj.val (K := K)) ++ [Obj.key (V := V) k, Obj.val (K := K) v])
      rw [List.append_nil]
      exact perm_kv l.keys l.vals _ _ k v (perm_insertAt l.keys _ k) (perm_insertAt l.vals _ v)
  unfold insertLeaf at he
  simp only [] at he
  cases hk' : l.keys[lowerBound l.keys k]? with
  | some k' =>
    rw [hk'] at he
    by_cases heq : ord k' = ord k
    · simp only [heq, decide_true, if_true] at he
      cases hv : l.vals[lowerBound l.keys k]? with
      | none => rw [hv] at he; cases he
      | some old =>
        rw [hv] at he
        simp only [Res.ok.injEq, Prod.mk.injEq] at he
        obtain ⟨rfl, rfl⟩ := he
        show (l.keys.map (Obj.key (V := V)) ++ (setAt l.vals _ v).map (Obj.val (K := K)) ++ [Obj.val (K := K) old]).Perm (l.keys.map (Obj.key (V := V)) ++ l.vals.map (Obj.val (K := K)) ++ [Obj.val (K := K) v])
        have hp := (perm_setAt l.vals (lowerBound l.keys k) v old hv).map (Obj.val (K := K))
        simp only [List.map_cons] at hp
        rw [List.append_assoc, List.append_assoc]
        apply List.Perm.append_left
        exact (List.perm_append_comm.trans hp).trans (List.perm_append_comm (l₁ := [Obj.val v]))
    · simp only [heq, decide_false, Bool.false_eq_true, if_false] at he
      exact absent he
  | none =>
    rw [hk'] at he
    simp only [Bool.false_eq_true, if_false] at he
    exact absent he

/-- `__delitem__`: the removed key and value are released, nothing else changes -/
theorem deleteRec_refs : ∀ (h : Nat) (t t' : Tree K V h) (k : K) (ev : Evs K V),
    deleteRec h t k = .ok (some (t', ev)) → (slotsOf h t' ++ ev.dec).Perm (slotsOf h t ++ ev.inc) := by
  intro h
  induction h with
  | zero =>
    intro t t' k ev he
    unfold deleteRec at he
    simp only [] at he
    cases hk' : (t : Leaf K V).keys[lowerBound (t : Leaf K V).keys k]? with
    | none => rw [hk'] at he; simp at he
    | some k' =>
      rw [hk'] at he
      by_cases heq : ord k' = ord k
      · simp only [heq, if_true] at he
        cases hv : (t : Leaf K V).vals[lowerBound (t : Leaf K V).keys k]? with
        | none => rw [hv] at he; cases he
        | some v =>
          rw [hv] at he
          simp only [Res.ok.injEq, Option.some.injEq, Prod.mk.injEq] at he
          obtain ⟨rfl, rfl⟩ := he
          show ((removeAt (t : Leaf K V).keys _).map (Obj.key (V := V)) ++ (removeAt (t : Leaf K V).vals _).map (Obj.val (K := K)) ++ [Obj.key (V := V) k', Obj.val (K := K) v]).Perm
            ((t : Leaf K V).keys.map (Obj.key (V := V)) ++ (t : Leaf K V).vals.map (Obj.val (K := K)) ++ [])
          rw [List.append_nil]
          exact (perm_kv _ _ _ _ k' v (perm_removeAt (t : Leaf K V).keys _ k' hk').symm (perm_removeAt (t : Leaf K V).vals _ v hv).symm).symm
      · simp only [heq, if_false] at he
        simp at he
  | succ h ih =>
    intro t t' k ev he
    unfold deleteRec at he
    simp only [] at he
    cases hci : (Branch.children t)[routePos (Branch.keys t) k]? with
    | none => rw [hci] at he; cases he
    | some c =>
      rw [hci] at he
      simp only [] at he
      cases hr : deleteRec h c k with
      | ok r =>
        rw [hr] at he
        cases r with
        | none => simp at he
        | some p =>
          obtain ⟨c', ev'⟩ := p
          simp only [Res.map_ok, Option.map_some, Res.ok.injEq, Option.some.injEq, Prod.mk.injEq] at he
          obtain ⟨rfl, rfl⟩ := he
          have := ih c c' k ev' hr
          show ((Branch.keys t).map (Obj.key (V := V)) ++ (setAt (Branch.children t) _ c').flatMap (slotsOf h) ++ ev'.dec).Perm
            ((Branch.keys t).map (Obj.key (V := V)) ++ (Branch.children t).flatMap (slotsOf h) ++ ev'.inc)
          rw [flatMap_setAt, flatMap_split (slotsOf h) (Branch.children t) _ c hci]
          simp only [List.append_assoc]
          apply List.Perm.append_left
          apply List.Perm.append_left
          -- slots c' ++ B ++ dec ~ slots c ++ B ++ inc
          have h1 : (slotsOf h c' ++ (List.flatMap (slotsOf h) (List.drop (routePos (Branch.keys t) k + 1) (Branch.children t)) ++ ev'.dec)).Perm
              ((slotsOf h c' ++ ev'.dec) ++ List.flatMap (slotsOf h) (List.drop (routePos (Branch.keys t) k + 1) (Branch.children t))) := by
            rw [List.append_assoc]; exact List.Perm.append_left _ List.perm_append_comm
          have h2 : ((slotsOf h c ++ ev'.inc) ++ List.flatMap (slotsOf h) (List.drop (routePos (Branch.keys t) k + 1) (Branch.children t))).Perm
              (slotsOf h c ++ (List.flatMap (slotsOf h) (List.drop (routePos (Branch.keys t) k + 1) (Branch.children t)) ++ ev'.inc)) := by
            rw [List.append_assoc]; exact List.Perm.append_left _ List.perm_append_comm
          exact h1.trans ((this.append_right _).trans h2)
      | panic => rw [hr] at he; cases he
      | diverge => rw [hr] at he; cases he
      | ub => rw [hr] at he; cases he

/-- `__getitem__` hands out exactly one new reference to the value it returns; `in` none -/
theorem getitem_refs (s : CState K V) (k : K) (r : Option V) (ev : Evs K V) (he : getitem s k = .ok (r, ev)) :
    ev.dec = [] ∧ ev.inc = r.toList.map (Obj.val (K := K)) := by
  unfold getitem at he
  cases hf : findRec s.height s.root k with
  | ok q =>
    rw [hf] at he
    cases q with
    | none => simp only [Res.map_ok, Res.ok.injEq, Prod.mk.injEq] at he; obtain ⟨rfl, rfl⟩ := he; exact ⟨rfl, rfl⟩
    | some p => simp only [Res.map_ok, Res.ok.injEq, Prod.mk.injEq] at he; obtain ⟨rfl, rfl⟩ := he; exact ⟨rfl, rfl⟩
  | panic => rw [hf] at he; cases he
  | diverge => rw [hf] at he; cases he
  | ub => rw [hf] at he; cases he

theorem contains_refs (s : CState K V) (k : K) (b : Bool) (ev : Evs K V) (he : contains s k = .ok (b, ev)) :
    ev.inc = ev.dec := by
  unfold contains at he
  cases hf : findRec s.height s.root k with
  | ok q =>
    rw [hf] at he
    cases q with
    | none => simp only [Res.map_ok, Res.ok.injEq, Prod.mk.injEq] at he; obtain ⟨_, rfl⟩ := he; rfl
    | some p => simp only [Res.map_ok, Res.ok.injEq, Prod.mk.injEq] at he; obtain ⟨_, rfl⟩ := he; rfl
  | panic => rw [hf] at he; cases he
  | diverge => rw [hf] at he; cases he
  | ub => rw [hf] at he; cases he

/-- destroying the tree releases every reference it holds, each once -/
theorem dealloc_releases_all (s : CState K V) : (dealloc s).dec = slots s ∧ (dealloc s).inc = [] := ⟨rfl, rfl⟩

theorem delitem_refs (s s' : CState K V) (k : K) (ev : Evs K V) (he : delitem s k = .ok (some (s', ev))) :
    (slots s' ++ ev.dec).Perm (slots s ++ ev.inc) := by
  unfold delitem at he
  cases hr : deleteRec s.height s.root k with
  | ok r =>
    rw [hr] at he
    cases r with
    | none => simp at he
    | some p =>
      obtain ⟨t, ev'⟩ := p
      simp only [Res.map_ok, Option.map_some, Res.ok.injEq, Option.some.injEq, Prod.mk.injEq] at he
      obtain ⟨rfl, rfl⟩ := he
      exact deleteRec_refs s.height s.root t k ev' hr
  | panic => rw [hr] at he; cases he
  | diverge => rw [hr] at he; cases he
  | ub => rw [hr] at he; cases he

end BPT.C

namespace BPT.C
open BPT Tree
variable {K V : Type} [Keyed K]

theorem perm_ctx {α : Type} {X Y D I : List α} (A B : List α) (h : (X ++ D).Perm (Y ++ I)) :
    (A ++ X ++ B ++ D).Perm (A ++ Y ++ B ++ I) := by
  have h1 : (A ++ X ++ B ++ D).Perm (A ++ (X ++ D) ++ B) := by
    simp only [List.append_assoc]
    exact List.Perm.append_left _ (List.Perm.append_left _ List.perm_append_comm)
  have h2 : (A ++ (Y ++ I) ++ B).Perm (A ++ Y ++ B ++ I) := by
    simp only [List.append_assoc]
    exact List.Perm.append_left _ (List.Perm.append_left _ List.perm_append_comm)
  exact h1.trans (((h.append_left A).append_right B).trans h2)

/-- `node_insert_branch` (repaired) performs no reference-count operation: the separator's reference and
    every moved key keep their single owner -/
theorem insertBranch_refs (cap h : Nat) (b : Branch K (Tree K V h)) (ci : Nat) (c l r : Tree K V h) (sep : K)
    (q : Branch K (Tree K V h) ⊕ (Branch K (Tree K V h) × Branch K (Tree K V h) × K)) (ev : Evs K V)
    (hci : b.children[ci]? = some c) (hlen : b.children.length = b.keys.length + 1) (hsz : b.keys.length ≤ cap)
    (he : insertBranch (V := V) Cfg.repaired cap b ci l r sep = .ok (q, ev)) :
    ev.inc = [] ∧ ev.dec = [] ∧
    (match q with
      | .inl b' => slotsOf (h+1) (b' : Tree K V (h+1))
      | .inr (bl, br, pk) => slotsOf (h+1) (bl : Tree K V (h+1)) ++ slotsOf (h+1) (br : Tree K V (h+1)) ++ [Obj.key (V := V) pk]).Perm
      (b.keys.map (Obj.key (V := V)) ++ ((b.children.take ci).flatMap (slotsOf h) ++ (slotsOf h l ++ slotsOf h r ++ [Obj.key (V := V) sep]) ++
        (b.children.drop (ci+1)).flatMap (slotsOf h))) := by
  have hic : ci < b.children.length := lt_of_getElem?_eq_some hci
  have hple := lowerBound_le b.keys sep
  have hklen : (insertAt b.keys (lowerBound b.keys sep) sep).length = b.keys.length + 1 := length_insertAt _ _ _ hple
  have hclen : (insertAt (setAt b.children ci l) (lowerBound b.keys sep + 1) r).length = b.children.length + 1 := by
    rw [length_insertAt _ _ _ (by rw [length_setAt _ _ _ hic]; omega), length_setAt _ _ _ hic]
  -- the whole contents of the branch after the insertion, as a multiset
  have hall : ((insertAt b.keys (lowerBound b.keys sep) sep).map (Obj.key (V := V)) ++
        (insertAt (setAt b.children ci l) (lowerBound b.keys sep + 1) r).flatMap (slotsOf h)).Perm
      (b.keys.map (Obj.key (V := V)) ++ ((b.children.take ci).flatMap (slotsOf h) ++ (slotsOf h l ++ slotsOf h r ++ [Obj.key (V := V) sep]) ++
        (b.children.drop (ci+1)).flatMap (slotsOf h))) := by
    have hk := (perm_insertAt b.keys (lowerBound b.keys sep) sep).map (Obj.key (V := V))
    have hc := (perm_insertAt (setAt b.children ci l) (lowerBound b.keys sep + 1) r).flatMap_right (slotsOf h)
    simp only [List.map_cons] at hk
    simp only [List.flatMap_cons] at hc
    rw [flatMap_setAt] at hc
    refine (List.Perm.append hk hc).trans ?_
    simp only [List.cons_append, List.append_assoc]
    -- key sep :: keys ++ (slots r ++ (A ++ slots l ++ B))  ~  keys ++ (A ++ (slots l ++ slots r ++ [key sep]) ++ B)
    refine List.perm_middle.symm.trans ?_
    apply List.Perm.append_left
    -- key sep :: slots r ++ A ++ slots l ++ B ~ A ++ slots l ++ slots r ++ [key sep] ++ B
    generalize (b.children.take ci).flatMap (slotsOf h) = A
    generalize (b.children.drop (ci+1)).flatMap (slotsOf h) = B
    generalize slotsOf h l = L
    generalize slotsOf h r = R
    have : (Obj.key (V := V) sep :: (R ++ (A ++ (L ++ B)))).Perm (A ++ (L ++ (R ++ (Obj.key (V := V) sep :: B)))) := by
      have h1 : (Obj.key (V := V) sep :: (R ++ (A ++ (L ++ B)))).Perm ((A ++ L) ++ (R ++ (Obj.key (V := V) sep :: B))) := by
        have : (R ++ (A ++ (L ++ B))).Perm ((A ++ L) ++ (R ++ B)) := by
          rw [← List.append_assoc A L B]
          exact (List.perm_append_comm (l₁ := R)).trans (by
            rw [List.append_assoc (A ++ L)]; exact List.Perm.append_left _ List.perm_append_comm)
        refine (List.Perm.cons _ this).trans ?_
        refine List.perm_middle.symm.trans ?_
        exact List.Perm.append_left _ List.perm_middle.symm
      rw [List.append_assoc] at h1
      exact h1
    simpa [List.append_assoc] using this
  unfold insertBranch at he
  simp only [Cfg.repaired, Bool.false_eq_true, if_false] at he
  by_cases hfull : b.keys.length ≥ cap
  · have hn : b.keys.length = cap := by omega
    simp only [hfull, if_true] at he
    have g1 : ¬ ((insertAt b.keys (lowerBound b.keys sep) sep).length > cap + 1 ∨
        (insertAt (setAt b.children ci l) (lowerBound b.keys sep + 1) r).length > cap + 2) := by rw [hklen, hclen]; omega
    have g2 : ¬ (cap / 2 + 1 + (cap - cap / 2) > (insertAt b.keys (lowerBound b.keys sep) sep).length ∨
        cap / 2 + 1 + (cap - cap / 2) + 1 > (insertAt (setAt b.children ci l) (lowerBound b.keys sep + 1) r).length) := by
      rw [hklen, hclen]; omega
    simp only [g1, g2, if_false] at he
    cases hpk : (insertAt b.keys (lowerBound b.keys sep) sep)[cap / 2]? with
    | none => rw [hpk] at he; cases he
    | some pk =>
      rw [hpk] at he
      simp only [List.map_nil, Res.ok.injEq, Prod.mk.injEq] at he
      obtain ⟨rfl, rfl⟩ := he
      refine ⟨rfl, rfl, ?_⟩
      have hrk : ((insertAt b.keys (lowerBound b.keys sep) sep).drop (cap / 2 + 1)).take (cap - cap / 2) =
          (insertAt b.keys (lowerBound b.keys sep) sep).drop (cap / 2 + 1) := by
        apply List.take_of_length_le; rw [List.length_drop, hklen]; omega
      have hrc : ((insertAt (setAt b.children ci l) (lowerBound b.keys sep + 1) r).drop (cap / 2 + 1)).take (cap - cap / 2 + 1) =
          (insertAt (setAt b.children ci l) (lowerBound b.keys sep + 1) r).drop (cap / 2 + 1) := by
        apply List.take_of_length_le; rw [List.length_drop, hclen]; omega
      simp only [hrk, hrc]
      refine List.Perm.trans ?_ hall
      -- keys = take mid ++ pk :: drop (mid+1); children = take (mid+1) ++ drop (mid+1)
      have hkeys := eq_take_cons_drop (insertAt b.keys (lowerBound b.keys sep) sep) (cap / 2) pk hpk
      generalize insertAt b.keys (lowerBound b.keys sep) sep = TK at hkeys ⊢
      generalize insertAt (setAt b.children ci l) (lowerBound b.keys sep + 1) r = TC
      show ((TK.take (cap/2)).map (Obj.key (V := V)) ++ (TC.take (cap/2+1)).flatMap (slotsOf h) ++
            ((TK.drop (cap/2+1)).map (Obj.key (V := V)) ++ (TC.drop (cap/2+1)).flatMap (slotsOf h)) ++ [Obj.key (V := V) pk]).Perm
           (TK.map (Obj.key (V := V)) ++ TC.flatMap (slotsOf h))
      conv => rhs; rw [hkeys, ← List.take_append_drop (cap/2+1) TC]
      simp only [List.map_append, List.map_cons, List.flatMap_append, List.append_assoc]
      apply List.Perm.append_left
      generalize (TC.take (cap/2+1)).flatMap (slotsOf h) = C1
      generalize (TC.drop (cap/2+1)).flatMap (slotsOf h) = C2
      generalize (TK.drop (cap/2+1)).map (Obj.key (V := V)) = K2
      -- C1 ++ (K2 ++ (C2 ++ [pk])) ~ pk :: (K2 ++ (C1 ++ C2))
      have : (C1 ++ (K2 ++ (C2 ++ [Obj.key (V := V) pk]))).Perm (Obj.key (V := V) pk :: (K2 ++ (C1 ++ C2))) := by
        have h1 : (C1 ++ (K2 ++ (C2 ++ [Obj.key (V := V) pk]))).Perm ((C1 ++ (K2 ++ C2)) ++ [Obj.key (V := V) pk]) := by
          simp only [List.append_assoc]; exact List.Perm.refl _
        refine h1.trans (List.perm_append_comm.trans ?_)
        simp only [List.cons_append, List.nil_append]
        apply List.Perm.cons
        rw [← List.append_assoc, ← List.append_assoc]
        exact List.Perm.append_right _ List.perm_append_comm
      exact this
  · simp only [hfull, if_false] at he
    by_cases g3 : lowerBound b.keys sep + 1 > cap
    · simp only [g3, if_true] at he; cases he
    · simp only [g3, if_false, Res.ok.injEq, Prod.mk.injEq] at he
      obtain ⟨rfl, rfl⟩ := he
      exact ⟨rfl, rfl, hall⟩

/-- `tree_insert_recursive` (repaired): reference-count balance at every level -/
theorem insertRec_refs (cap : Nat) (hcap : 4 ≤ cap) :
    ∀ (h : Nat) (t : Tree K V h) (lo hi : Option Int) (k : K) (v : V) (nid : Nat) (res : InsRes K V h) (ev : Evs K V) (nid' : Nat),
      Ordered h t lo hi → CSized cap h t → insertRec Cfg.repaired cap h t k v nid = .ok (res, ev, nid') →
      (res.slots ++ ev.dec).Perm (slotsOf h t ++ ev.inc) := by
  intro h
  induction h with
  | zero =>
    intro t lo hi k v nid res ev nid' ho hsz he
    unfold insertRec at he
    cases hl : insertLeaf Cfg.repaired cap (t : Leaf K V) k v nid with
    | ok r =>
      rw [hl] at he
      simp only [Res.map_ok, Res.ok.injEq, Prod.mk.injEq] at he
      obtain ⟨rfl, rfl, _⟩ := he
      exact insertLeaf_refs cap hcap (t : Leaf K V) k v nid r.1 r.2 ho.2.1 hsz (by rw [hl])
    | panic => rw [hl] at he; cases he
    | diverge => rw [hl] at he; cases he
    | ub => rw [hl] at he; cases he
  | succ h ih =>
    intro t lo hi k v nid res ev nid' ho hsz he
    obtain ⟨hs, hlen, hkb, hc⟩ := ho
    obtain ⟨hz2, hz3⟩ := hsz
    unfold insertRec at he
    simp only [] at he
    cases hci : (Branch.children t)[routePos (Branch.keys t) k]? with
    | none => rw [hci] at he; cases he
    | some c =>
      rw [hci] at he
      simp only [] at he
      have hcm : c ∈ Branch.children t := List.mem_of_getElem? hci
      cases hr : insertRec Cfg.repaired cap h c k v nid with
      | ok r =>
        rw [hr] at he
        obtain ⟨cres, cev, nid1⟩ := r
        have hih := ih c _ _ k v nid cres cev nid1 (hc _ c hci) (hz3 c hcm) hr
        have hsplit := flatMap_split (slotsOf h) (Branch.children t) _ c hci
        simp only [Res.bind_ok] at he
        cases cres with
        | updated c' =>
          simp only [Res.ok.injEq, Prod.mk.injEq] at he
          obtain ⟨rfl, rfl, _⟩ := he
          show ((Branch.keys t).map (Obj.key (V := V)) ++ (setAt (Branch.children t) _ c').flatMap (slotsOf h) ++ cev.dec).Perm
            ((Branch.keys t).map (Obj.key (V := V)) ++ (Branch.children t).flatMap (slotsOf h) ++ cev.inc)
          rw [flatMap_setAt, hsplit]
          simp only [List.append_assoc]
          apply List.Perm.append_left
          have := perm_ctx ((Branch.children t).take (routePos (Branch.keys t) k) |>.flatMap (slotsOf h))
            ((Branch.children t).drop (routePos (Branch.keys t) k + 1) |>.flatMap (slotsOf h)) hih
          simpa [InsRes.slots, List.append_assoc] using this
        | inserted c' =>
          simp only [Res.ok.injEq, Prod.mk.injEq] at he
          obtain ⟨rfl, rfl, _⟩ := he
          show ((Branch.keys t).map (Obj.key (V := V)) ++ (setAt (Branch.children t) _ c').flatMap (slotsOf h) ++ cev.dec).Perm
            ((Branch.keys t).map (Obj.key (V := V)) ++ (Branch.children t).flatMap (slotsOf h) ++ cev.inc)
          rw [flatMap_setAt, hsplit]
          simp only [List.append_assoc]
          apply List.Perm.append_left
          have := perm_ctx ((Branch.children t).take (routePos (Branch.keys t) k) |>.flatMap (slotsOf h))
            ((Branch.children t).drop (routePos (Branch.keys t) k + 1) |>.flatMap (slotsOf h)) hih
          simpa [InsRes.slots, List.append_assoc] using this
        | split l r sep =>
          simp only [] at he
          cases hq : insertBranch (V := V) Cfg.repaired cap (t : Branch K (Tree K V h)) (routePos (Branch.keys t) k) l r sep with
          | ok q =>
            rw [hq] at he
            obtain ⟨q1, qev⟩ := q
            obtain ⟨e1, e2, hperm⟩ := insertBranch_refs cap h t _ c l r sep q1 qev hci hlen hz2 hq
            -- what the branch holds afterwards ~ keys ++ A ++ (child result slots) ++ B
            have hih' := perm_ctx ((Branch.children t).take (routePos (Branch.keys t) k) |>.flatMap (slotsOf h))
              ((Branch.children t).drop (routePos (Branch.keys t) k + 1) |>.flatMap (slotsOf h)) hih
            have hgoal : ∀ (X : List (Obj K V)), X.Perm ((Branch.keys t).map (Obj.key (V := V)) ++
                (((Branch.children t).take (routePos (Branch.keys t) k)).flatMap (slotsOf h) ++ (slotsOf h l ++ slotsOf h r ++ [Obj.key (V := V) sep]) ++
                  ((Branch.children t).drop (routePos (Branch.keys t) k + 1)).flatMap (slotsOf h))) →
                (X ++ (cev.dec ++ qev.dec)).Perm (slotsOf (h+1) t ++ (cev.inc ++ qev.inc)) := by
              intro X hX
              rw [e1, e2, List.append_nil, List.append_nil]
              show (X ++ cev.dec).Perm ((Branch.keys t).map (Obj.key (V := V)) ++ (Branch.children t).flatMap (slotsOf h) ++ cev.inc)
              rw [hsplit]
              refine (hX.append_right _).trans ?_
              simp only [List.append_assoc]
              apply List.Perm.append_left
              simpa [InsRes.slots, List.append_assoc] using hih'
            cases q1 with
            | inl b' =>
              simp only [Res.map_ok, Res.ok.injEq, Prod.mk.injEq] at he
              obtain ⟨rfl, rfl, _⟩ := he
              exact hgoal _ hperm
            | inr p =>
              obtain ⟨bl, br, pk⟩ := p
              simp only [Res.map_ok, Res.ok.injEq, Prod.mk.injEq] at he
              obtain ⟨rfl, rfl, _⟩ := he
              exact hgoal _ hperm
          | panic => rw [hq] at he; cases he
          | diverge => rw [hq] at he; cases he
          | ub => rw [hq] at he; cases he
      | panic => rw [hr] at he; cases he
      | diverge => rw [hr] at he; cases he
      | ub => rw [hr] at he; cases he

/-- `__setitem__` (repaired): every reference the call takes ends up in exactly one slot, the displaced value is released -/
theorem setitem_refs (s s' : CState K V) (k : K) (v : V) (ev : Evs K V) (hi : CInv s)
    (he : setitem Cfg.repaired s k v = .ok (s', ev)) : (slots s' ++ ev.dec).Perm (slots s ++ ev.inc) := by
  unfold setitem at he
  cases hr : insertRec Cfg.repaired s.cap s.height s.root k v s.nextId with
  | ok r =>
    rw [hr] at he
    obtain ⟨res, rev, nid⟩ := r
    have := insertRec_refs s.cap hi.cap4 s.height s.root none none k v s.nextId res rev nid hi.ord hi.sz hr
    cases res with
    | updated t => simp only [Res.map_ok, Res.ok.injEq, Prod.mk.injEq] at he; obtain ⟨rfl, rfl⟩ := he; exact this
    | inserted t => simp only [Res.map_ok, Res.ok.injEq, Prod.mk.injEq] at he; obtain ⟨rfl, rfl⟩ := he; exact this
    | split l r sep =>
      simp only [Res.map_ok, Res.ok.injEq, Prod.mk.injEq] at he
      obtain ⟨rfl, rfl⟩ := he
      refine List.Perm.trans ?_ this
      show (([sep].map (Obj.key (V := V)) ++ [l, r].flatMap (slotsOf s.height)) ++ rev.dec).Perm
        ((slotsOf s.height l ++ slotsOf s.height r ++ [Obj.key (V := V) sep]) ++ rev.dec)
      apply List.Perm.append_right
      simp only [List.map_cons, List.map_nil, List.flatMap_cons, List.flatMap_nil, List.append_nil]
      exact List.perm_append_comm (l₁ := [Obj.key (V := V) sep])
  | panic => rw [hr] at he; cases he
  | diverge => rw [hr] at he; cases he
  | ub => rw [hr] at he; cases he

end BPT.C
