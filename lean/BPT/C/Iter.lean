import BPT.C.Top
import BPT.Py.Readers
/-
  The C iterator (`BPlusTreeIterator_next`): on a valid, unmodified tree it yields
  the remaining entries in key order, one per call, skipping leaves emptied by
  deletions, then reports exhaustion; draining it gives exactly `abs s`.
-/
namespace BPT.C
open BPT Tree
open BPT.Rust (links links_succ links_zero ChainL firstOf link)
open BPT.Py (linkIds)
variable {K V : Type} [Keyed K]

theorem findLeafById_eq (ls : List (Leaf K V)) (id : Nat) : findLeafById ls id = Py.findLeafById ls id := rfl

/-- all entries of a list of leaves -/
def entriesOf (L : List (Leaf K V)) : List (K × V) := L.flatMap Leaf.entries

/-- skipping empty leaves from the head of a suffix `S` of a well-linked leaf list finds its first non-empty leaf -/
theorem skipEmpty_suffix (ls : List (Leaf K V)) (hnd : (ls.map (·.id)).Nodup) (hpos : ∀ l ∈ ls, l.id ≠ noneId) :
    ∀ (S P : List (Leaf K V)) (fuel : Nat), ls = P ++ S → ChainL (S.map link) noneId → S.length + 1 ≤ fuel →
      (∃ E l Q, S = E ++ l :: Q ∧ (∀ e ∈ E, e.keys.length = 0) ∧ l.keys.length ≠ 0 ∧
          skipEmpty ls fuel (firstOf (S.map link) noneId) = .ok (some l)) ∨
      ((∀ e ∈ S, e.keys.length = 0) ∧ skipEmpty ls fuel (firstOf (S.map link) noneId) = .ok none) := by
  intro S
  induction S with
  | nil =>
    intro P fuel _ _ hf
    obtain ⟨f, rfl⟩ : ∃ f, fuel = f + 1 := ⟨fuel - 1, by omega⟩
    right
    exact ⟨by simp, by simp [skipEmpty, firstOf]⟩
  | cons l S ih =>
    intro P fuel hls hch hf
    obtain ⟨f, rfl⟩ : ∃ f, fuel = f + 1 := ⟨fuel - 1, by simp at hf; omega⟩
    have hl : l ∈ ls := by rw [hls]; simp
    have hne : l.id ≠ noneId := hpos l hl
    have hfind : findLeafById ls l.id = some l := by
      rw [findLeafById_eq, hls]; exact Py.find_in_suffix P S l (by rw [← hls]; exact hnd)
    have hch' : l.next = firstOf (S.map link) noneId ∧ ChainL (S.map link) noneId := hch
    show (∃ E l' Q, l :: S = E ++ l' :: Q ∧ _ ∧ _ ∧ skipEmpty ls (f+1) l.id = _) ∨ (_ ∧ skipEmpty ls (f+1) l.id = _)
    unfold skipEmpty
    simp only [hne, if_false, hfind]
    by_cases h0 : l.keys.length = 0
    · simp only [h0, if_true]
      rw [hch'.1]
      rcases ih (P ++ [l]) f (by rw [hls]; simp) hch'.2 (by simp at hf ⊢; omega) with ⟨E, l', Q, h1, h2, h3, h4⟩ | ⟨h1, h2⟩
      · left
        refine ⟨l :: E, l', Q, by rw [h1]; rfl, ?_, h3, h4⟩
        intro e he
        rcases List.mem_cons.1 he with rfl | he
        · exact h0
        · exact h2 e he
      · right
        refine ⟨?_, h2⟩
        intro e he
        rcases List.mem_cons.1 he with rfl | he
        · exact h0
        · exact h1 e he
    · left
      simp only [h0, if_false]
      exact ⟨[], l, S, rfl, by simp, h0, rfl⟩

theorem entriesOf_empty (E : List (Leaf K V)) (hpar : ∀ e ∈ E, e.keys.length = e.vals.length) (h : ∀ e ∈ E, e.keys.length = 0) :
    entriesOf E = [] := by
  unfold entriesOf
  rw [List.flatMap_eq_nil_iff]
  intro e he
  have h1 := h e he
  have : e.keys = [] := List.eq_nil_of_length_eq_zero h1
  simp [Leaf.entries, this]

/-- the iterator is positioned in front of the remaining entries `R` -/
def Pos (s : CState K V) (it : Iter) (R : List (K × V)) : Prop :=
  it.modc = s.modc ∧
  ((it.node = noneId ∧ R = []) ∨
   (∃ P l Q, leaves s.height s.root = P ++ l :: Q ∧ it.node = l.id ∧ it.idx ≤ l.keys.length ∧
      R = (l.keys.zip l.vals).drop it.idx ++ entriesOf Q))

structure Walk (s : CState K V) : Prop where
  nodup : ((leaves s.height s.root).map (·.id)).Nodup
  pos : ∀ l ∈ leaves s.height s.root, l.id ≠ noneId
  chain : ChainL ((leaves s.height s.root).map link) noneId
  par : ∀ l ∈ leaves s.height s.root, l.keys.length = l.vals.length

theorem walk_of_cinv (s : CState K V) (hi : CInv s) : Walk s := by
  refine ⟨by rw [Py.leaf_ids_of_links]; exact hi.nodup, ?_, hi.chain, Py.leaves_parallel s.height s.root none none hi.ord⟩
  intro l hl
  have : l.id ∈ linkIds (links s.height s.root) := by
    rw [← Py.leaf_ids_of_links]; exact List.mem_map.2 ⟨l, hl, rfl⟩
  have := (hi.fresh l.id this).1
  unfold noneId; omega

theorem chain_suffix {P S : List (Leaf K V)} (h : ChainL ((P ++ S).map link) noneId) : ChainL (S.map link) noneId := by
  rw [List.map_append, Rust.chainL_append] at h
  exact h.2

theorem drop_zip_cons (ks : List K) (vs : List V) (i : Nat) (hk : i < ks.length) (hv : i < vs.length) :
    (ks.zip vs).drop i = (ks[i], vs[i]) :: (ks.zip vs).drop (i+1) := by
  have hz : i < (ks.zip vs).length := by simp; omega
  rw [List.drop_eq_getElem_cons hz]
  simp

/-- what one `next()` yields in front of `R` -/
def outOf (wv : Bool) (R : List (K × V)) : IterOut K V :=
  match R with
  | [] => .stop
  | (k, v) :: _ => if wv then .item k v else .key k

/-- one step: from a position in front of `R` the iterator yields the head of `R` and moves in front of its tail;
    in front of nothing it reports exhaustion (and stays in front of nothing) -/
theorem iterNext_pos (s : CState K V) (hw : Walk s) (it : Iter) (R : List (K × V)) (hp : Pos s it R) :
    ∃ it', iterNext s it = .ok (it', outOf it.withValues R) ∧ Pos s it' R.tail ∧ it'.withValues = it.withValues := by
  obtain ⟨hm, hpos⟩ := hp
  unfold iterNext
  have hmne : ¬ (it.modc ≠ s.modc) := by simp [hm]
  simp only [hmne, if_false]
  rcases hpos with ⟨hn, rfl⟩ | ⟨P, l, Q, hsplit, hn, hidx, rfl⟩
  · -- already exhausted
    have : skipEmpty (leaves s.height s.root) ((leaves s.height s.root).length + 1) it.node = .ok none := by
      rw [hn]; simp [skipEmpty]
    simp only [this, Res.bind_ok]
    exact ⟨_, rfl, ⟨hm, Or.inl ⟨rfl, rfl⟩⟩, rfl⟩
  · have hchS : ChainL ((l :: Q).map link) noneId := chain_suffix (by rw [← hsplit]; exact hw.chain)
    have hparS : ∀ e ∈ l :: Q, e.keys.length = e.vals.length := fun e he => hw.par e (by rw [hsplit]; simp [List.mem_append, he])
    have hfirst : firstOf ((l :: Q).map link) noneId = l.id := rfl
    have hsk := skipEmpty_suffix (leaves s.height s.root) hw.nodup hw.pos (l :: Q) P ((leaves s.height s.root).length + 1) hsplit hchS
      (by rw [hsplit]; simp)
    rw [hfirst, ← hn] at hsk
    rcases hsk with ⟨E, l1, Q1, hS, hE, hl1, hskip⟩ | ⟨hall, hskip⟩
    · simp only [hskip, Res.bind_ok]
      cases E with
      | nil =>
        -- l itself is non-empty
        simp only [List.nil_append, List.cons.injEq] at hS
        obtain ⟨rfl, rfl⟩ := hS
        by_cases hge : it.idx ≥ l.keys.length
        · -- the current leaf is used up: move on
          simp only [hge, if_true]
          have hchQ : ChainL (Q.map link) noneId := (show l.next = firstOf (Q.map link) noneId ∧ ChainL (Q.map link) noneId from hchS).2
          have hnext : l.next = firstOf (Q.map link) noneId := (show l.next = firstOf (Q.map link) noneId ∧ ChainL (Q.map link) noneId from hchS).1
          have hsk2 := skipEmpty_suffix (leaves s.height s.root) hw.nodup hw.pos Q (P ++ [l]) ((leaves s.height s.root).length + 1)
            (by rw [hsplit]; simp) hchQ (by rw [hsplit]; simp; omega)
          rw [← hnext] at hsk2
          have hdrop : (l.keys.zip l.vals).drop it.idx = [] := by
            apply List.drop_eq_nil_of_le; simp; omega
          rw [hdrop, List.nil_append]
          rcases hsk2 with ⟨E2, l2, Q2, hS2, hE2, hl2, hskip2⟩ | ⟨hall2, hskip2⟩
          · simp only [hskip2, Res.map_ok, Option.map_some, Res.bind_ok]
            have hpar2 : l2.keys.length = l2.vals.length := hparS l2 (by rw [hS2]; simp [List.mem_append])
            have hk0 : 0 < l2.keys.length := by omega
            have hv0 : 0 < l2.vals.length := by omega
            have hent : entriesOf Q = (l2.keys[0], l2.vals[0]) :: ((l2.keys.zip l2.vals).drop 1 ++ entriesOf Q2) := by
              rw [hS2]
              unfold entriesOf
              rw [List.flatMap_append, List.flatMap_cons]
              have : List.flatMap Leaf.entries E2 = [] :=
                entriesOf_empty E2 (fun e he => hparS e (by rw [hS2]; simp [List.mem_append, he])) hE2
              rw [this, List.nil_append]
              show l2.keys.zip l2.vals ++ _ = _
              have := drop_zip_cons l2.keys l2.vals 0 hk0 hv0
              rw [List.drop_zero] at this
              rw [this]; rfl
            rw [hent]
            simp only [List.getElem?_eq_getElem hk0, List.getElem?_eq_getElem hv0, outOf, List.tail_cons]
            exact ⟨_, rfl, ⟨hm, Or.inr ⟨P ++ l :: E2, l2, Q2, by rw [hsplit, hS2]; simp, rfl, by show 0 + 1 ≤ _; omega, rfl⟩⟩, rfl⟩
          · simp only [hskip2, Res.map_ok, Option.map_none, Res.bind_ok]
            have : entriesOf Q = [] := entriesOf_empty Q (fun e he => hparS e (List.mem_cons_of_mem _ he)) hall2
            rw [this]
            exact ⟨_, rfl, ⟨hm, Or.inl ⟨rfl, rfl⟩⟩, rfl⟩
        · have hlt : it.idx < l.keys.length := by omega
          have hpar : l.keys.length = l.vals.length := hparS l (by simp)
          have hltv : it.idx < l.vals.length := by omega
          simp only [hge, if_false, Res.bind_ok]
          rw [drop_zip_cons l.keys l.vals it.idx hlt hltv, List.cons_append]
          simp only [List.getElem?_eq_getElem hlt, List.getElem?_eq_getElem hltv, outOf, List.tail_cons]
          exact ⟨_, rfl, ⟨hm, Or.inr ⟨P, l, Q, hsplit, rfl, by show it.idx + 1 ≤ _; omega, rfl⟩⟩, rfl⟩
      | cons e E' =>
        -- l is empty (so the index is 0) and l1 comes later
        simp only [List.cons_append, List.cons.injEq] at hS
        obtain ⟨rfl, hQ⟩ := hS
        have hl0 : l.keys.length = 0 := hE l (by simp)
        have hidx0 : it.idx = 0 := by omega
        have hpar1 : l1.keys.length = l1.vals.length := hparS l1 (by rw [hQ]; simp [List.mem_append])
        have hk0 : 0 < l1.keys.length := by omega
        have hv0 : 0 < l1.vals.length := by omega
        have hge : ¬ (it.idx ≥ l1.keys.length) := by omega
        simp only [hge, if_false, Res.bind_ok]
        have hlz : (l.keys.zip l.vals).drop it.idx = [] := by
          have : l.keys = [] := List.eq_nil_of_length_eq_zero hl0
          simp [this]
        rw [hlz, List.nil_append]
        have hent : entriesOf Q = (l1.keys[0], l1.vals[0]) :: ((l1.keys.zip l1.vals).drop 1 ++ entriesOf Q1) := by
          rw [hQ]
          unfold entriesOf
          rw [List.flatMap_append, List.flatMap_cons]
          have : List.flatMap Leaf.entries E' = [] :=
            entriesOf_empty E' (fun e he => hparS e (by rw [hQ]; simp [List.mem_append, he])) (fun e he => hE e (List.mem_cons_of_mem _ he))
          rw [this, List.nil_append]
          show l1.keys.zip l1.vals ++ _ = _
          have := drop_zip_cons l1.keys l1.vals 0 hk0 hv0
          rw [List.drop_zero] at this
          rw [this]; rfl
        rw [hent]
        have hk0' : it.idx < l1.keys.length := by omega
        have hv0' : it.idx < l1.vals.length := by omega
        simp only [List.getElem?_eq_getElem hk0', List.getElem?_eq_getElem hv0', outOf, List.tail_cons]
        simp only [hidx0]
        exact ⟨_, rfl, ⟨hm, Or.inr ⟨P ++ l :: E', l1, Q1, by rw [hsplit, hQ]; simp, rfl, by show 0 + 1 ≤ _; omega, rfl⟩⟩, rfl⟩
    · -- everything from l on is empty
      simp only [hskip, Res.bind_ok]
      have h1 : (l.keys.zip l.vals).drop it.idx = [] := by
        have : l.keys = [] := List.eq_nil_of_length_eq_zero (hall l (by simp))
        simp [this]
      have h2 : entriesOf Q = [] := entriesOf_empty Q (fun e he => hparS e (List.mem_cons_of_mem _ he)) (fun e he => hall e (List.mem_cons_of_mem _ he))
      rw [h1, h2]
      exact ⟨_, rfl, ⟨hm, Or.inl ⟨rfl, rfl⟩⟩, rfl⟩

/-- draining from a position in front of `R` yields `R` -/
theorem drain_pos (s : CState K V) (hw : Walk s) : ∀ (R : List (K × V)) (it : Iter) (fuel : Nat) (acc : List (IterOut K V)),
    it.withValues = true → Pos s it R → R.length + 1 ≤ fuel →
    drain s fuel it acc = .ok (acc.reverse ++ R.map (fun p => IterOut.item p.1 p.2)) := by
  intro R
  induction R with
  | nil =>
    intro it fuel acc hwv hp hf
    obtain ⟨f, rfl⟩ : ∃ f, fuel = f + 1 := ⟨fuel - 1, by omega⟩
    obtain ⟨it', he, _⟩ := iterNext_pos s hw it [] hp
    simp [drain, he, outOf]
  | cons p R ih =>
    intro it fuel acc hwv hp hf
    obtain ⟨f, rfl⟩ : ∃ f, fuel = f + 1 := ⟨fuel - 1, by simp at hf; omega⟩
    obtain ⟨k, v⟩ := p
    obtain ⟨it', he, hp', hwv'⟩ := iterNext_pos s hw it ((k, v) :: R) hp
    simp only [drain, he, Res.bind_ok, outOf, hwv, if_true]
    rw [ih it' f (IterOut.item k v :: acc) (by rw [hwv', hwv]) hp' (by simp at hf ⊢; omega)]
    simp

theorem firstLeaf_head : ∀ (h : Nat) (t : Tree K V h) (lo hi : Option Int), Ordered h t lo hi →
    firstLeaf h t = (leaves h t).head? := by
  intro h
  induction h with
  | zero => intro t lo hi _; rfl
  | succ h ih =>
    intro t lo hi ho
    obtain ⟨_, hlen, _, hc⟩ := ho
    cases hch : (Branch.children t) with
    | nil => rw [hch] at hlen; simp at hlen
    | cons c rest =>
      have hc0 := hc 0 c (by rw [hch]; rfl)
      have hne := Rust.links_ne_nil h c _ _ hc0
      unfold firstLeaf
      simp only [hch, List.getElem?_cons_zero]
      rw [ih c _ _ hc0]
      show _ = ((Branch.children t).flatMap (leaves h)).head?
      rw [hch, List.flatMap_cons]
      cases hl : leaves h c with
      | nil => exact absurd (by unfold links; rw [hl]; rfl) hne
      | cons l ls => simp

/-- **`list(t.items())` is exactly the contents in ascending key order** -/
theorem items_spec (s : CState K V) (hi : CInv s) : items s = .ok (abs s) := by
  have hw := walk_of_cinv s hi
  have hne := Rust.links_ne_nil s.height s.root none none hi.ord
  cases hl : leaves s.height s.root with
  | nil => unfold links at hne; rw [hl] at hne; exact absurd rfl hne
  | cons l Q =>
    have hpos : Pos s (iterNew s true) (abs s) := by
      refine ⟨rfl, Or.inr ⟨[], l, Q, hl, ?_, Nat.zero_le _, ?_⟩⟩
      · simp [iterNew, firstLeaf_head s.height s.root none none hi.ord, hl]
      · simp only [abs, toList, hl, List.flatMap_cons, iterNew, List.drop_zero]; rfl
    have hlen : (abs s).length + 1 ≤ s.size + (leaves s.height s.root).length + 2 := by
      rw [hi.size]; omega
    unfold items
    rw [drain_pos s hw (abs s) (iterNew s true) _ [] rfl hpos hlen]
    simp only [List.reverse_nil, List.nil_append, Res.map_ok, List.filterMap_map]
    congr 1
    induction (abs s) with
    | nil => rfl
    | cons p m ih => simp [List.filterMap_cons, ih]

/-! ### reference counts of an iterator step -/

theorem mem_slotsOf_of_mem_toList : ∀ (h : Nat) (t : Tree K V h) (k : K) (v : V), (k, v) ∈ toList h t →
    Obj.key k ∈ slotsOf h t ∧ Obj.val v ∈ slotsOf h t := by
  intro h
  induction h with
  | zero =>
    intro t k v hm
    have hm' : (k, v) ∈ (t : Leaf K V).keys.zip (t : Leaf K V).vals := by
      simpa [toList, Tree.leaves, Leaf.entries] using hm
    have h1 := (List.of_mem_zip hm').1
    have h2 := (List.of_mem_zip hm').2
    show Obj.key k ∈ (t : Leaf K V).keys.map Obj.key ++ (t : Leaf K V).vals.map Obj.val ∧ Obj.val v ∈ (t : Leaf K V).keys.map Obj.key ++ (t : Leaf K V).vals.map Obj.val
    exact ⟨List.mem_append_left _ (List.mem_map_of_mem h1), List.mem_append_right _ (List.mem_map_of_mem h2)⟩
  | succ h ih =>
    intro t k v hm
    have hm' : (k, v) ∈ (Branch.children t).flatMap (toList h) := by
      simpa [toList, Tree.leaves, List.flatMap_assoc] using hm
    obtain ⟨c, hc, hcm⟩ := List.mem_flatMap.1 hm'
    obtain ⟨a, b⟩ := ih c k v hcm
    show Obj.key k ∈ (Branch.keys t).map Obj.key ++ (Branch.children t).flatMap (slotsOf h) ∧ Obj.val v ∈ (Branch.keys t).map Obj.key ++ (Branch.children t).flatMap (slotsOf h)
    exact ⟨List.mem_append_right _ (List.mem_flatMap.2 ⟨c, hc, a⟩), List.mem_append_right _ (List.mem_flatMap.2 ⟨c, hc, b⟩)⟩

/-- the remaining entries in front of a positioned iterator are entries of the tree -/
theorem pos_sub_abs (s : CState K V) (it : Iter) (R : List (K × V)) (hp : Pos s it R) : ∀ kv ∈ R, kv ∈ abs s := by
  intro kv hkv
  obtain ⟨_, hpos⟩ := hp
  rcases hpos with ⟨_, rfl⟩ | ⟨P, l, Q, hsplit, _, _, rfl⟩
  · cases hkv
  · unfold abs toList
    rw [hsplit]
    simp only [List.flatMap_append, List.flatMap_cons, List.mem_append]
    rcases List.mem_append.1 hkv with h | h
    · exact Or.inr (Or.inl (List.mem_of_mem_drop h))
    · exact Or.inr (Or.inr h)

/-- **reference counts of one iterator step**: it releases nothing, takes exactly one new reference for each object inside
    the value it returns, and every object it touches is currently owned by a slot of the tree (no stale object is revived) -/
theorem iterNext_refs (s : CState K V) (hw : Walk s) (it : Iter) (R : List (K × V)) (hp : Pos s it R) :
    ∃ it' out, iterNext s it = .ok (it', out) ∧ (iterEvs out).dec = [] ∧ (iterEvs out).inc = handedOut out ∧
      ∀ o ∈ (iterEvs out).inc, o ∈ slots s := by
  obtain ⟨it', he, _, _⟩ := iterNext_pos s hw it R hp
  refine ⟨it', _, he, ?_, ?_, ?_⟩
  · cases R with
    | nil => rfl
    | cons kv R' => obtain ⟨k, v⟩ := kv; unfold outOf; cases it.withValues <;> rfl
  · cases R with
    | nil => rfl
    | cons kv R' => obtain ⟨k, v⟩ := kv; unfold outOf; cases it.withValues <;> rfl
  · cases R with
    | nil => intro o ho; cases ho
    | cons kv R' =>
      obtain ⟨k, v⟩ := kv
      have hm := pos_sub_abs s it _ hp (k, v) List.mem_cons_self
      obtain ⟨a, b⟩ := mem_slotsOf_of_mem_toList s.height s.root k v hm
      intro o ho
      unfold outOf at ho
      cases hwv : it.withValues with
      | true =>
        rw [hwv] at ho
        simp only [if_true, iterEvs, List.mem_cons, List.mem_nil_iff, or_false] at ho
        rcases ho with rfl | rfl
        · exact a
        · exact b
      | false =>
        rw [hwv] at ho
        simp only [Bool.false_eq_true, if_false, iterEvs, List.mem_cons, List.mem_nil_iff, or_false] at ho
        subst ho
        exact a

end BPT.C
