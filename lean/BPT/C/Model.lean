import BPT.Core.Tree
import BPT.Core.Res
/-
  Executable model of the C extension `bplustree_c`
  (python/bplustree_c_src/{bplustree_module.c, tree_ops.c, node_ops.c, bplustree.h}).
  Import-free apart from BPT core files.

  * the same height-indexed tree as the other two models; a node's `keys` /
    `vals` / `children` lists are the logical prefix `[0, num_keys)` of its slot
    arrays; leaves carry a creation serial (`id`, the node's address in the real
    code) and `next` (0 = NULL);
  * every array write is guarded by the allocated geometry (`capacity` key slots,
    `capacity` value slots or `capacity + 1` child slots, temporaries of
    `capacity + 1` / `capacity + 2`): a write outside it is `Res.ub`;
  * every `Py_INCREF` / `Py_DECREF` the code performs on a key or value object is
    emitted as an event (`Evs`), so reference-count balance is a statement about
    the model (C13);
  * `Res.panic` = the C code reports an error other than KeyError.
-/
namespace BPT.C
open BPT

def minCapacity : Nat := 4
def defaultCapacity : Nat := 8
/-- width of the `capacity` / `num_keys` fields of the node header -/
def capacityBits : Nat := 16
def noneId : Nat := 0

/-- switches between the repaired code (all `false`) and the code as found (D9, D11) -/
structure Cfg where
  legacyRefs : Bool := false          -- D9: splits INCREF every moved entry, branch insert INCREFs the separator again
  legacyNarrow : Bool := false        -- D11: capacity stored in 16 bits without an upper-bound check
def Cfg.repaired : Cfg := {}

/-- objects whose reference counts the tree manipulates -/
inductive Obj (K V : Type) where
  | key (k : K)
  | val (v : V)
deriving DecidableEq, Repr

/-- reference-count events of one call -/
structure Evs (K V : Type) where
  inc : List (Obj K V) := []
  dec : List (Obj K V) := []

def Evs.add {K V : Type} (a b : Evs K V) : Evs K V := { inc := a.inc ++ b.inc, dec := a.dec ++ b.dec }

variable {K V : Type} [Keyed K]

/-- `node_find_position` followed by "advance past an equal key": the child index (bisect_right on sorted keys) -/
def routePos (ks : List K) (k : K) : Nat :=
  let pos := lowerBound ks k
  match ks[pos]? with
  | some k' => if ord k' = ord k then pos + 1 else pos
  | none => pos

/-! ## insert -/

inductive InsRes (K V : Type) (h : Nat) where
  | updated (t : Tree K V h)              -- key was present: value replaced (return code -2)
  | inserted (t : Tree K V h)             -- no split (0)
  | split (l r : Tree K V h) (sep : K)    -- split (1): `sep` is an owned reference handed to the caller

/-- `node_insert_leaf`, split path: the `cap + 1` would-be entries are cut at `cap / 2` through temporaries -/
def splitLeaf (cfg : Cfg) (cap : Nat) (l : Leaf K V) (k : K) (v : V) (newId pos : Nat) : Res (InsRes K V 0 × Evs K V) :=
  let tk := insertAt l.keys pos k
  let tv := insertAt l.vals pos v
  let mid := cap / 2
  let rn := cap + 1 - mid                           -- `total_items - mid` with `total_items = capacity + 1`
  if tk.length > cap + 1 ∨ tv.length > cap + 1 then .ub      -- temp arrays overflow
  else if mid > cap ∨ rn > cap then .ub                       -- key / value slot index ≥ capacity
  else if mid + rn > tk.length ∨ mid + rn > tv.length then .ub -- reads temp entries never written
  else
    let rk := (tk.drop mid).take rn
    let rv := (tv.drop mid).take rn
    match rk.head? with
    | none => .ub                                   -- `node_get_key(*new_node, 0)` of an empty node
    | some sep =>
      let moved : List (Obj K V) := if cfg.legacyRefs then (tk.map .key ++ tv.map .val) else [.key k, .val v]
      .ok (.split ({ id := l.id, keys := tk.take mid, vals := tv.take mid, next := newId } : Leaf K V)
                  ({ id := newId, keys := rk, vals := rv, next := l.next } : Leaf K V) sep,
           { inc := moved ++ [.key sep] })

/-- `node_insert_leaf`, key absent, `pos` = insertion index -/
def insertLeafAbsent (cfg : Cfg) (cap : Nat) (l : Leaf K V) (k : K) (v : V) (newId pos : Nat) : Res (InsRes K V 0 × Evs K V) :=
  if l.keys.length ≥ cap then splitLeaf cfg cap l k v newId pos
  else .ok (.inserted ({ l with keys := insertAt l.keys pos k, vals := insertAt l.vals pos v } : Leaf K V), { inc := [.key k, .val v] })

/-- `node_insert_leaf` -/
def insertLeaf (cfg : Cfg) (cap : Nat) (l : Leaf K V) (k : K) (v : V) (newId : Nat) : Res (InsRes K V 0 × Evs K V) :=
  let pos := lowerBound l.keys k
  let found : Bool := match l.keys[pos]? with
    | some k' => ord k' = ord k
    | none => false
  if found then
    match l.vals[pos]? with
    | none => .ub                                     -- reads a value slot beyond the values present
    | some old => .ok (.updated ({ l with vals := setAt l.vals pos v } : Leaf K V), { inc := [.val v], dec := [.val old] })
  else insertLeafAbsent cfg cap l k v newId pos

/-- `node_insert_branch` after child `ci` split into `(l, r)` around the owned separator `sep` -/
def insertBranch (cfg : Cfg) (cap : Nat) (b : Branch K α) (ci : Nat) (l r : α) (sep : K) :
    Res ((Branch K α ⊕ (Branch K α × Branch K α × K)) × Evs K V) :=
  let pos := lowerBound b.keys sep
  let ch := setAt b.children ci l                      -- the left half is the same node object as before
  if b.keys.length ≥ cap then
    let tk := insertAt b.keys pos sep
    let tc := insertAt ch (pos+1) r
    let mid := cap / 2
    let rn := cap - mid
    if tk.length > cap + 1 ∨ tc.length > cap + 2 then .ub
    else if mid + 1 + rn > tk.length ∨ mid + 1 + rn + 1 > tc.length then .ub
    else
      match tk[mid]? with
      | none => .ub
      | some pk =>
        let rk := (tk.drop (mid+1)).take rn
        let moved : List (Obj K V) := if cfg.legacyRefs then (pk :: (tk.take mid ++ rk)).map .key else []
        .ok (.inr ({ id := b.id, keys := tk.take mid, children := tc.take (mid+1) },
                   { id := 0, keys := rk, children := (tc.drop (mid+1)).take (rn+1) }, pk), { inc := moved })
  else
    if pos + 1 > cap then .ub                          -- child slot index > capacity
    else
      .ok (.inl { b with keys := insertAt b.keys pos sep, children := insertAt ch (pos+1) r },
           { inc := if cfg.legacyRefs then [.key sep] else [] })

/-- `tree_insert_recursive`; threads the next fresh leaf serial -/
def insertRec (cfg : Cfg) (cap : Nat) : (h : Nat) → Tree K V h → K → V → Nat → Res (InsRes K V h × Evs K V × Nat)
  | 0, (l : Leaf K V), k, v, nid =>
    (insertLeaf cfg cap l k v nid).map fun r => (r.1, r.2, match r.1 with | .split _ _ _ => nid + 1 | _ => nid)
  | h+1, (b : Branch K (Tree K V h)), k, v, nid =>
    let ci := routePos b.keys k
    match b.children[ci]? with
    | none => .ub                                      -- child pointer read beyond the children present
    | some c =>
      (insertRec cfg cap h c k v nid).bind fun r =>
        match r with
        | (.updated c', ev, nid') => .ok (.updated ({ b with children := setAt b.children ci c' } : Branch K (Tree K V h)), ev, nid')
        | (.inserted c', ev, nid') => .ok (.inserted ({ b with children := setAt b.children ci c' } : Branch K (Tree K V h)), ev, nid')
        | (.split l r sep, ev, nid') =>
          (insertBranch (V := V) cfg cap b ci l r sep).map fun q =>
            match q.1 with
            | .inl b' => (.inserted (b' : Branch K (Tree K V h)), ev.add q.2, nid')
            | .inr (bl, br, pk) => (.split (bl : Branch K (Tree K V h)) br pk, ev.add q.2, nid')

/-! ## state -/

structure CState (K V : Type) where
  cap : Nat
  height : Nat
  root : Tree K V height
  size : Nat
  modc : Nat
  nextId : Nat

def emptyLeaf (id : Nat) : Leaf K V := { id := id, keys := [], vals := [], next := noneId }

/-- `BPlusTree(capacity=c)`; `none` = ValueError -/
def new (cfg : Cfg) (c : Nat) : Option (CState K V) :=
  if c < minCapacity then none
  else if ¬ cfg.legacyNarrow ∧ c ≥ 2 ^ capacityBits then none
  else some { cap := c % 2 ^ capacityBits, height := 0, root := (emptyLeaf 1 : Leaf K V), size := 0, modc := 0, nextId := 2 }

/-- `tree_insert` (`__setitem__`) -/
def setitem (cfg : Cfg) (s : CState K V) (k : K) (v : V) : Res (CState K V × Evs K V) :=
  (insertRec cfg s.cap s.height s.root k v s.nextId).map fun r =>
    match r with
    | (.updated t, ev, nid) => ({ s with root := t, modc := s.modc + 1, nextId := nid }, ev)
    | (.inserted t, ev, nid) => ({ s with root := t, size := s.size + 1, modc := s.modc + 1, nextId := nid }, ev)
    | (.split l r sep, ev, nid) =>
      ({ cap := s.cap, height := s.height + 1,
         root := ({ id := 0, keys := [sep], children := [l, r] } : Branch K (Tree K V s.height)),
         size := s.size + 1, modc := s.modc + 1, nextId := nid }, ev)

/-! ## delete (leaf only, no rebalancing) -/

/-- `tree_find_leaf` + `node_delete`: the tree with the entry removed, or `none` when absent -/
def deleteRec : (h : Nat) → Tree K V h → K → Res (Option (Tree K V h × Evs K V))
  | 0, (l : Leaf K V), k =>
    let pos := lowerBound l.keys k
    match l.keys[pos]? with
    | none => .ok none
    | some k' =>
      if ord k' = ord k then
        match l.vals[pos]? with
        | none => .ub
        | some v => .ok (some (({ l with keys := removeAt l.keys pos, vals := removeAt l.vals pos } : Leaf K V),
                               { dec := [.key k', .val v] }))
      else .ok none
  | h+1, (b : Branch K (Tree K V h)), k =>
    let ci := routePos b.keys k
    match b.children[ci]? with
    | none => .ub
    | some c => (deleteRec h c k).map fun r =>
        r.map fun (c', ev) => (({ b with children := setAt b.children ci c' } : Branch K (Tree K V h)), ev)

/-- `__delitem__`: `none` = KeyError.  A successful delete bumps the stamp twice (`tree_delete` and `BPlusTree_delitem`). -/
def delitem (s : CState K V) (k : K) : Res (Option (CState K V × Evs K V)) :=
  (deleteRec s.height s.root k).map fun r =>
    r.map fun (t, ev) => ({ s with root := t, size := s.size - 1, modc := s.modc + 2 }, ev)

/-! ## lookups -/

/-- `tree_get`: the stored entry -/
def findRec : (h : Nat) → Tree K V h → K → Res (Option (K × V))
  | 0, (l : Leaf K V), k =>
    let pos := lowerBound l.keys k
    match l.keys[pos]? with
    | none => .ok none
    | some k' =>
      if ord k' = ord k then (match l.vals[pos]? with | some v => .ok (some (k', v)) | none => .ub) else .ok none
  | h+1, (b : Branch K (Tree K V h)), k =>
    match b.children[routePos b.keys k]? with
    | none => .ub
    | some c => findRec h c k

/-- `__getitem__`: `none` = KeyError; a hit returns a new reference -/
def getitem (s : CState K V) (k : K) : Res (Option V × Evs K V) :=
  (findRec s.height s.root k).map fun r =>
    match r with
    | some (_, v) => (some v, { inc := [.val v] })
    | none => (none, {})

/-- `__contains__`: the temporary reference is released again -/
def contains (s : CState K V) (k : K) : Res (Bool × Evs K V) :=
  (findRec s.height s.root k).map fun r =>
    match r with
    | some (_, v) => (true, { inc := [.val v], dec := [.val v] })
    | none => (false, {})

def len (s : CState K V) : Nat := s.size

/-! ## iterators -/

structure Iter where
  node : Nat            -- serial of the current leaf, 0 = NULL
  idx : Nat
  withValues : Bool
  modc : Nat

def firstLeaf : (h : Nat) → Tree K V h → Option (Leaf K V)
  | 0, (l : Leaf K V) => some l
  | h+1, (b : Branch K (Tree K V h)) => match b.children[0]? with | some c => firstLeaf h c | none => none

/-- `BPlusTree_iter` / `keys()` / `items()` -/
def iterNew (s : CState K V) (withValues : Bool) : Iter :=
  { node := match firstLeaf s.height s.root with | some l => l.id | none => noneId, idx := 0, withValues := withValues, modc := s.modc }

def findLeafById (ls : List (Leaf K V)) (id : Nat) : Option (Leaf K V) := ls.find? (fun l => l.id == id)

/-- skip empty leaves: the first non-empty leaf at or after serial `id` (fuel = number of leaves + 1) -/
def skipEmpty (ls : List (Leaf K V)) : Nat → Nat → Res (Option (Leaf K V))
  | 0, _ => .diverge
  | f+1, id =>
    if id = noneId then .ok none
    else match findLeafById ls id with
      | none => .ub                                   -- dangling node pointer
      | some l => if l.keys.length = 0 then skipEmpty ls f l.next else .ok (some l)

inductive IterOut (K V : Type) where
  | runtimeError                                      -- "tree changed size during iteration"
  | stop
  | key (k : K)
  | item (k : K) (v : V)

/-- `BPlusTreeIterator_next` -/
def iterNext (s : CState K V) (it : Iter) : Res (Iter × IterOut K V) :=
  if it.modc ≠ s.modc then .ok (it, .runtimeError)
  else
    let ls := Tree.leaves s.height s.root
    let fuel := ls.length + 1
    (skipEmpty ls fuel it.node).bind fun cur =>
      match cur with
      | none => .ok ({ it with node := noneId }, .stop)
      | some l =>
        -- `current_index >= num_keys`: move to the next non-empty leaf
        let step : Res (Option (Leaf K V × Nat)) :=
          if it.idx ≥ l.keys.length then (skipEmpty ls fuel l.next).map fun n => n.map fun l' => (l', 0)
          else .ok (some (l, it.idx))
        step.bind fun p =>
          match p with
          | none => .ok ({ it with node := noneId }, .stop)
          | some (l', i) =>
            match l'.keys[i]?, l'.vals[i]? with
            | some k, some v => .ok ({ it with node := l'.id, idx := i + 1 }, if it.withValues then .item k v else .key k)
            | some k, none => if it.withValues then .ub else .ok ({ it with node := l'.id, idx := i + 1 }, .key k)
            | none, _ => .ub

/-- the references `BPlusTreeIterator_next` takes for what it returns: `Py_INCREF(key)` (and `Py_INCREF(value)` for
    `items()`); they belong to the returned object / tuple.  Nothing is released. -/
def iterEvs : IterOut K V → Evs K V
  | .item k v => { inc := [.key k, .val v] }
  | .key k => { inc := [.key k] }
  | _ => {}

/-- the key / value objects inside the Python object a step returns (the caller's new references) -/
def handedOut : IterOut K V → List (Obj K V)
  | .item k v => [.key k, .val v]
  | .key k => [.key k]
  | _ => []

/-- drain an iterator (what `list(t.items())` does): fuel = entries + leaves + 2 -/
def drain (s : CState K V) : Nat → Iter → List (IterOut K V) → Res (List (IterOut K V))
  | 0, _, _ => .diverge
  | f+1, it, acc =>
    (iterNext s it).bind fun r =>
      match r.2 with
      | .stop => .ok acc.reverse
      | .runtimeError => .ok (r.2 :: acc).reverse
      | o => drain s f r.1 (o :: acc)

/-- `list(t.items())` -/
def items (s : CState K V) : Res (List (K × V)) :=
  (drain s (s.size + (Tree.leaves s.height s.root).length + 2) (iterNew s true) []).map fun outs =>
    outs.filterMap fun o => match o with | .item k v => some (k, v) | _ => none

/-! ## what the tree owns -/

def slotsOf : (h : Nat) → Tree K V h → List (Obj K V)
  | 0, (l : Leaf K V) => l.keys.map .key ++ l.vals.map .val
  | h+1, (b : Branch K (Tree K V h)) => b.keys.map .key ++ b.children.flatMap (slotsOf h)

/-- every object reference held in a slot of the tree (keys of leaves, separator copies, values) -/
def slots (s : CState K V) : List (Obj K V) := slotsOf s.height s.root

/-- `BPlusTree_dealloc`: every slot is released -/
def dealloc (s : CState K V) : Evs K V := { dec := slots s }

end BPT.C
