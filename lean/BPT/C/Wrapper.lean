import BPT.C.Iter
import BPT.C.Api
import BPT.Py.ApiSpec
/-
  The wrapper methods of the package-level BPlusTreeMap that are built on iteration:
  popitem, copy, clear (and values / keys / items as drained iterators).
-/
namespace BPT.C
open BPT Tree
open BPT.Rust (links ChainL firstOf link)
variable {K V : Type} [Keyed K]

theorem pos_new (s : CState K V) (hi : CInv s) (wv : Bool) : Pos s (iterNew s wv) (abs s) := by
  have hne := Rust.links_ne_nil s.height s.root none none hi.ord
  cases hl : leaves s.height s.root with
  | nil => unfold links at hne; rw [hl] at hne; exact absurd rfl hne
  | cons l Q =>
    refine ⟨rfl, Or.inr ⟨[], l, Q, hl, ?_, Nat.zero_le _, ?_⟩⟩
    · simp [iterNew, firstLeaf_head s.height s.root none none hi.ord, hl]
    · simp only [abs, toList, hl, List.flatMap_cons, iterNew, List.drop_zero]; rfl

theorem firstItem_spec (s : CState K V) (hi : CInv s) : firstItem s = .ok (abs s).head? := by
  obtain ⟨it', he, _, _⟩ := iterNext_pos s (walk_of_cinv s hi) (iterNew s true) (abs s) (pos_new s hi true)
  unfold firstItem
  rw [he]
  cases abs s with
  | nil => rfl
  | cons p m => obtain ⟨k, v⟩ := p; simp [outOf, iterNew]

theorem firstKey_spec (s : CState K V) (hi : CInv s) : firstKey s = .ok ((abs s).head?.map (·.1)) := by
  obtain ⟨it', he, _, _⟩ := iterNext_pos s (walk_of_cinv s hi) (iterNew s false) (abs s) (pos_new s hi false)
  unfold firstKey
  rw [he]
  cases abs s with
  | nil => rfl
  | cons p m => obtain ⟨k, v⟩ := p; simp [outOf, iterNew]

/-- `popitem()` removes and returns the entry with the smallest key; KeyError on an empty map -/
theorem wpopitem_spec (s : CState K V) (hi : CInv s) :
    match abs s with
    | [] => wpopitem s = .ok (s, none)
    | p :: rest => ∃ s', wpopitem s = .ok (s', some p) ∧ CInv s' ∧ abs s' = rest ∧ s'.cap = s.cap := by
  have hf := firstItem_spec s hi
  cases hm : abs s with
  | nil =>
    rw [hm] at hf
    simp [wpopitem, hf]
  | cons p rest =>
    rw [hm] at hf
    obtain ⟨k, v⟩ := p
    simp only [wpopitem, hf, List.head?_cons, Res.bind_ok]
    obtain ⟨r, hd, hr⟩ := delitem_spec s k hi
    rw [hm] at hr
    cases r with
    | none =>
      have : SMap.lookup ((k, v) :: rest) k = some (k, v) := Py.lookup_head (k, v) rest
      rw [this] at hr; cases hr
    | some q =>
      obtain ⟨s', ev⟩ := q
      obtain ⟨h1, h2, _, h4, _⟩ := hr
      have : SMap.erase ((k, v) :: rest) k = rest := Py.erase_head (k, v) rest
      rw [this] at h2
      exact ⟨s', by simp [hd], h1, h2, h4⟩

theorem wupdate_spec' (its : List (K × V)) : ∀ (s : CState K V), CInv s →
    ∃ s', wupdate Cfg.repaired s its = .ok s' ∧ CInv s' ∧ abs s' = its.foldl (fun m kv => SMap.insert m kv.1 kv.2) (abs s) ∧ s'.cap = s.cap := by
  induction its with
  | nil => intro s hi; exact ⟨s, rfl, hi, rfl, rfl⟩
  | cons kv its ih =>
    intro s hi
    obtain ⟨s1, ev, he, hi1, ha1, hc1, _⟩ := setitem_spec Cfg.repaired s kv.1 kv.2 hi
    obtain ⟨s', h1, h2, h3, h4⟩ := ih s1 hi1
    refine ⟨s', ?_, h2, by rw [h3, ha1]; rfl, by rw [h4, hc1]⟩
    unfold wupdate at h1 ⊢
    simp only [List.foldl_cons, Res.bind_ok, he, Res.map_ok]
    exact h1

/-- `copy()`: a new map (capacity 8, what the wrapper's `capacity` property says) with the same contents -/
theorem wcopy_spec (s : CState K V) (hi : CInv s) :
    ∃ s', wcopy Cfg.repaired s = .ok s' ∧ CInv s' ∧ abs s' = abs s ∧ s'.cap = wrapperCapacity := by
  obtain ⟨s0, h0, hinv0, habs0, hcap0, _⟩ := cinv_new (K := K) (V := V) Cfg.repaired wrapperCapacity (by decide) (by decide)
  obtain ⟨s', he, h1, h2, h3⟩ := wupdate_spec' (abs s) s0 hinv0
  have hsorted : SMap.Sorted (abs s) := toList_sorted s.height s.root none none hi.ord
  rw [habs0, Py.foldl_insert_sorted (abs s) [] (by simpa using hsorted)] at h2
  refine ⟨s', ?_, h1, by simpa using h2, by rw [h3, hcap0]⟩
  simp [wcopy, items_spec s hi, h0, he]

/-- `clear()`: deleting the first key until `len` is 0 empties the map (and terminates within `size + 1` rounds) -/
theorem wclear_spec : ∀ (n : Nat) (s : CState K V), CInv s → s.size = n →
    ∃ s', wclear (n + 1) s = .ok s' ∧ CInv s' ∧ abs s' = [] ∧ s'.cap = s.cap := by
  intro n
  induction n with
  | zero =>
    intro s hi hn
    refine ⟨s, by simp [wclear, hn], hi, ?_, rfl⟩
    have := hi.size
    rw [hn] at this
    exact List.eq_nil_of_length_eq_zero this.symm
  | succ n ih =>
    intro s hi hn
    have hne : s.size ≠ 0 := by omega
    have hfk := firstKey_spec s hi
    cases hm : abs s with
    | nil => have := hi.size; rw [hm, hn] at this; simp at this
    | cons p rest =>
      obtain ⟨k, v⟩ := p
      rw [hm] at hfk
      obtain ⟨r, hd, hr⟩ := delitem_spec s k hi
      rw [hm] at hr
      cases r with
      | none =>
        have : SMap.lookup ((k, v) :: rest) k = some (k, v) := Py.lookup_head (k, v) rest
        rw [this] at hr; cases hr
      | some q =>
        obtain ⟨s1, ev⟩ := q
        obtain ⟨h1, h2, _, h4, _⟩ := hr
        have hsz : s1.size = n := by
          have e1 := h1.size
          have : SMap.erase ((k, v) :: rest) k = rest := Py.erase_head (k, v) rest
          rw [h2, this] at e1
          have e2 := hi.size
          rw [hm, hn] at e2
          simp at e2
          omega
        obtain ⟨s', he, g1, g2, g3⟩ := ih s1 h1 hsz
        refine ⟨s', ?_, g1, g2, by rw [g3, h4]⟩
        show wclear (n + 1 + 1) s = _
        unfold wclear
        simp only [hne, if_false, hfk, List.head?_cons, Option.map_some, Res.bind_ok, hd]
        exact he

end BPT.C
