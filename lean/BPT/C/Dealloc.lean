import BPT.C.Gc
/-
  `BPlusTree_dealloc` as the code has it: two passes over the same slots.

      PyObject_GC_UnTrack(self);
      BPlusTree_clear(self);            // pass 1: node_gc_op(root, NULL, NULL, 1): Py_CLEAR on every slot
      if (self->root) node_destroy(self->root);   // pass 2: Py_XDECREF on every slot, then free the node

  `Model.dealloc` states the net effect ("every slot is released once").  Here the two passes are transcribed with
  nullable slots, and the net effect is derived: it is one release per slot *because* `Py_CLEAR` stores NULL before
  it releases and `Py_XDECREF` skips NULL.  With a plain `Py_DECREF` in pass 1 every reference would be released
  twice (`dealloc_without_nulling_releases_twice`).
-/
namespace BPT.C
open BPT Tree

variable {K V : Type} [Keyed K]

/-- `node_destroy(node)`: the slots `Py_XDECREF` is applied to, in order — its loops, by index, as written -/
def destroyVisit : (h : Nat) → Tree K V h → List (Obj K V)
  | 0, (l : Leaf K V) =>
      visitSlots l.keys.length l.keys Obj.key ++ visitSlots l.keys.length l.vals Obj.val
  | h+1, (b : Branch K (Tree K V h)) =>
      visitSlots b.keys.length b.keys Obj.key ++ visitChildren b.keys.length b.children (destroyVisit h)

omit [Keyed K] in
/-- both passes address the same slots in the same order (same loop bounds, same arrays) -/
theorem destroyVisit_eq_gcVisit : ∀ (h : Nat) (t : Tree K V h), destroyVisit h t = gcVisit h t
  | 0, _ => rfl
  | h+1, (b : Branch K (Tree K V h)) => by
    show visitSlots _ _ _ ++ visitChildren _ _ (destroyVisit h) = visitSlots _ _ _ ++ visitChildren _ _ (gcVisit h)
    have : (destroyVisit h : Tree K V h → List (Obj K V)) = gcVisit h := funext (destroyVisit_eq_gcVisit h)
    rw [this]

/-- `Py_CLEAR(slot)`: `tmp = slot; if (tmp) { slot = NULL; Py_DECREF(tmp); }` — released objects, new slot content -/
def pyClear {α : Type} (slot : Option α) : List α × Option α := (slot.toList, none)

/-- `Py_XDECREF(slot)`: released objects (NULL is skipped); the slot is not written -/
def pyXDecref {α : Type} (slot : Option α) : List α := slot.toList

/-- pass 1 over a sequence of slots: everything released, and what the slots hold afterwards -/
def clearPass {α : Type} (ss : List (Option α)) : List α × List (Option α) :=
  (ss.flatMap fun s => (pyClear s).1, ss.map fun s => (pyClear s).2)

/-- pass 2 over a sequence of slots -/
def destroyPass {α : Type} (ss : List (Option α)) : List α := ss.flatMap pyXDecref

/-- `BPlusTree_dealloc`, two passes: the slots start out holding the tree's objects -/
def deallocTwoPass (s : CState K V) : Evs K V :=
  let ss := (gcVisit s.height s.root).map some
  let p1 := clearPass ss
  { dec := p1.1 ++ destroyPass p1.2 }

theorem clearPass_some {α : Type} (xs : List α) :
    clearPass (xs.map some) = (xs, xs.map fun _ => none) := by
  induction xs with
  | nil => rfl
  | cons x xs ih =>
    simp only [clearPass, List.map_cons, List.flatMap_cons, pyClear, Option.toList_some, List.map_map] at ih ⊢
    have h1 := congrArg Prod.fst ih
    have h2 := congrArg Prod.snd ih
    simp only at h1 h2
    simp [h1, h2]

theorem destroyPass_none {α β : Type} (xs : List β) : destroyPass (xs.map fun _ => (none : Option α)) = [] := by
  induction xs with
  | nil => rfl
  | cons x xs ih => simp [destroyPass, pyXDecref]

/-- **the two-pass destructor releases every owned reference exactly once** (and takes none): this is `Model.dealloc` -/
theorem deallocTwoPass_eq_dealloc (s : CState K V) (hi : CInv s) : deallocTwoPass s = dealloc s := by
  unfold deallocTwoPass dealloc
  simp only [clearPass_some, destroyPass_none, List.append_nil]
  rw [show gcVisit s.height s.root = slots s from gcTraverse_eq_slots s hi]

/-- what `Py_CLEAR`'s NULL store is for: a first pass that releases without nulling -/
def clearPassNoNull {α : Type} (ss : List (Option α)) : List α × List (Option α) :=
  (ss.flatMap fun s => (pyClear s).1, ss)

theorem destroyPass_some {α : Type} (xs : List α) : destroyPass (xs.map some) = xs := by
  induction xs with
  | nil => rfl
  | cons x xs ih => simpa [destroyPass, pyXDecref] using ih

theorem dealloc_without_nulling_releases_twice (s : CState K V) (hi : CInv s) :
    (clearPassNoNull ((gcVisit s.height s.root).map some)).1 ++
      destroyPass (clearPassNoNull ((gcVisit s.height s.root).map some)).2 = slots s ++ slots s := by
  have h1 : (clearPassNoNull ((gcVisit s.height s.root).map some)).1 = gcVisit s.height s.root := by
    have := congrArg Prod.fst (clearPass_some (gcVisit s.height s.root))
    simpa [clearPass, clearPassNoNull] using this
  rw [h1]
  simp only [clearPassNoNull, destroyPass_some]
  rw [show gcVisit s.height s.root = slots s from gcTraverse_eq_slots s hi]

end BPT.C
