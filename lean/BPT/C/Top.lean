import BPT.C.Insert
import BPT.Core.Sorted
/-
  The invariant of a C-extension tree state, preserved by `__setitem__` and
  `__delitem__`, with the refinement equations against the sorted association list,
  the exact `size` field and the strictly growing modification stamp.
-/
namespace BPT.C
open BPT Tree
open BPT.Rust (links links_succ links_zero ChainL firstOf)
open BPT.Py (PLinkIns linkIds plinkIns_chain plinkIns_ids inB_none)
variable {K V : Type} [Keyed K]

def abs (s : CState K V) : List (K × V) := toList s.height s.root

structure CInv (s : CState K V) : Prop where
  cap4 : 4 ≤ s.cap
  ord : Ordered s.height s.root none none
  sz : CSized s.cap s.height s.root
  size : s.size = (abs s).length
  chain : ChainL (links s.height s.root) noneId
  nodup : (linkIds (links s.height s.root)).Nodup
  fresh : ∀ id ∈ linkIds (links s.height s.root), 0 < id ∧ id < s.nextId

/-! ### sizes of the specification -/

theorem length_insert (m : List (K × V)) (k : K) (v : V) (hs : SMap.Sorted m) :
    (SMap.insert m k v).length = if (SMap.lookup m k).isSome then m.length else m.length + 1 := by
  induction m with
  | nil => simp [SMap.insert, SMap.lookup]
  | cons p m ih =>
    obtain ⟨k', v'⟩ := p
    have hs' := List.pairwise_cons.1 hs
    simp only [SMap.insert]
    by_cases h1 : ord k < ord k'
    · have hnone : SMap.lookup ((k', v') :: m) k = none := by
        apply SMap.lookup_none_of_gt
        intro q hq
        rcases List.mem_cons.1 hq with rfl | hq
        · exact h1
        · have := hs'.1 q hq; simp only at this; omega
      simp [h1, hnone]
    · by_cases h2 : ord k = ord k'
      · have : SMap.lookup ((k', v') :: m) k = some (k', v') := by
          simp [SMap.lookup, List.find?_cons, h2]
        simp [h1, h2, this]
      · have hl : SMap.lookup ((k', v') :: m) k = SMap.lookup m k := by
          have : (ord k' == ord k) = false := by simp; omega
          simp [SMap.lookup, List.find?_cons, this]
        simp only [h1, h2, if_false, List.length_cons, hl]
        rw [ih hs'.2]; split <;> rfl

theorem length_erase (m : List (K × V)) (k : K) :
    (SMap.erase m k).length = if (SMap.lookup m k).isSome then m.length - 1 else m.length := by
  induction m with
  | nil => simp [SMap.erase, SMap.lookup]
  | cons p m ih =>
    obtain ⟨k', v'⟩ := p
    simp only [SMap.erase]
    by_cases h : ord k' = ord k
    · have : SMap.lookup ((k', v') :: m) k = some (k', v') := by simp [SMap.lookup, List.find?_cons, h]
      simp [h, this]
    · have hl : SMap.lookup ((k', v') :: m) k = SMap.lookup m k := by
        have : (ord k' == ord k) = false := by simp [h]
        simp [SMap.lookup, List.find?_cons, this]
      simp only [h, if_false, List.length_cons, hl]
      rw [ih]
      split
      · rename_i hsome
        have : 0 < m.length := by
          cases m with
          | nil => simp [SMap.lookup] at hsome
          | cons _ _ => simp
        omega
      · rfl

/-! ### delete and lookup recursions -/

theorem deleteRec_spec (cap : Nat) : ∀ (h : Nat) (t : Tree K V h) (lo hi : Option Int) (k : K),
    Ordered h t lo hi → CSized cap h t →
    ∃ r, deleteRec h t k = .ok r ∧
      match r with
      | none => SMap.lookup (toList h t) k = none
      | some (t', _) => Ordered h t' lo hi ∧ toList h t' = SMap.erase (toList h t) k ∧ CSized cap h t' ∧
          links h t' = links h t ∧ (SMap.lookup (toList h t) k).isSome := by
  intro h
  induction h with
  | zero =>
    intro t lo hi k ho hsz
    obtain ⟨hs, hl, hb⟩ := ho
    have hlook := SMap.lookup_zip (t : Leaf K V).keys (t : Leaf K V).vals k hs hl
    have herase := SMap.erase_zip (t : Leaf K V).keys (t : Leaf K V).vals k hs hl
    have htl : toList 0 t = (t : Leaf K V).keys.zip (t : Leaf K V).vals := toList_zero _
    unfold deleteRec
    simp only []
    cases hk' : (t : Leaf K V).keys[lowerBound (t : Leaf K V).keys k]? with
    | none =>
      rw [hk'] at hlook
      exact ⟨none, rfl, by rw [htl, hlook]⟩
    | some k' =>
      have hlt : lowerBound (t : Leaf K V).keys k < (t : Leaf K V).keys.length := lt_of_getElem?_eq_some hk'
      have hltv : lowerBound (t : Leaf K V).keys k < (t : Leaf K V).vals.length := by omega
      rw [hk'] at hlook herase
      rw [List.getElem?_eq_getElem hltv] at hlook
      by_cases heq : ord k' = ord k
      · simp only [heq, if_true, List.getElem?_eq_getElem hltv]
        simp only [Option.map_some, heq, if_true] at herase hlook
        refine ⟨_, rfl, ?_, ?_, ?_, rfl, by rw [htl, hlook]; rfl⟩
        · refine ⟨ksorted_removeAt _ _ hs, ?_, ?_⟩
          · show (removeAt (t : Leaf K V).keys _).length = (removeAt (t : Leaf K V).vals _).length
            rw [length_removeAt _ _ hlt, length_removeAt _ _ hltv, hl]
          · intro x hx; exact hb x (mem_of_mem_removeAt _ _ _ hx)
        · rw [htl, toList_zero]; simp only [Leaf.entries]; rw [herase]
        · show (removeAt (t : Leaf K V).keys _).length ≤ cap
          rw [length_removeAt _ _ hlt]
          have : (t : Leaf K V).keys.length ≤ cap := hsz
          omega
      · simp only [heq, if_false]
        have hne : ¬ (some (ord k') = some (ord k)) := by simpa using heq
        simp only [Option.map_some, hne, if_false, heq] at hlook
        exact ⟨none, rfl, by rw [htl, hlook]⟩
  | succ h ih =>
    intro t lo hi k ho hsz
    have ho' := ho
    obtain ⟨hs, hlen, hkb, hc⟩ := ho
    obtain ⟨hz2, hz3⟩ := hsz
    have hle := Rust.upperBound_le (Branch.keys t) k
    have hic : upperBound (Branch.keys t) k < (Branch.children t).length := by omega
    have hci : (Branch.children t)[upperBound (Branch.keys t) k]? = some (Branch.children t)[upperBound (Branch.keys t) k] :=
      List.getElem?_eq_getElem hic
    generalize hcdef : (Branch.children t)[upperBound (Branch.keys t) k] = c at hci
    have hcm : c ∈ Branch.children t := List.mem_of_getElem? hci
    obtain ⟨r, he, hr⟩ := ih c _ _ k (hc _ c hci) (hz3 c hcm)
    have hsplit := flatMap_split (toList h) (Branch.children t) _ c hci
    have hlsplit := flatMap_split (links h) (Branch.children t) _ c hci
    have hA := Rust.left_lt h t lo hi ho' k
    have hB := Rust.right_gt h t lo hi ho' k
    have hlook : SMap.lookup (toList (h+1) t) k = SMap.lookup (toList h c) k := by
      rw [toList_succ, hsplit, List.append_assoc, SMap.lookup_append_left _ _ _ hA, SMap.lookup_append_right _ _ _ hB]
    have herase : SMap.erase (toList (h+1) t) k =
        ((Branch.children t).take (upperBound (Branch.keys t) k)).flatMap (toList h) ++ SMap.erase (toList h c) k ++
          ((Branch.children t).drop (upperBound (Branch.keys t) k + 1)).flatMap (toList h) := by
      rw [toList_succ, hsplit, List.append_assoc, SMap.erase_append_left _ _ _ hA, SMap.erase_append_right _ _ _ hB, List.append_assoc]
    unfold deleteRec
    simp only [routePos_eq _ _ hs, hci, he, Res.map_ok]
    cases r with
    | none => exact ⟨none, rfl, by rw [hlook]; exact hr⟩
    | some p =>
      obtain ⟨c', ev⟩ := p
      obtain ⟨h1, h2, h3, h4, h5⟩ := hr
      refine ⟨_, rfl, ordered_replace1 h t lo hi _ c' ho' hic h1, ?_, ⟨hz2, ?_⟩, ?_, by rw [hlook]; exact h5⟩
      · rw [toList_succ, herase]
        show (setAt (Branch.children t) _ c').flatMap (toList h) = _
        rw [flatMap_setAt, h2]
      · intro x hx
        rcases Py.mem_setAt' _ _ _ _ hx with rfl | hx
        · exact h3
        · exact hz3 x hx
      · rw [links_succ, links_succ]
        show (setAt (Branch.children t) _ c').flatMap (links h) = _
        rw [flatMap_setAt, h4, ← hlsplit]

theorem findRec_spec : ∀ (h : Nat) (t : Tree K V h) (lo hi : Option Int) (k : K),
    Ordered h t lo hi → findRec h t k = .ok (SMap.lookup (toList h t) k) := by
  intro h
  induction h with
  | zero =>
    intro t lo hi k ho
    obtain ⟨hs, hl, hb⟩ := ho
    rw [toList_zero]
    simp only [Leaf.entries]
    rw [SMap.lookup_zip _ _ k hs hl]
    unfold findRec
    simp only []
    cases hk : (t : Leaf K V).keys[lowerBound (t : Leaf K V).keys k]? with
    | none => rfl
    | some k' =>
      have hlt : lowerBound (t : Leaf K V).keys k < (t : Leaf K V).keys.length := lt_of_getElem?_eq_some hk
      have hltv : lowerBound (t : Leaf K V).keys k < (t : Leaf K V).vals.length := by omega
      simp only [List.getElem?_eq_getElem hltv]
      split <;> rfl
  | succ h ih =>
    intro t lo hi k ho
    have ho' := ho
    obtain ⟨hs, hlen, hkb, hc⟩ := ho
    have hle := Rust.upperBound_le (Branch.keys t) k
    have hic : upperBound (Branch.keys t) k < (Branch.children t).length := by omega
    have hci : (Branch.children t)[upperBound (Branch.keys t) k]? = some (Branch.children t)[upperBound (Branch.keys t) k] :=
      List.getElem?_eq_getElem hic
    generalize hcdef : (Branch.children t)[upperBound (Branch.keys t) k] = c at hci
    have hsplit := flatMap_split (toList h) (Branch.children t) _ c hci
    have hA := Rust.left_lt h t lo hi ho' k
    have hB := Rust.right_gt h t lo hi ho' k
    unfold findRec
    simp only [routePos_eq _ _ hs, hci]
    rw [ih c _ _ k (hc _ c hci), toList_succ, hsplit, List.append_assoc,
        SMap.lookup_append_left _ _ _ hA, SMap.lookup_append_right _ _ _ hB]

/-! ### the mapping protocol -/

theorem cinv_new (cfg : Cfg) (c : Nat) (h4 : 4 ≤ c) (h16 : c < 2 ^ capacityBits) :
    ∃ s : CState K V, new cfg c = some s ∧ CInv s ∧ abs s = [] ∧ s.cap = c ∧ s.size = 0 := by
  have g1 : ¬ c < minCapacity := by unfold minCapacity; omega
  have g2 : ¬ (¬ cfg.legacyNarrow = true ∧ c ≥ 2 ^ capacityBits) := by omega
  refine ⟨{ cap := c % 2 ^ capacityBits, height := 0, root := (emptyLeaf 1 : Leaf K V), size := 0, modc := 0, nextId := 2 },
    by simp only [new, g1, g2, if_false], ⟨?_, ?_, ?_, ?_, ?_, ?_, ?_⟩, ?_, Nat.mod_eq_of_lt h16, rfl⟩
  · show 4 ≤ c % 2 ^ capacityBits; rw [Nat.mod_eq_of_lt h16]; exact h4
  · exact ⟨List.Pairwise.nil, rfl, fun _ h => by cases h⟩
  · show (0 : Nat) ≤ _; exact Nat.zero_le _
  · simp [abs, toList, leaves, emptyLeaf, Leaf.entries]
  · exact ⟨rfl, trivial⟩
  · simp [linkIds, links, leaves, Rust.link, emptyLeaf]
  · intro id hid
    simp [linkIds, links, leaves, Rust.link, emptyLeaf] at hid
    subst hid; exact ⟨by omega, by show 1 < 2; omega⟩
  · simp [abs, toList, leaves, emptyLeaf, Leaf.entries]

/-- with D11 repaired the constructor accepts exactly `4 ≤ c < 2^16`, and then stores `c` itself -/
theorem new_spec (c : Nat) :
    ((new Cfg.repaired c : Option (CState K V)) = none ↔ (c < 4 ∨ 2 ^ capacityBits ≤ c)) ∧
    (∀ s, (new Cfg.repaired c : Option (CState K V)) = some s → s.cap = c) := by
  unfold new minCapacity Cfg.repaired
  constructor
  · constructor
    · intro h
      by_cases h1 : c < 4
      · exact Or.inl h1
      · right
        simp only [h1, if_false] at h
        by_cases h2 : c ≥ 2 ^ capacityBits
        · exact h2
        · simp [h2] at h
    · rintro (h | h)
      · simp [h]
      · by_cases h1 : c < 4
        · simp [h1]
        · simp [h1, h]
  · intro s hs
    by_cases h1 : c < 4
    · simp [h1] at hs
    · by_cases h2 : c ≥ 2 ^ capacityBits
      · simp [h1, h2] at hs
      · simp only [h1, if_false, Bool.false_eq_true, not_false_eq_true, true_and, h2, Option.some.injEq] at hs
        rw [← hs]
        exact Nat.mod_eq_of_lt (by omega)

theorem setitem_spec (cfg : Cfg) (s : CState K V) (k : K) (v : V) (hi : CInv s) :
    ∃ s' ev, setitem cfg s k v = .ok (s', ev) ∧ CInv s' ∧ abs s' = SMap.insert (abs s) k v ∧ s'.cap = s.cap ∧
      s.modc < s'.modc := by
  obtain ⟨hcap, ho, hsz, hsize, hchain, hnodup, hfresh⟩ := hi
  obtain ⟨res, ev, nid', he, hok, hlk⟩ := insertRec_spec cfg s.cap hcap s.height s.root none none k v s.nextId ho (inB_none _) hsz
  have hsorted : SMap.Sorted (abs s) := toList_sorted s.height s.root none none ho
  have hpos : 0 < s.nextId := by
    have hne := Rust.links_ne_nil s.height s.root none none ho
    cases hl : links s.height s.root with
    | nil => exact absurd hl hne
    | cons p rest =>
      have := hfresh p.1 (by rw [hl]; simp [linkIds])
      omega
  obtain ⟨hc1, hc2⟩ := plinkIns_chain hlk noneId hchain
  obtain ⟨hi1, hi2, _⟩ := plinkIns_ids hlk hnodup hfresh hpos
  have hlen := length_insert (abs s) k v hsorted
  unfold abs at hlen hsize
  unfold setitem
  rw [he]
  cases res with
  | updated t =>
    obtain ⟨h1, h2, h3, h4⟩ := hok
    refine ⟨_, _, rfl, ⟨hcap, h1, h3, ?_, hc1, hi1, hi2⟩, h2, rfl, Nat.lt_succ_self _⟩
    show s.size = (toList s.height t).length
    rw [h2, hlen, if_pos h4]; exact hsize
  | inserted t =>
    obtain ⟨h1, h2, h3, h4⟩ := hok
    refine ⟨_, _, rfl, ⟨hcap, h1, h3, ?_, hc1, hi1, hi2⟩, h2, rfl, Nat.lt_succ_self _⟩
    show s.size + 1 = (toList s.height t).length
    rw [h2, hlen, h4]; simp [hsize]
  | split l r sep =>
    obtain ⟨hl, hr, _, _, hlist, hsl, hsr, h4⟩ := hok
    have hlinks : links (s.height + 1) (({ id := 0, keys := [sep], children := [l, r] } : Branch K (Tree K V s.height)) : Tree K V (s.height+1)) =
        links s.height l ++ links s.height r := by
      rw [links_succ]; simp
    have hlist' : toList (s.height + 1) (({ id := 0, keys := [sep], children := [l, r] } : Branch K (Tree K V s.height)) : Tree K V (s.height+1)) =
        SMap.insert (abs s) k v := by
      rw [toList_succ]
      show [l, r].flatMap (toList s.height) = _
      simp [abs, hlist]
    refine ⟨_, _, rfl, ⟨hcap, ?_, ?_, ?_, ?_, ?_, ?_⟩, hlist', rfl, Nat.lt_succ_self _⟩
    · refine ⟨by simp [KSorted], rfl, ?_, ?_⟩
      · intro x _; exact inB_none _
      · intro j c hj
        match j, hj with
        | 0, hj => simp at hj; subst hj; simpa [loAt, hiAt] using hl
        | 1, hj => simp at hj; subst hj; simpa [loAt, hiAt] using hr
        | j+2, hj => simp at hj
    · refine ⟨by show 1 ≤ s.cap; omega, ?_⟩
      intro c hc
      have hc' : c ∈ [l, r] := hc
      simp only [List.mem_cons, List.not_mem_nil, or_false] at hc'
      rcases hc' with rfl | rfl
      · exact hsl
      · exact hsr
    · show s.size + 1 = (toList (s.height + 1) _).length
      rw [hlist']; unfold abs; rw [hlen, h4]; simp [hsize]
    · show ChainL (links (s.height + 1) _) noneId
      rw [hlinks]; exact hc1
    · show (linkIds (links (s.height + 1) _)).Nodup
      rw [hlinks]; exact hi1
    · show ∀ id ∈ linkIds (links (s.height + 1) _), _
      rw [hlinks]; exact hi2

theorem delitem_spec (s : CState K V) (k : K) (hi : CInv s) :
    ∃ r, delitem s k = .ok r ∧
      match r with
      | none => SMap.lookup (abs s) k = none
      | some (s', _) => CInv s' ∧ abs s' = SMap.erase (abs s) k ∧ (SMap.lookup (abs s) k).isSome ∧ s'.cap = s.cap ∧
          s.modc < s'.modc := by
  obtain ⟨hcap, ho, hsz, hsize, hchain, hnodup, hfresh⟩ := hi
  obtain ⟨r, he, hr⟩ := deleteRec_spec s.cap s.height s.root none none k ho hsz
  unfold delitem
  rw [he]
  cases r with
  | none => exact ⟨none, rfl, hr⟩
  | some p =>
    obtain ⟨t, ev⟩ := p
    obtain ⟨h1, h2, h3, h4, h5⟩ := hr
    refine ⟨_, rfl, ⟨hcap, h1, h3, ?_, ?_, ?_, ?_⟩, h2, h5, rfl, by show s.modc < s.modc + 2; omega⟩
    · show s.size - 1 = (toList s.height t).length
      rw [h2, length_erase, if_pos h5, hsize]; rfl
    · show ChainL (links s.height t) noneId
      rw [h4]; exact hchain
    · show (linkIds (links s.height t)).Nodup
      rw [h4]; exact hnodup
    · show ∀ id ∈ linkIds (links s.height t), _
      rw [h4]; exact hfresh

theorem getitem_spec (s : CState K V) (k : K) (hi : CInv s) :
    ∃ ev, getitem s k = .ok ((SMap.lookup (abs s) k).map (·.2), ev) := by
  unfold getitem
  rw [findRec_spec s.height s.root none none k hi.ord]
  simp only [Res.map_ok, abs]
  cases SMap.lookup (toList s.height s.root) k with
  | none => exact ⟨_, rfl⟩
  | some p => exact ⟨_, rfl⟩

theorem contains_spec (s : CState K V) (k : K) (hi : CInv s) :
    ∃ ev, contains s k = .ok ((SMap.lookup (abs s) k).isSome, ev) := by
  unfold contains
  rw [findRec_spec s.height s.root none none k hi.ord]
  simp only [Res.map_ok, abs]
  cases SMap.lookup (toList s.height s.root) k with
  | none => exact ⟨_, rfl⟩
  | some p => exact ⟨_, rfl⟩

theorem len_spec (s : CState K V) (hi : CInv s) : len s = (abs s).length := hi.size

end BPT.C
