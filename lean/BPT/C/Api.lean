import BPT.C.Model
/-
  The package-level `BPlusTreeMap` wrapper over the C type (python/bplustree/__init__.py):
  get, values, pop, popitem, setdefault, update, copy, clear as compositions of the
  C type's mapping protocol.  Import-free apart from the model.
-/
namespace BPT.C
open BPT

variable {K V : Type} [Keyed K]

/-- `get(key, default)`: `try: return self[key] except KeyError: return default` -/
def wget (s : CState K V) (k : K) (d : V) : Res V :=
  (getitem s k).map fun r => match r.1 with | some v => v | none => d

/-- `pop(key[, default])`: result `none` = KeyError -/
def wpop (s : CState K V) (k : K) (d : Option V) : Res (CState K V × Option V) :=
  (getitem s k).bind fun r =>
    match r.1 with
    | none => .ok (s, d)
    | some v =>
      (delitem s k).map fun q =>
        match q with
        | some (s', _) => (s', some v)
        | none => (s, d)                              -- `del` raised KeyError inside the `try`

/-- first entry the `items()` iterator yields -/
def firstItem (s : CState K V) : Res (Option (K × V)) :=
  (iterNext s (iterNew s true)).map fun r => match r.2 with | .item k v => some (k, v) | _ => none

/-- `popitem()`: result `none` = KeyError("popitem(): tree is empty") -/
def wpopitem (s : CState K V) : Res (CState K V × Option (K × V)) :=
  (firstItem s).bind fun f =>
    match f with
    | none => .ok (s, none)
    | some (k, v) =>
      (delitem s k).map fun q =>
        match q with
        | some (s', _) => (s', some (k, v))
        | none => (s, none)                           -- swallowed by the bare `except`

/-- `setdefault(key, default)` -/
def wsetdefault (cfg : Cfg) (s : CState K V) (k : K) (d : V) : Res (CState K V × V) :=
  (getitem s k).bind fun r =>
    match r.1 with
    | some v => .ok (s, v)
    | none => (setitem cfg s k d).map fun q => (q.1, d)

/-- `update(pairs)` -/
def wupdate (cfg : Cfg) (s : CState K V) (its : List (K × V)) : Res (CState K V) :=
  its.foldl (fun acc kv => acc.bind fun s => (setitem cfg s kv.1 kv.2).map (·.1)) (.ok s)

/-- the wrapper's `capacity` property is the constant 8 -/
def wrapperCapacity : Nat := 8

/-- `copy()`: `BPlusTreeMap(capacity=self.capacity)` filled from `items()` -/
def wcopy (cfg : Cfg) (s : CState K V) : Res (CState K V) :=
  (items s).bind fun its =>
    match (new cfg wrapperCapacity : Option (CState K V)) with
    | none => .panic
    | some s0 => wupdate cfg s0 its

/-- first key the `keys()` iterator yields -/
def firstKey (s : CState K V) : Res (Option K) :=
  (iterNext s (iterNew s false)).map fun r => match r.2 with | .key k => some k | _ => none

/-- `clear()`: `while len(self) > 0: for key in self.keys(): del self[key]; break` (fuel = size + 1) -/
def wclear : Nat → CState K V → Res (CState K V)
  | 0, _ => .diverge
  | f+1, s =>
    if s.size = 0 then .ok s
    else (firstKey s).bind fun fk =>
      match fk with
      | none => wclear f s                            -- the `for` loop body never ran; `while` spins
      | some k => (delitem s k).bind fun q =>
          match q with
          | some (s', _) => wclear f s'
          | none => .panic                            -- KeyError escapes `clear`

end BPT.C
