import BPT.C.Model
/-
  Error exits of the C extension's searches (python/bplustree_c_src/{tree_ops,node_ops}.c): a key whose
  comparison with a stored key raises (unorderable types, a raising `__lt__`).

  `node_find_position` returns -1 at the first failing comparison; `tree_find_leaf`,
  `tree_insert_recursive`, `node_insert_leaf`, `node_get` and `node_delete` all test that result
  *before* they write a slot, touch `size` / `modification_count` or take a reference
  (`if (pos < 0) return -1;  /* Comparison error */` directly after the search).  So such a call
  raises, changes nothing and emits no reference-count event — provided a comparison happens at all:
  a node with no keys is searched without comparing, and the descent continues into child 0.

  The theorems below are short because the model *states* that contract; what ties it to the code is
  the reference-count site inventory per function (`TieC.c_refcount_sites_eq`: an `INCREF` hoisted
  above the search changes the site list of `node_insert_leaf`), the source-text ties of the search
  functions, and the correspondence run (`badset` / `badget` / `baddel` lines; `badin` answers `false`, with the
  reference-count audit of the rejected key and value objects).
-/
namespace BPT.C
open BPT

variable {K V : Type} [Keyed K]

/-- does a search for an incomparable key reach a comparison? (a key-less node is passed through to child 0) -/
def searchCompares : (h : Nat) → Tree K V h → Bool
  | 0, (l : Leaf K V) => !l.keys.isEmpty
  | h+1, (b : Branch K (Tree K V h)) =>
    !b.keys.isEmpty || (match b.children[0]? with | some c => searchCompares h c | none => false)

/-- outcome of `t[bad] = v`, `t[bad]`, `del t[bad]` for a key `bad` that cannot be compared
    (`bad in t` is different: `BPlusTree_contains` clears whatever error the lookup raised and answers 0):
    `some (state after, reference events)` when the call raises `TypeError`; `none` when no comparison
    happens (the call then proceeds as for an ordinary key, outside this definition) -/
def raisingCall (s : CState K V) : Option (CState K V × Evs K V) :=
  if searchCompares s.height s.root then some (s, { inc := [], dec := [] }) else none

omit [Keyed K] in
/-- a call that raises on its first comparison leaves the tree — contents, `size`, modification stamp — as it was -/
theorem raisingCall_state (s s' : CState K V) (e : Evs K V) (h : raisingCall s = some (s', e)) : s' = s := by
  unfold raisingCall at h; split at h <;> simp at h; exact h.1.symm

omit [Keyed K] in
/-- … and takes or releases no reference: the rejected key and value objects are not retained -/
theorem raisingCall_refs (s s' : CState K V) (e : Evs K V) (h : raisingCall s = some (s', e)) :
    e.inc = [] ∧ e.dec = [] := by
  unfold raisingCall at h; split at h <;> simp at h; rw [← h.2]; exact ⟨rfl, rfl⟩

omit [Keyed K] in
/-- a non-empty single-leaf tree, and every tree whose root is a branch with a key, compares -/
theorem searchCompares_of_root_keys (s : CState K V) :
    (match s.height, s.root with
     | 0, (l : Leaf K V) => l.keys ≠ []
     | _+1, (b : Branch K (Tree K V _)) => b.keys ≠ []) → searchCompares s.height s.root = true := by
  rcases s with ⟨cap, h, root, size, modc, nid⟩
  cases h with
  | zero => intro hk; simp only [searchCompares]; cases hl : (root : Leaf K V).keys <;> simp_all
  | succ n => intro hk; simp only [searchCompares]; cases hl : (root : Branch K (Tree K V n)).keys <;> simp_all

end BPT.C
