import BPT.Arena.Model
/-
  Invariant and step lemmas for the `CompactArena` model (C16; re-used by C06).
-/
namespace BPT
namespace Arena
variable {T : Type}

/-- well-formedness of an arena: what `CompactArena`'s methods maintain -/
structure AInv (a : Arena T) : Prop where
  len_eq : a.storage.length = a.mask.length
  free_nodup : a.free.Nodup
  free_iff : ∀ i, i ∈ a.free ↔ a.mask[i]? = some false
  count : a.free.length + a.mask.count true = a.mask.length
  bound : a.storage.length ≤ nullId

theorem ainv_empty : AInv (empty : Arena T) := by
  constructor <;> simp [empty, nullId]

/-! ### list helpers -/

theorem count_setAt_true (l : List Bool) (i : Nat) (h : l[i]? = some false) :
    (setAt l i true).count true = l.count true + 1 := by
  have hl := eq_take_cons_drop l i false h
  have : l.count true = (l.take i).count true + (l.drop (i+1)).count true := by
    conv => lhs; rw [hl]
    simp [List.count_append]
  simp [setAt, List.count_append, this]; omega

theorem count_setAt_false (l : List Bool) (i : Nat) (h : l[i]? = some true) :
    (setAt l i false).count true + 1 = l.count true := by
  have hl := eq_take_cons_drop l i true h
  have : l.count true = (l.take i).count true + 1 + (l.drop (i+1)).count true := by
    conv => lhs; rw [hl]
    simp [List.count_append]; omega
  simp [setAt, List.count_append, this]; omega

/-! ### `get` -/

theorem maskAt_true_iff (a : Arena T) (i : Nat) : a.maskAt i = true ↔ a.mask[i]? = some true := by
  unfold maskAt; cases h : a.mask[i]? <;> simp

theorem get_eq_some_iff (a : Arena T) (h : AInv a) (id : Nat) (x : T) :
    a.get id = some x ↔ a.mask[id]? = some true ∧ a.storage[id]? = some x := by
  unfold get
  constructor
  · intro hg
    split at hg
    · simp at hg
    · split at hg
      · rename_i h2; exact ⟨(maskAt_true_iff a id).1 h2.2, hg⟩
      · simp at hg
  · rintro ⟨hm, hs⟩
    have hlt := lt_of_getElem?_eq_some hs
    have hne : id ≠ nullId := by have := h.bound; omega
    simp only [hne, if_false, hlt, (maskAt_true_iff a id).2 hm, and_self, if_true]
    exact hs

theorem get_eq_none_of_mask (a : Arena T) (id : Nat) (hm : a.mask[id]? ≠ some true) : a.get id = none := by
  unfold get
  split
  · rfl
  · split
    · rename_i h2; exact absurd ((maskAt_true_iff a id).1 h2.2) hm
    · rfl

theorem get_null (a : Arena T) : a.get nullId = none := by simp [get]

theorem get_out_of_range (a : Arena T) (id : Nat) (h : a.storage.length ≤ id) : a.get id = none := by
  unfold get; split
  · rfl
  · split
    · rename_i h2; omega
    · rfl

theorem get_isSome_iff (a : Arena T) (h : AInv a) (id : Nat) : (a.get id).isSome ↔ a.mask[id]? = some true := by
  constructor
  · intro hs
    obtain ⟨x, hx⟩ := Option.isSome_iff_exists.1 hs
    exact ((get_eq_some_iff a h id x).1 hx).1
  · intro hm
    have hlt : id < a.storage.length := by rw [h.len_eq]; exact lt_of_getElem?_eq_some hm
    have : a.storage[id]? = some a.storage[id] := List.getElem?_eq_getElem hlt
    exact Option.isSome_iff_exists.2 ⟨_, (get_eq_some_iff a h id _).2 ⟨hm, this⟩⟩

theorem contains_eq (a : Arena T) (h : AInv a) (id : Nat) : a.contains id = (a.get id).isSome := by
  unfold contains get
  split
  · simp
  · by_cases h1 : id < a.storage.length <;> by_cases h2 : a.maskAt id = true <;> simp [h1, h2]

/-! ### allocate -/

theorem allocate_spec (a : Arena T) (h : AInv a) (x : T) (id : Nat) (a' : Arena T)
    (he : a.allocate x = .ok (id, a')) :
    AInv a' ∧ id ≠ nullId ∧ a.get id = none ∧ a'.get id = some x ∧ (∀ j, j ≠ id → a'.get j = a.get j) ∧
    a'.len = a.len + 1 ∧ a'.storage.length = (if a.free = [] then a.storage.length + 1 else a.storage.length) := by
  unfold allocate allocateL at he
  cases hf : a.free with
  | nil =>
    simp only [hf] at he
    split at he
    · rename_i hlim
      simp only [Res.ok.injEq, Prod.mk.injEq] at he
      obtain ⟨rfl, rfl⟩ := he
      have hcnt := h.count
      simp only [hf, List.length_nil, Nat.zero_add] at hcnt
      have hinv : AInv ({ storage := a.storage ++ [x], mask := a.mask ++ [true], free := [] } : Arena T) := by
        constructor
        · simp [h.len_eq]
        · simp
        · intro i
          simp only [List.not_mem_nil, false_iff]
          have := (h.free_iff i)
          rw [hf] at this
          simp only [List.not_mem_nil, false_iff] at this
          rw [List.getElem?_append]
          split
          · exact this
          · rename_i hge
            cases hc : i - a.mask.length <;> simp
        · simp [List.count_append, hcnt]
        · simp only [List.length_append, List.length_cons, List.length_nil]; omega
      refine ⟨hinv, by omega, get_out_of_range a _ (Nat.le_refl _), ?_, ?_, ?_, by simp⟩
      · rw [get_eq_some_iff _ hinv]
        constructor
        · simp only [h.len_eq]; simp
        · simp
      · intro j hj
        cases hg : a.get j with
        | none =>
          apply get_eq_none_of_mask
          intro hm
          rw [List.getElem?_append] at hm
          split at hm
          · have := (get_isSome_iff a h j).2 hm; simp [hg] at this
          · rename_i hge
            have : j - a.mask.length ≠ 0 := by have := h.len_eq; omega
            cases hc : j - a.mask.length with
            | zero => exact this hc
            | succ n => simp [hc] at hm
        | some y =>
          have := (get_eq_some_iff a h j y).1 hg
          rw [get_eq_some_iff _ hinv]
          have h1 := lt_of_getElem?_eq_some this.1
          have h2 := lt_of_getElem?_eq_some this.2
          simp only
          rw [List.getElem?_append_left h1, List.getElem?_append_left h2]; exact this
      · simp [len, List.count_append]
    · simp at he
  | cons i rest =>
    simp only [hf] at he
    split at he
    · rename_i hr
      split at he
      · simp only [Res.ok.injEq, Prod.mk.injEq] at he
        obtain ⟨rfl, rfl⟩ := he
        have hmem : i ∈ a.free := by rw [hf]; simp
        have hmi : a.mask[i]? = some false := (h.free_iff i).1 hmem
        have hnd := h.free_nodup
        rw [hf, List.nodup_cons] at hnd
        have hcnt := h.count
        rw [hf] at hcnt
        have hinv : AInv ({ storage := setAt a.storage i x, mask := setAt a.mask i true, free := rest } : Arena T) := by
          constructor
          · simp [length_setAt _ _ _ hr.1, length_setAt _ _ _ hr.2, h.len_eq]
          · exact hnd.2
          · intro j
            simp only
            rw [getElem?_setAt _ _ _ _ hr.2]
            have := h.free_iff j
            rw [hf, List.mem_cons] at this
            by_cases hji : j = i
            · subst hji; simp [hnd.1]
            · simp only [hji, if_false]
              rw [← this]; simp [hji]
          · simp only [length_setAt _ _ _ hr.2]
            rw [count_setAt_true _ _ hmi]
            simp only [List.length_cons] at hcnt; omega
          · simp only [length_setAt _ _ _ hr.1]; exact h.bound
        refine ⟨hinv, by have := h.bound; omega, get_eq_none_of_mask a _ (by simp [hmi]), ?_, ?_, ?_, by simp [length_setAt _ _ _ hr.1]⟩
        · rw [get_eq_some_iff _ hinv]
          simp [getElem?_setAt _ _ _ _ hr.1, getElem?_setAt _ _ _ _ hr.2]
        · intro j hj
          cases hg : a.get j with
          | none =>
            apply get_eq_none_of_mask
            simp only [getElem?_setAt _ _ _ _ hr.2, hj, if_false]
            intro hm
            have := (get_isSome_iff a h j).2 hm; simp [hg] at this
          | some y =>
            have := (get_eq_some_iff a h j y).1 hg
            rw [get_eq_some_iff _ hinv]
            simp [getElem?_setAt _ _ _ _ hr.1, getElem?_setAt _ _ _ _ hr.2, hj, this.1, this.2]
        · simp only [len]; exact count_setAt_true _ _ hmi
      · simp at he
    · simp at he

/-- `allocate` fails only when the arena has `u32::MAX` slots and none is free -/
theorem allocate_ok (a : Arena T) (h : AInv a) (x : T) (hroom : a.free ≠ [] ∨ a.storage.length < nullId) :
    ∃ id a', a.allocate x = .ok (id, a') := by
  unfold allocate allocateL
  cases hf : a.free with
  | nil =>
    have : a.storage.length < nullId := by rcases hroom with h1 | h1 <;> simp_all
    simp [this]
  | cons i rest =>
    have hmem : i ∈ a.free := by rw [hf]; simp
    have hmi := (h.free_iff i).1 hmem
    have h1 := lt_of_getElem?_eq_some hmi
    have h2 : i < a.storage.length := by rw [h.len_eq]; exact h1
    have : i ≤ nullId := by have := h.bound; omega
    simp [h1, h2, this]

/-! ### deallocate (three variants) -/

theorem deallocate_live (dflt : T) (a : Arena T) (h : AInv a) (id : Nat) (x : T) (hg : a.get id = some x) :
    ∃ a', a.deallocate dflt id = .ok (some x, a') ∧ AInv a' ∧ a'.get id = none ∧
      (∀ j, j ≠ id → a'.get j = a.get j) ∧ a'.len + 1 = a.len ∧ a'.freeCount = a.freeCount + 1 ∧
      a'.storage.length = a.storage.length := by
  have hx := (get_eq_some_iff a h id x).1 hg
  have hlm := lt_of_getElem?_eq_some hx.1
  have hls := lt_of_getElem?_eq_some hx.2
  have hne : id ≠ nullId := by have := h.bound; omega
  have hnotfree : id ∉ a.free := by rw [h.free_iff]; simp [hx.1]
  have hinv : AInv ({ storage := setAt a.storage id dflt, mask := setAt a.mask id false, free := id :: a.free } : Arena T) := by
    constructor
    · simp [length_setAt _ _ _ hls, length_setAt _ _ _ hlm, h.len_eq]
    · exact List.nodup_cons.2 ⟨hnotfree, h.free_nodup⟩
    · intro j
      simp only [List.mem_cons, getElem?_setAt _ _ _ _ hlm]
      by_cases hj : j = id
      · simp [hj]
      · simp [hj, h.free_iff j]
    · simp only [List.length_cons, length_setAt _ _ _ hlm]
      have := count_setAt_false _ _ hx.1
      have := h.count; omega
    · simp only [length_setAt _ _ _ hls]; exact h.bound
  refine ⟨_, ?_, hinv, ?_, ?_, ?_, by simp [freeCount], by simp [length_setAt _ _ _ hls]⟩
  · unfold deallocate
    simp [hne, (maskAt_true_iff a id).2 hx.1, hx.2]
  · apply get_eq_none_of_mask; simp [getElem?_setAt _ _ _ _ hlm]
  · intro j hj
    cases hgj : a.get j with
    | none =>
      apply get_eq_none_of_mask
      simp only [getElem?_setAt _ _ _ _ hlm, hj, if_false]
      intro hm
      have := (get_isSome_iff a h j).2 hm; simp [hgj] at this
    | some y =>
      have := (get_eq_some_iff a h j y).1 hgj
      rw [get_eq_some_iff _ hinv]
      simp [getElem?_setAt _ _ _ _ hls, getElem?_setAt _ _ _ _ hlm, hj, this.1, this.2]
  · simp only [len]; exact count_setAt_false _ _ hx.1

/-- releasing anything that is not a live handle (released, never issued, null,
    out of range) reports failure and changes nothing -/
theorem deallocate_dead (dflt : T) (a : Arena T) (h : AInv a) (id : Nat) (hg : a.get id = none) :
    a.deallocate dflt id = .ok (none, a) := by
  unfold deallocate
  by_cases hn : id = nullId
  · simp [hn]
  · simp only [hn, if_false]
    by_cases hm : a.maskAt id = true
    · have hm' := (maskAt_true_iff a id).1 hm
      have := (get_isSome_iff a h id).2 hm'
      simp [hg] at this
    · simp [hm]

theorem deallocateNoReturn_live (a : Arena T) (h : AInv a) (id : Nat) (x : T) (hg : a.get id = some x) :
    ∃ a', a.deallocateNoReturn id = (true, a') ∧ AInv a' ∧ a'.get id = none ∧
      (∀ j, j ≠ id → a'.get j = a.get j) ∧ a'.len + 1 = a.len ∧ a'.freeCount = a.freeCount + 1 := by
  have hx := (get_eq_some_iff a h id x).1 hg
  have hlm := lt_of_getElem?_eq_some hx.1
  have hne : id ≠ nullId := by have := h.bound; have := h.len_eq; omega
  have hnotfree : id ∉ a.free := by rw [h.free_iff]; simp [hx.1]
  have hinv : AInv ({ a with mask := setAt a.mask id false, free := id :: a.free } : Arena T) := by
    constructor
    · simp [length_setAt _ _ _ hlm, h.len_eq]
    · exact List.nodup_cons.2 ⟨hnotfree, h.free_nodup⟩
    · intro j
      simp only [List.mem_cons, getElem?_setAt _ _ _ _ hlm]
      by_cases hj : j = id
      · simp [hj]
      · simp [hj, h.free_iff j]
    · simp only [List.length_cons, length_setAt _ _ _ hlm]
      have := count_setAt_false _ _ hx.1
      have := h.count; omega
    · exact h.bound
  refine ⟨_, ?_, hinv, ?_, ?_, ?_, by simp [freeCount]⟩
  · unfold deallocateNoReturn
    simp [hne, hlm, (maskAt_true_iff a id).2 hx.1]
  · apply get_eq_none_of_mask; simp [getElem?_setAt _ _ _ _ hlm]
  · intro j hj
    cases hgj : a.get j with
    | none =>
      apply get_eq_none_of_mask
      simp only [getElem?_setAt _ _ _ _ hlm, hj, if_false]
      intro hm
      have := (get_isSome_iff a h j).2 hm; simp [hgj] at this
    | some y =>
      have := (get_eq_some_iff a h j y).1 hgj
      rw [get_eq_some_iff _ hinv]
      simp [getElem?_setAt _ _ _ _ hlm, hj, this.1, this.2]
  · simp only [len]; exact count_setAt_false _ _ hx.1

theorem deallocateNoReturn_dead (a : Arena T) (h : AInv a) (id : Nat) (hg : a.get id = none) :
    a.deallocateNoReturn id = (false, a) := by
  unfold deallocateNoReturn
  by_cases hn : id = nullId
  · simp [hn]
  · simp only [hn, if_false]
    by_cases hm : a.maskAt id = true
    · have hm' := (maskAt_true_iff a id).1 hm
      have := (get_isSome_iff a h id).2 hm'
      simp [hg] at this
    · simp [hm]

/-! ### get_mut write, clear, compact, counters -/

theorem modify_spec (a : Arena T) (h : AInv a) (id : Nat) (f : T → T) :
    AInv (a.modify id f) ∧ (a.modify id f).get id = (a.get id).map f ∧
      (∀ j, j ≠ id → (a.modify id f).get j = a.get j) ∧ (a.modify id f).len = a.len ∧
      (a.modify id f).free = a.free := by
  unfold modify
  cases hg : a.get id with
  | none => simp [hg, h]
  | some x =>
    have hx := (get_eq_some_iff a h id x).1 hg
    have hls := lt_of_getElem?_eq_some hx.2
    have hinv : AInv ({ a with storage := setAt a.storage id (f x) } : Arena T) := by
      constructor
      · simp [length_setAt _ _ _ hls, h.len_eq]
      · exact h.free_nodup
      · exact h.free_iff
      · exact h.count
      · simp only [length_setAt _ _ _ hls]; exact h.bound
    refine ⟨hinv, ?_, ?_, rfl, rfl⟩
    · simp only [Option.map_some]
      rw [get_eq_some_iff _ hinv]
      simp [getElem?_setAt _ _ _ _ hls, hx.1]
    · intro j hj
      cases hgj : a.get j with
      | none =>
        apply get_eq_none_of_mask
        intro hm
        have := (get_isSome_iff a h j).2 hm; simp [hgj] at this
      | some y =>
        have := (get_eq_some_iff a h j y).1 hgj
        rw [get_eq_some_iff _ hinv]
        simp [getElem?_setAt _ _ _ _ hls, hj, this.1, this.2]

theorem clear_spec (a : Arena T) : AInv a.clear ∧ (∀ id, a.clear.get id = none) ∧ a.clear.len = 0 ∧ a.clear.freeCount = 0 := by
  refine ⟨ainv_empty, ?_, rfl, rfl⟩
  intro id; exact get_out_of_range _ _ (Nat.zero_le _)

theorem liveItems_length (a : Arena T) (h : AInv a) : a.liveItems.length = a.len := by
  unfold liveItems len
  have : ∀ (s : List T) (m : List Bool), s.length = m.length →
      (((s.zip m).filter (fun p => p.2)).map (fun p => p.1)).length = m.count true := by
    intro s
    induction s with
    | nil => intro m hm; cases m <;> simp_all
    | cons x xs ih =>
      intro m hm
      cases m with
      | nil => simp at hm
      | cons b bs =>
        have := ih bs (by simpa using hm)
        cases b <;> simp_all [List.filter_cons]
  exact this _ _ h.len_eq

theorem compact_spec (a : Arena T) (h : AInv a) :
    AInv a.compact ∧ a.compact.liveItems = a.liveItems ∧ a.compact.len = a.len ∧ a.compact.freeCount = 0 := by
  have hall : ∀ (l : List T), ((l.zip (l.map fun _ => true)).filter (fun p => p.2)).map (fun p => p.1) = l := by
    intro l; induction l with
    | nil => rfl
    | cons x xs ih => simp [List.filter_cons, ih]
  have hlen : a.compact.len = a.len := by
    have := liveItems_length a h
    simp only [compact, len, List.count_eq_countP] at this ⊢
    rw [← this]
    generalize a.liveItems = l
    induction l with
    | nil => rfl
    | cons x xs ih => simp [ih]
  refine ⟨?_, ?_, hlen, rfl⟩
  · constructor
    · simp [compact]
    · simp [compact]
    · intro i
      simp only [compact, List.not_mem_nil, false_iff]
      cases hc : (List.map (fun _ => true) a.liveItems)[i]? with
      | none => simp
      | some b =>
        rw [List.getElem?_map] at hc
        cases hd : a.liveItems[i]? <;> simp_all
    · have : a.compact.mask.count true = a.compact.mask.length := by
        simp only [compact]
        generalize a.liveItems = l
        induction l with
        | nil => rfl
        | cons x xs ih => simp [ih]
      simp only [compact] at this ⊢
      simp [this]
    · have h1 := liveItems_length a h
      simp only [compact]
      have h2 : a.len ≤ a.mask.length := by unfold len; exact List.count_le_length
      have := h.bound; have := h.len_eq; omega
  · simp only [compact, liveItems]
    exact hall _

/-- the counters are exactly the numbers of live and of released-but-reusable slots -/
theorem counters (a : Arena T) (h : AInv a) :
    a.len + a.freeCount = a.storage.length ∧ a.isEmpty = (a.len == 0) := by
  constructor
  · have := h.count; have := h.len_eq; simp only [len, freeCount]; omega
  · rfl

/-- `len` counts exactly the handles for which `get` answers -/
theorem len_eq_live_handles (a : Arena T) (h : AInv a) :
    a.len = ((List.range a.storage.length).filter (fun i => (a.get i).isSome)).length := by
  have hgen : ∀ (m : List Bool), m.count true = ((List.range m.length).filter (fun i => m[i]? == some true)).length := by
    intro m
    induction m with
    | nil => rfl
    | cons b bs ih =>
      simp only [List.length_cons]
      rw [List.range_succ_eq_map, List.filter_cons]
      simp only [List.filter_map, List.length_cons]
      have hcomp : ((fun i => (b :: bs)[i]? == some true) ∘ Nat.succ) = (fun i => bs[i]? == some true) := by
        funext i; simp
      cases b <;> simp [hcomp, ← ih]
  unfold len
  rw [hgen, h.len_eq]
  congr 1
  apply List.filter_congr
  intro i _
  have := get_isSome_iff a h i
  cases h1 : (a.get i).isSome <;> cases h2 : (a.mask[i]? == some true) <;> simp_all

end Arena
end BPT
