import BPT.Core.ListOps
import BPT.Core.Res
/-
  Executable model of `CompactArena<T>` (rust/src/compact_arena.rs).
  Import-free (only BPT core files) so the driver executable can link it.

  * `storage`, `mask` are the two parallel `Vec`s; `free` is `free_list` with the
    head of the list = the *top* of the Vec (what `pop()` returns).
  * handles are `Nat`; `nullId = u32::MAX`.
  * `generation` is not modelled (never read).
  * every place where the Rust code can panic is `Res.panic`.
-/
namespace BPT

def nullId : Nat := 4294967295

structure Arena (T : Type) where
  storage : List T
  mask : List Bool
  free : List Nat
deriving Repr

namespace Arena
variable {T : Type}

def empty : Arena T := { storage := [], mask := [], free := [] }

/-- `allocated_mask.get(index).copied().unwrap_or(false)` -/
def maskAt (a : Arena T) (i : Nat) : Bool := (a.mask[i]?).getD false

/-- `CompactArena::allocate`.  `limit` is the first index the arena refuses to
    issue: `nullId` for the repaired code ("arena full" before handing out the
    null handle), `nullId + 1` for the code as found (D5), where only
    `NodeId::try_from` fails. -/
def allocateL (limit : Nat) (a : Arena T) (x : T) : Res (Nat × Arena T) :=
  match a.free with
  | i :: rest =>
      -- `self.storage[free_index] = item; self.allocated_mask[free_index] = true;`
      if i < a.storage.length ∧ i < a.mask.length then
        if i ≤ nullId then   -- `NodeId::try_from(index).expect(..)`
          .ok (i, { storage := setAt a.storage i x, mask := setAt a.mask i true, free := rest })
        else .panic
      else .panic
  | [] =>
      let i := a.storage.length
      if i < limit then
        .ok (i, { storage := a.storage ++ [x], mask := a.mask ++ [true], free := [] })
      else .panic

def allocate (a : Arena T) (x : T) : Res (Nat × Arena T) := allocateL nullId a x

/-- `deallocate` and `deallocate_with_default` (identical bodies): returns the
    stored item and leaves `dflt` (= `T::default()`) in the slot. -/
def deallocate (dflt : T) (a : Arena T) (id : Nat) : Res (Option T × Arena T) :=
  if id = nullId then .ok (none, a)
  else if a.maskAt id then
    -- `self.allocated_mask[index] = false` cannot panic here (maskAt true ⇒ in range);
    -- `mem::take(&mut self.storage[index])` panics if storage is shorter than mask.
    match a.storage[id]? with
    | some x => .ok (some x, { storage := setAt a.storage id dflt, mask := setAt a.mask id false, free := id :: a.free })
    | none => .panic
  else .ok (none, a)

/-- `deallocate_no_return`: the item stays in the slot. -/
def deallocateNoReturn (a : Arena T) (id : Nat) : Bool × Arena T :=
  if id = nullId then (false, a)
  else if id < a.mask.length ∧ a.maskAt id then
    (true, { a with mask := setAt a.mask id false, free := id :: a.free })
  else (false, a)

/-- `get` / `get_mut` (read side) -/
def get (a : Arena T) (id : Nat) : Option T :=
  if id = nullId then none
  else if id < a.storage.length ∧ a.maskAt id then a.storage[id]? else none

/-- a write through `get_mut` -/
def modify (a : Arena T) (id : Nat) (f : T → T) : Arena T :=
  match a.get id with
  | some x => { a with storage := setAt a.storage id (f x) }
  | none => a

def contains (a : Arena T) (id : Nat) : Bool :=
  if id = nullId then false else decide (id < a.storage.length) && a.maskAt id

/-- `len` / `allocated_count` / `stats().allocated_count` -/
def len (a : Arena T) : Nat := a.mask.count true
def isEmpty (a : Arena T) : Bool := a.len == 0
/-- `free_count` / `stats().free_count` -/
def freeCount (a : Arena T) : Nat := a.free.length

def clear (_ : Arena T) : Arena T := empty

/-- items of allocated slots, in slot order -/
def liveItems (a : Arena T) : List T :=
  ((a.storage.zip a.mask).filter (fun p => p.2)).map (fun p => p.1)

/-- `compact`: keeps the allocated items (cloned), drops gaps, empties the free list -/
def compact (a : Arena T) : Arena T :=
  { storage := a.liveItems, mask := a.liveItems.map (fun _ => true), free := [] }

/-- what `get_unchecked(id)` requires: an in-range, allocated slot -/
def uncheckedOk (a : Arena T) (id : Nat) : Bool := decide (id < a.storage.length) && a.maskAt id

end Arena
end BPT
