import BPT.Py.Readers
/-
  Every call of the mapping API on a valid state answers what the sorted
  association list (a `dict` observed through sorted iteration) answers, never
  raises anything but KeyError, and leaves a valid state.
-/
namespace BPT.Py
open BPT Tree
open BPT.Rust (links links_succ links_zero ChainL firstOf link)
variable {K V : Type} [Keyed K]

/-- the specification of one call on the sorted association list -/
def specStep (m : List (K × V)) : Op K V → List (K × V) × Out K V
  | .set k v => (SMap.insert m k v, .unit)
  | .del k => (SMap.erase m k, if (SMap.lookup m k).isSome then .unit else .keyError)
  | .get k d => (m, .val (match SMap.lookup m k with | some p => p.2 | none => d))
  | .getitem k => (m, match SMap.lookup m k with | some p => .val p.2 | none => .keyError)
  | .contains k => (m, .bool (SMap.lookup m k).isSome)
  | .len => (m, .nat m.length)
  | .bool => (m, .bool (decide (m.length > 0)))
  | .pop k d =>
    match SMap.lookup m k with
    | some p => (SMap.erase m k, .val p.2)
    | none => (m, match d with | some d => .val d | none => .keyError)
  | .popitem =>
    match m with
    | [] => ([], .keyError)
    | p :: rest => (rest, .item p.1 p.2)            -- removes the entry with the smallest key
  | .setdefault k d =>
    match SMap.lookup m k with
    | some p => (m, .val p.2)
    | none => (SMap.insert m k d, .val d)
  | .update its => (its.foldl (fun m kv => SMap.insert m kv.1 kv.2) m, .unit)
  | .copy => (m, .unit)
  | .clear => ([], .unit)
  | .items a b => (m, .list (m.filter (fun p => inRange a b p.1)))

theorem get_spec (isNone : V → Bool) (s : PState K V) (hi : PInv s) (k : K) (d : V) :
    get Cfg.repaired isNone s k d = some (match SMap.lookup (abs s) k with | some p => p.2 | none => d) := by
  unfold get
  rw [findRec_spec s.height s.root none none k hi.ord]
  simp only [Option.map_some, abs, Cfg.repaired]
  cases SMap.lookup (toList s.height s.root) k <;> rfl

theorem getitem_spec (s : PState K V) (hi : PInv s) (k : K) :
    getitem s k = some ((SMap.lookup (abs s) k).map (·.2)) := by
  unfold getitem
  rw [findRec_spec s.height s.root none none k hi.ord]; rfl

theorem contains_spec (s : PState K V) (hi : PInv s) (k : K) :
    contains s k = some (SMap.lookup (abs s) k).isSome := by
  unfold contains
  rw [findRec_spec s.height s.root none none k hi.ord]; rfl

theorem update_spec (its : List (K × V)) : ∀ (s : PState K V), PInv s →
    ∃ s', update s its = some s' ∧ PInv s' ∧ abs s' = its.foldl (fun m kv => SMap.insert m kv.1 kv.2) (abs s) ∧ s'.cap = s.cap := by
  induction its with
  | nil => intro s hi; exact ⟨s, rfl, hi, rfl, rfl⟩
  | cons kv its ih =>
    intro s hi
    obtain ⟨s1, he, hi1, ha1, hc1⟩ := setitem_spec s kv.1 kv.2 hi
    obtain ⟨s', h1, h2, h3, h4⟩ := ih s1 hi1
    refine ⟨s', ?_, h2, by rw [h3, ha1]; rfl, by rw [h4, hc1]⟩
    unfold update at h1 ⊢
    simp only [List.foldl_cons, Option.bind_some, he]
    exact h1

/-- inserting the entries of a sorted list one by one rebuilds the list -/
theorem foldl_insert_sorted (L : List (K × V)) : ∀ (A : List (K × V)), SMap.Sorted (A ++ L) →
    L.foldl (fun m kv => SMap.insert m kv.1 kv.2) A = A ++ L := by
  induction L with
  | nil => intro A _; simp
  | cons p L ih =>
    intro A hs
    simp only [List.foldl_cons]
    have hlt : ∀ q ∈ A, ord q.1 < ord p.1 := by
      intro q hq
      unfold SMap.Sorted at hs
      rw [List.pairwise_append] at hs
      exact hs.2.2 q hq p List.mem_cons_self
    have : SMap.insert A p.1 p.2 = A ++ [p] := by
      have := SMap.insert_append_left A [] p.1 p.2 hlt
      simpa [SMap.insert] using this
    rw [this, ih (A ++ [p]) (by simpa using hs)]
    simp

theorem psized_leaves_min (cap : Nat) : ∀ (h : Nat) (t : Tree K V h) (m : Nat), PSized cap h t m →
    ∀ l ∈ leaves h t, (if h = 0 then m else minKeys cap) ≤ l.keys.length := by
  intro h
  induction h with
  | zero =>
    intro t m hs l hl
    simp only [leaves, List.mem_singleton] at hl
    subst hl; simpa using hs.1
  | succ h ih =>
    intro t m hs l hl
    simp only [leaves, List.mem_flatMap] at hl
    obtain ⟨c, hc, hl⟩ := hl
    have := ih c _ (hs.2.2 c hc) l hl
    simp only [Nat.succ_ne_zero, if_false]
    split at this <;> exact this

/-- the first entry of the first leaf is the smallest entry; it is missing only when the map is empty -/
theorem firstEntry_spec (s : PState K V) (hi : PInv s) (hcap : 4 ≤ s.cap) : firstEntry s = some (abs s).head? := by
  have hne := Rust.links_ne_nil s.height s.root none none hi.ord
  cases hl : leaves s.height s.root with
  | nil => unfold links at hne; rw [hl] at hne; exact absurd rfl hne
  | cons l R =>
    have hhead : s.head = l.id := by rw [hi.head]; unfold links; rw [hl]; rfl
    have hnd : ((leaves s.height s.root).map (·.id)).Nodup := by rw [leaf_ids_of_links]; exact hi.nodup
    have hfind : findLeafById (leaves s.height s.root) s.head = some l := by
      rw [hhead, hl]
      exact find_in_suffix [] R l (by rw [← hl]; exact hnd)
    have hpar := leaves_parallel s.height s.root none none hi.ord l (by rw [hl]; simp)
    have habs : abs s = l.keys.zip l.vals ++ R.flatMap Leaf.entries := by
      simp only [abs, toList, hl, List.flatMap_cons]; rfl
    unfold firstEntry
    rw [hfind]
    cases hk : l.keys with
    | nil =>
      -- an empty first leaf: it is the root leaf and the map is empty
      simp only []
      have hmin := psized_leaves_min s.cap s.height s.root _ hi.sz l (by rw [hl]; simp)
      have h0 : s.height = 0 := by
        by_cases h0 : s.height = 0
        · exact h0
        · simp only [h0, if_false] at hmin
          rw [hk] at hmin
          have := minKeys_pos s.cap hcap
          simp at hmin; omega
      have hR : R = [] := by
        obtain ⟨cap, height, root, head, nextId, cache⟩ := s
        simp only at h0; subst h0
        simp only [leaves] at hl
        cases hl; rfl
      rw [habs, hk, hR]; rfl
    | cons k0 ks =>
      cases hv : l.vals with
      | nil => rw [hk, hv] at hpar; simp at hpar
      | cons v0 vs =>
        simp only []
        rw [habs, hk, hv]; rfl

theorem erase_head (p : K × V) (rest : List (K × V)) : SMap.erase (p :: rest) p.1 = rest := by
  simp [SMap.erase]
theorem lookup_head (p : K × V) (rest : List (K × V)) : SMap.lookup (p :: rest) p.1 = some p := by
  simp [SMap.lookup]

/-- every call refines the specification and keeps the invariant -/
theorem step_spec (isNone : V → Bool) (s : PState K V) (op : Op K V) (hi : PInv s) :
    ∃ s', step Cfg.repaired isNone s op = .ok (s', (specStep (abs s) op).2) ∧ PInv s' ∧
      abs s' = (specStep (abs s) op).1 ∧ s'.cap = s.cap := by
  cases op with
  | set k v =>
    obtain ⟨s', he, h1, h2, h3⟩ := setitem_spec s k v hi
    exact ⟨s', by simp [step, he, Res.ofOption, specStep], h1, h2, h3⟩
  | del k =>
    obtain ⟨s', b, he, h1, h2, h3, h4, _⟩ := delitem_spec s k hi
    refine ⟨s', ?_, h1, h2, h4⟩
    simp only [step, he, Res.ofOption, Res.map_ok, specStep, ← h3]
  | get k d =>
    refine ⟨s, ?_, hi, rfl, rfl⟩
    simp [step, get_spec isNone s hi k d, Res.ofOption, specStep]
  | getitem k =>
    refine ⟨s, ?_, hi, rfl, rfl⟩
    simp only [step, getitem_spec s hi k, Res.ofOption, Res.map_ok, specStep]
    cases SMap.lookup (abs s) k <;> rfl
  | contains k =>
    refine ⟨s, ?_, hi, rfl, rfl⟩
    simp [step, contains_spec s hi k, Res.ofOption, specStep]
  | len =>
    refine ⟨s, ?_, hi, rfl, rfl⟩
    simp [step, len_spec s hi, specStep]
  | bool =>
    refine ⟨s, ?_, hi, rfl, rfl⟩
    simp [step, len_spec s hi, specStep]
  | pop k d =>
    simp only [step, pop, getitem_spec s hi k, specStep]
    cases hl : SMap.lookup (abs s) k with
    | none =>
      refine ⟨s, ?_, hi, rfl, rfl⟩
      simp only [Option.map_none, Res.ofOption, Res.map_ok]
      cases d <;> rfl
    | some p =>
      obtain ⟨s', b, he, h1, h2, h3, h4, _⟩ := delitem_spec s k hi
      rw [hl] at h3
      simp only [Option.isSome_some] at h3
      subst h3
      refine ⟨s', ?_, h1, h2, h4⟩
      simp [he, Res.ofOption]
  | popitem =>
    simp only [step, popitem, len_spec s hi, Res.bind_ok, specStep]
    cases hm : abs s with
    | nil =>
      refine ⟨s, ?_, hi, hm, rfl⟩
      simp
    | cons p rest =>
      have hfe := firstEntry_spec s hi hi.cap4
      rw [hm] at hfe
      simp only [List.length_cons, Nat.succ_ne_zero, if_false, hfe, List.head?_cons]
      obtain ⟨s', b, he, h1, h2, h3, h4, _⟩ := delitem_spec s p.1 hi
      rw [hm, lookup_head] at h3
      rw [hm, erase_head] at h2
      simp only [Option.isSome_some] at h3
      subst h3
      refine ⟨s', ?_, h1, h2, h4⟩
      simp [he]
  | setdefault k d =>
    simp only [step, setdefault, getitem_spec s hi k, specStep]
    cases hl : SMap.lookup (abs s) k with
    | some p =>
      refine ⟨s, ?_, hi, rfl, rfl⟩
      simp [Res.ofOption]
    | none =>
      obtain ⟨s', he, h1, h2, h3⟩ := setitem_spec s k d hi
      refine ⟨s', ?_, h1, h2, h3⟩
      simp [he, Res.ofOption]
  | update its =>
    obtain ⟨s', he, h1, h2, h3⟩ := update_spec its s hi
    exact ⟨s', by simp [step, he, Res.ofOption, specStep], h1, h2, h3⟩
  | copy =>
    obtain ⟨s0, h0, hinv0, habs0, hcap0⟩ := pinv_new (K := K) (V := V) s.cap hi.cap4
    have hit := items_spec s hi none none
    have hall : (abs s).filter (fun p => inRange (none : Option K) none p.1) = abs s := by
      rw [List.filter_eq_self]; intro p _; rfl
    rw [hall] at hit
    obtain ⟨s', he, h1, h2, h3⟩ := update_spec (abs s) s0 hinv0
    rw [habs0, foldl_insert_sorted (abs s) [] (by simpa using abs_sorted s hi)] at h2
    refine ⟨s', ?_, h1, by simpa [specStep] using h2, by rw [h3, hcap0]⟩
    simp [step, copy, hit, h0, he, Res.ofOption, specStep]
  | clear =>
    exact ⟨clear s, rfl, (clear_spec s hi).1, (clear_spec s hi).2.1, (clear_spec s hi).2.2⟩
  | items a b =>
    refine ⟨s, ?_, hi, rfl, rfl⟩
    simp [step, items_spec s hi a b, specStep]

end BPT.Py
