import BPT.Py.ApiSpec
/-
  `from_sorted_items` / `_insert_sorted_optimized`: the fast path appends to the
  cached leaf only when that leaf is the true rightmost leaf, has keys, is not full
  and the new key exceeds its last key (hence every key of the map); there it does
  what `__setitem__` would do to the contents, and keeps all invariants.  So bulk
  loading any item list yields the contents of assigning the items one by one.
-/
namespace BPT.Py
open BPT Tree
open BPT.Rust (links links_succ links_zero ChainL firstOf link)
variable {K V : Type} [Keyed K]

/-- the cache is unset or names the rightmost leaf -/
def CacheOK (s : PState K V) : Prop :=
  ∀ id, s.cache = some id → (leaves s.height s.root).getLast?.map (·.id) = some id

theorem mapLeaf_of_not_mem (id : Nat) (f : Leaf K V → Leaf K V) : ∀ (h : Nat) (t : Tree K V h),
    id ∉ (leaves h t).map (·.id) → mapLeaf id f h t = t := by
  intro h
  induction h with
  | zero =>
    intro t hn
    simp only [leaves, List.map_cons, List.map_nil, List.mem_singleton] at hn
    unfold mapLeaf
    have : ¬ (t : Leaf K V).id = id := fun he => hn he.symm
    simp [this]
  | succ h ih =>
    intro t hn
    unfold mapLeaf
    have : (Branch.children t).map (mapLeaf id f h) = Branch.children t := by
      conv => rhs; rw [← List.map_id (Branch.children t)]
      apply List.map_congr_left
      intro c hc
      apply ih c
      intro hm
      apply hn
      simp only [leaves, List.map_flatMap, List.mem_flatMap]
      exact ⟨c, hc, hm⟩
    rw [this]

theorem getLast?_append_ne_nil {α : Type} (A B : List α) (h : B ≠ []) : (A ++ B).getLast? = B.getLast? := by
  rw [List.getLast?_append]
  cases hb : B.getLast? with
  | none => simp [List.getLast?_eq_none_iff] at hb; exact absurd hb h
  | some x => simp

/-- appending an entry whose key exceeds every key to the rightmost leaf of an ordered subtree -/
theorem mapLeaf_last (cap : Nat) (hcap : 4 ≤ cap) (k : K) (v : V) : ∀ (h : Nat) (t : Tree K V h) (lo : Option Int) (m : Nat) (l : Leaf K V),
    Ordered h t lo none → PSized cap h t m → ((leaves h t).map (·.id)).Nodup →
    (leaves h t).getLast? = some l → l.keys.length < cap → (∀ p ∈ toList h t, ord p.1 < ord k) →
    (∀ x, lo = some x → x ≤ ord k) →
    Ordered h (mapLeaf l.id (appendKV k v) h t) lo none ∧
    toList h (mapLeaf l.id (appendKV k v) h t) = toList h t ++ [(k, v)] ∧
    PSized cap h (mapLeaf l.id (appendKV k v) h t) m ∧
    links h (mapLeaf l.id (appendKV k v) h t) = links h t := by
  intro h
  induction h with
  | zero =>
    intro t lo m l ho hsz _ hlast hlt hgt hlo
    simp only [leaves, List.getLast?_singleton, Option.some.injEq] at hlast
    subst hlast
    obtain ⟨hs, hl, hb⟩ := ho
    have hgt' : ∀ x ∈ (t : Leaf K V).keys, ord x < ord k := by
      intro x hx
      obtain ⟨i, hi, rfl⟩ := List.getElem_of_mem hx
      have hiv : i < (t : Leaf K V).vals.length := by omega
      have : ((t : Leaf K V).keys[i], (t : Leaf K V).vals[i]) ∈ toList 0 t := by
        rw [toList_zero]; simp only [Leaf.entries]
        rw [List.mem_iff_getElem]
        exact ⟨i, by simp; omega, by simp⟩
      exact hgt _ this
    have e : mapLeaf (t : Leaf K V).id (appendKV k v) 0 t = (appendKV k v (t : Leaf K V) : Leaf K V) := by
      simp [mapLeaf]
    rw [e]
    refine ⟨⟨?_, ?_, ?_⟩, ?_, ?_, rfl⟩
    · show KSorted ((t : Leaf K V).keys ++ [k])
      unfold KSorted
      rw [List.pairwise_append]
      refine ⟨hs, by simp, ?_⟩
      intro a ha b hb'
      simp only [List.mem_singleton] at hb'
      subst hb'; exact hgt' a ha
    · show ((t : Leaf K V).keys ++ [k]).length = ((t : Leaf K V).vals ++ [v]).length
      simp [hl]
    · intro x hx
      have hx' : x ∈ (t : Leaf K V).keys ++ [k] := hx
      rcases List.mem_append.1 hx' with hx' | hx'
      · exact hb x hx'
      · simp only [List.mem_singleton] at hx'
        subst hx'
        exact ⟨hlo, by intro u hu; cases hu⟩
    · rw [toList_zero, toList_zero]
      simp only [Leaf.entries, appendKV]
      rw [List.zip_append hl]; rfl
    · exact ⟨by show m ≤ ((t : Leaf K V).keys ++ [k]).length; have := hsz.1; simp; omega,
             by show ((t : Leaf K V).keys ++ [k]).length ≤ cap; simp; omega⟩
  | succ h ih =>
    intro t lo m l ho hsz hnd hlast hlt hgt hlo
    obtain ⟨hs, hlen, hkb, hc⟩ := ho
    obtain ⟨hz1, hz2, hz3⟩ := hsz
    -- the last child
    have hchne : Branch.children t ≠ [] := by intro hn; rw [hn] at hlen; simp at hlen
    obtain ⟨A, c, hAc⟩ : ∃ A c, Branch.children t = A ++ [c] := ⟨_, _, (List.dropLast_concat_getLast hchne).symm⟩
    have hAlen : A.length = (Branch.keys t).length := by
      have := congrArg List.length hAc
      simp at this; omega
    have hci : (Branch.children t)[(Branch.keys t).length]? = some c := by
      rw [hAc, ← hAlen]; simp
    have hco := hc _ c hci
    have hhi : hiAt (Branch.keys t) none (Branch.keys t).length = none := by simp [hiAt]
    rw [hhi] at hco
    have hcne : leaves h c ≠ [] := by
      have := Rust.links_ne_nil h c _ _ hco
      intro hn; apply this; unfold links; rw [hn]; rfl
    have hleaves : leaves (h+1) t = A.flatMap (leaves h) ++ leaves h c := by
      show (Branch.children t).flatMap (leaves h) = _
      rw [hAc, List.flatMap_append]; simp
    have hlastc : (leaves h c).getLast? = some l := by
      rw [hleaves, getLast?_append_ne_nil _ _ hcne] at hlast; exact hlast
    have hlmem : l ∈ leaves h c := List.mem_of_getLast? hlastc
    -- ids of the other children do not contain l.id
    have hnd' : ((A.flatMap (leaves h)).map (·.id) ++ (leaves h c).map (·.id)).Nodup := by
      rw [← List.map_append, ← hleaves]; exact hnd
    rw [List.nodup_append] at hnd'
    have hAnot : ∀ a ∈ A, l.id ∉ (leaves h a).map (·.id) := by
      intro a ha hm
      have h1 : l.id ∈ (A.flatMap (leaves h)).map (·.id) := by
        rw [List.map_flatMap, List.mem_flatMap]; exact ⟨a, ha, hm⟩
      exact hnd'.2.2 l.id h1 l.id (List.mem_map.2 ⟨l, hlmem, rfl⟩) rfl
    have hAmap : A.map (mapLeaf l.id (appendKV k v) h) = A := by
      conv => rhs; rw [← List.map_id A]
      apply List.map_congr_left
      intro a ha
      exact mapLeaf_of_not_mem l.id _ h a (hAnot a ha)
    have hmap : mapLeaf l.id (appendKV k v) (h+1) t =
        ({ (t : Branch K (Tree K V h)) with children := A ++ [mapLeaf l.id (appendKV k v) h c] } : Branch K (Tree K V h)) := by
      show ({ (t : Branch K (Tree K V h)) with children := (Branch.children t).map (mapLeaf l.id (appendKV k v) h) } : Branch K (Tree K V h)) = _
      rw [hAc, List.map_append, hAmap]; rfl
    have hsetAt : A ++ [mapLeaf l.id (appendKV k v) h c] = setAt (Branch.children t) (Branch.keys t).length (mapLeaf l.id (appendKV k v) h c) := by
      unfold setAt
      rw [hAc, ← hAlen]; simp
    have htl : toList (h+1) t = A.flatMap (toList h) ++ toList h c := by
      rw [toList_succ, hAc, List.flatMap_append]; simp
    have hgtc : ∀ p ∈ toList h c, ord p.1 < ord k := fun p hp => hgt p (by rw [htl]; exact List.mem_append_right _ hp)
    have hloc : ∀ x, loAt (Branch.keys t) lo (Branch.keys t).length = some x → x ≤ ord k := by
      intro x hx
      unfold loAt at hx
      split at hx
      · exact hlo x hx
      · rename_i hne0
        have hlt' : (Branch.keys t).length - 1 < (Branch.keys t).length := by omega
        rw [List.getElem?_eq_getElem hlt'] at hx
        simp only [Option.map_some, Option.some.injEq] at hx
        subst hx
        -- the last separator is ≤ every key of the last child, which is non-empty … use any entry, or k directly
        have hcmem : c ∈ Branch.children t := List.mem_of_getElem? hci
        -- lower bound of c is this separator; c has an entry only if non-empty: use the leaf l
        have hlsz := psized_leaves_min cap h c _ (hz3 c hcmem) l hlmem
        -- l may be the root-level leaf with few keys; fall back on entries of c if any, else on separators being < k via hgt of left entries
        by_cases hemp : toList h c = []
        · -- no entry in c: the separator is still below k because k exceeds … the separator itself bounds c from below only;
          -- use that c's leaves are all empty hence l.keys = [] and h = 0 impossible for non-root; derive from occupancy
          have : l.keys.length = 0 := by
            have hpar := leaves_parallel h c _ _ hco l hlmem
            have : Leaf.entries l = [] := by
              have : ∀ q ∈ leaves h c, Leaf.entries q = [] := by
                unfold toList at hemp
                rw [List.flatMap_eq_nil_iff] at hemp
                exact hemp
              exact this l hlmem
            simp only [Leaf.entries] at this
            cases hk : l.keys with
            | nil => rfl
            | cons a as =>
              cases hv : l.vals with
              | nil => rw [hk, hv] at hpar; simp at hpar
              | cons b bs => rw [hk, hv] at this; simp at this
          have hmin : minKeys cap ≤ l.keys.length := by
            split at hlsz <;> exact hlsz
          have : 1 ≤ minKeys cap := minKeys_pos cap hcap
          omega
        · obtain ⟨p, hp⟩ := List.exists_mem_of_ne_nil _ hemp
          have h1 := (toList_inB h c _ _ hco p hp).1 (ord (Branch.keys t)[(Branch.keys t).length - 1]) (by
            unfold loAt; rw [if_neg hne0, List.getElem?_eq_getElem hlt']; rfl)
          have h2 := hgtc p hp
          omega
    obtain ⟨g1, g2, g3, g4⟩ := ih c _ (minKeys cap) l hco (hz3 c (List.mem_of_getElem? hci))
      hnd'.2.1 hlastc hlt hgtc hloc
    rw [hmap, hsetAt]
    have hic : (Branch.keys t).length < (Branch.children t).length := by omega
    refine ⟨?_, ?_, ⟨hz1, hz2, ?_⟩, ?_⟩
    · have := ordered_replace1 h t lo none (Branch.keys t).length _ ⟨hs, hlen, hkb, hc⟩ hic (by rw [hhi]; exact g1)
      exact this
    · rw [toList_succ]
      show (setAt (Branch.children t) _ _).flatMap (toList h) = _
      rw [flatMap_setAt, g2, htl]
      have e1 : (Branch.children t).take (Branch.keys t).length = A := by rw [hAc, ← hAlen]; simp
      have e2 : (Branch.children t).drop ((Branch.keys t).length + 1) = [] := by
        apply List.drop_eq_nil_of_le; omega
      rw [e1, e2]; simp
    · intro x hx
      rcases mem_setAt' _ _ _ _ hx with rfl | hx
      · exact g3
      · exact hz3 x hx
    · rw [links_succ, links_succ]
      show (setAt (Branch.children t) _ _).flatMap (links h) = _
      rw [flatMap_setAt, g4, ← flatMap_split (links h) (Branch.children t) _ c hci]

end BPT.Py

namespace BPT.Py
open BPT Tree
open BPT.Rust (links links_succ links_zero ChainL firstOf link)
variable {K V : Type} [Keyed K]

theorem find_some_mem (ls : List (Leaf K V)) (id : Nat) (l : Leaf K V) (h : findLeafById ls id = some l) : l ∈ ls ∧ l.id = id := by
  unfold findLeafById at h
  exact ⟨List.mem_of_find?_eq_some h, by simpa using List.find?_some h⟩

/-- in a list with pairwise distinct ids, two elements with the same id are the same element -/
theorem eq_of_id_eq (ls : List (Leaf K V)) (hnd : (ls.map (·.id)).Nodup) (l x : Leaf K V)
    (hl : l ∈ ls) (hx : x ∈ ls) (hid : l.id = x.id) : l = x := by
  induction ls with
  | nil => cases hl
  | cons a as ih =>
    simp only [List.map_cons, List.nodup_cons] at hnd
    rcases List.mem_cons.1 hl with rfl | hl' <;> rcases List.mem_cons.1 hx with rfl | hx'
    · rfl
    · exact absurd (List.mem_map.2 ⟨x, hx', hid.symm⟩) hnd.1
    · exact absurd (List.mem_map.2 ⟨l, hl', hid⟩) hnd.1
    · exact ih hnd.2 hl' hx'

theorem last_of_id (ls : List (Leaf K V)) (hnd : (ls.map (·.id)).Nodup) (l x : Leaf K V)
    (hl : l ∈ ls) (hlast : ls.getLast? = some x) (hid : l.id = x.id) : l = x :=
  eq_of_id_eq ls hnd l x hl (List.mem_of_getLast? hlast) hid

theorem insertSorted_spec (s : PState K V) (k : K) (v : V) (hi : PInv s) (hc : CacheOK s) :
    ∃ s', insertSorted s k v = some s' ∧ PInv s' ∧ CacheOK s' ∧ abs s' = SMap.insert (abs s) k v ∧ s'.cap = s.cap := by
  unfold insertSorted
  cases hf : fastLeaf s k with
  | some l =>
    -- the fast path: `l` is the cached leaf
    simp only []
    unfold fastLeaf at hf
    cases hcache : s.cache with
    | none => rw [hcache] at hf; cases hf
    | some id =>
      rw [hcache] at hf
      simp only [] at hf
      cases hfind : findLeafById (leaves s.height s.root) id with
      | none => rw [hfind] at hf; cases hf
      | some l0 =>
        rw [hfind] at hf
        simp only [] at hf
        cases hlk : l0.keys.getLast? with
        | none => rw [hlk] at hf; cases hf
        | some lastk =>
          rw [hlk] at hf
          simp only [] at hf
          by_cases hcond : ord k > ord lastk ∧ ¬ isFull s.cap l0.keys.length = true
          · rw [if_pos hcond] at hf
            simp only [Option.some.injEq] at hf
            subst hf
            obtain ⟨hmem, hid⟩ := find_some_mem _ _ _ hfind
            have hnd : ((leaves s.height s.root).map (·.id)).Nodup := by rw [leaf_ids_of_links]; exact hi.nodup
            -- it is the rightmost leaf
            have hlastid := hc id hcache
            cases hlast : (leaves s.height s.root).getLast? with
            | none => rw [hlast] at hlastid; cases hlastid
            | some x =>
              rw [hlast] at hlastid
              simp only [Option.map_some, Option.some.injEq] at hlastid
              have hlx : l0 = x := last_of_id _ hnd l0 x hmem hlast (by rw [hid, hlastid])
              subst hlx
              have hnotfull : l0.keys.length < s.cap := by
                have := hcond.2
                simp [isFull] at this; omega
              -- every key of the map is below k
              have hpar := leaves_parallel s.height s.root none none hi.ord l0 hmem
              have hsorted := abs_sorted s hi
              have hgt : ∀ p ∈ toList s.height s.root, ord p.1 < ord k := by
                obtain ⟨P, hP⟩ : ∃ P, leaves s.height s.root = P ++ [l0] := by
                  have hne : leaves s.height s.root ≠ [] := by intro hn; rw [hn] at hlast; cases hlast
                  refine ⟨(leaves s.height s.root).dropLast, ?_⟩
                  have := List.dropLast_concat_getLast hne
                  rw [List.getLast?_eq_some_getLast hne] at hlast
                  simp only [Option.some.injEq] at hlast
                  rw [hlast] at this; exact this.symm
                have hk := Rust.dropLast_append_of_getLast? l0.keys lastk hlk
                have hvne : l0.vals ≠ [] := by
                  intro hn
                  have : l0.keys.length = 0 := by rw [hpar, hn]; rfl
                  rw [hk] at this; simp at this
                obtain ⟨lastv, hlv⟩ : ∃ lv, l0.vals.getLast? = some lv := ⟨_, List.getLast?_eq_some_getLast hvne⟩
                have hv := Rust.dropLast_append_of_getLast? l0.vals lastv hlv
                have hdl : l0.keys.dropLast.length = l0.vals.dropLast.length := by simp [hpar]
                have habs : toList s.height s.root = (P.flatMap Leaf.entries ++ l0.keys.dropLast.zip l0.vals.dropLast) ++ [(lastk, lastv)] := by
                  unfold toList
                  rw [hP, List.flatMap_append]
                  simp only [List.flatMap_cons, List.flatMap_nil, List.append_nil, Leaf.entries]
                  conv => lhs; rw [hk, hv, List.zip_append hdl]
                  simp [List.append_assoc]
                intro p hp
                have hs' := hsorted
                unfold abs at hs'
                rw [habs] at hp hs'
                unfold SMap.Sorted at hs'
                rw [List.pairwise_append] at hs'
                rcases List.mem_append.1 hp with hp | hp
                · have := hs'.2.2 p hp (lastk, lastv) (by simp)
                  simp only at this
                  omega
                · simp only [List.mem_singleton] at hp
                  subst hp
                  exact hcond.1
              obtain ⟨g1, g2, g3, g4⟩ := mapLeaf_last s.cap hi.cap4 k v s.height s.root none (rootMin s.height) l0 hi.ord hi.sz hnd hlast
                hnotfull hgt (by intro x hx; cases hx)
              have hins : SMap.insert (abs s) k v = abs s ++ [(k, v)] := by
                have := SMap.insert_append_left (abs s) [] k v hgt
                simpa [SMap.insert] using this
              refine ⟨_, rfl, ⟨hi.cap4, g1, g3, ?_, ?_, ?_, ?_⟩, ?_, ?_, rfl⟩
              · show ChainL (links s.height (mapLeaf l0.id (appendKV k v) s.height s.root)) noneId
                rw [g4]; exact hi.chain
              · show s.head = firstOf (links s.height (mapLeaf l0.id (appendKV k v) s.height s.root)) noneId
                rw [g4]; exact hi.head
              · show (linkIds (links s.height (mapLeaf l0.id (appendKV k v) s.height s.root))).Nodup
                rw [g4]; exact hi.nodup
              · show ∀ id ∈ linkIds (links s.height (mapLeaf l0.id (appendKV k v) s.height s.root)), _
                rw [g4]; exact hi.fresh
              · -- the cache still names the rightmost leaf: the ids of the leaves did not change
                intro id' hid'
                have hid'' : s.cache = some id' := by rw [hcache]; exact hid'
                have := hc id' hid''
                have e : (leaves s.height (mapLeaf l0.id (appendKV k v) s.height s.root)).map (·.id) = (leaves s.height s.root).map (·.id) := by
                  rw [leaf_ids_of_links, leaf_ids_of_links, g4]
                show (leaves s.height (mapLeaf l0.id (appendKV k v) s.height s.root)).getLast?.map (·.id) = some id'
                rw [← List.getLast?_map, e, List.getLast?_map]; exact this
              · show toList s.height (mapLeaf l0.id (appendKV k v) s.height s.root) = _
                rw [g2, hins]; rfl
          · rw [if_neg hcond] at hf
            cases hf
  | none =>
    simp only []
    obtain ⟨s1, he, hi1, ha1, hc1⟩ := setitem_spec s k v hi
    rw [he]
    simp only [lastOfChain, chain_spec s1 hi1, Res.map_ok]
    refine ⟨_, rfl, ⟨hi1.cap4, hi1.ord, hi1.sz, hi1.chain, hi1.head, hi1.nodup, hi1.fresh⟩, ?_, ha1, hc1⟩
    intro id hid
    have : (leaves s1.height s1.root).getLast?.map (·.id) = some id := hid
    exact this

/-- **bulk load = incremental build**: for every capacity ≥ 4 and every item list, `from_sorted_items` does not raise,
    yields a valid tree, and its contents are those of assigning the items one by one -/
theorem fromSorted_spec (cap : Nat) (hcap : 4 ≤ cap) (its : List (K × V)) :
    ∃ s', fromSorted cap its = some (some s') ∧ PInv s' ∧
      abs s' = its.foldl (fun m kv => SMap.insert m kv.1 kv.2) [] ∧ s'.cap = cap := by
  obtain ⟨s0, h0, hinv0, habs0, hcap0⟩ := pinv_new (K := K) (V := V) cap hcap
  have hc0 : CacheOK s0 := by
    intro id hid
    have : s0.cache = none := by
      unfold new at h0
      have : ¬ cap < minCapacity := by unfold minCapacity; omega
      simp only [this, if_false, Option.some.injEq] at h0
      rw [← h0]
    rw [this] at hid; cases hid
  suffices H : ∀ (its : List (K × V)) (s : PState K V), PInv s → CacheOK s →
      ∃ s', its.foldl (fun acc kv => acc.bind fun s => insertSorted s kv.1 kv.2) (some s) = some s' ∧ PInv s' ∧
        abs s' = its.foldl (fun m kv => SMap.insert m kv.1 kv.2) (abs s) ∧ s'.cap = s.cap by
    obtain ⟨s', h1, h2, h3, h4⟩ := H its s0 hinv0 hc0
    refine ⟨s', ?_, h2, by rw [h3, habs0], by rw [h4, hcap0]⟩
    unfold fromSorted
    rw [h0]
    simp only [Option.map_some, h1]
  intro its
  induction its with
  | nil => intro s hi _; exact ⟨s, rfl, hi, rfl, rfl⟩
  | cons kv its ih =>
    intro s hi hc
    obtain ⟨s1, he, hi1, hc1, ha1, hcap1⟩ := insertSorted_spec s kv.1 kv.2 hi hc
    obtain ⟨s', h1, h2, h3, h4⟩ := ih s1 hi1 hc1
    refine ⟨s', ?_, h2, by rw [h3, ha1]; rfl, by rw [h4, hcap1]⟩
    simp only [List.foldl_cons, Option.bind_some, he]
    exact h1

end BPT.Py
