import BPT.Py.Lists
import BPT.Py.Model
/-
  `_insert_into_leaf` / `LeafNode.split_and_insert` of the pure-Python map:
  never raises on an ordered leaf of at most `cap` keys, and gives an ordered leaf
  or two ordered halves around the separator, with the entry list of the
  specification, the sizes and the id/next facts the structural invariants need.
-/
namespace BPT.Py
open BPT Tree
variable {K V : Type} [Keyed K]

/-- what `_insert_into_leaf` establishes -/
def LeafInsPost (cap : Nat) (l : Leaf K V) (lo hi : Option Int) (k : K) (v : V) (nid : Nat) : InsRes K V 0 × Bool → Prop
  | (.updated l', b) =>
      Ordered 0 (l' : Tree K V 0) lo hi ∧ Leaf.entries (l' : Leaf K V) = SMap.insert l.entries k v ∧ b = false ∧
      (l' : Leaf K V).id = l.id ∧ (l' : Leaf K V).next = l.next ∧
      l.keys.length ≤ (l' : Leaf K V).keys.length ∧ (l' : Leaf K V).keys.length ≤ cap
  | (.split a c sep, b) =>
      Ordered 0 (a : Tree K V 0) lo (some (ord sep)) ∧ Ordered 0 (c : Tree K V 0) (some (ord sep)) hi ∧ InB lo hi (ord sep) ∧
      (∀ x, lo = some x → x < ord sep) ∧
      Leaf.entries (a : Leaf K V) ++ Leaf.entries (c : Leaf K V) = SMap.insert l.entries k v ∧ b = true ∧
      (a : Leaf K V).id = l.id ∧ (a : Leaf K V).next = nid ∧ (c : Leaf K V).id = nid ∧ (c : Leaf K V).next = l.next ∧
      cap / 2 ≤ (a : Leaf K V).keys.length ∧ cap / 2 ≤ (c : Leaf K V).keys.length ∧
      (a : Leaf K V).keys.length + (c : Leaf K V).keys.length = cap + 1

theorem splitLeafInsert_spec (cap : Nat) (hcap : 4 ≤ cap) (l : Leaf K V) (lo hi : Option Int) (k : K) (v : V) (nid : Nat)
    (ho : Ordered 0 (l : Tree K V 0) lo hi) (hk : InB lo hi (ord k)) (hn : l.keys.length = cap)
    (hnf : ∀ k', l.keys[lowerBound l.keys k]? = some k' → ord k' ≠ ord k) :
    ∃ a c sep, splitLeafInsert l k v nid = some (.split a c sep) ∧
      Ordered 0 (a : Tree K V 0) lo (some (ord sep)) ∧ Ordered 0 (c : Tree K V 0) (some (ord sep)) hi ∧ InB lo hi (ord sep) ∧
      Leaf.entries (a : Leaf K V) ++ Leaf.entries (c : Leaf K V) =
        (insertAt l.keys (lowerBound l.keys k) k).zip (insertAt l.vals (lowerBound l.keys k) v) ∧
      (a : Leaf K V).id = l.id ∧ (a : Leaf K V).next = nid ∧ (c : Leaf K V).id = nid ∧ (c : Leaf K V).next = l.next ∧
      cap / 2 ≤ (a : Leaf K V).keys.length ∧ cap / 2 ≤ (c : Leaf K V).keys.length ∧
      (a : Leaf K V).keys.length + (c : Leaf K V).keys.length = cap + 1 := by
  obtain ⟨hs, hl, hb⟩ := ho
  have hi_le := lowerBound_le l.keys k
  have hiv_le : lowerBound l.keys k ≤ l.vals.length := by omega
  have hE := Rust.ksorted_insert_lb l.keys k hs hnf
  have hEb : ∀ x ∈ insertAt l.keys (lowerBound l.keys k) k, InB lo hi (ord x) := by
    intro x hx
    rcases (mem_insertAt _ _ _ _).1 hx with rfl | hx
    · exact hk
    · exact hb x hx
  have hEl : (insertAt l.keys (lowerBound l.keys k) k).length = (insertAt l.vals (lowerBound l.keys k) v).length := by
    rw [length_insertAt _ _ _ hi_le, length_insertAt _ _ _ hiv_le, hl]
  have hmid_lt : l.keys.length / 2 < l.keys.length := by omega
  have hmid_le : l.keys.length / 2 ≤ l.keys.length := by omega
  have hmidv : l.keys.length / 2 ≤ l.vals.length := by omega
  have hr0 : (l.keys.drop (l.keys.length / 2)).head? = some l.keys[l.keys.length / 2] := by
    rw [head?_drop, List.getElem?_eq_getElem hmid_lt]
  unfold splitLeafInsert
  simp only [splitMid, hr0]
  have hiff := lt_getElem_iff_lowerBound_le l.keys k (l.keys.length / 2) _ hs hnf (List.getElem?_eq_getElem hmid_lt)
  by_cases hlt : ord k < ord l.keys[l.keys.length / 2]
  · have him : lowerBound l.keys k ≤ l.keys.length / 2 := hiff.1 hlt
    simp only [hlt, if_true]
    rw [lowerBound_take l.keys k _ him]
    have e1 := take_insertAt_le l.keys _ (l.keys.length / 2) k him hmid_le
    have e2 := drop_insertAt_le l.keys _ (l.keys.length / 2) k him hmid_le
    have e3 := take_insertAt_le l.vals _ (l.keys.length / 2) v him hmidv
    have e4 := drop_insertAt_le l.vals _ (l.keys.length / 2) v him hmidv
    refine ⟨_, _, _, rfl, ?_⟩
    have hsep : ((insertAt l.keys (lowerBound l.keys k) k).drop (l.keys.length / 2 + 1)).head? = some l.keys[l.keys.length / 2] := by
      rw [e2]; exact hr0
    have := Rust.leaf_cut_spec _ _ (l.keys.length / 2 + 1) lo hi _ hE hEl hEb hsep l.id nid nid l.next
    rw [e1, e2, e3, e4] at this
    refine ⟨this.1, this.2.1, this.2.2, ?_, rfl, rfl, rfl, rfl, ?_, ?_, ?_⟩
    · simp only [Leaf.entries]
      rw [← e1, ← e2, ← e3, ← e4]
      exact Rust.entries_split _ _ _
    · show cap / 2 ≤ (insertAt (l.keys.take (l.keys.length / 2)) _ k).length
      rw [length_insertAt _ _ _ (by simp; omega)]
      simp only [List.length_take]; omega
    · show cap / 2 ≤ (l.keys.drop (l.keys.length / 2)).length
      simp only [List.length_drop]; omega
    · show (insertAt (l.keys.take (l.keys.length / 2)) _ k).length + (l.keys.drop (l.keys.length / 2)).length = cap + 1
      rw [length_insertAt _ _ _ (by simp; omega)]
      simp only [List.length_take, List.length_drop]; omega
  · have him' : l.keys.length / 2 < lowerBound l.keys k := by
      rcases Nat.lt_or_ge (l.keys.length / 2) (lowerBound l.keys k) with h | h
      · exact h
      · exact absurd (hiff.2 h) hlt
    simp only [hlt, if_false]
    rw [lowerBound_drop l.keys k _ (by omega)]
    have e1 := take_insertAt_gt l.keys _ (l.keys.length / 2) k him' hi_le
    have e2 := drop_insertAt_gt l.keys _ (l.keys.length / 2) k him' hi_le
    have e3 := take_insertAt_gt l.vals _ (l.keys.length / 2) v him' hiv_le
    have e4 := drop_insertAt_gt l.vals _ (l.keys.length / 2) v him' hiv_le
    cases hh : (insertAt (l.keys.drop (l.keys.length / 2)) (lowerBound l.keys k - l.keys.length / 2) k).head? with
    | none =>
      exfalso
      have : insertAt (l.keys.drop (l.keys.length / 2)) (lowerBound l.keys k - l.keys.length / 2) k = [] := by simpa using hh
      simp [insertAt] at this
    | some sep =>
      simp only []
      refine ⟨_, _, sep, rfl, ?_⟩
      have hsep : ((insertAt l.keys (lowerBound l.keys k) k).drop (l.keys.length / 2)).head? = some sep := by rw [e2]; exact hh
      have := Rust.leaf_cut_spec _ _ (l.keys.length / 2) lo hi sep hE hEl hEb hsep l.id nid nid l.next
      rw [e1, e2, e3, e4] at this
      refine ⟨this.1, this.2.1, this.2.2, ?_, rfl, rfl, rfl, rfl, ?_, ?_, ?_⟩
      · simp only [Leaf.entries]
        rw [← e1, ← e2, ← e3, ← e4]
        exact Rust.entries_split _ _ _
      · show cap / 2 ≤ (l.keys.take (l.keys.length / 2)).length
        simp only [List.length_take]; omega
      · show cap / 2 ≤ (insertAt (l.keys.drop (l.keys.length / 2)) _ k).length
        rw [length_insertAt _ _ _ (by simp; omega)]
        simp only [List.length_drop]; omega
      · show (l.keys.take (l.keys.length / 2)).length + (insertAt (l.keys.drop (l.keys.length / 2)) _ k).length = cap + 1
        rw [length_insertAt _ _ _ (by simp; omega)]
        simp only [List.length_take, List.length_drop]; omega

theorem insertLeaf_spec (cap : Nat) (hcap : 4 ≤ cap) (l : Leaf K V) (lo hi : Option Int) (k : K) (v : V) (nid : Nat)
    (ho : Ordered 0 (l : Tree K V 0) lo hi) (hk : InB lo hi (ord k)) (hsz : l.keys.length ≤ cap) :
    ∃ r, insertLeaf cap l k v nid = some r ∧ LeafInsPost cap l lo hi k v nid r := by
  have ho' := ho
  obtain ⟨hs, hl, hb⟩ := ho
  have hzip := SMap.insert_zip l.keys l.vals k v hs hl
  have hi_le := lowerBound_le l.keys k
  have hiv_le : lowerBound l.keys k ≤ l.vals.length := by omega
  -- the key-absent part, shared by the two shapes of `keys[i]?`
  have absent : (∀ k', l.keys[lowerBound l.keys k]? = some k' → ord k' ≠ ord k) →
      ∃ r, (if ¬ isFull cap l.keys.length = true then
              some (InsRes.updated ({ l with keys := insertAt l.keys (lowerBound l.keys k) k, vals := insertAt l.vals (lowerBound l.keys k) v } : Leaf K V), false)
            else (splitLeafInsert l k v nid).map (fun r => (r, true))) = some r ∧ LeafInsPost cap l lo hi k v nid r := by
    intro hnf
    have hcond : ¬ (Option.map ord l.keys[lowerBound l.keys k]? = some (ord k)) := by
      cases hk' : l.keys[lowerBound l.keys k]? with
      | none => simp
      | some k' => simpa using hnf k' hk'
    rw [if_neg hcond] at hzip
    have hE := Rust.ksorted_insert_lb l.keys k hs hnf
    simp only [isFull, decide_eq_true_eq]
    by_cases hfull : l.keys.length ≥ cap
    · simp only [hfull, not_true_eq_false, if_false]
      obtain ⟨a, c, sep, he, h1, h2, h3, h4, h5, h6, h7, h8, h9, h10, h11⟩ :=
        splitLeafInsert_spec cap hcap l lo hi k v nid ho' hk (by omega) hnf
      refine ⟨(.split a c sep, true), by rw [he]; rfl, h1, h2, h3, ?_, by rw [h4]; simp only [Leaf.entries]; exact hzip.symm, rfl, h5, h6, h7, h8, h9, h10, h11⟩
      intro x hx
      obtain ⟨_, _, hab⟩ := h1
      cases hak : (a : Leaf K V).keys with
      | nil => rw [hak] at h9; simp at h9; omega
      | cons a0 as =>
        have := hab a0 (by rw [hak]; exact List.mem_cons_self)
        have h6' := this.1 x hx
        have h7' := this.2 (ord sep) rfl
        omega
    · simp only [hfull, not_false_eq_true, if_true]
      refine ⟨_, rfl, ⟨hE, ?_, ?_⟩, by simp only [Leaf.entries]; exact hzip.symm, rfl, rfl, rfl, ?_, ?_⟩
      · show (insertAt l.keys _ k).length = (insertAt l.vals _ v).length
        rw [length_insertAt _ _ _ hi_le, length_insertAt _ _ _ hiv_le, hl]
      · intro x hx
        rcases (mem_insertAt _ _ _ _).1 hx with rfl | hx
        · exact hk
        · exact hb x hx
      · show l.keys.length ≤ (insertAt l.keys _ k).length
        rw [length_insertAt _ _ _ hi_le]; omega
      · show (insertAt l.keys _ k).length ≤ cap
        rw [length_insertAt _ _ _ hi_le]; omega
  unfold insertLeaf
  simp only []
  cases hk' : l.keys[lowerBound l.keys k]? with
  | some k' =>
    by_cases heq : ord k' = ord k
    · have hlt : lowerBound l.keys k < l.keys.length := by
        rcases Nat.lt_or_ge (lowerBound l.keys k) l.keys.length with h | h
        · exact h
        · simp [List.getElem?_eq_none h] at hk'
      have hltv : lowerBound l.keys k < l.vals.length := by omega
      simp only [heq, decide_true, if_true, hltv]
      refine ⟨_, rfl, ⟨hs, by simp [length_setAt _ _ _ hltv, hl], hb⟩, ?_, rfl, rfl, rfl, Nat.le_refl _, hsz⟩
      simp only [Leaf.entries]
      rw [hzip, hk']; simp [heq]
    · simp only [heq, decide_false, Bool.false_eq_true, if_false]
      exact absent (by intro k'' h; rw [hk'] at h; cases h; exact heq)
  | none =>
    simp only [Bool.false_eq_true, if_false]
    exact absent (by intro k'' h; rw [hk'] at h; cases h)

end BPT.Py
