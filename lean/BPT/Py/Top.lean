import BPT.Py.DeleteRec
import BPT.Py.Api
/-
  The invariant of a pure-Python map state and its preservation by the mutators,
  with the refinement equations against the sorted association list `abs s`.
-/
namespace BPT.Py
open BPT Tree
open BPT.Rust (links links_succ links_zero ChainL firstOf)
variable {K V : Type} [Keyed K]

def abs (s : PState K V) : List (K × V) := toList s.height s.root

/-- minimum number of keys the root node must hold -/
def rootMin (h : Nat) : Nat := if h = 0 then 0 else 1

def linkIds (L : List (Nat × Nat)) : List Nat := L.map (·.1)

/-- C09's invariants (plus the id bookkeeping that makes the chain walk well defined) -/
structure PInv (s : PState K V) : Prop where
  cap4 : 4 ≤ s.cap
  ord : Ordered s.height s.root none none
  sz : PSized s.cap s.height s.root (rootMin s.height)
  chain : ChainL (links s.height s.root) noneId
  head : s.head = firstOf (links s.height s.root) noneId
  nodup : (linkIds (links s.height s.root)).Nodup
  fresh : ∀ id ∈ linkIds (links s.height s.root), 0 < id ∧ id < s.nextId

theorem inB_none (x : Int) : InB none none x := by
  unfold InB
  constructor <;> intro _ h <;> cases h

theorem rootMin_le (cap h : Nat) (hcap : 4 ≤ cap) : rootMin h ≤ minKeys cap := by
  unfold rootMin minKeys; split <;> omega

/-! ### link-list bookkeeping -/

theorem plinkIns_chain {L L' : List (Nat × Nat)} {nid nid' : Nat} (h : PLinkIns L L' nid nid') (nxt : Nat) (hc : ChainL L nxt) :
    ChainL L' nxt ∧ firstOf L' nxt = firstOf L nxt := by
  cases h with
  | same h1 _ => subst h1; exact ⟨hc, rfl⟩
  | split A B i n h1 h2 _ => subst h1; subst h2; exact Rust.chainL_split A B i n nid nxt hc

theorem plinkIns_ids {L L' : List (Nat × Nat)} {nid nid' : Nat} (h : PLinkIns L L' nid nid')
    (hn : (linkIds L).Nodup) (hf : ∀ id ∈ linkIds L, 0 < id ∧ id < nid) (hnid : 0 < nid) :
    (linkIds L').Nodup ∧ (∀ id ∈ linkIds L', 0 < id ∧ id < nid') ∧ nid ≤ nid' := by
  cases h with
  | same h1 h2 => subst h1; subst h2; exact ⟨hn, hf, Nat.le_refl _⟩
  | split A B i n h1 h2 h3 =>
    subst h1; subst h2; subst h3
    simp only [linkIds, List.map_append, List.map_cons, List.map_nil] at hn hf ⊢
    have hnot : nid ∉ A.map (·.1) ++ [i] ++ B.map (·.1) := by
      intro hm
      have := (hf nid hm).2
      omega
    refine ⟨?_, ?_, Nat.le_succ _⟩
    · rw [List.nodup_append] at hn ⊢
      obtain ⟨h1, h2, h3⟩ := hn
      rw [List.nodup_append] at h1
      obtain ⟨ha, hi, hai⟩ := h1
      refine ⟨?_, h2, ?_⟩
      · rw [List.nodup_append]
        refine ⟨ha, ?_, ?_⟩
        · simp only [List.nodup_cons, List.mem_cons, List.not_mem_nil, or_false, List.nodup_nil, and_true, not_false_eq_true]
          intro he; subst he
          exact hnot (by simp)
        · intro a ha' b hb
          simp only [List.mem_cons, List.not_mem_nil, or_false] at hb
          rcases hb with rfl | rfl
          · exact hai a ha' _ (by simp)
          · intro he; subst he; exact hnot (by simp [ha'])
      · intro a ha' b hb
        simp only [List.mem_append, List.mem_cons, List.not_mem_nil, or_false] at ha'
        rcases ha' with ha' | rfl | rfl
        · exact h3 a (by simp [ha']) b hb
        · exact h3 _ (by simp) b hb
        · intro he; subst he; exact hnot (by simp [hb])
    · intro id hid
      simp only [List.mem_append, List.mem_cons, List.not_mem_nil, or_false] at hid
      have key : id = nid ∨ id ∈ A.map (·.1) ++ [i] ++ B.map (·.1) := by
        rcases hid with (hid | rfl | rfl) | hid
        · exact Or.inr (by simp [hid])
        · exact Or.inr (by simp)
        · exact Or.inl rfl
        · exact Or.inr (by simp [hid])
      rcases key with rfl | hm
      · omega
      · have := hf id hm; omega

theorem plinkRem_chain {L L' : List (Nat × Nat)} (h : PLinkRem L L') (nxt : Nat) (hc : ChainL L nxt) :
    ChainL L' nxt ∧ firstOf L' nxt = firstOf L nxt := by
  cases h with
  | same h1 => subst h1; exact ⟨hc, rfl⟩
  | merge A B ia na ib nb h1 h2 => subst h1; subst h2; exact Rust.chainL_merge A B ia na ib nb nxt hc

theorem plinkRem_ids {L L' : List (Nat × Nat)} (h : PLinkRem L L') :
    (linkIds L').Sublist (linkIds L) := by
  cases h with
  | same h1 => subst h1; exact List.Sublist.refl _
  | merge A B ia na ib nb h1 h2 =>
    subst h1; subst h2
    simp only [linkIds, List.map_append, List.map_cons, List.map_nil]
    refine List.Sublist.append (List.Sublist.append (List.Sublist.refl _) ?_) (List.Sublist.refl _)
    exact List.Sublist.cons₂ _ (List.Sublist.cons _ (List.Sublist.refl _))

/-! ### constructors -/

theorem pinv_new (cap : Nat) (hcap : 4 ≤ cap) :
    ∃ s : PState K V, new cap = some s ∧ PInv s ∧ abs s = [] ∧ s.cap = cap := by
  have : ¬ cap < minCapacity := by unfold minCapacity; omega
  refine ⟨{ cap := cap, height := 0, root := (emptyLeaf 1 : Leaf K V), head := 1, nextId := 2 }, by simp [new, this], ⟨hcap, ?_, ?_, ?_, rfl, ?_, ?_⟩, ?_, rfl⟩
  · exact ⟨List.Pairwise.nil, rfl, fun _ h => by cases h⟩
  · exact ⟨Nat.zero_le _, Nat.zero_le _⟩
  · exact ⟨rfl, trivial⟩
  · simp [linkIds, links, leaves, Rust.link, emptyLeaf]
  · intro id hid
    simp [linkIds, links, leaves, Rust.link, emptyLeaf] at hid
    subst hid; exact ⟨by omega, by show 1 < 2; omega⟩
  · simp [abs, toList, leaves, emptyLeaf, Leaf.entries]

theorem new_rejects (cap : Nat) : (new cap : Option (PState K V)) = none ↔ cap < 4 := by
  unfold new minCapacity
  split
  · simp; assumption
  · simp; omega

theorem clear_spec (s : PState K V) (hi : PInv s) : PInv (clear s) ∧ abs (clear s) = [] ∧ (clear s).cap = s.cap := by
  have hpos : 0 < s.nextId := by
    have hne := Rust.links_ne_nil s.height s.root none none hi.ord
    cases hl : links s.height s.root with
    | nil => exact absurd hl hne
    | cons p rest =>
      have := hi.fresh p.1 (by rw [hl]; simp [linkIds])
      omega
  refine ⟨⟨hi.cap4, ?_, ?_, ?_, rfl, ?_, ?_⟩, ?_, rfl⟩
  · exact ⟨List.Pairwise.nil, rfl, fun _ h => by cases h⟩
  · exact ⟨Nat.zero_le _, Nat.zero_le _⟩
  · exact ⟨rfl, trivial⟩
  · simp [clear, linkIds, links, leaves, Rust.link, emptyLeaf]
  · intro id hid
    simp [clear, linkIds, links, leaves, Rust.link, emptyLeaf] at hid
    subst hid; exact ⟨hpos, by simp [clear]⟩
  · simp [abs, clear, toList, leaves, emptyLeaf, Leaf.entries]

/-! ### `__setitem__` -/

theorem setitem_spec (s : PState K V) (k : K) (v : V) (hi : PInv s) :
    ∃ s', setitem s k v = some s' ∧ PInv s' ∧ abs s' = SMap.insert (abs s) k v ∧ s'.cap = s.cap := by
  obtain ⟨hcap, ho, hsz, hchain, hhead, hnodup, hfresh⟩ := hi
  obtain ⟨res, nid', he, hok, hlk⟩ := insertRec_spec s.cap hcap s.height s.root none none k v s.nextId (rootMin s.height)
    ho (inB_none _) hsz (rootMin_le s.cap s.height hcap)
  have hpos : 0 < s.nextId := by
    have hne := Rust.links_ne_nil s.height s.root none none ho
    cases hl : links s.height s.root with
    | nil => exact absurd hl hne
    | cons p rest =>
      have := hfresh p.1 (by rw [hl]; simp [linkIds])
      omega
  obtain ⟨hc1, hc2⟩ := plinkIns_chain hlk noneId hchain
  obtain ⟨hi1, hi2, _⟩ := plinkIns_ids hlk hnodup hfresh hpos
  unfold setitem
  rw [he]
  cases res with
  | updated t =>
    obtain ⟨h1, h2, h3⟩ := hok
    refine ⟨_, rfl, ⟨hcap, h1, h3, hc1, ?_, hi1, hi2⟩, h2, rfl⟩
    show s.head = firstOf (links s.height t) noneId
    rw [hhead]; exact hc2.symm
  | split l r sep =>
    obtain ⟨hl, hr, _, _, hlist, hsl, hsr⟩ := hok
    have hlinks : links (s.height + 1) (({ id := 0, keys := [sep], children := [l, r] } : Branch K (Tree K V s.height)) : Tree K V (s.height+1)) =
        links s.height l ++ links s.height r := by
      rw [links_succ]; simp
    refine ⟨_, rfl, ⟨hcap, ?_, ?_, ?_, ?_, ?_, ?_⟩, ?_, rfl⟩
    · refine ⟨by simp [KSorted], rfl, ?_, ?_⟩
      · intro x _; exact inB_none _
      · intro j c hj
        match j, hj with
        | 0, hj => simp at hj; subst hj; simpa [loAt, hiAt] using hl
        | 1, hj => simp at hj; subst hj; simpa [loAt, hiAt] using hr
        | j+2, hj => simp at hj
    · refine ⟨by simp [rootMin], by show 1 + 1 ≤ s.cap; omega, ?_⟩
      intro c hc
      have hc' : c ∈ [l, r] := hc
      simp only [List.mem_cons, List.not_mem_nil, or_false] at hc'
      rcases hc' with rfl | rfl
      · exact hsl
      · exact hsr
    · show ChainL (links (s.height + 1) _) noneId
      rw [hlinks]; exact hc1
    · show s.head = firstOf (links (s.height + 1) _) noneId
      rw [hlinks, hhead]; exact hc2.symm
    · show (linkIds (links (s.height + 1) _)).Nodup
      rw [hlinks]; exact hi1
    · show ∀ id ∈ linkIds (links (s.height + 1) _), _
      rw [hlinks]; exact hi2
    · show toList (s.height + 1) _ = _
      rw [toList_succ]
      show [l, r].flatMap (toList s.height) = _
      simp [abs, hlist]

/-! ### `__delitem__` -/

theorem delitem_spec (s : PState K V) (k : K) (hi : PInv s) :
    ∃ s' b, delitem Cfg.repaired s k = some (s', b) ∧ PInv s' ∧ abs s' = SMap.erase (abs s) k ∧
      b = (SMap.lookup (abs s) k).isSome ∧ s'.cap = s.cap ∧ s'.nextId = s.nextId := by
  obtain ⟨cap, height, root, head, nextId, cache⟩ := s
  obtain ⟨hcap, ho, hsz, hchain, hhead, hnodup, hfresh⟩ := hi
  simp only at hcap ho hsz hchain hhead hnodup hfresh
  obtain ⟨r, he, hp⟩ := deleteRec_spec cap hcap height root none none k (rootMin height) ho hsz
    (by unfold rootMin; by_cases h : height = 0 <;> simp [h])
  obtain ⟨t, b⟩ := r
  obtain ⟨hc1, hc2⟩ := plinkRem_chain hp.lk noneId hchain
  have hsub := plinkRem_ids hp.lk
  have hnd : (linkIds (links height t)).Nodup := hnodup.sublist hsub
  have hfr : ∀ id ∈ linkIds (links height t), 0 < id ∧ id < nextId := fun id hid => hfresh id (hsub.subset hid)
  have hlist : toList height t = SMap.erase (toList height root) k := hp.list
  have hfound : b = (SMap.lookup (toList height root) k).isSome := hp.found
  unfold delitem
  simp only [he]
  cases b with
  | false =>
    have hsame : t = root := hp.same rfl
    subst hsame
    exact ⟨_, false, rfl, ⟨hcap, ho, hsz, hchain, hhead, hnodup, hfresh⟩, hlist, hfound, rfl, rfl⟩
  | true =>
    simp only []
    cases height with
    | zero =>
      refine ⟨_, true, rfl, ⟨hcap, hp.ord, ?_, hc1, ?_, hnd, hfr⟩, hlist, hfound, rfl, rfl⟩
      · exact PSized.mono cap 0 t _ _ (Nat.zero_le _) hp.sz
      · show head = _
        rw [hhead]; exact hc2.symm
    | succ h =>
      obtain ⟨hks, hlen, hkb, hcc⟩ := hp.ord
      cases hch : (Branch.children t) with
      | nil => rw [hch] at hlen; simp at hlen
      | cons c rest =>
        cases rest with
        | nil =>
          have hk0 : (Branch.keys t) = [] := by
            have h1 := hlen
            rw [hch] at h1
            simp only [List.length_cons, List.length_nil] at h1
            exact List.eq_nil_of_length_eq_zero (by omega)
          have hco := hcc 0 c (by rw [hch]; rfl)
          simp only [loAt, hiAt, hk0, List.length_nil, if_true] at hco
          have hcs : PSized cap h c (minKeys cap) := hp.sz.2.2 c (by rw [hch]; exact List.mem_cons_self)
          have hlk : links (h+1) t = links h c := by rw [links_succ, hch]; simp
          have hcol : collapseRoot (h+1) t = ⟨h, c⟩ := by simp [collapseRoot, hch]
          rw [hcol]
          refine ⟨_, true, rfl, ⟨hcap, hco, ?_, ?_, ?_, ?_, ?_⟩, ?_, hfound, rfl, rfl⟩
          · exact PSized.mono cap h c _ _ (rootMin_le cap h hcap) hcs
          · show ChainL (links h c) noneId
            rw [← hlk]; exact hc1
          · show head = firstOf (links h c) noneId
            rw [← hlk, hhead]; exact hc2.symm
          · show (linkIds (links h c)).Nodup
            rw [← hlk]; exact hnd
          · show ∀ id ∈ linkIds (links h c), _
            rw [← hlk]; exact hfr
          · show toList h c = SMap.erase (toList (h+1) root) k
            rw [← hlist, toList_succ, hch]; simp
        | cons c2 rest2 =>
          have hcol : collapseRoot (h+1) t = ⟨h+1, t⟩ := by simp [collapseRoot, hch]
          rw [hcol]
          refine ⟨_, true, rfl, ⟨hcap, ⟨hks, hlen, hkb, hcc⟩, ?_, hc1, ?_, hnd, hfr⟩, hlist, hfound, rfl, rfl⟩
          · refine ⟨?_, hp.sz.2.1, hp.sz.2.2⟩
            show rootMin (h+1) ≤ (Branch.keys t).length
            have : (c :: c2 :: rest2).length = (Branch.keys t).length + 1 := by rw [← hch]; exact hlen
            simp only [List.length_cons] at this
            simp only [rootMin]
            have hne : ¬ (h + 1 = 0) := by omega
            simp only [hne, if_false]
            omega
          · show head = _
            rw [hhead]; exact hc2.symm

end BPT.Py
