import BPT.Core.Tree
import BPT.Core.Res
/-
  Executable model of the pure-Python BPlusTreeMap (python/bplustree/bplus_tree.py).
  Import-free apart from BPT core files.

  * same height-indexed tree as the Rust model; leaves carry a creation serial `id`
    (Python object identity, starting at 1) and `next` = the serial of the next leaf (`noneId` = 0 = None);
    branch ids are unused (0);
  * `none` = the Python code raises something other than KeyError at this point
    (ValueError of the defensive checks, IndexError).
-/
namespace BPT.Py
open BPT

def minCapacity : Nat := 4
/-- `None` in a `next` field / `self.leaves`; leaf serials start at 1 and only grow, so they never collide with it -/
def noneId : Nat := 0
/-- `(capacity - 1) // 2` -/
def minKeys (cap : Nat) : Nat := (cap - 1) / 2
def isFull (cap n : Nat) : Bool := decide (n ≥ cap)
def isUnderfull (cap n : Nat) : Bool := decide (n < minKeys cap)
def canDonate (cap n : Nat) : Bool := decide (n > minKeys cap)
/-- `len(self.keys) // 2`, split point of leaves and branches -/
def splitMid (n : Nat) : Nat := n / 2

/-- switches between the repaired code (all `true`) and the code as found (D6–D8) -/
structure Cfg where
  getChecksPresence : Bool := true     -- D6: get() decides presence by position, not by `value is not None`
  emptyShortcutLeafOnly : Bool := true -- D8: the "empty child → merge only" shortcut applies to leaves only
def Cfg.repaired : Cfg := {}

variable {K V : Type} [Keyed K]

/-! ## insert -/

inductive InsRes (K V : Type) (h : Nat) where
  | updated (t : Tree K V h)
  | split (l r : Tree K V h) (sep : K)

/-- `LeafNode.split_and_insert`: split at `len//2`, then insert into the half chosen by comparing with the right half's first key -/
def splitLeafInsert (l : Leaf K V) (k : K) (v : V) (newId : Nat) : Option (InsRes K V 0) :=
  let mid := splitMid l.keys.length
  let lk := l.keys.take mid
  let lv := l.vals.take mid
  let rk := l.keys.drop mid
  let rv := l.vals.drop mid
  match rk.head? with
  | none => none                                   -- `new_leaf.keys[0]` IndexError
  | some r0 =>
    if ord k < ord r0 then
      let i := lowerBound lk k
      some (.split ({ id := l.id, keys := insertAt lk i k, vals := insertAt lv i v, next := newId } : Leaf K V)
                   ({ id := newId, keys := rk, vals := rv, next := l.next } : Leaf K V) r0)
    else
      let i := lowerBound rk k
      match (insertAt rk i k).head? with
      | none => none
      | some sep =>
        some (.split ({ id := l.id, keys := lk, vals := lv, next := newId } : Leaf K V)
                     ({ id := newId, keys := insertAt rk i k, vals := insertAt rv i v, next := l.next } : Leaf K V) sep)

/-- `_insert_into_leaf`; returns the result and whether a new leaf id was consumed -/
def insertLeaf (cap : Nat) (l : Leaf K V) (k : K) (v : V) (newId : Nat) : Option (InsRes K V 0 × Bool) :=
  let i := lowerBound l.keys k
  let found : Bool := match l.keys[i]? with
    | some k' => ord k' = ord k
    | none => false
  if found then
    if i < l.vals.length then some (.updated ({ l with vals := setAt l.vals i v } : Leaf K V), false)
    else none                                      -- `leaf.values[pos] = value` IndexError
  else if ¬ isFull cap l.keys.length then
    some (.updated ({ l with keys := insertAt l.keys i k, vals := insertAt l.vals i v } : Leaf K V), false)
  else (splitLeafInsert l k v newId).map (fun r => (r, true))

/-- `insert_child_and_split_if_needed` after the child split into `(l, r)` around `sep` -/
def branchInsertSplit (cap : Nat) (b : Branch K α) (i : Nat) (l r : α) (sep : K) : Option (Branch K α ⊕ (Branch K α × Branch K α × K)) :=
  let keys := insertAt b.keys i sep
  let children := insertAt (setAt b.children i l) (i+1) r
  if ¬ isFull cap keys.length then some (.inl { b with keys := keys, children := children })
  else
    let mid := splitMid keys.length
    match keys[mid]? with
    | none => none
    | some pk =>
      some (.inr ({ id := b.id, keys := keys.take mid, children := children.take (mid+1) },
                  { id := 0, keys := keys.drop (mid+1), children := children.drop (mid+1) }, pk))

/-- `_insert_recursive`; threads the next fresh leaf serial -/
def insertRec (cap : Nat) : (h : Nat) → Tree K V h → K → V → Nat → Option (InsRes K V h × Nat)
  | 0, (l : Leaf K V), k, v, nid =>
    (insertLeaf cap l k v nid).map (fun r => (r.1, if r.2 then nid + 1 else nid))
  | h+1, (b : Branch K (Tree K V h)), k, v, nid =>
    if b.children.length = 0 ∨ b.keys.length + 1 ≠ b.children.length then none else   -- find_child_index ValueError
    let i := upperBound b.keys k
    match b.children[i]? with
    | none => none
    | some c =>
      match insertRec cap h c k v nid with
      | none => none
      | some (.updated c', nid') =>
        some (.updated ({ b with children := setAt b.children i c' } : Branch K (Tree K V h)), nid')
      | some (.split l r sep, nid') =>
        match branchInsertSplit cap b i l r sep with
        | none => none
        | some (.inl b') => some (.updated (b' : Branch K (Tree K V h)), nid')
        | some (.inr (bl, br, pk)) => some (.split (bl : Branch K (Tree K V h)) br pk, nid')

/-! ## delete -/

/-- leaf borrows the last entry of its left sibling; new separator = the borrower's first key -/
def leafBorrowLeft (a c : Leaf K V) : Option (Leaf K V × Leaf K V × K) :=
  match a.keys.getLast?, a.vals.getLast? with
  | some k, some v =>
    some ({ a with keys := a.keys.dropLast, vals := a.vals.dropLast }, { c with keys := k :: c.keys, vals := v :: c.vals }, k)
  | _, _ => none
/-- leaf borrows the first entry of its right sibling; new separator = the sibling's new first key -/
def leafBorrowRight (c r : Leaf K V) : Option (Leaf K V × Leaf K V × K) :=
  match r.keys, r.vals with
  | k :: ks, v :: vs =>
    (ks.head?).map fun sep => ({ c with keys := c.keys ++ [k], vals := c.vals ++ [v] }, { r with keys := ks, vals := vs }, sep)
  | _, _ => none
def leafMerge (a b : Leaf K V) : Leaf K V :=
  { a with keys := a.keys ++ b.keys, vals := a.vals ++ b.vals, next := b.next }

def branchBorrowLeft (a c : Branch K α) (sep : K) : Option (Branch K α × Branch K α × K) :=
  match a.keys.getLast?, a.children.getLast? with
  | some mk, some mc =>
    some ({ a with keys := a.keys.dropLast, children := a.children.dropLast },
          { c with keys := sep :: c.keys, children := mc :: c.children }, mk)
  | _, _ => none
def branchBorrowRight (c r : Branch K α) (sep : K) : Option (Branch K α × Branch K α × K) :=
  match r.keys, r.children with
  | mk :: ks, mc :: cs =>
    some ({ c with keys := c.keys ++ [sep], children := c.children ++ [mc] }, { r with keys := ks, children := cs }, mk)
  | _, _ => none
def branchMerge (a b : Branch K α) (sep : K) : Branch K α :=
  { a with keys := a.keys ++ sep :: b.keys, children := a.children ++ b.children }

def replace2 (b : Branch K α) (i : Nat) (l r : α) (sep : K) : Branch K α :=
  { b with keys := setAt b.keys i sep, children := setAt (setAt b.children i l) (i+1) r }
def merge2 (b : Branch K α) (i : Nat) (m : α) : Branch K α :=
  { b with keys := removeAt b.keys i, children := removeAt (setAt b.children i m) (i+1) }

/-- `_merge_with_sibling` for a leaf child (prefers the left sibling; guarded by capacity) -/
def mergeLeafSibling (cap : Nat) (b : Branch K (Leaf K V)) (i : Nat) : Option (Branch K (Leaf K V)) :=
  if b.keys.length + 1 ≠ b.children.length then none else       -- "Parent structure invalid"
  match b.children[i]? with
  | none => none
  | some c =>
    if i > 0 then
      match b.children[i-1]? with
      | none => none
      | some a => if a.keys.length + c.keys.length ≤ cap then some (merge2 b (i-1) (leafMerge a c)) else some b
    else if i + 1 < b.children.length then
      match b.children[i+1]? with
      | none => none
      | some r => if c.keys.length + r.keys.length ≤ cap then some (merge2 b i (leafMerge c r)) else some b
    else some b

def mergeBranchSibling (cap : Nat) (b : Branch K (Branch K α)) (i : Nat) : Option (Branch K (Branch K α)) :=
  if b.keys.length + 1 ≠ b.children.length then none else
  match b.children[i]? with
  | none => none
  | some c =>
    if i > 0 then
      match b.children[i-1]?, b.keys[i-1]? with
      | some a, some sep =>
        if a.keys.length + c.keys.length + 1 ≤ cap ∧ a.children.length + c.children.length ≤ cap + 1
        then some (merge2 b (i-1) (branchMerge a c sep)) else some b
      | _, _ => none
    else if i + 1 < b.children.length then
      match b.children[i+1]?, b.keys[i]? with
      | some r, some sep =>
        if c.keys.length + r.keys.length + 1 ≤ cap ∧ c.children.length + r.children.length ≤ cap + 1
        then some (merge2 b i (branchMerge c r sep)) else some b
      | _, _ => none
    else some b

/-- the siblings `_handle_underflow` looks at -/
def sibRight (b : Branch K α) (i : Nat) : Option α := if i + 1 < b.children.length then b.children[i+1]? else none
def sibLeft (b : Branch K α) (i : Nat) : Option α := if i > 0 then b.children[i-1]? else none

/-- `_redistribute_from_right`, leaf case: child `i` takes the first entry of child `i+1` -/
def leafBorrowRightAt (b : Branch K (Leaf K V)) (i : Nat) (c r : Leaf K V) : Option (Branch K (Leaf K V)) :=
  match leafBorrowRight c r with
  | none => none
  | some (c', r', sep) => if i < b.keys.length then some (replace2 b i c' r' sep) else none
/-- `_redistribute_from_left`, leaf case: child `i` takes the last entry of child `i-1` -/
def leafBorrowLeftAt (b : Branch K (Leaf K V)) (i : Nat) (a c : Leaf K V) : Option (Branch K (Leaf K V)) :=
  match leafBorrowLeft a c with
  | none => none
  | some (a', c', sep) => if i - 1 < b.keys.length then some (replace2 b (i-1) a' c' sep) else none

/-- second half of `_handle_underflow` (leaf child): the right sibling did not donate -/
def handleLeafLeft (cap : Nat) (b : Branch K (Leaf K V)) (i : Nat) (c : Leaf K V) : Option (Branch K (Leaf K V)) :=
  match sibLeft b i with
  | some a => if canDonate cap a.keys.length then leafBorrowLeftAt b i a c else mergeLeafSibling cap b i
  | none => mergeLeafSibling cap b i

/-- `_handle_underflow` for a leaf child -/
def handleLeaf (cap : Nat) (b : Branch K (Leaf K V)) (i : Nat) : Option (Branch K (Leaf K V)) :=
  match b.children[i]? with
  | none => none
  | some c =>
    if ¬ isUnderfull cap c.keys.length then some b
    else if c.keys.length = 0 then mergeLeafSibling cap b i
    else
      match sibRight b i with
      | some r => if canDonate cap r.keys.length then leafBorrowRightAt b i c r else handleLeafLeft cap b i c
      | none => handleLeafLeft cap b i c

/-- `_redistribute_from_right`, branch case -/
def branchBorrowRightAt (b : Branch K (Branch K α)) (i : Nat) (c r : Branch K α) : Option (Branch K (Branch K α)) :=
  match b.keys[i]? with
  | none => none
  | some sep => (branchBorrowRight c r sep).map fun (c', r', mk) => replace2 b i c' r' mk
/-- `_redistribute_from_left`, branch case -/
def branchBorrowLeftAt (b : Branch K (Branch K α)) (i : Nat) (a c : Branch K α) : Option (Branch K (Branch K α)) :=
  match b.keys[i-1]? with
  | none => none
  | some sep => (branchBorrowLeft a c sep).map fun (a', c', mk) => replace2 b (i-1) a' c' mk

def handleBranchLeft (cap : Nat) (b : Branch K (Branch K α)) (i : Nat) (c : Branch K α) : Option (Branch K (Branch K α)) :=
  match sibLeft b i with
  | some a => if canDonate cap a.keys.length then branchBorrowLeftAt b i a c else mergeBranchSibling cap b i
  | none => mergeBranchSibling cap b i

/-- `_handle_underflow` for a branch child -/
def handleBranch (cfg : Cfg) (cap : Nat) (b : Branch K (Branch K α)) (i : Nat) : Option (Branch K (Branch K α)) :=
  match b.children[i]? with
  | none => none
  | some c =>
    if ¬ isUnderfull cap c.keys.length then some b
    else if c.keys.length = 0 ∧ ¬ cfg.emptyShortcutLeafOnly then mergeBranchSibling cap b i
    else
      match sibRight b i with
      | some r => if canDonate cap r.keys.length then branchBorrowRightAt b i c r else handleBranchLeft cap b i c
      | none => handleBranchLeft cap b i c

def handleUnderflow (cfg : Cfg) (cap : Nat) : (h : Nat) → Branch K (Tree K V h) → Nat → Option (Branch K (Tree K V h))
  | 0, b, i => handleLeaf cap b i
  | _+1, b, i => handleBranch cfg cap b i

def nkeys : (h : Nat) → Tree K V h → Nat
  | 0, (l : Leaf K V) => l.keys.length
  | _+1, (b : Branch K (Tree K V _)) => b.keys.length

/-- `_delete_recursive` (without the root collapse, which `delete` does at the root frame) -/
def deleteRec (cfg : Cfg) (cap : Nat) : (h : Nat) → Tree K V h → K → Option (Tree K V h × Bool)
  | 0, (l : Leaf K V), k =>
    let i := lowerBound l.keys k
    let found : Bool := match l.keys[i]? with
      | some k' => ord k' = ord k
      | none => false
    if found then
      if i < l.vals.length then some (({ l with keys := removeAt l.keys i, vals := removeAt l.vals i } : Leaf K V), true)
      else none
    else some ((l : Leaf K V), false)
  | h+1, (b : Branch K (Tree K V h)), k =>
    if b.children.length = 0 ∨ b.keys.length + 1 ≠ b.children.length then none else
    let i := upperBound b.keys k
    match b.children[i]? with
    | none => none
    | some c =>
      match deleteRec cfg cap h c k with
      | none => none
      | some (c', false) => some (({ b with children := setAt b.children i c' } : Branch K (Tree K V h)), false)
      | some (c', true) =>
        let b1 : Branch K (Tree K V h) := { b with children := setAt b.children i c' }
        if nkeys h c' = 0 ∨ isUnderfull cap (nkeys h c') then
          (handleUnderflow cfg cap h b1 i).map fun b2 => ((b2 : Branch K (Tree K V h)), true)
        else some ((b1 : Branch K (Tree K V h)), true)

/-! ## state and the mapping API -/

structure PState (K V : Type) where
  cap : Nat
  height : Nat
  root : Tree K V height
  head : Nat               -- `self.leaves`: serial of the first leaf of the chain
  nextId : Nat
  cache : Option Nat := none   -- `_rightmost_leaf_cache`

def emptyLeaf (id : Nat) : Leaf K V := { id := id, keys := [], vals := [], next := noneId }

/-- `BPlusTreeMap(capacity)`; `none` = InvalidCapacityError -/
def new (cap : Nat) : Option (PState K V) :=
  if cap < minCapacity then none
  else some { cap := cap, height := 0, root := (emptyLeaf 1 : Leaf K V), head := 1, nextId := 2 }

/-- `clear()`: a fresh leaf (the serial keeps growing: new Python object) -/
def clear (s : PState K V) : PState K V :=
  { cap := s.cap, height := 0, root := (emptyLeaf s.nextId : Leaf K V), head := s.nextId, nextId := s.nextId + 1 }

/-- `__setitem__` -/
def setitem (s : PState K V) (k : K) (v : V) : Option (PState K V) :=
  match insertRec s.cap s.height s.root k v s.nextId with
  | none => none
  | some (.updated t, nid) => some { s with root := t, nextId := nid }
  | some (.split l r sep, nid) =>
    let root : Branch K (Tree K V s.height) := { id := 0, keys := [sep], children := [l, r] }
    some { cap := s.cap, height := s.height + 1, root := root, head := s.head, nextId := nid, cache := s.cache }

/-- root collapse at the end of the root frame of `_delete_recursive`:
    `if node == self.root and not node.is_leaf() and len(node.children) == 1: self.root = node.children[0]` -/
def collapseRoot : (h : Nat) → Tree K V h → (Σ h', Tree K V h')
  | 0, t => ⟨0, t⟩
  | h+1, (b : Branch K (Tree K V h)) =>
    match b.children with
    | [c] => ⟨h, c⟩
    | _ => ⟨h+1, (b : Branch K (Tree K V h))⟩

/-- `__delitem__`: `some (s', false)` = KeyError -/
def delitem (cfg : Cfg) (s : PState K V) (k : K) : Option (PState K V × Bool) :=
  match deleteRec cfg s.cap s.height s.root k with
  | none => none
  | some (t, false) => some ({ s with root := t }, false)
  | some (t, true) =>
    some ({ cap := s.cap, height := (collapseRoot s.height t).1, root := (collapseRoot s.height t).2,
            head := s.head, nextId := s.nextId, cache := s.cache }, true)

/-- lookup of the stored entry: the descent of `get` / `__contains__` -/
def findRec : (h : Nat) → Tree K V h → K → Option (Option (K × V))
  | 0, (l : Leaf K V), k =>
    let i := lowerBound l.keys k
    match l.keys[i]? with
    | some k' => if ord k' = ord k then (match l.vals[i]? with | some v => some (some (k', v)) | none => none) else some none
    | none => some none
  | h+1, (b : Branch K (Tree K V h)), k =>
    if b.children.length = 0 ∨ b.keys.length + 1 ≠ b.children.length then none else
    match b.children[upperBound b.keys k]? with
    | none => none
    | some c => findRec h c k

/-! ## readers that walk the chain from `self.leaves` -/

def findLeafById (ls : List (Leaf K V)) (id : Nat) : Option (Leaf K V) := ls.find? (fun l => l.id == id)

/-- the chain of leaves from serial `id`, following `next` (fuel = number of leaves + 1; running out = cycle) -/
def chainFrom (ls : List (Leaf K V)) : Nat → Nat → Res (List (Leaf K V))
  | 0, _ => .diverge
  | f+1, id =>
    if id = noneId then .ok []
    else match findLeafById ls id with
      | none => .panic                      -- dangling reference cannot happen in Python (objects stay alive); model artefact
      | some l => (chainFrom ls f l.next).map (l :: ·)

def chain (s : PState K V) : Res (List (Leaf K V)) :=
  chainFrom (Tree.leaves s.height s.root) ((Tree.leaves s.height s.root).length + 1) s.head

/-- `__len__` -/
def len (s : PState K V) : Res Nat := (chain s).map fun c => (c.map (fun l => l.keys.length)).sum

/-- the leaf `_find_leaf_for_key` reaches -/
def routeLeaf : (h : Nat) → Tree K V h → K → Option (Leaf K V)
  | 0, (l : Leaf K V), _ => some l
  | h+1, (b : Branch K (Tree K V h)), k =>
    if b.children.length = 0 ∨ b.keys.length + 1 ≠ b.children.length then none else
    match b.children[upperBound b.keys k]? with
    | some c => routeLeaf h c k
    | none => none

/-- the exclusive end test of `items`: stop at the first key `>= end_key` -/
def cutStop (stop : Option K) (all : List (K × V)) : List (K × V) :=
  match stop with
  | none => all
  | some e => all.takeWhile (fun kv => decide (ord kv.1 < ord e))

/-- the scan of `items`: from index `idx` of the leaf with serial `id`, along the chain -/
def itemsFrom (s : PState K V) (id idx : Nat) (stop : Option K) : Res (List (K × V)) :=
  (chainFrom (Tree.leaves s.height s.root) ((Tree.leaves s.height s.root).length + 1) id).map fun c =>
    cutStop stop (match c with
      | [] => []
      | l :: rest => (l.keys.zip l.vals).drop idx ++ rest.flatMap (fun l => l.keys.zip l.vals))

/-- `items(start_key, end_key)` -/
def items (s : PState K V) (start stop : Option K) : Res (List (K × V)) :=
  match start with
  | none => itemsFrom s s.head 0 stop
  | some a =>
    match routeLeaf s.height s.root a with
    | none => .panic
    | some l => itemsFrom s l.id (lowerBound l.keys a) stop

/-! ## bulk load -/

/-- in-place modification of the leaf object with serial `id` -/
def mapLeaf (id : Nat) (f : Leaf K V → Leaf K V) : (h : Nat) → Tree K V h → Tree K V h
  | 0, (l : Leaf K V) => if l.id = id then f l else l
  | h+1, (b : Branch K (Tree K V h)) => ({ b with children := b.children.map (mapLeaf id f h) } : Branch K (Tree K V h))

/-- `_update_rightmost_leaf_cache`: the last leaf of the chain -/
def lastOfChain (s : PState K V) : Res (Option Nat) := (chain s).map fun c => c.getLast?.map (·.id)

def appendKV (k : K) (v : V) (l : Leaf K V) : Leaf K V := { l with keys := l.keys ++ [k], vals := l.vals ++ [v] }

/-- the test of `_insert_sorted_optimized`: the cached leaf, when it has keys, `key > keys[-1]` and it is not full -/
def fastLeaf (s : PState K V) (k : K) : Option (Leaf K V) :=
  match s.cache with
  | none => none
  | some id =>
    match findLeafById (Tree.leaves s.height s.root) id with
    | none => none
    | some l =>
      match l.keys.getLast? with
      | none => none
      | some lastk => if ord k > ord lastk ∧ ¬ isFull s.cap l.keys.length then some l else none

/-- `_insert_sorted_optimized` -/
def insertSorted (s : PState K V) (k : K) (v : V) : Option (PState K V) :=
  match fastLeaf s k with
  | some l => some { s with root := mapLeaf l.id (appendKV k v) s.height s.root }
  | none =>
    match setitem s k v with
    | none => none
    | some s' =>
      match lastOfChain s' with
      | .ok c => some { s' with cache := c }
      | _ => none

/-- `from_sorted_items(items, capacity)`; outer `none` = InvalidCapacityError, inner `none` = another exception -/
def fromSorted (cap : Nat) (its : List (K × V)) : Option (Option (PState K V)) :=
  (new cap : Option (PState K V)).map fun s => its.foldl (fun acc kv => acc.bind fun s => insertSorted s kv.1 kv.2) (some s)

end BPT.Py
