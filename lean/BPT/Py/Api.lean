import BPT.Py.Model
/-
  The mapping API of the pure-Python BPlusTreeMap as compositions of the model's
  primitives (python/bplustree/bplus_tree.py: get, __getitem__, __contains__,
  __len__, __bool__, pop, popitem, setdefault, update, copy), one operation type
  and one step function for call histories.  Import-free apart from the model.

  `none` results = the real code raises something other than KeyError.
-/
namespace BPT.Py
open BPT

variable {K V : Type} [Keyed K]

/-- `get(key, default)`.  `isNone` tells which values are Python's `None`
    (only used by the legacy, pre-D6 behaviour). -/
def get (cfg : Cfg) (isNone : V → Bool) (s : PState K V) (k : K) (d : V) : Option V :=
  (findRec s.height s.root k).map fun r =>
    match r with
    | none => d
    | some (_, v) => if cfg.getChecksPresence then v else (if isNone v then d else v)

/-- `__getitem__`: `some none` = KeyError -/
def getitem (s : PState K V) (k : K) : Option (Option V) :=
  (findRec s.height s.root k).map fun r => r.map (·.2)

/-- `__contains__` -/
def contains (s : PState K V) (k : K) : Option Bool :=
  (findRec s.height s.root k).map fun r => r.isSome

/-- `pop(key[, default])`: result `none` = KeyError -/
def pop (cfg : Cfg) (s : PState K V) (k : K) (d : Option V) : Option (PState K V × Option V) :=
  match getitem s k with
  | none => none
  | some none => some (s, d)
  | some (some v) =>
    match delitem cfg s k with
    | none => none
    | some (s', true) => some (s', some v)
    | some (s', false) => some (s', d)          -- `del` raised KeyError inside the `try`

/-- first entry of the first leaf of the chain -/
def firstEntry (s : PState K V) : Option (Option (K × V)) :=
  match findLeafById (Tree.leaves s.height s.root) s.head with
  | none => none
  | some l =>
    match l.keys, l.vals with
    | [], _ => some none
    | k :: _, v :: _ => some (some (k, v))
    | _ :: _, [] => none

/-- `popitem()`: result `none` = KeyError -/
def popitem (cfg : Cfg) (s : PState K V) : Res (PState K V × Option (K × V)) :=
  (len s).bind fun n =>
    if n = 0 then .ok (s, none)
    else match firstEntry s with
      | none => .panic
      | some none => .ok (s, none)
      | some (some (k, v)) =>
        match delitem cfg s k with
        | none => .panic
        | some (s', true) => .ok (s', some (k, v))
        | some (s', false) => .ok (s', none)

/-- `setdefault(key, default)` -/
def setdefault (s : PState K V) (k : K) (d : V) : Option (PState K V × V) :=
  match getitem s k with
  | none => none
  | some (some v) => some (s, v)
  | some none => (setitem s k d).map fun s' => (s', d)

/-- `update(pairs)`: assignments in order -/
def update (s : PState K V) (its : List (K × V)) : Option (PState K V) :=
  its.foldl (fun acc kv => acc.bind fun s => setitem s kv.1 kv.2) (some s)

/-- `copy()`: a new map of the same capacity filled from `items()` -/
def copy (s : PState K V) : Res (PState K V) :=
  (items s none none).bind fun its =>
    match (new s.cap : Option (PState K V)) with
    | none => .panic
    | some s0 => Res.ofOption (update s0 its)

/-! ## call histories -/

inductive Op (K V : Type) where
  | set (k : K) (v : V)
  | del (k : K)
  | get (k : K) (d : V)
  | getitem (k : K)
  | contains (k : K)
  | len
  | bool
  | pop (k : K) (d : Option V)
  | popitem
  | setdefault (k : K) (d : V)
  | update (its : List (K × V))
  | copy
  | clear
  | items (a b : Option K)

inductive Out (K V : Type) where
  | unit
  | keyError
  | val (v : V)
  | bool (b : Bool)
  | nat (n : Nat)
  | item (k : K) (v : V)
  | list (l : List (K × V))

/-- one call on the model; `.panic`/`.diverge` = the real code raises something other than KeyError / loops -/
def step (cfg : Cfg) (isNone : V → Bool) (s : PState K V) : Op K V → Res (PState K V × Out K V)
  | .set k v => (Res.ofOption (setitem s k v)).map fun s' => (s', .unit)
  | .del k => (Res.ofOption (delitem cfg s k)).map fun r => (r.1, if r.2 then .unit else .keyError)
  | .get k d => (Res.ofOption (get cfg isNone s k d)).map fun v => (s, .val v)
  | .getitem k => (Res.ofOption (getitem s k)).map fun r => (s, match r with | some v => .val v | none => .keyError)
  | .contains k => (Res.ofOption (contains s k)).map fun b => (s, .bool b)
  | .len => (len s).map fun n => (s, .nat n)
  | .bool => (len s).map fun n => (s, .bool (decide (n > 0)))
  | .pop k d => (Res.ofOption (pop cfg s k d)).map fun r => (r.1, match r.2 with | some v => .val v | none => .keyError)
  | .popitem => (popitem cfg s).map fun r => (r.1, match r.2 with | some (k, v) => .item k v | none => .keyError)
  | .setdefault k d => (Res.ofOption (setdefault s k d)).map fun r => (r.1, .val r.2)
  | .update its => (Res.ofOption (update s its)).map fun s' => (s', .unit)
  | .copy => (copy s).map fun s' => (s', .unit)       -- the history continues on the copy
  | .clear => .ok (clear s, .unit)
  | .items a b => (items s a b).map fun l => (s, .list l)

end BPT.Py
