import BPT.Py.Rebalance
/-
  `_handle_underflow` for a *branch* child (with D8 repaired: an empty branch
  borrows before it merges), and the dispatcher.
-/
namespace BPT.Py
open BPT Tree
open BPT.Rust (links links_succ links_zero ChainL firstOf)
variable {K V : Type} [Keyed K]

theorem psized_children_nkeys (cap h : Nat) (hcap : 4 ≤ cap) (c : Branch K (Tree K V h)) (m : Nat)
    (hs : PSized cap (h+1) (c : Tree K V (h+1)) m) : ∀ x ∈ c.children, 1 ≤ BPT.nkeys h x := by
  intro x hx
  have := (PSized.nkeys cap h x _ (hs.2.2 x hx)).1
  have := minKeys_pos cap hcap
  omega

theorem branchMerge_of_rust (cap : Nat) {α : Type} (a c : Branch K α) (sep : K) (m : Branch K α)
    (h : Rust.branchMergeNodes cap a c sep = some m) : branchMerge a c sep = m := by
  unfold Rust.branchMergeNodes at h
  split at h
  · simpa [branchMerge] using h
  · cases h

theorem branchBorrowRightAt_spec (cap h : Nat) (b : Branch K (Branch K (Tree K V h))) (i : Nat) (lo hi : Option Int)
    (c r : Branch K (Tree K V h))
    (hp : RebPre cap (h+1) (b : Branch K (Tree K V (h+1))) i lo hi) (hc : b.children[i]? = some c) (hr : b.children[i+1]? = some r)
    (hdon : minKeys cap < r.keys.length) :
    ∃ b2, branchBorrowRightAt b i c r = some b2 ∧ RebPost cap (h+1) (b : Branch K (Tree K V (h+1))) b2 lo hi := by
  obtain ⟨hcap, hb, hnk, hidx, hsz, hun⟩ := hp
  obtain ⟨sep, hsep, hoc, hor, hj1, hjk⟩ := Rust.two_children (h+1) b lo hi i c r hb hc hr
  have hclen : c.keys.length + 1 = minKeys cap := hun c hc
  have hmk := minKeys_pos cap hcap
  have hrsz := hsz (i+1) r hr
  simp only [show i + 1 ≠ i by omega, if_false] at hrsz
  have hcsz := hsz i c hc
  simp only [if_true] at hcsz
  have hsepe : sep = b.keys[i] := by rw [List.getElem?_eq_getElem hjk] at hsep; exact (Option.some.inj hsep).symm
  have hsin := Rust.sep_inB b.keys lo hi i hb.1 hb.2.2.1 hjk
  rw [← hsepe] at hsin
  obtain ⟨c', r', mk, he, h1, h2, h3, h4, h5, h6, h7, h8, _⟩ :=
    Rust.branchBorrowRight_spec h c r _ _ sep hoc hor hsin (by omega) (psized_children_nkeys cap h hcap r _ hrsz)
  refine ⟨replace2 b i c' r' mk, ?_, ?_⟩
  · simp [branchBorrowRightAt, hsep, branchBorrowRight_eq, he]
  · apply recut_post cap (h+1) b lo hi i c r c' r' mk hb hc hr h1 h2 h3
    · show 1 ≤ (c' : Branch K (Tree K V h)).keys.length; omega
    · exact h4
    · exact Rust.branchBorrowRight_links h c r c' r' sep mk he
    · refine ⟨by show minKeys cap ≤ (c' : Branch K (Tree K V h)).keys.length; omega,
              by show (c' : Branch K (Tree K V h)).keys.length + 1 ≤ cap; unfold minKeys at *; omega, ?_⟩
      intro x hx
      rcases h8 x hx with hx | hx
      · exact hcsz.2.2 x hx
      · exact hrsz.2.2 x hx
    · refine ⟨by show minKeys cap ≤ (r' : Branch K (Tree K V h)).keys.length; omega,
              by show (r' : Branch K (Tree K V h)).keys.length + 1 ≤ cap; have := hrsz.2.1; omega, ?_⟩
      intro x hx; exact hrsz.2.2 x (h7 x hx)
    · intro n x hx hn1 hn2
      have := hsz n x hx
      simp only [hn1, if_false] at this; exact this

theorem branchBorrowLeftAt_spec (cap h : Nat) (b : Branch K (Branch K (Tree K V h))) (j : Nat) (lo hi : Option Int)
    (a c : Branch K (Tree K V h))
    (hp : RebPre cap (h+1) (b : Branch K (Tree K V (h+1))) (j+1) lo hi) (ha : b.children[j]? = some a) (hc : b.children[j+1]? = some c)
    (hdon : minKeys cap < a.keys.length) :
    ∃ b2, branchBorrowLeftAt b (j+1) a c = some b2 ∧ RebPost cap (h+1) (b : Branch K (Tree K V (h+1))) b2 lo hi := by
  obtain ⟨hcap, hb, hnk, hidx, hsz, hun⟩ := hp
  obtain ⟨sep, hsep, hoa, hoc, hj1, hjk⟩ := Rust.two_children (h+1) b lo hi j a c hb ha hc
  have hclen : c.keys.length + 1 = minKeys cap := hun c hc
  have hmk := minKeys_pos cap hcap
  have hasz := hsz j a ha
  simp only [show j ≠ j + 1 by omega, if_false] at hasz
  have hcsz := hsz (j+1) c hc
  simp only [if_true] at hcsz
  have hsepe : sep = b.keys[j] := by rw [List.getElem?_eq_getElem hjk] at hsep; exact (Option.some.inj hsep).symm
  have hsin := Rust.sep_inB b.keys lo hi j hb.1 hb.2.2.1 hjk
  rw [← hsepe] at hsin
  obtain ⟨a', c', mk, he, h1, h2, h3, h4, h5, h6, h7, h8, _⟩ :=
    Rust.branchBorrowLeft_spec h a c _ _ sep hoa hoc hsin (by omega) (psized_children_nkeys cap h hcap c _ hcsz)
  refine ⟨replace2 b j a' c' mk, ?_, ?_⟩
  · simp [branchBorrowLeftAt, hsep, branchBorrowLeft_eq, he]
  · apply recut_post cap (h+1) b lo hi j a c a' c' mk hb ha hc h1 h2 h3
    · show 1 ≤ (a' : Branch K (Tree K V h)).keys.length; omega
    · exact h4
    · exact Rust.branchBorrowLeft_links h a c a' c' sep mk he
    · refine ⟨by show minKeys cap ≤ (a' : Branch K (Tree K V h)).keys.length; omega,
              by show (a' : Branch K (Tree K V h)).keys.length + 1 ≤ cap; have := hasz.2.1; omega, ?_⟩
      intro x hx; exact hasz.2.2 x (h7 x hx)
    · refine ⟨by show minKeys cap ≤ (c' : Branch K (Tree K V h)).keys.length; omega,
              by show (c' : Branch K (Tree K V h)).keys.length + 1 ≤ cap; unfold minKeys at *; omega, ?_⟩
      intro x hx
      rcases h8 x hx with hx | hx
      · exact hasz.2.2 x hx
      · exact hcsz.2.2 x hx
    · intro n x hx hn1 hn2
      have := hsz n x hx
      simp only [hn2, if_false] at this; exact this

/-- `_merge_with_sibling` for a branch child one key short whose relevant sibling is not a donor -/
theorem mergeBranchSibling_spec (cap h : Nat) (b : Branch K (Branch K (Tree K V h))) (i : Nat) (lo hi : Option Int)
    (c : Branch K (Tree K V h))
    (hp : RebPre cap (h+1) (b : Branch K (Tree K V (h+1))) i lo hi) (hc : b.children[i]? = some c)
    (hnd : ∀ j s, (j + 1 = i ∨ (i = 0 ∧ j = 1)) → b.children[j]? = some s → ¬ minKeys cap < s.keys.length) :
    ∃ b2, mergeBranchSibling cap b i = some b2 ∧ RebPost cap (h+1) (b : Branch K (Tree K V (h+1))) b2 lo hi := by
  have hp' := hp
  obtain ⟨hcap, hb, hnk, hidx, hsz, hun⟩ := hp
  have hlen : b.children.length = b.keys.length + 1 := hb.2.1
  have hmk := minKeys_pos cap hcap
  have h2mk : 2 * minKeys cap + 1 ≤ cap := by unfold minKeys; omega
  have hclen : c.keys.length + 1 = minKeys cap := hun c hc
  have hcsz := hsz i c hc
  simp only [if_true] at hcsz
  unfold mergeBranchSibling
  have hg : ¬ (b.keys.length + 1 ≠ b.children.length) := by omega
  simp only [hg, if_false, hc]
  by_cases hi0 : i > 0
  · obtain ⟨j, rfl⟩ : ∃ j, i = j + 1 := ⟨i - 1, by omega⟩
    have haj : b.children[j]? = some b.children[j] := List.getElem?_eq_getElem (by omega)
    generalize b.children[j] = a at haj
    obtain ⟨sep, hsep, hoa, hoc, hj1, hjk⟩ := Rust.two_children (h+1) b lo hi j a c hb haj hc
    have hasz := hsz j a haj
    simp only [show j ≠ j + 1 by omega, if_false] at hasz
    have hand := hnd j a (Or.inl rfl) haj
    have hacl : a.children.length = a.keys.length + 1 := hoa.2.1
    have hccl : c.children.length = c.keys.length + 1 := hoc.2.1
    have hfit : a.keys.length + c.keys.length + 1 ≤ cap ∧ a.children.length + c.children.length ≤ cap + 1 := by omega
    simp only [hi0, if_true, Nat.add_sub_cancel, haj, hsep, hfit, and_self]
    have hsepe : sep = b.keys[j] := by rw [List.getElem?_eq_getElem hjk] at hsep; exact (Option.some.inj hsep).symm
    have hsin := Rust.sep_inB b.keys lo hi j hb.1 hb.2.2.1 hjk
    rw [← hsepe] at hsin
    obtain ⟨m, he, h1, h2, h3, h4, _⟩ := Rust.branchMergeNodes_spec cap h a c _ _ sep hoa hoc hsin
      (psized_children_nkeys cap h hcap c _ hcsz) (by omega)
    have hm := branchMerge_of_rust cap a c sep m he
    refine ⟨_, rfl, ?_⟩
    rw [hm]
    apply merge_post cap (h+1) b lo hi j a c m hb haj hc h1 h2
    · exact .same (Rust.branchMergeNodes_links cap h a c m sep he)
    · exact fun _ => Rust.branchMergeNodes_links cap h a c m sep he
    · refine ⟨by show minKeys cap ≤ (m : Branch K (Tree K V h)).keys.length; have := hasz.1; omega,
              by show (m : Branch K (Tree K V h)).keys.length + 1 ≤ cap; omega, ?_⟩
      intro x hx
      rcases h4 x hx with hx | hx
      · exact hasz.2.2 x hx
      · exact hcsz.2.2 x hx
    · intro n x hx hn1 hn2
      have := hsz n x hx
      simp only [hn2, if_false] at this; exact this
  · have hi0' : i = 0 := by omega
    subst hi0'
    have hr : 0 + 1 < b.children.length := by omega
    have hrj : b.children[0+1]? = some b.children[0+1] := List.getElem?_eq_getElem hr
    generalize b.children[0+1] = r at hrj
    obtain ⟨sep, hsep, hoc, hor, hj1, hjk⟩ := Rust.two_children (h+1) b lo hi 0 c r hb hc hrj
    have hrsz := hsz (0+1) r hrj
    simp only [show 0 + 1 ≠ 0 by omega, if_false] at hrsz
    have hrnd := hnd 1 r (Or.inr ⟨rfl, rfl⟩) hrj
    have hrcl : r.children.length = r.keys.length + 1 := hor.2.1
    have hccl : c.children.length = c.keys.length + 1 := hoc.2.1
    have hfit : c.keys.length + r.keys.length + 1 ≤ cap ∧ c.children.length + r.children.length ≤ cap + 1 := by omega
    simp only [Nat.lt_irrefl, if_false, hr, if_true, hrj, hsep, hfit, and_self]
    have hsepe : sep = b.keys[0] := by rw [List.getElem?_eq_getElem hjk] at hsep; exact (Option.some.inj hsep).symm
    have hsin := Rust.sep_inB b.keys lo hi 0 hb.1 hb.2.2.1 hjk
    rw [← hsepe] at hsin
    obtain ⟨m, he, h1, h2, h3, h4, _⟩ := Rust.branchMergeNodes_spec cap h c r _ _ sep hoc hor hsin
      (psized_children_nkeys cap h hcap r _ hrsz) (by omega)
    have hm := branchMerge_of_rust cap c r sep m he
    refine ⟨_, rfl, ?_⟩
    rw [hm]
    apply merge_post cap (h+1) b lo hi 0 c r m hb hc hrj h1 h2
    · exact .same (Rust.branchMergeNodes_links cap h c r m sep he)
    · exact fun _ => Rust.branchMergeNodes_links cap h c r m sep he
    · refine ⟨by show minKeys cap ≤ (m : Branch K (Tree K V h)).keys.length; have := hrsz.1; omega,
              by show (m : Branch K (Tree K V h)).keys.length + 1 ≤ cap; omega, ?_⟩
      intro x hx
      rcases h4 x hx with hx | hx
      · exact hcsz.2.2 x hx
      · exact hrsz.2.2 x hx
    · intro n x hx hn1 hn2
      have := hsz n x hx
      simp only [hn1, if_false] at this; exact this

theorem handleBranch_spec (cap h : Nat) (b : Branch K (Branch K (Tree K V h))) (i : Nat) (lo hi : Option Int)
    (hp : RebPre cap (h+1) (b : Branch K (Tree K V (h+1))) i lo hi) :
    ∃ b2, handleBranch Cfg.repaired cap b i = some b2 ∧ RebPost cap (h+1) (b : Branch K (Tree K V (h+1))) b2 lo hi := by
  have hp' := hp
  obtain ⟨hcap, hb, hnk, hidx, hsz, hun⟩ := hp
  have hlen : b.children.length = b.keys.length + 1 := hb.2.1
  have hci : b.children[i]? = some b.children[i] := List.getElem?_eq_getElem hidx
  generalize b.children[i] = c at hci
  have hclen : c.keys.length + 1 = minKeys cap := hun c hci
  have hmk := minKeys_pos cap hcap
  unfold handleBranch
  have hund : isUnderfull cap c.keys.length = true := by simp [isUnderfull]; omega
  have hcfg : ¬ (c.keys.length = 0 ∧ ¬ Cfg.repaired.emptyShortcutLeafOnly = true) := by simp [Cfg.repaired]
  simp only [hci, hund, not_true_eq_false, if_false, hcfg]
  have leftPart : (∀ r, b.children[i+1]? = some r → ¬ minKeys cap < r.keys.length) →
      ∃ b2, handleBranchLeft cap b i c = some b2 ∧ RebPost cap (h+1) (b : Branch K (Tree K V (h+1))) b2 lo hi := by
    intro hrnd
    unfold handleBranchLeft
    cases hl : sibLeft b i with
    | none =>
      have hi0 := sibLeft_none b i hidx hl
      subst hi0
      simp only []
      apply mergeBranchSibling_spec cap h b 0 lo hi c hp' hci
      intro j s hj hs
      rcases hj with hj | ⟨_, hj⟩
      · omega
      · subst hj; exact hrnd s hs
    | some a =>
      obtain ⟨j, rfl, haj⟩ := sibLeft_some b i a hl
      simp only []
      by_cases hdon : minKeys cap < a.keys.length
      · have : canDonate cap a.keys.length = true := by simp [canDonate, hdon]
        simp only [this, if_true]
        exact branchBorrowLeftAt_spec cap h b j lo hi a c hp' haj hci hdon
      · have : canDonate cap a.keys.length = false := by simp [canDonate]; omega
        simp only [this, Bool.false_eq_true, if_false]
        apply mergeBranchSibling_spec cap h b (j+1) lo hi c hp' hci
        intro j' s hj hs
        rcases hj with hj | ⟨hj, _⟩
        · have : j' = j := by omega
          subst this; rw [haj] at hs; cases hs; exact hdon
        · omega
  cases hr : sibRight b i with
  | none =>
    have := sibRight_none b i hr
    simp only []
    apply leftPart
    intro r hr'
    have := lt_of_getElem?_eq_some hr'
    omega
  | some r =>
    have hrj := sibRight_some b i r hr
    simp only []
    by_cases hdr : minKeys cap < r.keys.length
    · have : canDonate cap r.keys.length = true := by simp [canDonate, hdr]
      simp only [this, if_true]
      exact branchBorrowRightAt_spec cap h b i lo hi c r hp' hci hrj hdr
    · have : canDonate cap r.keys.length = false := by simp [canDonate]; omega
      simp only [this, Bool.false_eq_true, if_false]
      apply leftPart
      intro r' hr'
      rw [hrj] at hr'; cases hr'; exact hdr

/-- `_handle_underflow` -/
theorem handleUnderflow_spec (cap : Nat) : ∀ (h : Nat) (b : Branch K (Tree K V h)) (i : Nat) (lo hi : Option Int),
    RebPre cap h b i lo hi → ∃ b2, handleUnderflow Cfg.repaired cap h b i = some b2 ∧ RebPost cap h b b2 lo hi
  | 0, b, i, lo, hi, hp => handleLeaf_spec cap b i lo hi hp
  | h+1, b, i, lo, hi, hp => handleBranch_spec cap h b i lo hi hp

end BPT.Py
