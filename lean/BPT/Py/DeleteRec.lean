import BPT.Py.Rebalance2
/-
  `_delete_recursive` of the pure-Python map (with the repairs of D6b/D8): for every
  height, capacity ≥ 4 and key it never raises, reports whether the key was
  present, the entry list becomes `SMap.erase`, order, occupancy and the leaf
  chain are kept (the node itself may end one key short).
-/
namespace BPT.Py
open BPT Tree
open BPT.Rust (links links_succ links_zero ChainL firstOf)
variable {K V : Type} [Keyed K]

structure DelPost (cap h : Nat) (t : Tree K V h) (lo hi : Option Int) (k : K) (m : Nat) (r : Tree K V h × Bool) : Prop where
  found : r.2 = (SMap.lookup (toList h t) k).isSome
  list : toList h r.1 = SMap.erase (toList h t) k
  ord : Ordered h r.1 lo hi
  same : r.2 = false → r.1 = t
  sz : PSized cap h r.1 (m - 1)
  nk : BPT.nkeys h t ≤ BPT.nkeys h r.1 + 1
  lk : PLinkRem (links h t) (links h r.1)

theorem psized_raise (cap : Nat) : ∀ (h : Nat) (t : Tree K V h) (m m' : Nat), PSized cap h t m → m' ≤ BPT.nkeys h t → PSized cap h t m'
  | 0, _, _, _, hs, hm => ⟨hm, hs.2⟩
  | _+1, _, _, _, hs, hm => ⟨hm, hs.2.1, hs.2.2⟩

theorem deleteLeaf_spec (cap : Nat) (l : Leaf K V) (lo hi : Option Int) (k : K) (m : Nat)
    (ho : Ordered 0 (l : Tree K V 0) lo hi) (hsz : PSized cap 0 (l : Tree K V 0) m) :
    ∃ r, deleteRec Cfg.repaired cap 0 (l : Tree K V 0) k = some r ∧ DelPost cap 0 (l : Tree K V 0) lo hi k m r := by
  obtain ⟨hs, hl, hb⟩ := ho
  have hlook := SMap.lookup_zip l.keys l.vals k hs hl
  have herase := SMap.erase_zip l.keys l.vals k hs hl
  have hsz' : m ≤ l.keys.length ∧ l.keys.length ≤ cap := hsz
  unfold deleteRec
  simp only []
  cases hk' : l.keys[lowerBound l.keys k]? with
  | none =>
    rw [hk'] at hlook herase
    simp only [Option.map_none] at herase
    simp only [Bool.false_eq_true, if_false]
    refine ⟨_, rfl, ?_, ?_, ⟨hs, hl, hb⟩, fun _ => rfl, ?_, Nat.le_succ _, .same rfl⟩
    · rw [toList_zero]; simp only [Leaf.entries]; rw [hlook]; rfl
    · rw [toList_zero]; simp only [Leaf.entries]; rw [herase]; simp
    · exact ⟨by show m - 1 ≤ l.keys.length; omega, hsz'.2⟩
  | some k' =>
    have hlt : lowerBound l.keys k < l.keys.length := by
      rcases Nat.lt_or_ge (lowerBound l.keys k) l.keys.length with h | h
      · exact h
      · simp [List.getElem?_eq_none h] at hk'
    have hltv : lowerBound l.keys k < l.vals.length := by omega
    rw [hk'] at hlook herase
    rw [List.getElem?_eq_getElem hltv] at hlook
    by_cases heq : ord k' = ord k
    · simp only [heq, decide_true, if_true, hltv]
      simp only [Option.map_some, heq, if_true] at herase hlook
      have e : (removeAt l.keys (lowerBound l.keys k)).length = l.keys.length - 1 := length_removeAt _ _ hlt
      refine ⟨_, rfl, ?_, ?_, ?_, ?_, ?_, ?_, .same rfl⟩
      · rw [toList_zero]; simp only [Leaf.entries]; rw [hlook]; rfl
      · rw [toList_zero, toList_zero]; simp only [Leaf.entries]; rw [herase]
      · refine ⟨ksorted_removeAt _ _ hs, ?_, ?_⟩
        · show (removeAt l.keys _).length = (removeAt l.vals _).length
          rw [length_removeAt _ _ hlt, length_removeAt _ _ hltv, hl]
        · intro x hx; exact hb x (mem_of_mem_removeAt _ _ _ hx)
      · intro h; simp at h
      · exact ⟨by show m - 1 ≤ (removeAt l.keys _).length; omega, by show (removeAt l.keys _).length ≤ cap; omega⟩
      · show l.keys.length ≤ (removeAt l.keys _).length + 1; omega
    · simp only [heq, decide_false, Bool.false_eq_true, if_false]
      have hne : ¬ (some (ord k') = some (ord k)) := by simpa using heq
      simp only [Option.map_some, hne, if_false, heq] at herase hlook
      refine ⟨_, rfl, ?_, ?_, ⟨hs, hl, hb⟩, fun _ => rfl, ?_, Nat.le_succ _, .same rfl⟩
      · rw [toList_zero]; simp only [Leaf.entries]; rw [hlook]; rfl
      · rw [toList_zero]; simp only [Leaf.entries]; rw [herase]
      · exact ⟨by show m - 1 ≤ l.keys.length; omega, hsz'.2⟩

theorem deleteRec_spec (cap : Nat) (hcap : 4 ≤ cap) :
    ∀ (h : Nat) (t : Tree K V h) (lo hi : Option Int) (k : K) (m : Nat),
      Ordered h t lo hi → PSized cap h t m → (h = 0 ∨ 1 ≤ m) →
      ∃ r, deleteRec Cfg.repaired cap h t k = some r ∧ DelPost cap h t lo hi k m r := by
  intro h
  induction h with
  | zero =>
    intro t lo hi k m ho hsz _
    exact deleteLeaf_spec cap (t : Leaf K V) lo hi k m ho hsz
  | succ h ih =>
    intro t lo hi k m ho hsz hm
    have ho' := ho
    obtain ⟨hs, hlen, hkb, hc⟩ := ho
    obtain ⟨hz1, hz2, hz3⟩ := hsz
    have hm1 : 1 ≤ m := by rcases hm with h0 | h0; omega; exact h0
    have hmk := minKeys_pos cap hcap
    have hle := Rust.upperBound_le (Branch.keys t) k
    have hic : upperBound (Branch.keys t) k < (Branch.children t).length := by omega
    have hci : (Branch.children t)[upperBound (Branch.keys t) k]? = some (Branch.children t)[upperBound (Branch.keys t) k] :=
      List.getElem?_eq_getElem hic
    generalize hcdef : (Branch.children t)[upperBound (Branch.keys t) k] = c at hci
    have hcm : c ∈ Branch.children t := List.mem_of_getElem? hci
    have hco := hc _ c hci
    obtain ⟨r, he, hr⟩ := ih c _ _ k (minKeys cap) hco (hz3 c hcm) (Or.inr hmk)
    obtain ⟨c', fnd⟩ := r
    -- decomposition of the entry list / links around the routed child
    have hsplit := flatMap_split (toList h) (Branch.children t) _ c hci
    have hlsplit := flatMap_split (links h) (Branch.children t) _ c hci
    have hA := Rust.left_lt h t lo hi ho' k
    have hB := Rust.right_gt h t lo hi ho' k
    have hlook : SMap.lookup (toList (h+1) t) k = SMap.lookup (toList h c) k := by
      rw [toList_succ, hsplit, List.append_assoc, SMap.lookup_append_left _ _ _ hA, SMap.lookup_append_right _ _ _ hB]
    have herase : SMap.erase (toList (h+1) t) k =
        ((Branch.children t).take (upperBound (Branch.keys t) k)).flatMap (toList h) ++ SMap.erase (toList h c) k ++
          ((Branch.children t).drop (upperBound (Branch.keys t) k + 1)).flatMap (toList h) := by
      rw [toList_succ, hsplit, List.append_assoc, SMap.erase_append_left _ _ _ hA, SMap.erase_append_right _ _ _ hB, List.append_assoc]
    have hguard : ¬ ((Branch.children t).length = 0 ∨ (Branch.keys t).length + 1 ≠ (Branch.children t).length) := by omega
    unfold deleteRec
    simp only [hguard, if_false, hci, he]
    -- the branch with the routed child replaced
    have hb1o : Ordered (h+1) ({ (t : Branch K (Tree K V h)) with children := setAt (Branch.children t) (upperBound (Branch.keys t) k) c' } : Branch K (Tree K V h)) lo hi :=
      ordered_replace1 h t lo hi _ c' ho' hic hr.ord
    have hb1l : toList (h+1) ({ (t : Branch K (Tree K V h)) with children := setAt (Branch.children t) (upperBound (Branch.keys t) k) c' } : Branch K (Tree K V h)) =
        SMap.erase (toList (h+1) t) k := by
      rw [toList_succ, herase]
      show (setAt (Branch.children t) _ c').flatMap (toList h) = _
      rw [flatMap_setAt, hr.list]
    have hb1k : PLinkRem (links (h+1) t) (links (h+1) ({ (t : Branch K (Tree K V h)) with children := setAt (Branch.children t) (upperBound (Branch.keys t) k) c' } : Branch K (Tree K V h))) := by
      rw [links_succ, links_succ]
      show PLinkRem _ ((setAt (Branch.children t) _ c').flatMap (links h))
      rw [flatMap_setAt, hlsplit]
      exact hr.lk.ctx _ _
    cases fnd with
    | false =>
      have hsame : c' = c := hr.same rfl
      simp only []
      have hb1eq : ({ (t : Branch K (Tree K V h)) with children := setAt (Branch.children t) (upperBound (Branch.keys t) k) c' } : Branch K (Tree K V h)) = t := by
        rw [hsame, setAt_eq_self _ _ _ hci]
      refine ⟨_, rfl, ?_⟩
      refine ⟨?_, hb1l, hb1o, fun _ => hb1eq, ?_, ?_, hb1k⟩
      · show false = _
        rw [hlook]; exact hr.found
      · rw [hb1eq]; exact ⟨by show m - 1 ≤ (Branch.keys t).length; omega, hz2, hz3⟩
      · rw [hb1eq]; exact Nat.le_succ _
    | true =>
      have hfound : true = (SMap.lookup (toList (h+1) t) k).isSome := by rw [hlook]; exact hr.found
      simp only []
      rw [nkeys_eq]
      by_cases hu : BPT.nkeys h c' = 0 ∨ isUnderfull cap (BPT.nkeys h c') = true
      · simp only [hu, if_true]
        have hnk : BPT.nkeys h c' + 1 = minKeys cap := by
          have h2 := (PSized.nkeys cap h c' _ hr.sz).1
          rcases hu with hu | hu
          · omega
          · have : BPT.nkeys h c' < minKeys cap := by simpa [isUnderfull] using hu
            omega
        have hpre : RebPre cap h ({ (t : Branch K (Tree K V h)) with children := setAt (Branch.children t) (upperBound (Branch.keys t) k) c' } : Branch K (Tree K V h))
            (upperBound (Branch.keys t) k) lo hi := by
          refine ⟨hcap, hb1o, by show 1 ≤ (Branch.keys t).length; omega, ?_, ?_, ?_⟩
          · show _ < (setAt (Branch.children t) _ c').length
            rw [length_setAt _ _ _ hic]; exact hic
          · intro j x hx
            have hx' : (setAt (Branch.children t) (upperBound (Branch.keys t) k) c')[j]? = some x := hx
            rw [getElem?_setAt _ _ _ _ hic] at hx'
            by_cases hj : j = upperBound (Branch.keys t) k
            · simp only [hj, if_true] at hx' ⊢
              cases hx'; exact hr.sz
            · simp only [hj, if_false] at hx' ⊢
              exact hz3 x (List.mem_of_getElem? hx')
          · intro x hx
            have hx' : (setAt (Branch.children t) (upperBound (Branch.keys t) k) c')[upperBound (Branch.keys t) k]? = some x := hx
            rw [getElem?_setAt _ _ _ _ hic] at hx'
            simp only [if_true] at hx'
            cases hx'; exact hnk
        obtain ⟨b2, hreb, hpost⟩ := handleUnderflow_spec cap h _ _ lo hi hpre
        rw [hreb]
        refine ⟨_, rfl, ?_⟩
        have hk1 : (Branch.keys t).length ≤ b2.keys.length + 1 := hpost.k1
        have hk2 : b2.keys.length ≤ (Branch.keys t).length := hpost.k2
        refine ⟨hfound, by show toList (h+1) b2 = _; rw [hpost.list]; exact hb1l, hpost.ord, by intro hn; simp at hn, ?_, hk1, ?_⟩
        · exact ⟨by show m - 1 ≤ b2.keys.length; omega, by show b2.keys.length + 1 ≤ cap; omega, hpost.sz⟩
        · -- links: first the child's change, then the rebalance's
          cases hr.lk with
          | same h1 =>
            have e : links (h+1) ({ (t : Branch K (Tree K V h)) with children := setAt (Branch.children t) (upperBound (Branch.keys t) k) c' } : Branch K (Tree K V h)) = links (h+1) t := by
              rw [links_succ, links_succ]
              show (setAt (Branch.children t) _ c').flatMap (links h) = _
              rw [flatMap_setAt, hlsplit, h1]
            have := hpost.lk
            rw [e] at this
            exact this
          | merge A B ia na ib nb h1 h2 =>
            -- a leaf merge below a child that then stays one short cannot happen at height 0,
            -- and above it the rebalance keeps the links
            cases h with
            | zero =>
              exfalso
              have e1 : links 0 c = [((c : Leaf K V).id, (c : Leaf K V).next)] := rfl
              rw [e1] at h1
              have := congrArg List.length h1
              simp at this
              omega
            | succ h' =>
              have hsamelinks := hpost.lk1 (Nat.succ_pos h')
              rw [hsamelinks]
              exact hb1k
      · simp only [hu, if_false]
        have hnk : minKeys cap ≤ BPT.nkeys h c' := by
          have : ¬ (BPT.nkeys h c' < minKeys cap) := by
            intro hlt; exact hu (Or.inr (by simp [isUnderfull, hlt]))
          omega
        refine ⟨_, rfl, ?_⟩
        refine ⟨hfound, hb1l, hb1o, by intro hn; simp at hn, ?_, by show (Branch.keys t).length ≤ (Branch.keys t).length + 1; omega, hb1k⟩
        refine ⟨by show m - 1 ≤ (Branch.keys t).length; omega, hz2, ?_⟩
        intro x hx
        rcases mem_setAt' _ _ _ _ hx with rfl | hx
        · exact psized_raise cap h _ _ _ hr.sz hnk
        · exact hz3 x hx

end BPT.Py
